#!/usr/bin/env python3
"""c02fields: regenerates coq/gen/C02Fields.v from goflow's source (property C02).

Extracts, for the three persisted object kinds (session, run, step):
  * the fields of the in-memory Go struct              (flows/engine/session.go `session`, flows/runs/run.go `run`,
                                                         flows/runs/step.go `step`)
  * the fields of its JSON envelope with their json keys (`sessionEnvelope`, `runEnvelope`, `stepEnvelope`)
  * which envelope fields the marshalling function assigns (composite-literal keys and `e.X` in MarshalJSON)
  * which envelope fields the reading function uses        (`e.X` in readSession / ReadRun / step.UnmarshalJSON)
coq/proofs/PersistProofs.v classifies every struct field (persisted under which key / rebuilt on read / per-call /
exempt / supplied by the host) and props/C02.v proves by computation that the classification covers exactly these
tables.  A new struct field, a new or renamed envelope key, a key that is no longer written or no longer read back
re-opens that obligation.  Fails loudly (exit 2) when a struct or function is not found in the expected shape."""
import argparse, os, re, sys


def die(msg):
    print("c02fields: " + msg, file=sys.stderr)
    sys.exit(2)


def strip_comments(src):
    src = re.sub(r"/\*.*?\*/", "", src, flags=re.S)
    return re.sub(r"//[^\n]*", "", src)


def block_after(src, start_regex, what):
    """text between the braces that follow the first match of start_regex"""
    m = re.search(start_regex, src)
    if not m:
        die("cannot find " + what)
    i = src.index("{", m.end() - 1)
    depth, j = 0, i
    while j < len(src):
        if src[j] == "{":
            depth += 1
        elif src[j] == "}":
            depth -= 1
            if depth == 0:
                return src[i + 1:j]
        j += 1
    die("unbalanced braces after " + what)


def struct_fields(src, name):
    body = block_after(src, r"\btype\s+%s\s+struct\s*\{" % re.escape(name), "struct " + name)
    fields = []
    for line in body.split("\n"):
        line = line.strip()
        if not line:
            continue
        m = re.match(r"^([A-Za-z_][A-Za-z0-9_]*(?:\s*,\s*[A-Za-z_][A-Za-z0-9_]*)*)\s+(\S.*)$", line)
        if m:
            tag = re.search(r'json:"([^"]*)"', line)
            for f in re.split(r"\s*,\s*", m.group(1)):
                fields.append((f, tag.group(1).split(",")[0] if tag else None))
        else:
            # embedded field
            m = re.match(r"^\*?([A-Za-z_][A-Za-z0-9_.]*)\s*(`.*`)?$", line)
            if not m:
                die("cannot parse field line of %s: %r" % (name, line))
            fields.append((m.group(1).split(".")[-1], None))
    if not fields:
        die("struct %s has no fields" % name)
    return fields


def func_body(src, regex, what):
    return block_after(src, regex, what)


def envelope_uses(body, env_type, fields):
    """envelope fields assigned/used in a function body: `<v>.X` for every variable v declared with the envelope type, or key
    `X:` inside a `&envType{...}` literal"""
    names = set(re.findall(r"\b(\w+)\s*:=\s*&?%s\s*\{" % re.escape(env_type), body)) | \
        set(re.findall(r"\bvar\s+(\w+)\s+%s\b" % re.escape(env_type), body))
    if not names and not re.search(r"&?%s\s*\{" % re.escape(env_type), body):
        die("no value of type %s in the function body" % env_type)
    used = set()
    for v in names:
        used |= set(re.findall(r"\b%s\.([A-Z][A-Za-z0-9_]*)\b" % re.escape(v), body))
    for m in re.finditer(r"&?%s\s*\{" % re.escape(env_type), body):
        i = body.index("{", m.start())
        depth, j = 0, i
        while j < len(body):
            if body[j] == "{":
                depth += 1
            elif body[j] == "}":
                depth -= 1
                if depth == 0:
                    break
            j += 1
        used |= set(re.findall(r"\b([A-Z][A-Za-z0-9_]*)\s*:", body[i:j]))
    return [f for f, _ in fields if f in used]


def coq_str(s):
    return '"' + s.replace('"', '""') + '"'


def coq_list(xs):
    return "[" + "; ".join(xs) + "]"


def main():
    ap = argparse.ArgumentParser()
    ap.add_argument("--repo", required=True)
    ap.add_argument("--out", required=True)
    a = ap.parse_args()

    def read(rel):
        p = os.path.join(a.repo, rel)
        if not os.path.exists(p):
            die("missing " + rel)
        return strip_comments(open(p).read())

    sess = read("flows/engine/session.go")
    run = read("flows/runs/run.go")
    step = read("flows/runs/step.go")

    kinds = []
    # (name, struct src/name, envelope name, marshal body, read body)
    kinds.append(("session", struct_fields(sess, "session"), struct_fields(sess, "sessionEnvelope"), "sessionEnvelope",
                  func_body(sess, r"func\s+\(s\s+\*session\)\s+MarshalJSON\s*\(\)[^{]*\{", "session.MarshalJSON"),
                  func_body(sess, r"func\s+readSession\s*\([^)]*\)[^{]*\{", "readSession")))
    kinds.append(("run", struct_fields(run, "run"), struct_fields(run, "runEnvelope"), "runEnvelope",
                  func_body(run, r"func\s+\(r\s+\*run\)\s+MarshalJSON\s*\(\)[^{]*\{", "run.MarshalJSON"),
                  func_body(run, r"func\s+ReadRun\s*\([^)]*\)[^{]*\{", "ReadRun")))
    kinds.append(("step", struct_fields(step, "step"), struct_fields(step, "stepEnvelope"), "stepEnvelope",
                  func_body(step, r"func\s+\(s\s+\*step\)\s+MarshalJSON\s*\(\)[^{]*\{", "step.MarshalJSON"),
                  func_body(step, r"func\s+\(s\s+\*step\)\s+UnmarshalJSON\s*\([^)]*\)[^{]*\{", "step.UnmarshalJSON")))

    out = ["(* GENERATED by translators/c02fields.py from flows/engine/session.go, flows/runs/run.go, flows/runs/step.go — do not edit. *)",
           "From Coq Require Import List String.", "Import ListNotations.", "Open Scope string_scope.", ""]
    for name, fields, env, env_type, mbody, rbody in kinds:
        for f, key in env:
            if key is None:
                die("%s field %s has no json tag" % (env_type, f))
        written = envelope_uses(mbody, env_type, env)
        readb = envelope_uses(rbody, env_type, env)
        out.append("(* Go struct `%s`: field names in declaration order *)" % name)
        out.append("Definition go_%s_fields : list string := %s." % (name, coq_list(coq_str(f) for f, _ in fields)))
        out.append("(* `%s`: (Go field, json key) *)" % env_type)
        out.append("Definition go_%s_envelope : list (string * string) := %s." %
                   (name, coq_list("(%s, %s)" % (coq_str(f), coq_str(k)) for f, k in env)))
        out.append("(* envelope fields the marshalling function assigns / the reading function uses *)")
        out.append("Definition go_%s_written : list string := %s." % (name, coq_list(coq_str(f) for f in written)))
        out.append("Definition go_%s_read : list string := %s." % (name, coq_list(coq_str(f) for f in readb)))
        out.append("")
    text = "\n".join(out)
    os.makedirs(a.out, exist_ok=True)
    path = os.path.join(a.out, "C02Fields.v")
    try:
        if open(path).read() == text:
            return
    except FileNotFoundError:
        pass
    with open(path + ".tmp", "w") as f:
        f.write(text)
    os.replace(path + ".tmp", path)


if __name__ == "__main__":
    main()
