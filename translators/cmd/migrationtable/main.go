// migrationtable — translator for property C16 (definition migration): writes coq/gen/MigrationTable.v.
//
// Extracted, as data only (go/parser + go/ast, no type checking needed):
//
//	flows/definition/migrations/13_x.go     func init() { registerMigration(semver.MustParse("13.6.0"), Migrate13_6) ... }
//	                                          -> the registered (version, function name) pairs, in source order
//	                                        Migrate13_3: the version literal passed to GetTemplateCatalog
//	flows/definition/migrations/*.go        every other call of registerMigration outside 13_x.go is an error (unknown shape)
//	flows/definition/flow.go                var CurrentSpecVersion = semver.MustParse("13.6.0")
//	flows/definition/migrations/specdata/templates.json
//	                                        the template catalog of the version Migrate13_3 uses: action type / router
//	                                        type -> list of paths
//
// Fails loudly (exit 2) when the source no longer has this shape: registerMigration called with something other
// than semver.MustParse(<string literal>) and an identifier, a version that is not three plain numbers, no
// registration at all, CurrentSpecVersion not a MustParse literal, catalog missing.
//
// What the functions DO is modelled by hand in coq/model/Migrate.v (keyed by the function names written here) and
// tied by the correspondence run of harness/cmd/c16.
package main

import (
	"bytes"
	"encoding/json"
	"flag"
	"fmt"
	"go/ast"
	"go/parser"
	"go/token"
	"os"
	"path/filepath"
	"reflect"
	"sort"
	"strconv"
	"strings"
)

func fatal(f string, a ...any) {
	fmt.Fprintf(os.Stderr, "migrationtable: "+f+"\n", a...)
	os.Exit(2)
}

func parseFile(path string) *ast.File {
	fset := token.NewFileSet()
	f, err := parser.ParseFile(fset, path, nil, parser.SkipObjectResolution)
	if err != nil {
		fatal("cannot parse %s: %v", path, err)
	}
	return f
}

// semver.MustParse("a.b.c") -> "a.b.c"
func mustParseLiteral(e ast.Expr) (string, bool) {
	call, ok := e.(*ast.CallExpr)
	if !ok || len(call.Args) != 1 {
		return "", false
	}
	sel, ok := call.Fun.(*ast.SelectorExpr)
	if !ok || sel.Sel.Name != "MustParse" {
		return "", false
	}
	if x, ok := sel.X.(*ast.Ident); !ok || x.Name != "semver" {
		return "", false
	}
	lit, ok := call.Args[0].(*ast.BasicLit)
	if !ok || lit.Kind != token.STRING {
		return "", false
	}
	s, err := strconv.Unquote(lit.Value)
	return s, err == nil
}

func coqVersion(v string) string {
	parts := strings.Split(v, ".")
	if len(parts) != 3 {
		fatal("version %q is not of the form a.b.c", v)
	}
	var n [3]uint64
	for i, p := range parts {
		x, err := strconv.ParseUint(p, 10, 32)
		if err != nil {
			fatal("version %q is not of the form a.b.c with plain numbers", v)
		}
		n[i] = x
	}
	return fmt.Sprintf("(%d, %d, %d)%%N", n[0], n[1], n[2])
}

func coqString(s string) string {
	for _, c := range s {
		if c < 0x20 || c > 0x7e {
			fatal("non-ASCII text %q in a table", s)
		}
	}
	return `"` + strings.ReplaceAll(s, `"`, `""`) + `"`
}

type reg struct{ version, fn string }

type readDefault struct {
	typ, member string
	omitempty   bool
}

// readDefaults: in every non-test file under flows/, a composite literal &T{F: v, ...} (or T{...}) assigned to a variable
// that is later, in the same function, handed to a function whose name starts with Unmarshal: each F is a member with a
// default on read.  T's json tag says whether F is left out when it is zero.
func readDefaults(repo string) []readDefault {
	type fieldInfo struct {
		json      string
		omitempty bool
	}
	structs := map[string]map[string]fieldInfo{} // package dir + "." + type -> field -> info
	type lit struct {
		dir, typ string
		fields   []string
	}
	var lits []lit
	root := filepath.Join(repo, "flows")
	filepath.WalkDir(root, func(path string, e os.DirEntry, err error) error {
		if err != nil || e.IsDir() || !strings.HasSuffix(path, ".go") || strings.HasSuffix(path, "_test.go") {
			return nil
		}
		dir := filepath.Dir(path)
		f := parseFile(path)
		for _, decl := range f.Decls {
			switch t := decl.(type) {
			case *ast.GenDecl:
				for _, sp := range t.Specs {
					ts, ok := sp.(*ast.TypeSpec)
					if !ok {
						continue
					}
					st, ok := ts.Type.(*ast.StructType)
					if !ok {
						continue
					}
					m := map[string]fieldInfo{}
					for _, fld := range st.Fields.List {
						if fld.Tag == nil {
							continue
						}
						tag, err := strconv.Unquote(fld.Tag.Value)
						if err != nil {
							continue
						}
						parts := strings.Split(reflect.StructTag(tag).Get("json"), ",")
						info := fieldInfo{json: parts[0]}
						for _, o := range parts[1:] {
							if o == "omitempty" {
								info.omitempty = true
							}
						}
						for _, nm := range fld.Names {
							m[nm.Name] = info
						}
					}
					structs[dir+"."+ts.Name.Name] = m
				}
			case *ast.FuncDecl:
				if t.Body == nil {
					continue
				}
				// variable -> literal
				vars := map[string]lit{}
				ast.Inspect(t.Body, func(n ast.Node) bool {
					as, ok := n.(*ast.AssignStmt)
					if !ok || len(as.Lhs) != 1 || len(as.Rhs) != 1 {
						return true
					}
					id, ok := as.Lhs[0].(*ast.Ident)
					if !ok {
						return true
					}
					rhs := as.Rhs[0]
					if u, ok := rhs.(*ast.UnaryExpr); ok && u.Op == token.AND {
						rhs = u.X
					}
					cl, ok := rhs.(*ast.CompositeLit)
					if !ok {
						return true
					}
					tid, ok := cl.Type.(*ast.Ident)
					if !ok {
						return true
					}
					var fields []string
					for _, el := range cl.Elts {
						if kv, ok := el.(*ast.KeyValueExpr); ok {
							if k, ok := kv.Key.(*ast.Ident); ok {
								fields = append(fields, k.Name)
							}
						}
					}
					if len(fields) > 0 {
						vars[id.Name] = lit{dir, tid.Name, fields}
					}
					return true
				})
				if len(vars) == 0 {
					continue
				}
				ast.Inspect(t.Body, func(n ast.Node) bool {
					call, ok := n.(*ast.CallExpr)
					if !ok {
						return true
					}
					name := ""
					switch fn := call.Fun.(type) {
					case *ast.Ident:
						name = fn.Name
					case *ast.SelectorExpr:
						name = fn.Sel.Name
					}
					if !strings.HasPrefix(name, "Unmarshal") {
						return true
					}
					for _, a := range call.Args {
						if u, ok := a.(*ast.UnaryExpr); ok && u.Op == token.AND {
							a = u.X
						}
						if id, ok := a.(*ast.Ident); ok {
							if l, ok := vars[id.Name]; ok {
								lits = append(lits, l)
								delete(vars, id.Name)
							}
						}
					}
					return true
				})
			}
		}
		return nil
	})
	var out []readDefault
	for _, l := range lits {
		st, ok := structs[l.dir+"."+l.typ]
		if !ok {
			continue
		}
		rel, _ := filepath.Rel(repo, l.dir)
		for _, f := range l.fields {
			info, ok := st[f]
			if !ok || info.json == "" || info.json == "-" {
				continue
			}
			out = append(out, readDefault{rel + "." + l.typ, info.json, info.omitempty})
		}
	}
	sort.Slice(out, func(i, j int) bool { return out[i].typ+"/"+out[i].member < out[j].typ+"/"+out[j].member })
	return out
}

// routerTemplateSites: ("routers" | "waits", member) for every template member of routers and waits
func routerTemplateSites(repo string) [][2]string {
	var out [][2]string
	seen := map[[2]string]bool{}
	add := func(where, member string) {
		k := [2]string{where, member}
		if !seen[k] {
			seen[k] = true
			out = append(out, k)
		}
	}
	for _, d := range []struct{ dir, where string }{{filepath.Join("flows", "routers"), "routers"}, {filepath.Join("flows", "routers", "waits"), "waits"}} {
		ents, err := os.ReadDir(filepath.Join(repo, d.dir))
		if err != nil {
			fatal("cannot read %s: %v", d.dir, err)
		}
		for _, e := range ents {
			name := e.Name()
			if e.IsDir() || !strings.HasSuffix(name, ".go") || strings.HasSuffix(name, "_test.go") {
				continue
			}
			f := parseFile(filepath.Join(repo, d.dir, name))
			for _, decl := range f.Decls {
				switch t := decl.(type) {
				case *ast.FuncDecl:
					if t.Name.Name != "EnumerateTemplates" || t.Recv == nil || len(t.Recv.List) != 1 || len(t.Recv.List[0].Names) != 1 || t.Body == nil {
						continue
					}
					recv := t.Recv.List[0].Names[0].Name
					ast.Inspect(t.Body, func(n ast.Node) bool {
						call, ok := n.(*ast.CallExpr)
						if !ok {
							return true
						}
						if id, ok := call.Fun.(*ast.Ident); !ok || id.Name != "include" || len(call.Args) != 2 {
							return true
						}
						sel, ok := call.Args[1].(*ast.SelectorExpr)
						if !ok {
							fatal("%s/%s: include(..) in EnumerateTemplates with an argument that is not <receiver>.<field>", d.dir, name)
						}
						if x, ok := sel.X.(*ast.Ident); !ok || x.Name != recv {
							fatal("%s/%s: include(..) in EnumerateTemplates with an argument that is not <receiver>.<field>", d.dir, name)
						}
						add(d.where, strings.ToLower(sel.Sel.Name))
						return true
					})
				case *ast.GenDecl:
					for _, sp := range t.Specs {
						ts, ok := sp.(*ast.TypeSpec)
						if !ok {
							continue
						}
						st, ok := ts.Type.(*ast.StructType)
						if !ok {
							continue
						}
						for _, fld := range st.Fields.List {
							if fld.Tag == nil {
								continue
							}
							tag, err := strconv.Unquote(fld.Tag.Value)
							if err != nil {
								continue
							}
							stag := reflect.StructTag(tag)
							if !strings.Contains(stag.Get("engine"), "evaluated") {
								continue
							}
							js := strings.Split(stag.Get("json"), ",")[0]
							if js == "" {
								fatal("%s/%s: evaluated field of %s without a json name", d.dir, name, ts.Name.Name)
							}
							add(d.where, js)
						}
					}
				}
			}
		}
	}
	if len(out) == 0 {
		fatal("no template member found in flows/routers")
	}
	sort.Slice(out, func(i, j int) bool { return out[i][0]+"/"+out[i][1] < out[j][0]+"/"+out[j][1] })
	return out
}

func main() {
	repo := flag.String("repo", "/repo", "goflow working tree")
	out := flag.String("out", "coq/gen", "output directory")
	flag.Parse()

	dir := filepath.Join(*repo, "flows", "definition", "migrations")
	ents, err := os.ReadDir(dir)
	if err != nil {
		fatal("cannot read %s: %v", dir, err)
	}
	var regs []reg
	catalogVersion := ""
	for _, e := range ents {
		name := e.Name()
		if e.IsDir() || !strings.HasSuffix(name, ".go") || strings.HasSuffix(name, "_test.go") {
			continue
		}
		f := parseFile(filepath.Join(dir, name))
		ast.Inspect(f, func(n ast.Node) bool {
			call, ok := n.(*ast.CallExpr)
			if !ok {
				return true
			}
			id, ok := call.Fun.(*ast.Ident)
			if !ok {
				return true
			}
			switch id.Name {
			case "registerMigration":
				if len(call.Args) != 2 {
					fatal("%s: registerMigration with %d arguments", name, len(call.Args))
				}
				v, ok := mustParseLiteral(call.Args[0])
				if !ok {
					fatal("%s: registerMigration's version is not semver.MustParse(<literal>)", name)
				}
				fn, ok := call.Args[1].(*ast.Ident)
				if !ok {
					fatal("%s: registerMigration's function is not a plain identifier", name)
				}
				regs = append(regs, reg{v, fn.Name})
			}
			return true
		})
		// the catalog version used by Migrate13_3
		for _, d := range f.Decls {
			fd, ok := d.(*ast.FuncDecl)
			if !ok || fd.Name.Name != "Migrate13_3" || fd.Body == nil {
				continue
			}
			ast.Inspect(fd.Body, func(n ast.Node) bool {
				call, ok := n.(*ast.CallExpr)
				if !ok {
					return true
				}
				if id, ok := call.Fun.(*ast.Ident); ok && id.Name == "GetTemplateCatalog" && len(call.Args) == 1 {
					v, ok := mustParseLiteral(call.Args[0])
					if !ok {
						fatal("Migrate13_3: GetTemplateCatalog's argument is not semver.MustParse(<literal>)")
					}
					catalogVersion = v
				}
				return true
			})
		}
	}
	if len(regs) == 0 {
		fatal("no registerMigration call found in %s", dir)
	}
	seen := map[string]bool{}
	for _, r := range regs {
		if seen[r.version] {
			fatal("version %s registered twice", r.version)
		}
		seen[r.version] = true
	}

	// CurrentSpecVersion
	current := ""
	ff := parseFile(filepath.Join(*repo, "flows", "definition", "flow.go"))
	for _, d := range ff.Decls {
		gd, ok := d.(*ast.GenDecl)
		if !ok || gd.Tok != token.VAR {
			continue
		}
		for _, sp := range gd.Specs {
			vs := sp.(*ast.ValueSpec)
			for i, n := range vs.Names {
				if n.Name == "CurrentSpecVersion" && i < len(vs.Values) {
					v, ok := mustParseLiteral(vs.Values[i])
					if !ok {
						fatal("CurrentSpecVersion is not semver.MustParse(<literal>)")
					}
					current = v
				}
			}
		}
	}
	if current == "" {
		fatal("var CurrentSpecVersion not found in flows/definition/flow.go")
	}

	// template catalog
	var actionsTab, routersTab string
	if catalogVersion != "" {
		raw, err := os.ReadFile(filepath.Join(dir, "specdata", "templates.json"))
		if err != nil {
			fatal("cannot read specdata/templates.json: %v", err)
		}
		var cats map[string]struct {
			Actions map[string][]string `json:"actions"`
			Routers map[string][]string `json:"routers"`
		}
		if err := json.Unmarshal(raw, &cats); err != nil {
			fatal("specdata/templates.json: %v", err)
		}
		c, ok := cats[catalogVersion]
		if !ok {
			fatal("specdata/templates.json has no catalog for %s", catalogVersion)
		}
		tab := func(m map[string][]string) string {
			keys := make([]string, 0, len(m))
			for k := range m {
				keys = append(keys, k)
			}
			sort.Strings(keys)
			var rows []string
			for _, k := range keys {
				var ps []string
				for _, p := range m[k] {
					ps = append(ps, coqString(p))
				}
				rows = append(rows, fmt.Sprintf("  (%s, [%s])", coqString(k), strings.Join(ps, "; ")))
			}
			return "[\n" + strings.Join(rows, ";\n") + "\n]"
		}
		actionsTab, routersTab = tab(c.Actions), tab(c.Routers)
	} else {
		// Migrate13_3 does not exist or does not use a catalog any more
		actionsTab, routersTab = "[]", "[]"
	}

	var b bytes.Buffer
	b.WriteString("(* GENERATED by translators/cmd/migrationtable from flows/definition/migrations/*.go, specdata/templates.json and\n" +
		"   flows/definition/flow.go -- do not edit; regenerated on every run of bin/check C16 *)\n")
	b.WriteString("From Coq Require Import List NArith String.\nImport ListNotations.\nLocal Open Scope string_scope.\n\n")
	b.WriteString("(* registerMigration calls, in source order: version, name of the Go function *)\n")
	b.WriteString("Definition registered : list ((N * N * N) * string) := [\n")
	for i, r := range regs {
		sep := ";"
		if i == len(regs)-1 {
			sep = ""
		}
		fmt.Fprintf(&b, "  (%s, %s)%s\n", coqVersion(r.version), coqString(r.fn), sep)
	}
	b.WriteString("].\n\n")
	fmt.Fprintf(&b, "(* definition.CurrentSpecVersion *)\nDefinition current_spec_version : N * N * N := %s.\n\n", coqVersion(current))
	fmt.Fprintf(&b, "(* the catalog Migrate13_3 passes to RewriteTemplates: specdata/templates.json[%q] *)\n", catalogVersion)
	fmt.Fprintf(&b, "Definition catalog_actions : list (string * list string) := %s.\n\n", actionsTab)
	fmt.Fprintf(&b, "Definition catalog_routers : list (string * list string) := %s.\n", routersTab)

	// census of the template members of routers and waits, from the code
	sites := routerTemplateSites(*repo)
	b.WriteString("\n(* template members of routers (flows/routers) and waits (flows/routers/waits): every <receiver>.<field> handed to\n" +
		"   include(..) in an EnumerateTemplates method, and every struct field tagged engine:\"..evaluated..\" (by its json name) *)\n")
	b.WriteString("Definition router_template_members : list (string * string) := [\n")
	for i, st := range sites {
		sep := ";"
		if i == len(sites)-1 {
			sep = ""
		}
		fmt.Fprintf(&b, "  (%s, %s)%s\n", coqString(st[0]), coqString(st[1]), sep)
	}
	b.WriteString("].\n")

	// census of members with a default on read
	defs := readDefaults(*repo)
	b.WriteString("\n(* members that get a default before a definition is unmarshalled into their struct (flows/**: `e := &T{F: v, ..}`\n" +
		"   followed by an Unmarshal.. of e in the same function): struct, member (json name), marshalled with omitempty? *)\n")
	b.WriteString("Definition read_defaults : list (string * string * bool) := [\n")
	for i, d := range defs {
		sep := ";"
		if i == len(defs)-1 {
			sep = ""
		}
		fmt.Fprintf(&b, "  (%s, %s, %v)%s\n", coqString(d.typ), coqString(d.member), d.omitempty, sep)
	}
	b.WriteString("].\n")

	path := filepath.Join(*out, "MigrationTable.v")
	if old, err := os.ReadFile(path); err == nil && bytes.Equal(old, b.Bytes()) {
		return
	}
	if err := os.MkdirAll(*out, 0o755); err != nil {
		fatal("%v", err)
	}
	if err := os.WriteFile(path, b.Bytes(), 0o644); err != nil {
		fatal("%v", err)
	}
}
