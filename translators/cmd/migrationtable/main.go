// migrationtable — translator for property C16 (definition migration): writes coq/gen/MigrationTable.v.
//
// Extracted, as data only (go/parser + go/ast, no type checking needed):
//
//	flows/definition/migrations/13_x.go     func init() { registerMigration(semver.MustParse("13.6.0"), Migrate13_6) ... }
//	                                          -> the registered (version, function name) pairs, in source order
//	                                        Migrate13_3: the version literal passed to GetTemplateCatalog
//	flows/definition/migrations/*.go        every other call of registerMigration outside 13_x.go is an error (unknown shape)
//	flows/definition/flow.go                var CurrentSpecVersion = semver.MustParse("13.6.0")
//	flows/definition/migrations/specdata/templates.json
//	                                        the template catalog of the version Migrate13_3 uses: action type / router
//	                                        type -> list of paths
//
// Fails loudly (exit 2) when the source no longer has this shape: registerMigration called with something other
// than semver.MustParse(<string literal>) and an identifier, a version that is not three plain numbers, no
// registration at all, CurrentSpecVersion not a MustParse literal, catalog missing.
//
// What the functions DO is modelled by hand in coq/model/Migrate.v (keyed by the function names written here) and
// tied by the correspondence run of harness/cmd/c16.
package main

import (
	"bytes"
	"encoding/json"
	"flag"
	"fmt"
	"go/ast"
	"go/parser"
	"go/token"
	"os"
	"path/filepath"
	"sort"
	"strconv"
	"strings"
)

func fatal(f string, a ...any) {
	fmt.Fprintf(os.Stderr, "migrationtable: "+f+"\n", a...)
	os.Exit(2)
}

func parseFile(path string) *ast.File {
	fset := token.NewFileSet()
	f, err := parser.ParseFile(fset, path, nil, parser.SkipObjectResolution)
	if err != nil {
		fatal("cannot parse %s: %v", path, err)
	}
	return f
}

// semver.MustParse("a.b.c") -> "a.b.c"
func mustParseLiteral(e ast.Expr) (string, bool) {
	call, ok := e.(*ast.CallExpr)
	if !ok || len(call.Args) != 1 {
		return "", false
	}
	sel, ok := call.Fun.(*ast.SelectorExpr)
	if !ok || sel.Sel.Name != "MustParse" {
		return "", false
	}
	if x, ok := sel.X.(*ast.Ident); !ok || x.Name != "semver" {
		return "", false
	}
	lit, ok := call.Args[0].(*ast.BasicLit)
	if !ok || lit.Kind != token.STRING {
		return "", false
	}
	s, err := strconv.Unquote(lit.Value)
	return s, err == nil
}

func coqVersion(v string) string {
	parts := strings.Split(v, ".")
	if len(parts) != 3 {
		fatal("version %q is not of the form a.b.c", v)
	}
	var n [3]uint64
	for i, p := range parts {
		x, err := strconv.ParseUint(p, 10, 32)
		if err != nil {
			fatal("version %q is not of the form a.b.c with plain numbers", v)
		}
		n[i] = x
	}
	return fmt.Sprintf("(%d, %d, %d)%%N", n[0], n[1], n[2])
}

func coqString(s string) string {
	for _, c := range s {
		if c < 0x20 || c > 0x7e {
			fatal("non-ASCII text %q in a table", s)
		}
	}
	return `"` + strings.ReplaceAll(s, `"`, `""`) + `"`
}

type reg struct{ version, fn string }

func main() {
	repo := flag.String("repo", "/repo", "goflow working tree")
	out := flag.String("out", "coq/gen", "output directory")
	flag.Parse()

	dir := filepath.Join(*repo, "flows", "definition", "migrations")
	ents, err := os.ReadDir(dir)
	if err != nil {
		fatal("cannot read %s: %v", dir, err)
	}
	var regs []reg
	catalogVersion := ""
	for _, e := range ents {
		name := e.Name()
		if e.IsDir() || !strings.HasSuffix(name, ".go") || strings.HasSuffix(name, "_test.go") {
			continue
		}
		f := parseFile(filepath.Join(dir, name))
		ast.Inspect(f, func(n ast.Node) bool {
			call, ok := n.(*ast.CallExpr)
			if !ok {
				return true
			}
			id, ok := call.Fun.(*ast.Ident)
			if !ok {
				return true
			}
			switch id.Name {
			case "registerMigration":
				if len(call.Args) != 2 {
					fatal("%s: registerMigration with %d arguments", name, len(call.Args))
				}
				v, ok := mustParseLiteral(call.Args[0])
				if !ok {
					fatal("%s: registerMigration's version is not semver.MustParse(<literal>)", name)
				}
				fn, ok := call.Args[1].(*ast.Ident)
				if !ok {
					fatal("%s: registerMigration's function is not a plain identifier", name)
				}
				regs = append(regs, reg{v, fn.Name})
			}
			return true
		})
		// the catalog version used by Migrate13_3
		for _, d := range f.Decls {
			fd, ok := d.(*ast.FuncDecl)
			if !ok || fd.Name.Name != "Migrate13_3" || fd.Body == nil {
				continue
			}
			ast.Inspect(fd.Body, func(n ast.Node) bool {
				call, ok := n.(*ast.CallExpr)
				if !ok {
					return true
				}
				if id, ok := call.Fun.(*ast.Ident); ok && id.Name == "GetTemplateCatalog" && len(call.Args) == 1 {
					v, ok := mustParseLiteral(call.Args[0])
					if !ok {
						fatal("Migrate13_3: GetTemplateCatalog's argument is not semver.MustParse(<literal>)")
					}
					catalogVersion = v
				}
				return true
			})
		}
	}
	if len(regs) == 0 {
		fatal("no registerMigration call found in %s", dir)
	}
	seen := map[string]bool{}
	for _, r := range regs {
		if seen[r.version] {
			fatal("version %s registered twice", r.version)
		}
		seen[r.version] = true
	}

	// CurrentSpecVersion
	current := ""
	ff := parseFile(filepath.Join(*repo, "flows", "definition", "flow.go"))
	for _, d := range ff.Decls {
		gd, ok := d.(*ast.GenDecl)
		if !ok || gd.Tok != token.VAR {
			continue
		}
		for _, sp := range gd.Specs {
			vs := sp.(*ast.ValueSpec)
			for i, n := range vs.Names {
				if n.Name == "CurrentSpecVersion" && i < len(vs.Values) {
					v, ok := mustParseLiteral(vs.Values[i])
					if !ok {
						fatal("CurrentSpecVersion is not semver.MustParse(<literal>)")
					}
					current = v
				}
			}
		}
	}
	if current == "" {
		fatal("var CurrentSpecVersion not found in flows/definition/flow.go")
	}

	// template catalog
	var actionsTab, routersTab string
	if catalogVersion != "" {
		raw, err := os.ReadFile(filepath.Join(dir, "specdata", "templates.json"))
		if err != nil {
			fatal("cannot read specdata/templates.json: %v", err)
		}
		var cats map[string]struct {
			Actions map[string][]string `json:"actions"`
			Routers map[string][]string `json:"routers"`
		}
		if err := json.Unmarshal(raw, &cats); err != nil {
			fatal("specdata/templates.json: %v", err)
		}
		c, ok := cats[catalogVersion]
		if !ok {
			fatal("specdata/templates.json has no catalog for %s", catalogVersion)
		}
		tab := func(m map[string][]string) string {
			keys := make([]string, 0, len(m))
			for k := range m {
				keys = append(keys, k)
			}
			sort.Strings(keys)
			var rows []string
			for _, k := range keys {
				var ps []string
				for _, p := range m[k] {
					ps = append(ps, coqString(p))
				}
				rows = append(rows, fmt.Sprintf("  (%s, [%s])", coqString(k), strings.Join(ps, "; ")))
			}
			return "[\n" + strings.Join(rows, ";\n") + "\n]"
		}
		actionsTab, routersTab = tab(c.Actions), tab(c.Routers)
	} else {
		// Migrate13_3 does not exist or does not use a catalog any more
		actionsTab, routersTab = "[]", "[]"
	}

	var b bytes.Buffer
	b.WriteString("(* GENERATED by translators/cmd/migrationtable from flows/definition/migrations/*.go, specdata/templates.json and\n" +
		"   flows/definition/flow.go -- do not edit; regenerated on every run of bin/check C16 *)\n")
	b.WriteString("From Coq Require Import List NArith String.\nImport ListNotations.\nLocal Open Scope string_scope.\n\n")
	b.WriteString("(* registerMigration calls, in source order: version, name of the Go function *)\n")
	b.WriteString("Definition registered : list ((N * N * N) * string) := [\n")
	for i, r := range regs {
		sep := ";"
		if i == len(regs)-1 {
			sep = ""
		}
		fmt.Fprintf(&b, "  (%s, %s)%s\n", coqVersion(r.version), coqString(r.fn), sep)
	}
	b.WriteString("].\n\n")
	fmt.Fprintf(&b, "(* definition.CurrentSpecVersion *)\nDefinition current_spec_version : N * N * N := %s.\n\n", coqVersion(current))
	fmt.Fprintf(&b, "(* the catalog Migrate13_3 passes to RewriteTemplates: specdata/templates.json[%q] *)\n", catalogVersion)
	fmt.Fprintf(&b, "Definition catalog_actions : list (string * list string) := %s.\n\n", actionsTab)
	fmt.Fprintf(&b, "Definition catalog_routers : list (string * list string) := %s.\n", routersTab)

	path := filepath.Join(*out, "MigrationTable.v")
	if old, err := os.ReadFile(path); err == nil && bytes.Equal(old, b.Bytes()) {
		return
	}
	if err := os.MkdirAll(*out, 0o755); err != nil {
		fatal("%v", err)
	}
	if err := os.WriteFile(path, b.Bytes(), 0o644); err != nil {
		fatal("%v", err)
	}
}
