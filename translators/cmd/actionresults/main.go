// actionresults — translator for property C20 (flow inspection over-approximates what a run can do):
// writes coq/gen/ActionResults.v.
//
// Read from the goflow working tree (go/parser + go/ast only, no type checking needed):
//
//	flows/actions/*.go   per registered action type (registerType(TypeX, func() flows.Action { return &T{} })):
//	                       - does T declare results to flow inspection?  (method `Results` on *T)
//	                         with which name expression and which categories (arguments of flows.NewResultInfo)
//	                       - can executing T save a run result?  (a.saveResult / a.saveWebhookResult reachable
//	                         from T.Execute through T's own and baseAction's methods)
//	                         under which name expression and with which category expressions
//	flows/routers/*.go   per registered router type: EnumerateResults declared (own or baseRouter)?
//	                       routeToCategory reachable from Route/RouteTimeout?  name expressions of both
//	whole flows/ tree    the census of call sites of Run.SaveResult and Results.Save (the only doors through
//	                       which a run result can be written)
//
// Category expressions are resolved as far as they are literal: string literals, package constants, package
// level []string variables, the values of a package level map indexed into (webhookStatusCategories[status]);
// a selector on the receiver (a.Category) becomes CField "Category"; the two loop shapes of routers/base.go
// (Name() of every element of r.categories / of the element of r.categories picked by a loop) become
// CAllOf "categories.Name" / CElemOf "categories.Name"; anything else CExpr "<source text>".
//
// Fails loudly (exit 2) when the source no longer has the expected shape (no registered types, a registered
// type without Execute, saveResult/routeToCategory missing, NewResultInfo not called in a Results method, ...).
package main

import (
	"bytes"
	"flag"
	"fmt"
	"go/ast"
	"go/parser"
	"go/printer"
	"go/token"
	"os"
	"path/filepath"
	"regexp"
	"sort"
	"strconv"
	"strings"
)

func fatal(f string, a ...any) {
	fmt.Fprintf(os.Stderr, "actionresults: "+f+"\n", a...)
	os.Exit(2)
}

type pkgInfo struct {
	fset    *token.FileSet
	files   map[string]*ast.File            // file name -> AST
	consts  map[string]string               // string constants
	slices  map[string][]string             // package level []string{...}
	mapVals map[string][]string             // package level map[...]string{...}: values in source order
	methods map[string]map[string]*ast.FuncDecl // receiver type -> method name -> decl
	recvVar map[*ast.FuncDecl]string
	embeds  map[string][]string // struct -> embedded struct names
	regs    []registration
	ctx     *substCtx // call-site context while a router's saving path is analysed
	tags    map[string]map[string]string // struct -> field -> struct tag
	mapFull map[string]bool              // from the typed pass: the keys of a package level map cover its key type
}

// substCtx: how the parameters of the function under analysis map to argument expressions of its caller
type substCtx struct {
	args   map[string]ast.Expr
	fn     *ast.FuncDecl
	recv   string
	parent *substCtx
}

type registration struct {
	TypeName string // "open_ticket"
	Struct   string // "OpenTicketAction"
	File     string
}

func loadPkg(dir string) *pkgInfo {
	p := &pkgInfo{fset: token.NewFileSet(), files: map[string]*ast.File{}, consts: map[string]string{}, slices: map[string][]string{},
		mapVals: map[string][]string{}, methods: map[string]map[string]*ast.FuncDecl{}, recvVar: map[*ast.FuncDecl]string{}, embeds: map[string][]string{},
		tags: map[string]map[string]string{}, mapFull: map[string]bool{}}
	ents, err := os.ReadDir(dir)
	if err != nil {
		fatal("cannot read %s: %v", dir, err)
	}
	var names []string
	for _, e := range ents {
		if e.IsDir() || !strings.HasSuffix(e.Name(), ".go") || strings.HasSuffix(e.Name(), "_test.go") {
			continue
		}
		names = append(names, e.Name())
	}
	sort.Strings(names)
	if len(names) == 0 {
		fatal("no Go files in %s", dir)
	}
	for _, n := range names {
		f, err := parser.ParseFile(p.fset, filepath.Join(dir, n), nil, parser.SkipObjectResolution)
		if err != nil {
			fatal("parse %s: %v", n, err)
		}
		p.files[n] = f
	}
	// pass 1: constants (iterate until no new constant resolves: constants may refer to constants)
	for changed := true; changed; {
		changed = false
		for _, n := range names {
			for _, d := range p.files[n].Decls {
				gd, ok := d.(*ast.GenDecl)
				if !ok || gd.Tok != token.CONST {
					continue
				}
				for _, s := range gd.Specs {
					vs := s.(*ast.ValueSpec)
					for i, id := range vs.Names {
						if i < len(vs.Values) {
							if v, ok := p.strValue(vs.Values[i]); ok {
								if _, had := p.consts[id.Name]; !had {
									p.consts[id.Name] = v
									changed = true
								}
							}
						}
					}
				}
			}
		}
	}
	// pass 2: package level vars, types, methods, registrations
	for _, n := range names {
		for _, d := range p.files[n].Decls {
			switch dd := d.(type) {
			case *ast.GenDecl:
				if dd.Tok == token.VAR {
					for _, s := range dd.Specs {
						vs := s.(*ast.ValueSpec)
						for i, id := range vs.Names {
							if i >= len(vs.Values) {
								continue
							}
							cl, ok := vs.Values[i].(*ast.CompositeLit)
							if !ok {
								continue
							}
							switch t := cl.Type.(type) {
							case *ast.ArrayType:
								if isIdent(t.Elt, "string") {
									var vals []string
									okAll := true
									for _, e := range cl.Elts {
										v, ok := p.strValue(e)
										if !ok {
											okAll = false
											break
										}
										vals = append(vals, v)
									}
									if okAll {
										p.slices[id.Name] = vals
									}
								}
							case *ast.MapType:
								if isIdent(t.Value, "string") {
									var vals []string
									okAll := true
									for _, e := range cl.Elts {
										kv, ok := e.(*ast.KeyValueExpr)
										if !ok {
											okAll = false
											break
										}
										v, ok := p.strValue(kv.Value)
										if !ok {
											okAll = false
											break
										}
										vals = append(vals, v)
									}
									if okAll {
										p.mapVals[id.Name] = vals
									}
								}
							}
						}
					}
				}
				if dd.Tok == token.TYPE {
					for _, s := range dd.Specs {
						ts := s.(*ast.TypeSpec)
						st, ok := ts.Type.(*ast.StructType)
						if !ok {
							continue
						}
						for _, f := range st.Fields.List {
							if len(f.Names) == 0 {
								if id, ok := f.Type.(*ast.Ident); ok {
									p.embeds[ts.Name.Name] = append(p.embeds[ts.Name.Name], id.Name)
								}
							}
							for _, fn := range f.Names {
								if p.tags[ts.Name.Name] == nil {
									p.tags[ts.Name.Name] = map[string]string{}
								}
								if f.Tag != nil {
									p.tags[ts.Name.Name][fn.Name] = f.Tag.Value
								} else {
									p.tags[ts.Name.Name][fn.Name] = ""
								}
							}
						}
					}
				}
			case *ast.FuncDecl:
				if dd.Recv != nil && len(dd.Recv.List) == 1 {
					rt := dd.Recv.List[0].Type
					if se, ok := rt.(*ast.StarExpr); ok {
						rt = se.X
					}
					if id, ok := rt.(*ast.Ident); ok {
						if p.methods[id.Name] == nil {
							p.methods[id.Name] = map[string]*ast.FuncDecl{}
						}
						p.methods[id.Name][dd.Name.Name] = dd
						if len(dd.Recv.List[0].Names) == 1 {
							p.recvVar[dd] = dd.Recv.List[0].Names[0].Name
						}
					}
				}
				if dd.Recv == nil && dd.Name.Name == "init" && dd.Body != nil {
					ast.Inspect(dd.Body, func(x ast.Node) bool {
						ce, ok := x.(*ast.CallExpr)
						if !ok || !isIdent(ce.Fun, "registerType") || len(ce.Args) != 2 {
							return true
						}
						tn, ok := p.strValue(ce.Args[0])
						if !ok {
							fatal("%s: registerType with a non-constant type name", n)
						}
						st := ""
						ast.Inspect(ce.Args[1], func(y ast.Node) bool {
							if ue, ok := y.(*ast.UnaryExpr); ok && ue.Op == token.AND {
								if cl, ok := ue.X.(*ast.CompositeLit); ok {
									if id, ok := cl.Type.(*ast.Ident); ok {
										st = id.Name
									}
								}
							}
							return true
						})
						if st == "" {
							fatal("%s: registerType(%s, ...) does not return &T{}", n, tn)
						}
						p.regs = append(p.regs, registration{TypeName: tn, Struct: st, File: n})
						return true
					})
				}
			}
		}
	}
	sort.Slice(p.regs, func(i, j int) bool { return p.regs[i].TypeName < p.regs[j].TypeName })
	return p
}

func isIdent(e ast.Expr, name string) bool {
	id, ok := e.(*ast.Ident)
	return ok && id.Name == name
}

func (p *pkgInfo) strValue(e ast.Expr) (string, bool) {
	switch v := e.(type) {
	case *ast.BasicLit:
		if v.Kind == token.STRING {
			s, err := strconv.Unquote(v.Value)
			if err == nil {
				return s, true
			}
		}
	case *ast.Ident:
		s, ok := p.consts[v.Name]
		return s, ok
	case *ast.ParenExpr:
		return p.strValue(v.X)
	}
	return "", false
}

func (p *pkgInfo) src(e ast.Node) string {
	var b bytes.Buffer
	printer.Fprint(&b, p.fset, e)
	return strings.Join(strings.Fields(b.String()), " ")
}

// method lookup with embedding (T's own methods first, then embedded structs', depth first)
func (p *pkgInfo) findMethod(t, name string) (*ast.FuncDecl, string) {
	if m, ok := p.methods[t][name]; ok {
		return m, t
	}
	for _, e := range p.embeds[t] {
		if m, owner := p.findMethod(e, name); m != nil {
			return m, owner
		}
	}
	return nil, ""
}

type catExpr struct{ Kind, Val string } // Kind: CLit | CField | CExpr

type row struct {
	Kind, Type, Struct     string
	Saves, Declares        bool
	SaveNames              []string
	DeclNames              []string
	SaveCats, DeclCats     []catExpr
	SaveGuards, DeclGuards [][]string // one conjunct list per saving call / per declaration
	NameRequired           bool       // the declared name member carries validate:"required"
	SitesSyn, SitesTyped   []string   // what this (syntactic) pass visited / what the typed pass says is reachable
}

func addGuard(gs [][]string, g []string) [][]string {
	k := strings.Join(g, " && ")
	for _, x := range gs {
		if strings.Join(x, " && ") == k {
			return gs
		}
	}
	return append(gs, append([]string{}, g...))
}

// the conjuncts of a condition: a && b && c -> [a, b, c]
func (p *pkgInfo) conjuncts(e ast.Expr) []string {
	if pe, ok := e.(*ast.ParenExpr); ok {
		return p.conjuncts(pe.X)
	}
	if be, ok := e.(*ast.BinaryExpr); ok && be.Op == token.LAND {
		return append(p.conjuncts(be.X), p.conjuncts(be.Y)...)
	}
	return []string{p.src(e)}
}

func (p *pkgInfo) site(kind string, pos token.Pos) string {
	ps := p.fset.Position(pos)
	return fmt.Sprintf("%s:%s:%d", kind, filepath.Base(ps.Filename), ps.Line)
}

func containsNode(root, target ast.Node) bool {
	if root == nil {
		return false
	}
	found := false
	ast.Inspect(root, func(x ast.Node) bool {
		if x == target {
			found = true
		}
		return !found
	})
	return found
}

func endsInReturn(b *ast.BlockStmt) bool {
	if b == nil || len(b.List) == 0 {
		return false
	}
	_, ok := b.List[len(b.List)-1].(*ast.ReturnStmt)
	return ok
}

// guardsTo: the conditions under which control reaches `target` inside the statement list: conditions of the
// enclosing if statements (negated for else branches), and the negated conditions of earlier
// `if c { ...; return }` statements of the same list
func (p *pkgInfo) guardsTo(stmts []ast.Stmt, target ast.Node, guards []string) []string {
	for _, st := range stmts {
		if !containsNode(st, target) {
			if is, ok := st.(*ast.IfStmt); ok && is.Else == nil && endsInReturn(is.Body) {
				guards = append(append([]string{}, guards...), "!("+p.src(is.Cond)+")")
			}
			continue
		}
		switch t := st.(type) {
		case *ast.IfStmt:
			if containsNode(t.Body, target) {
				return p.guardsTo(t.Body.List, target, append(append([]string{}, guards...), p.conjuncts(t.Cond)...))
			}
			if t.Else != nil && containsNode(t.Else, target) {
				g := append(append([]string{}, guards...), "!("+p.src(t.Cond)+")")
				if eb, ok := t.Else.(*ast.BlockStmt); ok {
					return p.guardsTo(eb.List, target, g)
				}
				return p.guardsTo([]ast.Stmt{t.Else}, target, g)
			}
			return guards
		case *ast.BlockStmt:
			return p.guardsTo(t.List, target, guards)
		case *ast.ForStmt:
			return p.guardsTo(t.Body.List, target, append(append([]string{}, guards...), "in-loop"))
		case *ast.RangeStmt:
			return p.guardsTo(t.Body.List, target, append(append([]string{}, guards...), "in-loop"))
		case *ast.SwitchStmt:
			for _, cc := range t.Body.List {
				if c, ok := cc.(*ast.CaseClause); ok && containsNode(c, target) {
					return p.guardsTo(c.Body, target, append(append([]string{}, guards...), "in-case"))
				}
			}
			return guards
		case *ast.TypeSwitchStmt:
			for _, cc := range t.Body.List {
				if c, ok := cc.(*ast.CaseClause); ok && containsNode(c, target) {
					return p.guardsTo(c.Body, target, append(append([]string{}, guards...), "in-case"))
				}
			}
			return guards
		default:
			return guards
		}
	}
	return guards
}

var nameNonEmpty1 = regexp.MustCompile(`^[A-Za-z_]\w*\.(\w+) != ""$`)
var nameNonEmpty2 = regexp.MustCompile(`^!\([A-Za-z_]\w*\.(\w+) == ""\)$`)

// normalise: the conjunct "<recv>.<name member> != """ is written NAME_NONEMPTY
func (r *row) normaliseGuards() {
	isName := func(f string) bool {
		for _, n := range append(append([]string{}, r.SaveNames...), r.DeclNames...) {
			if n == f {
				return true
			}
		}
		return false
	}
	norm := func(gs [][]string) {
		for _, g := range gs {
			for i, c := range g {
				for _, re := range []*regexp.Regexp{nameNonEmpty1, nameNonEmpty2} {
					if m := re.FindStringSubmatch(c); m != nil && isName(m[1]) {
						g[i] = "NAME_NONEMPTY"
					}
				}
			}
		}
	}
	norm(r.SaveGuards)
	norm(r.DeclGuards)
}

func addStr(xs []string, s string) []string {
	for _, x := range xs {
		if x == s {
			return xs
		}
	}
	return append(xs, s)
}

func addCat(xs []catExpr, c catExpr) []catExpr {
	for _, x := range xs {
		if x == c {
			return xs
		}
	}
	return append(xs, c)
}

// strips the receiver: a.ResultName -> ResultName ; other expressions are returned as source text
func (p *pkgInfo) fieldOf(e ast.Expr, recv string) string {
	if se, ok := e.(*ast.SelectorExpr); ok {
		if isIdent(se.X, recv) {
			return se.Sel.Name
		}
	}
	return p.src(e)
}

// the local definition `name := <expr>` / `name = <expr>` / `var name = <expr>` inside fn (first one)
func localDef(fn *ast.FuncDecl, name string) ast.Expr {
	var res ast.Expr
	ast.Inspect(fn.Body, func(x ast.Node) bool {
		if res != nil {
			return false
		}
		switch s := x.(type) {
		case *ast.AssignStmt:
			for i, l := range s.Lhs {
				if isIdent(l, name) && i < len(s.Rhs) && len(s.Lhs) == len(s.Rhs) {
					res = s.Rhs[i]
				}
			}
		case *ast.ValueSpec:
			for i, id := range s.Names {
				if id.Name == name && i < len(s.Values) {
					res = s.Values[i]
				}
			}
		}
		return true
	})
	return res
}

func (p *pkgInfo) isParam(fn *ast.FuncDecl, name string) int {
	k := 0
	for _, f := range fn.Type.Params.List {
		for _, id := range f.Names {
			if id.Name == name {
				return k
			}
			k++
		}
	}
	return -1
}

// resolves a category expression occurring in fn to literal categories where possible
func (p *pkgInfo) cats(e ast.Expr, fn *ast.FuncDecl, recv string, depth int) []catExpr {
	if s, ok := p.strValue(e); ok {
		return []catExpr{{"CLit", s}}
	}
	switch v := e.(type) {
	case *ast.SelectorExpr:
		if isIdent(v.X, recv) {
			return []catExpr{{"CField", v.Sel.Name}}
		}
	case *ast.IndexExpr:
		if id, ok := v.X.(*ast.Ident); ok {
			if vals, ok := p.mapVals[id.Name]; ok {
				var out []catExpr
				for _, s := range vals {
					out = addCat(out, catExpr{"CLit", s})
				}
				if !p.mapFull[id.Name] {
					// the keys do not cover the key type: the index expression can yield the zero value
					out = addCat(out, catExpr{"CLit", ""})
				}
				return out
			}
		}
	case *ast.Ident:
		if vals, ok := p.slices[v.Name]; ok {
			var out []catExpr
			for _, s := range vals {
				out = addCat(out, catExpr{"CLit", s})
			}
			return out
		}
		if depth < 4 {
			if d := localDef(fn, v.Name); d != nil {
				if c, ok := p.allOfPattern(v.Name, d, fn, recv); ok {
					return []catExpr{c}
				}
				return p.cats(d, fn, recv, depth+1)
			}
		}
	case *ast.CallExpr:
		if c, ok := p.elemOfPattern(v, fn, recv); ok {
			return []catExpr{c}
		}
	case *ast.CompositeLit:
		if at, ok := v.Type.(*ast.ArrayType); ok && isIdent(at.Elt, "string") {
			out := []catExpr{}
			for _, el := range v.Elts {
				for _, c := range p.cats(el, fn, recv, depth+1) {
					out = addCat(out, c)
				}
			}
			return out
		}
	}
	return []catExpr{{"CExpr", p.src(e)}}
}

func isRecvField(e ast.Expr, recv string) (string, bool) {
	se, ok := e.(*ast.SelectorExpr)
	if !ok || !isIdent(se.X, recv) || recv == "" {
		return "", false
	}
	return se.Sel.Name, true
}

// recognises, in fn,
//
//	name := make([]string, len(R.F)) ; for i := range R.F { name[i] = R.F[i].M() }
//	                                   (or  for i, c := range R.F { name[i] = c.M() })
//
// (R the receiver, the loop body exactly that assignment, the range over the whole slice): the list of M() of
// EVERY element of R.F  ->  CAllOf "F.M"
func (p *pkgInfo) allOfPattern(name string, def ast.Expr, fn *ast.FuncDecl, recv string) (catExpr, bool) {
	mk, ok := def.(*ast.CallExpr)
	if !ok || !isIdent(mk.Fun, "make") || len(mk.Args) != 2 {
		return catExpr{}, false
	}
	ln, ok := mk.Args[1].(*ast.CallExpr)
	if !ok || !isIdent(ln.Fun, "len") || len(ln.Args) != 1 {
		return catExpr{}, false
	}
	field, ok := isRecvField(ln.Args[0], recv)
	if !ok {
		return catExpr{}, false
	}
	var res catExpr
	found, writes := false, 0
	ast.Inspect(fn.Body, func(x ast.Node) bool {
		// every write through name[...] is counted: exactly one (the loop's) is allowed
		if as, ok := x.(*ast.AssignStmt); ok {
			for _, l := range as.Lhs {
				if ix, ok := l.(*ast.IndexExpr); ok && isIdent(ix.X, name) {
					writes++
				}
			}
		}
		rs, ok := x.(*ast.RangeStmt)
		if !ok || rs.Key == nil || rs.Tok != token.DEFINE {
			return true
		}
		valName := ""
		if rs.Value != nil {
			vid, ok := rs.Value.(*ast.Ident)
			if !ok || vid.Name == "_" {
				return true
			}
			valName = vid.Name
		}
		f2, ok := isRecvField(rs.X, recv)
		if !ok || f2 != field || len(rs.Body.List) != 1 {
			return true
		}
		key, ok := rs.Key.(*ast.Ident)
		if !ok {
			return true
		}
		as, ok := rs.Body.List[0].(*ast.AssignStmt)
		if !ok || as.Tok != token.ASSIGN || len(as.Lhs) != 1 || len(as.Rhs) != 1 {
			return true
		}
		lhs, ok := as.Lhs[0].(*ast.IndexExpr)
		if !ok || !isIdent(lhs.X, name) || !isIdent(lhs.Index, key.Name) {
			return true
		}
		call, ok := as.Rhs[0].(*ast.CallExpr)
		if !ok || len(call.Args) != 0 {
			return true
		}
		sel, ok := call.Fun.(*ast.SelectorExpr)
		if !ok {
			return true
		}
		// the element: R.F[i], or the range value c of `for i, c := range R.F`
		if valName != "" && isIdent(sel.X, valName) {
			res, found = catExpr{"CAllOf", field + "." + sel.Sel.Name}, true
			return true
		}
		el, ok := sel.X.(*ast.IndexExpr)
		if !ok || !isIdent(el.Index, key.Name) {
			return true
		}
		f3, ok := isRecvField(el.X, recv)
		if !ok || f3 != field {
			return true
		}
		res, found = catExpr{"CAllOf", field + "." + sel.Sel.Name}, true
		return true
	})
	if !found || writes != 1 {
		return catExpr{}, false
	}
	return res, true
}

// recognises the expression  x.M()  where x is an element of the receiver's slice R.F (see elemSource)
// -> CElemOf "F.M"
func (p *pkgInfo) elemOfPattern(call *ast.CallExpr, fn *ast.FuncDecl, recv string) (catExpr, bool) {
	if len(call.Args) != 0 {
		return catExpr{}, false
	}
	sel, ok := call.Fun.(*ast.SelectorExpr)
	if !ok {
		return catExpr{}, false
	}
	field, ok := p.elemSource(sel.X, fn, recv, p.ctx, 0)
	if !ok {
		return catExpr{}, false
	}
	return catExpr{"CElemOf", field + "." + sel.Sel.Name}, true
}

// elemSource: is the expression e (occurring in fn) an element of the receiver's slice R.F?
//   - R.F[i]
//   - a local variable v that is only ever assigned inside  for _, c := range R.F { ... v = c ... }
//   - a local variable v assigned once from a receiver method that returns nil or such an element (helperAssigned)
//   - a parameter of fn, when the argument at the call site under analysis is such an element (ctx)
func (p *pkgInfo) elemSource(e ast.Expr, fn *ast.FuncDecl, recv string, ctx *substCtx, depth int) (string, bool) {
	if depth > 6 {
		return "", false
	}
	switch v := e.(type) {
	case *ast.ParenExpr:
		return p.elemSource(v.X, fn, recv, ctx, depth+1)
	case *ast.IndexExpr:
		return isRecvField(v.X, recv)
	case *ast.Ident:
		if v.Name == recv {
			return "", false
		}
		if p.isParam(fn, v.Name) >= 0 {
			if ctx == nil || ctx.args == nil {
				return "", false
			}
			a, ok := ctx.args[v.Name]
			if !ok {
				return "", false
			}
			// the parameter must not be reassigned in fn
			reassigned := false
			ast.Inspect(fn.Body, func(x ast.Node) bool {
				if as, ok := x.(*ast.AssignStmt); ok {
					for _, l := range as.Lhs {
						if isIdent(l, v.Name) {
							reassigned = true
						}
					}
				}
				return true
			})
			if reassigned {
				return "", false
			}
			return p.elemSource(a, ctx.fn, ctx.recv, ctx.parent, depth+1)
		}
		if f, ok := p.loopAssigned(v.Name, fn, recv); ok {
			return f, true
		}
		return p.helperAssigned(v.Name, fn, recv, depth)
	}
	return "", false
}

// helperAssigned: the local variable is assigned exactly once, as  name := R.m(..)  (or `var name T = R.m(..)`,
// `name = R.m(..)`), where every return statement of the receiver method m returns nil or an element of R.F
// (the value variable of a `for _, c := range R.F` loop around it, or R.F[i])
func (p *pkgInfo) helperAssigned(name string, fn *ast.FuncDecl, recv string, depth int) (string, bool) {
	var rhs []ast.Expr
	bad := false
	ast.Inspect(fn.Body, func(x ast.Node) bool {
		switch t := x.(type) {
		case *ast.AssignStmt:
			for i, l := range t.Lhs {
				if isIdent(l, name) {
					if len(t.Lhs) == len(t.Rhs) {
						rhs = append(rhs, t.Rhs[i])
					} else {
						bad = true
					}
				}
			}
		case *ast.ValueSpec:
			for i, id := range t.Names {
				if id.Name == name {
					if i < len(t.Values) {
						rhs = append(rhs, t.Values[i])
					}
				}
			}
		case *ast.UnaryExpr:
			if t.Op == token.AND && isIdent(t.X, name) {
				bad = true
			}
		}
		return true
	})
	if bad || len(rhs) != 1 {
		return "", false
	}
	call, ok := rhs[0].(*ast.CallExpr)
	if !ok {
		return "", false
	}
	se, ok := call.Fun.(*ast.SelectorExpr)
	if !ok || !isIdent(se.X, recv) {
		return "", false
	}
	// the struct the receiver belongs to: look the method up on the receiver type of fn (with embedding)
	rt := ""
	if fn.Recv != nil && len(fn.Recv.List) == 1 {
		t := fn.Recv.List[0].Type
		if st, ok := t.(*ast.StarExpr); ok {
			t = st.X
		}
		if id, ok := t.(*ast.Ident); ok {
			rt = id.Name
		}
	}
	m, _ := p.findMethod(rt, se.Sel.Name)
	if m == nil || m.Body == nil {
		return "", false
	}
	return p.returnsElem(m, depth)
}

// returnsElem: every return statement of m (function literals excluded) returns exactly one value, which is nil or an
// element of the receiver's slice R.F; at least one returns an element
func (p *pkgInfo) returnsElem(m *ast.FuncDecl, depth int) (string, bool) {
	mrecv := p.recvVar[m]
	if mrecv == "" || m.Type.Results == nil || len(m.Type.Results.List) != 1 || len(m.Type.Results.List[0].Names) > 1 {
		return "", false
	}
	if len(m.Type.Results.List[0].Names) == 1 {
		return "", false // named result: assignments to it would have to be followed
	}
	field, ok, elems := "", true, 0
	var ranges []*ast.RangeStmt
	var visit func(n ast.Node)
	visit = func(n ast.Node) {
		ast.Inspect(n, func(x ast.Node) bool {
			switch t := x.(type) {
			case *ast.FuncLit:
				return false
			case *ast.RangeStmt:
				if x == n {
					return true
				}
				ranges = append(ranges, t)
				visit(t.Body)
				ranges = ranges[:len(ranges)-1]
				return false
			case *ast.ReturnStmt:
				if len(t.Results) != 1 {
					ok = false
					return true
				}
				if isIdent(t.Results[0], "nil") {
					return true
				}
				f := ""
				switch r := t.Results[0].(type) {
				case *ast.Ident:
					// the value variable of an enclosing range over R.F, not reassigned in its body
					for i := len(ranges) - 1; i >= 0; i-- {
						rs := ranges[i]
						if vid, isid := rs.Value.(*ast.Ident); rs.Value != nil && isid && vid.Name == r.Name {
							if ff, isf := isRecvField(rs.X, mrecv); isf && !assignedIn(rs.Body, r.Name) {
								f = ff
							}
							break
						}
					}
				case *ast.IndexExpr:
					if ff, isf := isRecvField(r.X, mrecv); isf {
						f = ff
					}
				}
				if f == "" || (field != "" && field != f) {
					ok = false
					return true
				}
				field = f
				elems++
			}
			return true
		})
	}
	visit(m.Body)
	if !ok || elems == 0 {
		return "", false
	}
	return field, true
}

func assignedIn(body ast.Node, name string) bool {
	found := false
	ast.Inspect(body, func(x ast.Node) bool {
		if as, ok := x.(*ast.AssignStmt); ok {
			for _, l := range as.Lhs {
				if isIdent(l, name) {
					found = true
				}
			}
		}
		if ue, ok := x.(*ast.UnaryExpr); ok && ue.Op == token.AND && isIdent(ue.X, name) {
			found = true
		}
		return true
	})
	return found
}

// loopAssigned: the local variable name is only ever assigned as  name = c  inside  for _, c := range R.F {...}
func (p *pkgInfo) loopAssigned(name string, fn *ast.FuncDecl, recv string) (string, bool) {
	field := ""
	good, bad := 0, 0
	var inRange []*ast.RangeStmt
	var visit func(n ast.Node)
	visit = func(n ast.Node) {
		ast.Inspect(n, func(x ast.Node) bool {
			switch t := x.(type) {
			case *ast.RangeStmt:
				if x == n {
					return true
				}
				inRange = append(inRange, t)
				visit(t.Body)
				inRange = inRange[:len(inRange)-1]
				return false
			case *ast.AssignStmt:
				for i, l := range t.Lhs {
					if !isIdent(l, name) {
						continue
					}
					ok := false
					if len(inRange) > 0 && len(t.Lhs) == len(t.Rhs) {
						rs := inRange[len(inRange)-1]
						if f, isf := isRecvField(rs.X, recv); isf && rs.Value != nil {
							if val, isid := rs.Value.(*ast.Ident); isid && isIdent(t.Rhs[i], val.Name) && (field == "" || field == f) {
								field, ok = f, true
							}
						}
					}
					if ok {
						good++
					} else {
						bad++
					}
				}
			case *ast.ValueSpec:
				for i, id := range t.Names {
					if id.Name == name && i < len(t.Values) {
						bad++ // declared with an initial value: not only loop-assigned
					}
				}
			case *ast.UnaryExpr:
				if t.Op == token.AND && isIdent(t.X, name) {
					bad++ // address taken
				}
			}
			return true
		})
	}
	visit(fn.Body)
	if good == 0 || bad > 0 {
		return "", false
	}
	return field, true
}

// walks the methods reachable from `start` on struct T (own + embedded methods called through the receiver)
// and records the result-saving calls.  argName/argCat: how a parameter of the current method maps to the
// caller's expressions (for saveWebhookResult(name, ...) -> saveResult(name, ...)).
func (p *pkgInfo) collectSaves(t string, fn *ast.FuncDecl, owner string, subst map[string]ast.Expr, substFn *ast.FuncDecl, substRecv string,
	r *row, sink string, visited map[string]bool, guards []string) {
	key := owner + "." + fn.Name.Name
	if visited[key] {
		return
	}
	visited[key] = true
	defer delete(visited, key)
	recv := p.recvVar[fn]
	if fn.Body == nil {
		return
	}
	var walk func(n ast.Node, guards []string)
	walk = func(n ast.Node, guards []string) {
		switch s := n.(type) {
		case nil:
			return
		case *ast.IfStmt:
			if s.Init != nil {
				walk(s.Init, guards)
			}
			walk(s.Cond, guards)
			g := append(append([]string{}, guards...), p.conjuncts(s.Cond)...)
			walk(s.Body, g)
			if s.Else != nil {
				walk(s.Else, append(append([]string{}, guards...), "!("+p.src(s.Cond)+")"))
			}
			return
		case *ast.CallExpr:
			if se, ok := s.Fun.(*ast.SelectorExpr); ok && isIdent(se.X, recv) {
				if se.Sel.Name == sink {
					p.recordSave(s, fn, recv, subst, substFn, substRecv, r, guards)
				} else if m, mowner := p.findMethod(t, se.Sel.Name); m != nil {
					// parameter substitution for the callee: callee param name -> our argument expression
					sub := map[string]ast.Expr{}
					k := 0
					for _, f := range m.Type.Params.List {
						for _, id := range f.Names {
							if k < len(s.Args) {
								sub[id.Name] = s.Args[k]
							}
							k++
						}
					}
					p.collectSaves(t, m, mowner, sub, fn, recv, r, sink, visited, guards)
				}
			}
		}
		// generic descent
		ast.Inspect(n, func(c ast.Node) bool {
			if c == n {
				return true
			}
			if c != nil {
				walk(c, guards)
			}
			return false
		})
	}
	walk(fn.Body, guards)
}

func (p *pkgInfo) recordSave(call *ast.CallExpr, fn *ast.FuncDecl, recv string, subst map[string]ast.Expr, substFn *ast.FuncDecl, substRecv string, r *row, guards []string) {
	// saveResult(run, step, name, value, category, categoryLocalized, input, extra, logEvent)
	if len(call.Args) < 5 {
		fatal("%s: unexpected arity of saveResult call: %s", r.Struct, p.src(call))
	}
	r.Saves = true
	nameE, catE := call.Args[2], call.Args[4]
	nameFn, nameRecv := fn, recv
	if id, ok := nameE.(*ast.Ident); ok && subst != nil {
		if a, ok := subst[id.Name]; ok && p.isParam(fn, id.Name) >= 0 {
			nameE, nameFn, nameRecv = a, substFn, substRecv
		}
	}
	_ = nameFn
	r.SaveNames = addStr(r.SaveNames, p.fieldOf(nameE, nameRecv))
	catFn, catRecv := fn, recv
	if id, ok := catE.(*ast.Ident); ok && subst != nil && p.isParam(fn, id.Name) >= 0 {
		if a, ok := subst[id.Name]; ok {
			catE, catFn, catRecv = a, substFn, substRecv
		}
	}
	for _, c := range p.cats(catE, catFn, catRecv, 0) {
		r.SaveCats = addCat(r.SaveCats, c)
	}
	r.SaveGuards = addGuard(r.SaveGuards, guards)
	if se, ok := call.Fun.(*ast.SelectorExpr); ok {
		r.SitesSyn = addStr(r.SitesSyn, p.site("use", se.Sel.Pos()))
	}
}

// the doors inside the sink the syntactic pass understands (baseAction.saveResult): "door:<file>:<line>"
func (p *pkgInfo) sinkDoors(sink *ast.FuncDecl) []string {
	var out []string
	ast.Inspect(sink.Body, func(x ast.Node) bool {
		if se, ok := x.(*ast.SelectorExpr); ok && (se.Sel.Name == "SaveResult" || se.Sel.Name == "Save") {
			out = addStr(out, p.site("door", se.Sel.Pos()))
		}
		return true
	})
	return out
}

func (p *pkgInfo) collectDecl(fn *ast.FuncDecl, r *row, ctor string) {
	recv := p.recvVar[fn]
	found := false
	ast.Inspect(fn.Body, func(x ast.Node) bool {
		ce, ok := x.(*ast.CallExpr)
		if !ok {
			return true
		}
		name := ""
		switch f := ce.Fun.(type) {
		case *ast.SelectorExpr:
			name = f.Sel.Name
		case *ast.Ident:
			name = f.Name
		}
		if name != ctor || len(ce.Args) != 2 {
			return true
		}
		found = true
		r.DeclNames = addStr(r.DeclNames, p.fieldOf(ce.Args[0], recv))
		for _, c := range p.cats(ce.Args[1], fn, recv, 0) {
			r.DeclCats = addCat(r.DeclCats, c)
		}
		r.DeclGuards = addGuard(r.DeclGuards, p.guardsTo(fn.Body.List, ce, nil))
		return true
	})
	// `if c { include(..) } else { include(..) }`: declared on both branches
	if len(r.DeclGuards) == 2 {
		a, b := r.DeclGuards[0], r.DeclGuards[1]
		if len(a) > 0 && len(a) == len(b) && strings.Join(a[:len(a)-1], "&&") == strings.Join(b[:len(b)-1], "&&") &&
			(b[len(b)-1] == "!("+a[len(a)-1]+")" || a[len(a)-1] == "!("+b[len(b)-1]+")") {
			r.DeclGuards = [][]string{append([]string{}, a[:len(a)-1]...)}
		}
	}
	if !found {
		fatal("%s.%s does not call %s(name, categories): the declaration cannot be extracted", r.Struct, fn.Name.Name, ctor)
	}
}

// ---------------------------------------------------------------------------------------------------

func coqStr(s string) string { return "\"" + strings.ReplaceAll(s, "\"", "\"\"") + "\"" }

func coqList[T any](xs []T, f func(T) string) string {
	parts := make([]string, len(xs))
	for i, x := range xs {
		parts[i] = f(x)
	}
	return "[" + strings.Join(parts, "; ") + "]"
}

func coqBool(b bool) string {
	if b {
		return "true"
	}
	return "false"
}

func (r row) coq() string {
	cat := func(c catExpr) string { return c.Kind + " " + coqStr(c.Val) }
	gl := func(g []string) string { return coqList(g, coqStr) }
	return fmt.Sprintf("  {| ar_kind := %s; ar_type := %s; ar_struct := %s; ar_saves := %s; ar_declares := %s;\n"+
		"     ar_save_names := %s; ar_decl_names := %s;\n     ar_save_cats := %s;\n     ar_decl_cats := %s;\n"+
		"     ar_save_guards := %s;\n     ar_decl_guards := %s; ar_name_required := %s;\n     ar_sites_syntactic := %s;\n     ar_sites_typed := %s |}",
		coqStr(r.Kind), coqStr(r.Type), coqStr(r.Struct), coqBool(r.Saves), coqBool(r.Declares),
		coqList(r.SaveNames, coqStr), coqList(r.DeclNames, coqStr), coqList(r.SaveCats, cat), coqList(r.DeclCats, cat),
		coqList(r.SaveGuards, gl), coqList(r.DeclGuards, gl), coqBool(r.NameRequired), coqList(r.SitesSyn, coqStr), coqList(r.SitesTyped, coqStr))
}

func main() {
	repo := flag.String("repo", "/repo", "goflow working tree")
	out := flag.String("out", "coq/gen", "output directory")
	show := flag.Bool("print", false, "print the generated file to stdout")
	flag.Parse()

	var rows []row

	tp := loadTyped(*repo)

	// the name member (ResultName / Name / resultName): is it validate:"required"?
	required := func(p *pkgInfo, r *row) bool {
		var find func(st, field string) (string, bool)
		find = func(st, field string) (string, bool) {
			if tg, ok := p.tags[st][field]; ok {
				return tg, true
			}
			for _, e := range p.embeds[st] {
				if tg, ok := find(e, field); ok {
					return tg, true
				}
			}
			return "", false
		}
		if len(r.DeclNames) != 1 {
			return false
		}
		tg, ok := find(r.Struct, r.DeclNames[0])
		if !ok {
			return false
		}
		m := regexp.MustCompile(`validate:"([^"]*)"`).FindStringSubmatch(tg)
		if m == nil {
			return false
		}
		for _, v := range strings.Split(m[1], ",") {
			if v == "required" {
				return true
			}
		}
		return false
	}

	// ---- actions
	ap := loadPkg(filepath.Join(*repo, "flows", "actions"))
	ap.mapFull = tp.mapFull
	if len(ap.regs) == 0 {
		fatal("no registerType(...) calls found in flows/actions")
	}
	sink, _ := ap.findMethod("baseAction", "saveResult")
	if sink == nil {
		fatal("baseAction.saveResult not found in flows/actions")
	}
	for _, reg := range ap.regs {
		r := row{Kind: "action", Type: reg.TypeName, Struct: reg.Struct}
		exec, owner := ap.findMethod(reg.Struct, "Execute")
		if exec == nil {
			fatal("registered action type %s (%s) has no Execute method", reg.TypeName, reg.Struct)
		}
		ap.collectSaves(reg.Struct, exec, owner, nil, nil, "", &r, "saveResult", map[string]bool{}, nil)
		if r.Saves {
			for _, d := range ap.sinkDoors(sink) {
				r.SitesSyn = addStr(r.SitesSyn, d)
			}
		}
		if res, _ := ap.findMethod(reg.Struct, "Results"); res != nil {
			r.Declares = true
			ap.collectDecl(res, &r, "NewResultInfo")
		}
		r.NameRequired = required(ap, &r)
		r.normaliseGuards()
		sort.Strings(r.SitesSyn)
		r.SitesTyped = tp.reach(modPath+"/flows/actions", reg.Struct, []string{"Execute"})
		rows = append(rows, r)
	}

	// ---- routers
	rp := loadPkg(filepath.Join(*repo, "flows", "routers"))
	if len(rp.regs) == 0 {
		fatal("no registerType(...) calls found in flows/routers")
	}
	for _, reg := range rp.regs {
		r := row{Kind: "router", Type: reg.TypeName, Struct: reg.Struct}
		route, owner := rp.findMethod(reg.Struct, "Route")
		if route == nil {
			fatal("registered router type %s (%s) has no Route method", reg.TypeName, reg.Struct)
		}
		for _, mn := range []string{"Route", "RouteTimeout"} {
			if m, o := rp.findMethod(reg.Struct, mn); m != nil {
				_ = owner
				rp.collectRouterSaves(reg.Struct, m, o, &r, map[string]bool{})
			}
		}
		if er, _ := rp.findMethod(reg.Struct, "EnumerateResults"); er != nil {
			r.Declares = true
			rp.collectDecl(er, &r, "NewResultInfo")
		}
		r.NameRequired = required(rp, &r)
		r.normaliseGuards()
		sort.Strings(r.SitesSyn)
		r.SitesTyped = tp.reach(modPath+"/flows/routers", reg.Struct, []string{"Route", "RouteTimeout"})
		rows = append(rows, r)
	}

	// ---- census of the doors through which a result can be written (typed pass)
	if len(tp.doors) == 0 {
		fatal("no use of Run.SaveResult / Results.Save found in the module")
	}

	var b strings.Builder
	b.WriteString("(* ActionResults.v — GENERATED by translators/cmd/actionresults from flows/actions/*.go, flows/routers/*.go\n" +
		"   and (go/types) every use of Run.SaveResult / Results.Save and every index assignment on a flows.Results in the\n" +
		"   module.  Do not edit; regenerated on every check. *)\n" +
		"From Coq Require Import List String.\nFrom Verif Require Import model.ActionRow.\nImport ListNotations.\nOpen Scope string_scope.\n\n")
	b.WriteString("Definition action_results : list action_row := [\n")
	for i, r := range rows {
		b.WriteString(r.coq())
		if i+1 < len(rows) {
			b.WriteString(";")
		}
		b.WriteString("\n")
	}
	b.WriteString("].\n\n")
	b.WriteString("(* flows/inspect/templates.go fieldRefPaths: the context paths inspection treats as contact field references *)\n")
	b.WriteString("Definition field_ref_paths_src : list (list string) := " +
		coqList(fieldRefPaths(*repo), func(p []string) string { return coqList(p, coqStr) }) + ".\n\n")
	b.WriteString("Definition save_result_sites : list (string * string) := " +
		coqList(tp.doors, func(d doorSite) string { return "(" + coqStr(d.Site) + ", " + coqStr(tp.finalClass(d)) + ")" }) + ".\n")

	if *show {
		fmt.Print(b.String())
	}
	path := filepath.Join(*out, "ActionResults.v")
	if old, err := os.ReadFile(path); err == nil && string(old) == b.String() {
		return
	}
	if err := os.MkdirAll(*out, 0o755); err != nil {
		fatal("%v", err)
	}
	if err := os.WriteFile(path+".tmp", []byte(b.String()), 0o644); err != nil {
		fatal("%v", err)
	}
	if err := os.Rename(path+".tmp", path); err != nil {
		fatal("%v", err)
	}
}

// routers save through baseRouter.routeToCategory / routeVia, which build the result themselves:
// flows.NewResult(name, ..., category.Name(), ...).  Every call path from Route / RouteTimeout is analysed with
// its own call-site context, so that a category passed as a parameter is resolved at each caller.
func (p *pkgInfo) collectRouterSaves(t string, fn *ast.FuncDecl, owner string, r *row, visited map[string]bool) {
	p.routerSaves(t, fn, owner, r, visited, nil)
}

func (p *pkgInfo) routerSaves(t string, fn *ast.FuncDecl, owner string, r *row, visited map[string]bool, ctx *substCtx) {
	key := owner + "." + fn.Name.Name
	if visited[key] || fn.Body == nil {
		return
	}
	visited[key] = true
	defer delete(visited, key)
	recv := p.recvVar[fn]
	ast.Inspect(fn.Body, func(x ast.Node) bool {
		ce, ok := x.(*ast.CallExpr)
		if !ok {
			return true
		}
		se, ok := ce.Fun.(*ast.SelectorExpr)
		if !ok {
			return true
		}
		if se.Sel.Name == "SaveResult" {
			// the result saved: find flows.NewResult(name, value, category, ...) in the same function
			r.Saves = true
			r.SitesSyn = addStr(r.SitesSyn, p.site("door", se.Sel.Pos()))
			r.SaveGuards = addGuard(r.SaveGuards, p.guardsTo(fn.Body.List, ce, nil))
			foundNew := false
			ast.Inspect(fn.Body, func(y ast.Node) bool {
				c2, ok := y.(*ast.CallExpr)
				if !ok {
					return true
				}
				if s2, ok := c2.Fun.(*ast.SelectorExpr); ok && s2.Sel.Name == "NewResult" && len(c2.Args) >= 3 {
					foundNew = true
					r.SaveNames = addStr(r.SaveNames, p.fieldOf(c2.Args[0], recv))
					p.ctx = ctx
					for _, c := range p.cats(c2.Args[2], fn, recv, 0) {
						r.SaveCats = addCat(r.SaveCats, c)
					}
					p.ctx = nil
				}
				return true
			})
			if !foundNew {
				fatal("%s.%s calls SaveResult but no flows.NewResult(...) was found in it", owner, fn.Name.Name)
			}
			return true
		}
		if isIdent(se.X, recv) {
			if m, mo := p.findMethod(t, se.Sel.Name); m != nil {
				sub := map[string]ast.Expr{}
				k := 0
				for _, f := range m.Type.Params.List {
					for _, id := range f.Names {
						if k < len(ce.Args) {
							sub[id.Name] = ce.Args[k]
						}
						k++
					}
				}
				// a call of a method that itself contains the door
				direct := false
				if m.Body != nil {
					ast.Inspect(m.Body, func(z ast.Node) bool {
						if s3, ok := z.(*ast.SelectorExpr); ok && s3.Sel.Name == "SaveResult" {
							direct = true
						}
						return true
					})
				}
				if direct {
					r.SitesSyn = addStr(r.SitesSyn, p.site("use", se.Sel.Pos()))
				}
				p.routerSaves(t, m, mo, r, visited, &substCtx{args: sub, fn: fn, recv: recv, parent: ctx})
			}
		}
		return true
	})
}

// fieldRefPaths reads `var fieldRefPaths = [][]string{{...}, ...}` of flows/inspect/templates.go
func fieldRefPaths(repo string) [][]string {
	fset := token.NewFileSet()
	path := filepath.Join(repo, "flows", "inspect", "templates.go")
	f, err := parser.ParseFile(fset, path, nil, parser.SkipObjectResolution)
	if err != nil {
		fatal("parse %s: %v", path, err)
	}
	var out [][]string
	found := false
	for _, d := range f.Decls {
		gd, ok := d.(*ast.GenDecl)
		if !ok || gd.Tok != token.VAR {
			continue
		}
		for _, sp := range gd.Specs {
			vs := sp.(*ast.ValueSpec)
			for i, id := range vs.Names {
				if id.Name != "fieldRefPaths" || i >= len(vs.Values) {
					continue
				}
				cl, ok := vs.Values[i].(*ast.CompositeLit)
				if !ok {
					fatal("fieldRefPaths is not a composite literal")
				}
				found = true
				for _, e := range cl.Elts {
					inner, ok := e.(*ast.CompositeLit)
					if !ok {
						fatal("fieldRefPaths: element is not a composite literal")
					}
					var p []string
					for _, x := range inner.Elts {
						bl, ok := x.(*ast.BasicLit)
						if !ok || bl.Kind != token.STRING {
							fatal("fieldRefPaths: path segment is not a string literal")
						}
						sv, _ := strconv.Unquote(bl.Value)
						p = append(p, sv)
					}
					out = append(out, p)
				}
			}
		}
	}
	if !found || len(out) == 0 {
		fatal("fieldRefPaths not found in %s", path)
	}
	return out
}
