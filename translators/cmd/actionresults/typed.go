// Typed pass (go/packages + go/types) of the actionresults translator.  The extraction of names, categories and
// guards in main.go is syntactic; this pass is its completeness guard and the census of the doors:
//
//   - doors: every USE (call or method value) of flows.Run.SaveResult, (*runs.run).SaveResult, flows.Results.Save
//     and every index assignment on a value of type flows.Results, anywhere in the module, resolved by type —
//     with the function it occurs in and a classification
//   - per registered action / router type: everything statically reachable from Execute / Route / RouteTimeout
//     inside its package (functions, methods on any type, function literals, method values), and in there every
//     use of a function that contains a door, and every door — the list the syntactic pass must reproduce
//   - per package level map[K]string variable: do its keys cover every constant of K (otherwise an index can
//     yield "")
package main

import (
	"fmt"
	"go/ast"
	"go/token"
	"go/types"
	"os"
	"path/filepath"
	"sort"
	"strings"

	"golang.org/x/tools/go/packages"
)

type typedPass struct {
	repo     string
	fset     *token.FileSet
	pkgs     []*packages.Package
	decl     map[*types.Func]*ast.FuncDecl
	declPkg  map[*types.Func]*packages.Package
	hasDoor  map[*types.Func]bool
	doors    []doorSite
	mapFull  map[string]bool // package level map var of flows/actions -> keys cover the key type's constants
	reached  map[token.Pos]bool
}

type doorSite struct {
	Site  string // rel/file.go:Func:kind
	Class string // Results.method | run.SaveResult | action-sink | router-sink | other
	pos   token.Pos
}

// finalClass: a door inside flows/actions or flows/routers must have been reached from the Execute / Route /
// RouteTimeout of some registered type (otherwise no row of the table accounts for it)
func (tp *typedPass) finalClass(d doorSite) string {
	if (d.Class == "action-sink" || d.Class == "router-sink") && !tp.reached[d.pos] {
		return d.Class + "-unreached"
	}
	return d.Class
}

const modPath = "github.com/nyaruka/goflow"

func recvName(f *types.Func) string {
	sig, ok := f.Type().(*types.Signature)
	if !ok || sig.Recv() == nil {
		return ""
	}
	t := sig.Recv().Type()
	if p, ok := t.(*types.Pointer); ok {
		t = p.Elem()
	}
	if n, ok := types.Unalias(t).(*types.Named); ok {
		return n.Obj().Name()
	}
	return ""
}

func funcLabel(f *types.Func) string {
	if r := recvName(f); r != "" {
		return r + "." + f.Name()
	}
	return f.Name()
}

// the doors through which a run result is written
func isDoorFunc(f *types.Func) string {
	if f.Pkg() == nil {
		return ""
	}
	switch {
	case f.Pkg().Path() == modPath+"/flows" && recvName(f) == "Run" && f.Name() == "SaveResult":
		return "SaveResult"
	case f.Pkg().Path() == modPath+"/flows/runs" && recvName(f) == "run" && f.Name() == "SaveResult":
		return "SaveResult"
	case f.Pkg().Path() == modPath+"/flows" && recvName(f) == "Results" && f.Name() == "Save":
		return "Save"
	}
	return ""
}

func isResultsType(t types.Type) bool {
	if t == nil {
		return false
	}
	n, ok := types.Unalias(t).(*types.Named)
	return ok && n.Obj().Pkg() != nil && n.Obj().Pkg().Path() == modPath+"/flows" && n.Obj().Name() == "Results"
}

func loadTyped(repo string) *typedPass {
	abs, err := filepath.Abs(repo)
	if err != nil {
		fatal("%v", err)
	}
	cfg := &packages.Config{
		Mode: packages.NeedName | packages.NeedFiles | packages.NeedCompiledGoFiles | packages.NeedSyntax |
			packages.NeedTypes | packages.NeedTypesInfo | packages.NeedImports | packages.NeedDeps,
		Dir: abs, Tests: false, Env: os.Environ(),
	}
	pkgs, err := packages.Load(cfg, "./...")
	if err != nil {
		fatal("typed pass: load: %v", err)
	}
	tp := &typedPass{repo: abs, decl: map[*types.Func]*ast.FuncDecl{}, declPkg: map[*types.Func]*packages.Package{},
		hasDoor: map[*types.Func]bool{}, mapFull: map[string]bool{}, reached: map[token.Pos]bool{}}
	for _, p := range pkgs {
		if len(p.Errors) > 0 {
			fatal("typed pass: package %s has errors: %v", p.PkgPath, p.Errors[0])
		}
		if !strings.HasPrefix(p.PkgPath, modPath) {
			continue
		}
		tp.pkgs = append(tp.pkgs, p)
		tp.fset = p.Fset
		for _, f := range p.Syntax {
			for _, d := range f.Decls {
				if fd, ok := d.(*ast.FuncDecl); ok && fd.Body != nil {
					if obj, ok := p.TypesInfo.Defs[fd.Name].(*types.Func); ok {
						tp.decl[obj] = fd
						tp.declPkg[obj] = p
					}
				}
			}
		}
	}
	if len(tp.pkgs) == 0 {
		fatal("typed pass: no package of %s loaded from %s", modPath, abs)
	}
	sort.Slice(tp.pkgs, func(i, j int) bool { return tp.pkgs[i].PkgPath < tp.pkgs[j].PkgPath })
	// the doors
	for _, p := range tp.pkgs {
		for obj, fd := range tp.decl {
			if tp.declPkg[obj] != p {
				continue
			}
			for _, d := range tp.doorsIn(p, fd.Body) {
				tp.hasDoor[obj] = true
				file := tp.rel(tp.fset.Position(d.pos).Filename)
				tp.doors = append(tp.doors, doorSite{Site: file + ":" + funcLabel(obj) + ":" + d.kind, Class: classify(p.PkgPath, obj), pos: d.pos})
			}
		}
	}
	sort.Slice(tp.doors, func(i, j int) bool { return tp.doors[i].Site < tp.doors[j].Site })
	tp.mapCoverage()
	return tp
}

func (tp *typedPass) rel(file string) string {
	r, err := filepath.Rel(tp.repo, file)
	if err != nil {
		return file
	}
	return filepath.ToSlash(r)
}

func classify(pkgPath string, f *types.Func) string {
	switch {
	case pkgPath == modPath+"/flows" && recvName(f) == "Results":
		return "Results." + f.Name()
	case pkgPath == modPath+"/flows/runs" && recvName(f) == "run" && f.Name() == "SaveResult":
		return "run.SaveResult"
	case pkgPath == modPath+"/flows/actions":
		return "action-sink"
	case pkgPath == modPath+"/flows/routers":
		return "router-sink"
	}
	return "other"
}

type doorUse struct {
	pos  token.Pos
	kind string
}

// every door directly inside body (function literals included)
func (tp *typedPass) doorsIn(p *packages.Package, body ast.Node) []doorUse {
	var out []doorUse
	ast.Inspect(body, func(x ast.Node) bool {
		switch t := x.(type) {
		case *ast.Ident:
			if f, ok := p.TypesInfo.Uses[t].(*types.Func); ok {
				if k := isDoorFunc(f); k != "" {
					out = append(out, doorUse{t.Pos(), k})
				}
			}
		case *ast.AssignStmt:
			for _, l := range t.Lhs {
				if ix, ok := l.(*ast.IndexExpr); ok && isResultsType(p.TypesInfo.TypeOf(ix.X)) {
					out = append(out, doorUse{ix.Pos(), "index-assign"})
				}
			}
		}
		return true
	})
	return out
}

// reach lists, for the method(s) `roots` of *T in package pkgPath, what is statically reachable inside that package:
// "use:<file>:<line>" for every use of a function that contains a door, "door:<file>:<line>" for every door
func (tp *typedPass) reach(pkgPath, structName string, roots []string) []string {
	var pkg *packages.Package
	for _, p := range tp.pkgs {
		if p.PkgPath == pkgPath {
			pkg = p
		}
	}
	if pkg == nil {
		fatal("typed pass: package %s not loaded", pkgPath)
	}
	obj := pkg.Types.Scope().Lookup(structName)
	if obj == nil {
		fatal("typed pass: type %s not found in %s", structName, pkgPath)
	}
	ms := types.NewMethodSet(types.NewPointer(obj.Type()))
	var queue []*types.Func
	seen := map[*types.Func]bool{}
	for _, r := range roots {
		if sel := ms.Lookup(pkg.Types, r); sel != nil {
			if f, ok := sel.Obj().(*types.Func); ok && !seen[f] {
				seen[f] = true
				queue = append(queue, f)
			}
		}
	}
	out := map[string]bool{}
	for len(queue) > 0 {
		f := queue[0]
		queue = queue[1:]
		fd, ok := tp.decl[f]
		if !ok || tp.declPkg[f] != pkg {
			continue
		}
		for _, d := range tp.doorsIn(pkg, fd.Body) {
			pos := tp.fset.Position(d.pos)
			tp.reached[d.pos] = true
			out[fmt.Sprintf("door:%s:%d", filepath.Base(pos.Filename), pos.Line)] = true
		}
		ast.Inspect(fd.Body, func(x ast.Node) bool {
			id, ok := x.(*ast.Ident)
			if !ok {
				return true
			}
			g, ok := pkg.TypesInfo.Uses[id].(*types.Func)
			if !ok {
				return true
			}
			if tp.hasDoor[g] {
				pos := tp.fset.Position(id.Pos())
				out[fmt.Sprintf("use:%s:%d", filepath.Base(pos.Filename), pos.Line)] = true
			}
			if _, has := tp.decl[g]; has && tp.declPkg[g] == pkg && !seen[g] {
				seen[g] = true
				queue = append(queue, g)
			}
			return true
		})
	}
	var l []string
	for k := range out {
		l = append(l, k)
	}
	sort.Strings(l)
	return l
}

// mapCoverage: package level `var m = map[K]string{...}` of flows/actions: do the keys cover all constants of K?
func (tp *typedPass) mapCoverage() {
	for _, p := range tp.pkgs {
		if p.PkgPath != modPath+"/flows/actions" {
			continue
		}
		for _, f := range p.Syntax {
			for _, d := range f.Decls {
				gd, ok := d.(*ast.GenDecl)
				if !ok || gd.Tok != token.VAR {
					continue
				}
				for _, s := range gd.Specs {
					vs := s.(*ast.ValueSpec)
					for i, id := range vs.Names {
						if i >= len(vs.Values) {
							continue
						}
						cl, ok := vs.Values[i].(*ast.CompositeLit)
						if !ok {
							continue
						}
						mt, ok := types.Unalias(p.TypesInfo.TypeOf(cl)).Underlying().(*types.Map)
						if !ok {
							continue
						}
						kn, ok := types.Unalias(mt.Key()).(*types.Named)
						if !ok || kn.Obj().Pkg() == nil {
							tp.mapFull[id.Name] = false
							continue
						}
						// all constants of the key type declared in its package
						want := map[string]bool{}
						nconst := 0
						sc := kn.Obj().Pkg().Scope()
						for _, n := range sc.Names() {
							if c, ok := sc.Lookup(n).(*types.Const); ok && types.Identical(c.Type(), kn) {
								want[c.Val().ExactString()] = true
								nconst++
							}
						}
						for _, e := range cl.Elts {
							if kv, ok := e.(*ast.KeyValueExpr); ok {
								if tv, ok := p.TypesInfo.Types[kv.Key]; ok && tv.Value != nil {
									delete(want, tv.Value.ExactString())
								}
							}
						}
						tp.mapFull[id.Name] = nconst > 0 && len(want) == 0
					}
				}
			}
		}
	}
}
