// argindex — translator for property C04: writes coq/gen/ArgIndex.v.
//
// Extracted, as data only (go/ast, no type information needed):
//
//	excellent/functions/wrappers.go      every wrapper constructor: its arity check (NumArgsCheck / MinArgsCheck /
//	                                     MinAndMaxArgsCheck with constant or parameter-plus-constant bounds), the
//	                                     constant index sites args[k] / args[k:] of its closure, and how much of
//	                                     the slice it hands on to the wrapped function
//	excellent/functions/builtin.go       init(): "name": Wrapper(ints..., Func) | Func ; for every function with a
//	flows/routers/cases/tests.go         variadic ...types.XValue parameter the index sites on that slice with the
//	                                     enclosing / preceding len(args) guards
//	excellent/functions/builtin.go       const maxRoundingPlaces; Round, RoundUp, RoundDown start with the
//	                                     checkRoundingPlaces guard; Mod starts with the zero-divisor guard
//	excellent/operators/builtin.go       const maxNumberExponent; exponentOutOfRange; Multiply starts with the
//	                                     exponent guard, Divide with the zero-divisor guard
//
// Fails loudly (exit 2) when the source no longer has this shape: the three base checks differ from the
// text recorded below, a registration is not of the two forms, a wrapper's bounds are not constant, ...
package main

import (
	"math/big"

	"github.com/shopspring/decimal"

	"bytes"
	"flag"
	"fmt"
	"go/ast"
	"go/parser"
	"go/printer"
	"go/token"
	"os"
	"path/filepath"
	"sort"
	"strconv"
	"strings"
)

func fatal(f string, a ...any) {
	fmt.Fprintf(os.Stderr, "argindex: "+f+"\n", a...)
	os.Exit(2)
}

// guard: a formula over len(args), printed as a term of model/ExArgIndex.v's [guard]
type guard string

const gTrue guard = "GTrue"

type site struct {
	fn     string
	line   int
	kind   string // SIndex | SSliceFrom
	k      int
	guards []guard
}

type dynSite struct {
	fn   string
	line int
}

type reg struct {
	name, wrapper string
	min, max      int
	shift         int
	body          string
}

var fset = token.NewFileSet()

func parseFile(path string) *ast.File {
	f, err := parser.ParseFile(fset, path, nil, parser.SkipObjectResolution)
	if err != nil {
		fatal("cannot parse %s: %v", path, err)
	}
	return f
}

func src(n ast.Node) string {
	var b bytes.Buffer
	printer.Fprint(&b, fset, n)
	return b.String()
}

// ---------------------------------------------------------------------------------------------
// guards

var cmpOf = map[token.Token]string{token.EQL: "CEq", token.NEQ: "CNe", token.LSS: "CLt", token.LEQ: "CLe", token.GTR: "CGt", token.GEQ: "CGe"}
var flipOf = map[string]string{"CEq": "CEq", "CNe": "CNe", "CLt": "CGt", "CLe": "CGe", "CGt": "CLt", "CGe": "CLe"}

func isLenOf(e ast.Expr, slice string) bool {
	c, ok := e.(*ast.CallExpr)
	if !ok || len(c.Args) != 1 {
		return false
	}
	f, ok := c.Fun.(*ast.Ident)
	if !ok || f.Name != "len" {
		return false
	}
	// the slice is named by its source text: an identifier (args) or a selector chain (classification.Intents)
	return exprText(c.Args[0]) == slice
}

// exprText: identifiers and selector chains print as themselves, anything else as "" (never equal to a slice name)
func exprText(e ast.Expr) string {
	switch x := e.(type) {
	case *ast.Ident:
		return x.Name
	case *ast.SelectorExpr:
		if p := exprText(x.X); p != "" {
			return p + "." + x.Sel.Name
		}
	}
	return ""
}

func intLit(e ast.Expr) (int, bool) {
	if p, ok := e.(*ast.ParenExpr); ok {
		return intLit(p.X)
	}
	if u, ok := e.(*ast.UnaryExpr); ok && u.Op == token.SUB {
		if v, ok := intLit(u.X); ok {
			return -v, true
		}
	}
	b, ok := e.(*ast.BasicLit)
	if !ok || b.Kind != token.INT {
		return 0, false
	}
	v, err := strconv.Atoi(b.Value)
	return v, err == nil
}

// singleGuard: e is  len(slice) op N  or  N op len(slice)
func singleGuard(e ast.Expr, slice string) (guard, bool) {
	b, ok := e.(*ast.BinaryExpr)
	if !ok {
		return gTrue, false
	}
	c, ok := cmpOf[b.Op]
	if !ok {
		return gTrue, false
	}
	if isLenOf(b.X, slice) {
		if n, ok := intLit(b.Y); ok {
			return guard(fmt.Sprintf("(GCmp %s %s)", c, z(n))), true
		}
	}
	if isLenOf(b.Y, slice) {
		if n, ok := intLit(b.X); ok {
			return guard(fmt.Sprintf("(GCmp %s %s)", flipOf[c], z(n))), true
		}
	}
	return gTrue, false
}

// whenTrue: a formula over len(slice) IMPLIED by "e evaluated to true" (GTrue when nothing is known)
func whenTrue(e ast.Expr, slice string) guard {
	if p, ok := e.(*ast.ParenExpr); ok {
		return whenTrue(p.X, slice)
	}
	if g, ok := singleGuard(e, slice); ok {
		return g
	}
	if b, ok := e.(*ast.BinaryExpr); ok && b.Op == token.LAND {
		x, y := whenTrue(b.X, slice), whenTrue(b.Y, slice)
		switch {
		case x == gTrue:
			return y
		case y == gTrue:
			return x
		}
		return guard(fmt.Sprintf("(GAnd %s %s)", x, y))
	}
	if b, ok := e.(*ast.BinaryExpr); ok && b.Op == token.LOR {
		x, y := whenTrue(b.X, slice), whenTrue(b.Y, slice)
		if x == gTrue || y == gTrue {
			return gTrue
		}
		return guard(fmt.Sprintf("(GOr %s %s)", x, y))
	}
	if u, ok := e.(*ast.UnaryExpr); ok && u.Op == token.NOT {
		return whenFalse(u.X, slice)
	}
	return gTrue
}

// whenFalse: a formula over len(slice) IMPLIED by "e evaluated to false"
func whenFalse(e ast.Expr, slice string) guard {
	if p, ok := e.(*ast.ParenExpr); ok {
		return whenFalse(p.X, slice)
	}
	if g, ok := singleGuard(e, slice); ok {
		return guard(fmt.Sprintf("(GNot %s)", g))
	}
	if b, ok := e.(*ast.BinaryExpr); ok && b.Op == token.LOR {
		x, y := whenFalse(b.X, slice), whenFalse(b.Y, slice)
		switch {
		case x == gTrue:
			return y
		case y == gTrue:
			return x
		}
		return guard(fmt.Sprintf("(GAnd %s %s)", x, y))
	}
	if b, ok := e.(*ast.BinaryExpr); ok && b.Op == token.LAND {
		x, y := whenFalse(b.X, slice), whenFalse(b.Y, slice)
		if x == gTrue || y == gTrue {
			return gTrue
		}
		return guard(fmt.Sprintf("(GOr %s %s)", x, y))
	}
	if u, ok := e.(*ast.UnaryExpr); ok && u.Op == token.NOT {
		return whenTrue(u.X, slice)
	}
	return gTrue
}

func factsWhenTrue(e ast.Expr, slice string) []guard {
	if g := whenTrue(e, slice); g != gTrue {
		return []guard{g}
	}
	return nil
}

func factsWhenFalse(e ast.Expr, slice string) []guard {
	if g := whenFalse(e, slice); g != gTrue {
		return []guard{g}
	}
	return nil
}

// ---------------------------------------------------------------------------------------------
// sites

type collector struct {
	fn    string
	slice string
	sites []site
	dyn   []dynSite
}

func with(gs []guard, more []guard) []guard {
	out := make([]guard, 0, len(gs)+len(more))
	out = append(out, gs...)
	return append(out, more...)
}

// expr scans an expression evaluated under the guards gs
func (c *collector) expr(e ast.Node, gs []guard) {
	if e == nil {
		return
	}
	switch x := e.(type) {
	case *ast.BinaryExpr:
		if x.Op == token.LAND {
			c.expr(x.X, gs)
			c.expr(x.Y, with(gs, factsWhenTrue(x.X, c.slice)))
			return
		}
		if x.Op == token.LOR {
			c.expr(x.X, gs)
			c.expr(x.Y, with(gs, factsWhenFalse(x.X, c.slice)))
			return
		}
	case *ast.FuncLit:
		// a closure: same guards, unless it declares its own slice of that name
		for _, p := range x.Type.Params.List {
			for _, n := range p.Names {
				if n.Name == c.slice {
					return
				}
			}
		}
		c.stmts(x.Body.List, gs)
		return
	case *ast.IndexExpr:
		if exprText(x.X) == c.slice {
			if k, ok := intLit(x.Index); ok {
				c.sites = append(c.sites, site{fn: c.fn, line: fset.Position(x.Pos()).Line, kind: "SIndex", k: k, guards: gs})
			} else {
				c.dyn = append(c.dyn, dynSite{c.fn, fset.Position(x.Pos()).Line})
			}
			c.expr(x.Index, gs)
			return
		}
	case *ast.SliceExpr:
		if exprText(x.X) == c.slice {
			k, ok := 0, x.Low == nil
			if x.Low != nil {
				k, ok = intLit(x.Low)
			}
			if ok && x.High == nil && x.Max == nil {
				c.sites = append(c.sites, site{fn: c.fn, line: fset.Position(x.Pos()).Line, kind: "SSliceFrom", k: k, guards: gs})
			} else {
				c.dyn = append(c.dyn, dynSite{c.fn, fset.Position(x.Pos()).Line})
			}
			return
		}
	}
	// generic descent over direct children
	children(e, func(ch ast.Node) { c.expr(ch, gs) })
}

// children calls f on the direct child nodes of n
func children(n ast.Node, f func(ast.Node)) {
	first := true
	ast.Inspect(n, func(m ast.Node) bool {
		if first {
			first = false
			return true
		}
		if m != nil {
			f(m)
		}
		return false
	})
}

func terminates(b *ast.BlockStmt) bool {
	if b == nil || len(b.List) == 0 {
		return false
	}
	switch s := b.List[len(b.List)-1].(type) {
	case *ast.ReturnStmt:
		return true
	case *ast.ExprStmt:
		if c, ok := s.X.(*ast.CallExpr); ok {
			if id, ok := c.Fun.(*ast.Ident); ok && id.Name == "panic" {
				return true
			}
		}
	}
	return false
}

func (c *collector) stmts(list []ast.Stmt, gs []guard) {
	for _, s := range list {
		switch x := s.(type) {
		case *ast.IfStmt:
			gs = c.ifStmt(x, gs)
		case *ast.BlockStmt:
			c.stmts(x.List, gs)
		case *ast.ForStmt:
			c.expr(x.Init, gs)
			c.expr(x.Cond, gs)
			c.expr(x.Post, gs)
			c.stmts(x.Body.List, gs)
		case *ast.RangeStmt:
			c.expr(x.X, gs)
			c.stmts(x.Body.List, gs)
		case *ast.SwitchStmt:
			c.expr(x.Init, gs)
			c.expr(x.Tag, gs)
			for _, cc := range x.Body.List {
				cl := cc.(*ast.CaseClause)
				for _, e := range cl.List {
					c.expr(e, gs)
				}
				c.stmts(cl.Body, gs)
			}
		default:
			c.expr(s, gs)
		}
	}
}

// ifStmt returns the guards that hold AFTER the statement (early returns add the negated condition)
func (c *collector) ifStmt(x *ast.IfStmt, gs []guard) []guard {
	c.expr(x.Init, gs)
	c.expr(x.Cond, gs)
	c.stmts(x.Body.List, with(gs, factsWhenTrue(x.Cond, c.slice)))
	switch e := x.Else.(type) {
	case *ast.BlockStmt:
		c.stmts(e.List, with(gs, factsWhenFalse(x.Cond, c.slice)))
	case *ast.IfStmt:
		c.ifStmt(e, with(gs, factsWhenFalse(x.Cond, c.slice)))
	}
	if x.Else == nil && terminates(x.Body) {
		return with(gs, factsWhenFalse(x.Cond, c.slice))
	}
	return gs
}

// variadicXValues: the name of a trailing `name ...types.XValue` parameter
func variadicXValues(ft *ast.FuncType) string {
	if ft.Params == nil || len(ft.Params.List) == 0 {
		return ""
	}
	last := ft.Params.List[len(ft.Params.List)-1]
	if el, ok := last.Type.(*ast.Ellipsis); ok && strings.HasSuffix(src(el.Elt), "XValue") && len(last.Names) == 1 {
		return last.Names[0].Name
	}
	return ""
}

// ---------------------------------------------------------------------------------------------
// wrappers.go

func normalise(s string) string {
	var out []string
	for _, l := range strings.Split(s, "\n") {
		l = strings.TrimSpace(l)
		if l != "" {
			out = append(out, l)
		}
	}
	return strings.Join(out, "\n")
}

// bound expression of a wrapper: a constant, an int parameter, or parameter + constant
type bexpr struct {
	param string
	c     int
}

func (b bexpr) eval(env map[string]int, where string) int {
	if b.param == "" {
		return b.c
	}
	v, ok := env[b.param]
	if !ok {
		fatal("%s: no value for parameter %s", where, b.param)
	}
	return v + b.c
}

func parseBound(e ast.Expr, where string) bexpr {
	if v, ok := intLit(e); ok {
		return bexpr{c: v}
	}
	if id, ok := e.(*ast.Ident); ok {
		return bexpr{param: id.Name}
	}
	if b, ok := e.(*ast.BinaryExpr); ok && b.Op == token.ADD {
		if id, ok := b.X.(*ast.Ident); ok {
			if v, ok := intLit(b.Y); ok {
				return bexpr{param: id.Name, c: v}
			}
		}
	}
	fatal("%s: arity bound %s is not constant / parameter / parameter+constant", where, src(e))
	return bexpr{}
}

type wrapper struct {
	name      string
	intParams []string
	min, max  bexpr
	shift     int // -1: the wrapped function does not receive the slice
	sites     []site
	dyn       []dynSite
}

func analyseWrappers(path string) map[string]*wrapper {
	f := parseFile(path)
	ws := map[string]*wrapper{}
	for _, d := range f.Decls {
		fd, ok := d.(*ast.FuncDecl)
		if !ok || fd.Recv != nil {
			continue
		}
		switch fd.Name.Name {
		case "MinAndMaxArgsCheck":
			ws[fd.Name.Name] = &wrapper{name: fd.Name.Name, intParams: []string{"min", "max"}, min: bexpr{param: "min"}, max: bexpr{param: "max"}, shift: 0}
			continue
		case "NumArgsCheck":
			ws[fd.Name.Name] = &wrapper{name: fd.Name.Name, intParams: []string{"num"}, min: bexpr{param: "num"}, max: bexpr{param: "num"}, shift: 0}
			continue
		case "MinArgsCheck":
			ws[fd.Name.Name] = &wrapper{name: fd.Name.Name, intParams: []string{"min"}, min: bexpr{param: "min"}, max: bexpr{c: -1}, shift: 0}
			continue
		}
		// a constructor: func X(ints..., f func(...)) types.XFunc { return <Check>(bounds..., func(env, args ...XValue) XValue { ... }) }
		if fd.Type.Results == nil || len(fd.Type.Results.List) != 1 || src(fd.Type.Results.List[0].Type) != "types.XFunc" {
			continue
		}
		where := "wrappers.go " + fd.Name.Name
		w := &wrapper{name: fd.Name.Name}
		for _, p := range fd.Type.Params.List {
			if id, ok := p.Type.(*ast.Ident); ok && id.Name == "int" {
				for _, n := range p.Names {
					w.intParams = append(w.intParams, n.Name)
				}
			}
		}
		if len(fd.Body.List) != 1 {
			fatal("%s: body is not a single return", where)
		}
		ret, ok := fd.Body.List[0].(*ast.ReturnStmt)
		if !ok || len(ret.Results) != 1 {
			fatal("%s: body is not a single return", where)
		}
		call, ok := ret.Results[0].(*ast.CallExpr)
		if !ok {
			fatal("%s: does not return a call of an arity check", where)
		}
		chk, _ := call.Fun.(*ast.Ident)
		var lit ast.Expr
		switch {
		case chk != nil && chk.Name == "NumArgsCheck" && len(call.Args) == 2:
			w.min = parseBound(call.Args[0], where)
			w.max = w.min
			lit = call.Args[1]
		case chk != nil && chk.Name == "MinArgsCheck" && len(call.Args) == 2:
			w.min = parseBound(call.Args[0], where)
			w.max = bexpr{c: -1}
			lit = call.Args[1]
		case chk != nil && chk.Name == "MinAndMaxArgsCheck" && len(call.Args) == 3:
			w.min = parseBound(call.Args[0], where)
			w.max = parseBound(call.Args[1], where)
			lit = call.Args[2]
		default:
			fatal("%s: returns %s, not an arity check", where, src(call.Fun))
		}
		fl, ok := lit.(*ast.FuncLit)
		if !ok {
			fatal("%s: the checked function is not a closure", where)
		}
		slice := variadicXValues(fl.Type)
		if slice == "" {
			fatal("%s: closure has no variadic XValue parameter", where)
		}
		c := &collector{fn: "wrapper:" + w.name, slice: slice}
		c.stmts(fl.Body.List, nil)
		w.sites, w.dyn = c.sites, c.dyn
		// how is the wrapped function called: f(env, ..., args[k:]...) hands the slice on
		w.shift = -1
		ast.Inspect(fl.Body, func(n ast.Node) bool {
			ce, ok := n.(*ast.CallExpr)
			if !ok || !ce.Ellipsis.IsValid() || len(ce.Args) == 0 {
				return true
			}
			if id, ok := ce.Fun.(*ast.Ident); !ok || id.Name != "f" {
				return true
			}
			switch a := ce.Args[len(ce.Args)-1].(type) {
			case *ast.Ident:
				if a.Name == slice {
					w.shift = 0
				}
			case *ast.SliceExpr:
				if id, ok := a.X.(*ast.Ident); ok && id.Name == slice && a.High == nil {
					if k, ok := intLit(a.Low); ok {
						w.shift = k
					}
				}
			}
			return true
		})
		ws[w.name] = w
	}
	for _, n := range []string{"MinAndMaxArgsCheck", "NumArgsCheck", "MinArgsCheck"} {
		if ws[n] == nil {
			fatal("wrappers.go: %s not found", n)
		}
	}
	return ws
}

func stripComments(fd *ast.FuncDecl) string {
	// print without comments: a fresh FuncDecl node printed through a comment-free file set view
	var b bytes.Buffer
	cfg := printer.Config{Mode: printer.UseSpaces | printer.TabIndent, Tabwidth: 8}
	doc := fd.Doc
	fd.Doc = nil
	cfg.Fprint(&b, fset, fd)
	fd.Doc = doc
	return b.String()
}

// ---------------------------------------------------------------------------------------------
// registrations and bodies

func analyseRegistry(path string, ws map[string]*wrapper) ([]reg, []site, []dynSite, *ast.File) {
	f := parseFile(path)
	bodies := map[string]*ast.FuncDecl{}
	for _, d := range f.Decls {
		if fd, ok := d.(*ast.FuncDecl); ok && fd.Recv == nil {
			bodies[fd.Name.Name] = fd
		}
	}
	var regs []reg
	found := false
	for _, d := range f.Decls {
		fd, ok := d.(*ast.FuncDecl)
		if !ok || fd.Name.Name != "init" {
			continue
		}
		ast.Inspect(fd.Body, func(n ast.Node) bool {
			cl, ok := n.(*ast.CompositeLit)
			if !ok || src(cl.Type) != "map[string]types.XFunc" {
				return true
			}
			found = true
			for _, el := range cl.Elts {
				kv := el.(*ast.KeyValueExpr)
				name, err := strconv.Unquote(kv.Key.(*ast.BasicLit).Value)
				if err != nil {
					fatal("%s: bad key %s", path, src(kv.Key))
				}
				where := filepath.Base(path) + " \"" + name + "\""
				switch v := kv.Value.(type) {
				case *ast.Ident:
					if bodies[v.Name] == nil {
						fatal("%s: %s is not a function of the package", where, v.Name)
					}
					regs = append(regs, reg{name: name, wrapper: "", min: 0, max: -1, shift: 0, body: v.Name})
				case *ast.CallExpr:
					wname := ""
					switch fn := v.Fun.(type) {
					case *ast.Ident:
						wname = fn.Name
					case *ast.SelectorExpr:
						wname = fn.Sel.Name
					}
					w := ws[wname]
					if w == nil {
						fatal("%s: unknown wrapper %s", where, src(v.Fun))
					}
					env := map[string]int{}
					ints := 0
					body := ""
					for _, a := range v.Args {
						if k, ok := intLit(a); ok {
							if ints >= len(w.intParams) {
								fatal("%s: too many integer arguments for %s", where, wname)
							}
							env[w.intParams[ints]] = k
							ints++
						} else if id, ok := a.(*ast.Ident); ok && body == "" && bodies[id.Name] != nil {
							body = id.Name
						}
					}
					if ints != len(w.intParams) {
						fatal("%s: %s needs %d integer arguments, found %d", where, wname, len(w.intParams), ints)
					}
					if body == "" {
						fatal("%s: cannot find the wrapped function in %s", where, src(v))
					}
					regs = append(regs, reg{name: name, wrapper: wname, min: w.min.eval(env, where), max: w.max.eval(env, where), shift: w.shift, body: body})
				default:
					fatal("%s: registration is neither a function nor a wrapper call: %s", where, src(kv.Value))
				}
			}
			return false
		})
	}
	if !found {
		fatal("%s: no map[string]types.XFunc literal in init()", path)
	}
	var sites []site
	var dyn []dynSite
	names := make([]string, 0, len(bodies))
	for n := range bodies {
		names = append(names, n)
	}
	sort.Strings(names)
	for _, n := range names {
		fd := bodies[n]
		slice := variadicXValues(fd.Type)
		if slice == "" || fd.Body == nil {
			continue
		}
		c := &collector{fn: n, slice: slice}
		c.stmts(fd.Body.List, nil)
		sites = append(sites, c.sites...)
		dyn = append(dyn, c.dyn...)
	}
	return regs, sites, dyn, f
}

// localSites: constant index sites X[k] on any OTHER slice of the functions of a file (words[0], states[0],
// classification.Intents[0], possibilities[0] ...) with the len(X) guards around them.  The site is named
// "<function>:<X>"; X is an identifier or selector chain.  Strings indexed by a constant would show up here too.
func localSites(f *ast.File) []site {
	var out []site
	for _, d := range f.Decls {
		fd, ok := d.(*ast.FuncDecl)
		if !ok || fd.Body == nil {
			continue
		}
		args := variadicXValues(fd.Type)
		seen := map[string]bool{}
		var names []string
		ast.Inspect(fd.Body, func(n ast.Node) bool {
			var x ast.Expr
			switch e := n.(type) {
			case *ast.IndexExpr:
				if _, isConst := intLit(e.Index); isConst {
					x = e.X
				}
			case *ast.SliceExpr:
				x = e.X
			}
			if x != nil {
				if t := exprText(x); t != "" && t != args && !seen[t] {
					seen[t] = true
					names = append(names, t)
				}
			}
			return true
		})
		for _, name := range names {
			c := &collector{fn: fd.Name.Name + ":" + name, slice: name}
			c.stmts(fd.Body.List, nil)
			for _, s := range c.sites {
				if s.kind == "SIndex" {
					out = append(out, s)
				}
			}
		}
	}
	return out
}

// ---------------------------------------------------------------------------------------------
// semantic checks: the functions are RUN (interp.go) on a grid and their decisions compared with the model's

const passed = "PASS"

// the three base arity checks admit exactly the argument counts model/ExEval.v min_max_args admits
func checkBaseArity(wrappersFile *ast.File) [][2]string {
	in := newInterp(wrappersFile)
	stub := hostFunc(func(args []any) any { return passed })
	admits := func(ctor string, ctorArgs []any, n int) bool {
		in.where = "wrappers.go " + ctor
		fd := in.funcs[ctor]
		if fd == nil {
			fatal("wrappers.go: %s not found", ctor)
		}
		cl := in.call(fd, fd, append(append([]any{}, ctorArgs...), stub))
		args := make([]any, n+1) // env, then n nil values
		return in.call(fd, cl, args) == passed
	}
	model := func(min, max, n int) bool {
		switch {
		case min == max:
			return n == min
		case max < 0:
			return n >= min
		}
		return n >= min && n <= max
	}
	okMM, okNum, okMin := true, true, true
	for min := 0; min <= 3; min++ {
		for n := 0; n <= 7; n++ {
			for max := -2; max <= 5; max++ {
				if admits("MinAndMaxArgsCheck", []any{int64(min), int64(max)}, n) != model(min, max, n) {
					fmt.Fprintf(os.Stderr, "argindex: MinAndMaxArgsCheck(%d, %d) decides %d arguments differently from the model\n", min, max, n)
					okMM = false
				}
			}
			if admits("NumArgsCheck", []any{int64(min)}, n) != model(min, min, n) {
				okNum = false
			}
			if admits("MinArgsCheck", []any{int64(min)}, n) != model(min, -1, n) {
				okMin = false
			}
		}
	}
	b := func(x bool) string {
		if x {
			return "true"
		}
		return "false"
	}
	return [][2]string{{"MinAndMaxArgsCheck", b(okMM)}, {"NumArgsCheck", b(okNum)}, {"MinArgsCheck", b(okMin)}}
}

func isXError(v any) bool { _, ok := v.(*xError); return ok }

func xnum(s string) *xNumber { return newXNumber(decimal.RequireFromString(s)) }

// Round / RoundUp / RoundDown accept exactly the places -L..L; returns L of Round and, per function, whether its
// limits are the same
func checkRounding(builtinFile *ast.File) (int, [][2]string) {
	in := newInterp(builtinFile)
	accepts := func(fn string, places int) (ok bool) {
		defer func() {
			if r := recover(); r != nil {
				ok = true // it did not answer with an error value
			}
		}()
		in.where = "builtin.go " + fn
		fd := in.funcs[fn]
		if fd == nil {
			fatal("builtin.go: %s not found", fn)
		}
		return !isXError(in.call(fd, fd, []any{nil, xnum("1.5"), int64(places)}))
	}
	limit := func(fn string, sign int) int {
		last := -1
		for _, p := range probePlaces {
			if !accepts(fn, sign*p) {
				break
			}
			last = p
		}
		return last
	}
	L := limit("Round", 1)
	var out [][2]string
	for _, fn := range []string{"Round", "RoundUp", "RoundDown"} {
		ok := limit(fn, 1) == L && limit(fn, -1) == L
		out = append(out, [2]string{fn, map[bool]string{true: "true", false: "false"}[ok]})
	}
	return L, out
}

var probePlaces = func() []int {
	var ps []int
	for p := 0; p <= 300; p++ {
		ps = append(ps, p)
	}
	return append(ps, 1000, 2000)
}()

// the canonical form of model/ExEval.v dec_canonical
func modelCanonical(d decimal.Decimal) decimal.Decimal {
	c := d.Coefficient()
	e := int64(d.Exponent())
	if c.Sign() == 0 {
		return decimal.New(0, 0)
	}
	if e >= 0 {
		return decimal.NewFromBigInt(new(big.Int).Mul(c, new(big.Int).Exp(big.NewInt(10), big.NewInt(e), nil)), 0)
	}
	ten := big.NewInt(10)
	for e < 0 {
		q, r := new(big.Int).QuoRem(c, ten, new(big.Int))
		if r.Sign() != 0 {
			break
		}
		c = q
		e++
	}
	return decimal.NewFromBigInt(c, int32(e))
}

func sameRepr(v any, want decimal.Decimal) bool {
	n, ok := v.(*xNumber)
	return ok && n.Native().Coefficient().Cmp(want.Coefficient()) == 0 && n.Native().Exponent() == want.Exponent()
}

// operator guards: Multiply, Divide, Exponent of operators/builtin.go and Mod of functions/builtin.go decide as
// mul_body / ODiv / pow_body / mod_body of the model do, on boundary inputs; returns the exponent limit found
// an integer constant declared in a file of excellent/types (MaxTextLength, MaxRenderSize)
func intConstant(path string, name string) int64 {
	f := parseFile(path)
	in := newInterp(f)
	e, ok := in.globals[name]
	if !ok {
		fatal("%s: constant %s not found", path, name)
	}
	in.where = path + " " + name
	v, ok := in.eval(e, &scope{vars: map[string]any{}}).(int64)
	if !ok {
		fatal("%s: %s is not an integer constant", path, name)
	}
	return v
}

func checkOperators(opsFile *ast.File, builtinFile *ast.File, maxText int64) (int, [][2]string) {
	in := newInterp(opsFile)
	in.bindings["types.MaxTextLength"] = maxText
	op := func(name string) func(a, b *xNumber) any {
		g, ok := in.globals[name]
		if !ok {
			fatal("operators/builtin.go: %s not found", name)
		}
		call, ok := g.(*ast.CallExpr)
		if !ok || len(call.Args) != 1 {
			fatal("operators/builtin.go: %s is not wrapper(func...)", name)
		}
		fl, ok := call.Args[0].(*ast.FuncLit)
		if !ok {
			fatal("operators/builtin.go: %s does not wrap a function literal", name)
		}
		cl := &closure{typ: fl.Type, body: fl.Body, env: &scope{vars: map[string]any{}}}
		return func(a, b *xNumber) (res any) {
			in.where = "operators/builtin.go " + name
			defer func() {
				if r := recover(); r != nil {
					res = fmt.Sprint("PANIC ", r)
				}
			}()
			return in.call(fl, cl, []any{nil, a, b})
		}
	}
	mul, div, pow := op("Multiply"), op("Divide"), op("Exponent")

	// Concatenate: the limit on the bytes of the text built (OConcat of the model)
	concat := func(a, b string) (res any) {
		g, ok := in.globals["Concatenate"]
		if !ok {
			fatal("operators/builtin.go: Concatenate not found")
		}
		call, ok := g.(*ast.CallExpr)
		if !ok || len(call.Args) != 1 {
			fatal("operators/builtin.go: Concatenate is not wrapper(func...)")
		}
		fl, ok := call.Args[0].(*ast.FuncLit)
		if !ok {
			fatal("operators/builtin.go: Concatenate does not wrap a function literal")
		}
		in.where = "operators/builtin.go Concatenate"
		defer func() {
			if r := recover(); r != nil {
				res = fmt.Sprint("PANIC ", r)
			}
		}()
		return in.call(fl, &closure{typ: fl.Type, body: fl.Body, env: &scope{vars: map[string]any{}}}, []any{nil, newXText(a), newXText(b)})
	}
	textOf := func(v any) string {
		if t, ok := v.(*xText); ok {
			return t.Native()
		}
		return "\x00not a text"
	}
	mt := int(maxText)
	as, es := strings.Repeat("a", mt/2), strings.Repeat("é", mt/4) // é is two bytes
	concatLimit := mt >= 8 && mt <= 100000000 && textOf(concat("ab", "cd")) == "abcd" && len(textOf(concat(as, strings.Repeat("b", mt-mt/2)))) == mt &&
		isXError(concat(as, strings.Repeat("b", mt-mt/2+1))) && len(textOf(concat(es, strings.Repeat("b", mt-2*(mt/4))))) == mt &&
		isXError(concat(es, strings.Repeat("b", mt-2*(mt/4)+1))) && isXError(concat("", strings.Repeat("b", mt+1))) && textOf(concat("", "")) == ""
	tenTo := func(k int) *xNumber { return newXNumber(decimal.New(1, int32(-k))) }
	one := xnum("1")

	// the limit on decimal places of a product: largest k with 10^-k * 1 accepted (the product is O(1) to compute)
	lo, hi := 0, 1<<30
	if isXError(mul(tenTo(0), one)) {
		fatal("operators.Multiply rejects 1 * 1")
	}
	for lo < hi {
		mid := lo + (hi-lo+1)/2
		if isXError(mul(tenTo(mid), one)) {
			hi = mid - 1
		} else {
			lo = mid
		}
	}
	L := lo
	b := func(x bool) string {
		if x {
			return "true"
		}
		return "false"
	}
	small := L <= 200000 // beyond that the accepted computations below would be long: no limit worth the name
	half := L / 2
	mulLimit := small && !isXError(mul(tenTo(half), tenTo(L-half))) && isXError(mul(tenTo(half+1), tenTo(L-half))) &&
		isXError(mul(tenTo(L+1), one)) && !isXError(mul(xnum("1E"+strconv.Itoa(half-5)), xnum("1E"+strconv.Itoa(half-5)))) // whole numbers: canonical exponent 0
	// the digits of the canonical factors add up to at most the same limit (mul_body of the model)
	sevens := func(k int) *xNumber { return xnum(strings.Repeat("7", k)) }
	mulDigits := small && !isXError(mul(sevens(half), sevens(L-half))) && isXError(mul(sevens(half+1), sevens(L-half))) &&
		isXError(mul(xnum("1E"+strconv.Itoa(L)), one)) && !isXError(mul(xnum("1E"+strconv.Itoa(L-2)), one)) && // 10^L has L+1 digits
		!isXError(mul(xnum("0."+strings.Repeat("7", half)), xnum("7."+strings.Repeat("7", L-half-1)))) && isXError(mul(xnum("0."+strings.Repeat("7", half)), xnum("7."+strings.Repeat("7", L-half)))) &&
		!isXError(mul(xnum("2.5"+strings.Repeat("0", 2*L)), xnum("4"))) // trailing zeros are not digits of the canonical form
	mulCanon := sameRepr(mul(xnum("0.10"), xnum("0.10")), decimal.New(1, -2)) && sameRepr(mul(xnum("1E3"), xnum("1E3")), decimal.New(1000000, 0)) &&
		sameRepr(mul(xnum("0.00"), xnum("5")), decimal.New(0, 0)) && sameRepr(mul(xnum("2.50"), xnum("4.0")), decimal.New(100, -1)) &&
		small && !isXError(mul(newXNumber(decimal.New(10, int32(-L-1))), one)) // 10 * 10^-(L+1) is 10^-L
	divZero := isXError(div(one, xnum("0"))) && isXError(div(one, xnum("0.00"))) && !isXError(div(one, xnum("2")))
	powCanon := sameRepr(pow(xnum("0.10"), xnum("2")), decimal.New(1, -2)) && sameRepr(pow(xnum("0.10"), xnum("2.0")), decimal.New(1, -2)) &&
		sameRepr(pow(xnum("1E1"), xnum("3")), decimal.New(1000, 0)) && small && !isXError(pow(xnum("0.10"), xnum(strconv.Itoa(L))))
	powExp := small && !isXError(pow(xnum("0.1"), xnum(strconv.Itoa(L)))) && isXError(pow(xnum("0.1"), xnum(strconv.Itoa(L+1)))) &&
		isXError(pow(xnum("0.01"), xnum(strconv.Itoa(half+1)))) && !isXError(pow(xnum("0.01"), xnum(strconv.Itoa(half)))) &&
		isXError(pow(xnum("0.1"), xnum("-"+strconv.Itoa(L+1)))) && isXError(pow(xnum("0.1"), xnum("100000000000000000000")))
	// digits of the base x whole part of the power within the limit, for negative AND positive powers, unless the
	// coefficient is 0 or +-1 (pow_body of the model)
	powNeg := small && !isXError(pow(xnum("2"), xnum("-"+strconv.Itoa(L)))) && isXError(pow(xnum("2"), xnum("-"+strconv.Itoa(L+1)))) &&
		isXError(pow(xnum("10"), xnum("-"+strconv.Itoa(half+1)))) && !isXError(pow(xnum("10"), xnum("-"+strconv.Itoa(half)))) &&
		!isXError(pow(xnum("2"), xnum(strconv.Itoa(L)))) && isXError(pow(xnum("2"), xnum(strconv.Itoa(L+1)))) &&
		isXError(pow(xnum("10"), xnum(strconv.Itoa(half+1)))) && !isXError(pow(xnum("10"), xnum(strconv.Itoa(half)))) &&
		isXError(pow(xnum("2"), xnum("99999999999"))) && isXError(pow(xnum("7"), xnum(strconv.Itoa(L+1)+".5"))) &&
		!isXError(pow(xnum("1"), xnum("100000000000000000000"))) && !isXError(pow(xnum("-1"), xnum("100000000000000000001"))) &&
		!isXError(pow(xnum("0"), xnum("100000000000000000000"))) &&
		// the sign of the base does not matter (|coefficient| > 1)
		!isXError(pow(xnum("-2"), xnum(strconv.Itoa(L)))) && isXError(pow(xnum("-2"), xnum(strconv.Itoa(L+1)))) &&
		isXError(pow(xnum("-10"), xnum(strconv.Itoa(half+1)))) && !isXError(pow(xnum("-10"), xnum(strconv.Itoa(half)))) &&
		isXError(pow(xnum("-2"), xnum("-"+strconv.Itoa(L+1)))) && !isXError(pow(xnum("-2"), xnum("-"+strconv.Itoa(L)))) &&
		isXError(pow(xnum("-7"), xnum("99999999999"))) && isXError(pow(xnum("-2.0"), xnum(strconv.Itoa(L+1))))
	d64 := strings.Repeat("7", 64)
	powFrac := !isXError(pow(xnum("1.5"), xnum("0.5"))) && !isXError(pow(xnum(d64), xnum("0.5"))) && isXError(pow(xnum(d64+"7"), xnum("0.5"))) &&
		isXError(pow(xnum("2"), xnum("0."+d64[:33]))) && !isXError(pow(xnum("2"), xnum("0."+d64[:32]))) && !isXError(pow(xnum(d64+"7"), xnum("2"))) &&
		!isXError(pow(xnum("2.50"+strings.Repeat("0", 70)), xnum("0.5")))

	inF := newInterp(builtinFile)
	mod := func(a, b *xNumber) (res any) {
		defer func() {
			if r := recover(); r != nil {
				res = fmt.Sprint("PANIC ", r) // a library panic while running the function: not an error value
			}
		}()
		inF.where = "functions/builtin.go Mod"
		fd := inF.funcs["Mod"]
		if fd == nil {
			fatal("functions/builtin.go: Mod not found")
		}
		return inF.call(fd, fd, []any{nil, a, b})
	}
	// Repeat: the length limit of repeat_body of the model
	rep := func(text string, count int) (res any) {
		defer func() {
			if r := recover(); r != nil {
				res = fmt.Sprint("PANIC ", r)
			}
		}()
		inF.where = "functions/builtin.go Repeat"
		fd := inF.funcs["Repeat"]
		if fd == nil {
			fatal("functions/builtin.go: Repeat not found")
		}
		return inF.call(fd, fd, []any{nil, newXText(text), int64(count)})
	}
	long := strings.Repeat("é", 1000)
	repLen := func(v any) int {
		if t, ok := v.(*xText); ok {
			return t.Length()
		}
		return -1
	}
	repLimit := repLen(rep(long, 100)) == 100000 && isXError(rep(long, 101)) && repLen(rep("ab", 50000)) == 100000 && isXError(rep("ab", 50001)) &&
		isXError(rep("x", 2147483647)) && repLen(rep("", 2147483647)) == 0 && isXError(rep("x", -1)) && repLen(rep("x", 0)) == 0
	modZero := isXError(mod(one, xnum("0"))) && isXError(mod(one, xnum("0.000"))) && !isXError(mod(xnum("7"), xnum("2")))

	return L, [][2]string{
		{"Concatenate.length", b(concatLimit)}, {"Multiply.canonical", b(mulCanon)}, {"Multiply.exponent", b(mulLimit)}, {"Multiply.digits", b(mulDigits)}, {"Divide.zero", b(divZero)}, {"Mod.zero", b(modZero)},
		{"Exponent.canonical", b(powCanon)}, {"Exponent.exponent", b(powExp)}, {"Exponent.digits", b(powNeg)}, {"Exponent.fractional", b(powFrac)}, {"Repeat.length", b(repLimit)},
	}
}

// ---------------------------------------------------------------------------------------------

func z(i int) string {
	if i < 0 {
		return fmt.Sprintf("(%d)", i)
	}
	return strconv.Itoa(i)
}

func writeIfChanged(path, content string) {
	if old, err := os.ReadFile(path); err == nil && string(old) == content {
		return
	}
	if err := os.MkdirAll(filepath.Dir(path), 0o755); err != nil {
		fatal("%v", err)
	}
	if err := os.WriteFile(path+".tmp", []byte(content), 0o644); err != nil {
		fatal("%v", err)
	}
	if err := os.Rename(path+".tmp", path); err != nil {
		fatal("%v", err)
	}
}

func main() {
	repo := flag.String("repo", "/repo", "goflow checkout")
	out := flag.String("out", "coq/gen", "output directory")
	flag.Parse()

	ws := analyseWrappers(filepath.Join(*repo, "excellent/functions/wrappers.go"))
	regsF, sitesF, dynF, builtinFile := analyseRegistry(filepath.Join(*repo, "excellent/functions/builtin.go"), ws)
	regsT, sitesT, dynT, testsFile := analyseRegistry(filepath.Join(*repo, "flows/routers/cases/tests.go"), ws)
	locals := append(localSites(builtinFile), localSites(testsFile)...)
	maxPlaces, guarded := checkRounding(builtinFile)
	maxText := intConstant(filepath.Join(*repo, "excellent/types/text.go"), "MaxTextLength")
	maxRender := intConstant(filepath.Join(*repo, "excellent/types/base.go"), "MaxRenderSize")
	maxRepeat := intConstant(filepath.Join(*repo, "excellent/functions/builtin.go"), "maxRepeatLength")
	treeGo := filepath.Join(*repo, "excellent/tree.go")
	anonDepth, anonCalls := intConstant(treeGo, "maxAnonFunctionDepth"), intConstant(treeGo, "maxAnonFunctionCalls")
	evalWork, callWork := intConstant(treeGo, "maxEvaluationWork"), intConstant(treeGo, "functionCallWork")
	maxExp, opGuards := checkOperators(parseFile(filepath.Join(*repo, "excellent/operators/builtin.go")), builtinFile, maxText)
	baseArity := checkBaseArity(parseFile(filepath.Join(*repo, "excellent/functions/wrappers.go")))

	regs := append(regsF, regsT...)
	sort.Slice(regs, func(i, j int) bool { return regs[i].name < regs[j].name })
	for i := 1; i < len(regs); i++ {
		if regs[i].name == regs[i-1].name {
			fatal("duplicate registration %q", regs[i].name)
		}
	}
	var sites []site
	var dyn []dynSite
	wnames := make([]string, 0, len(ws))
	for n := range ws {
		wnames = append(wnames, n)
	}
	sort.Strings(wnames)
	for _, n := range wnames {
		sites = append(sites, ws[n].sites...)
		dyn = append(dyn, ws[n].dyn...)
	}
	sites = append(sites, sitesF...)
	sites = append(sites, sitesT...)
	dyn = append(dyn, dynF...)
	dyn = append(dyn, dynT...)
	if len(regs) < 100 || len(sites) < 60 {
		fatal("implausibly small tables: %d registrations, %d sites", len(regs), len(sites))
	}

	var b strings.Builder
	b.WriteString("(* GENERATED by translators/cmd/argindex from excellent/functions/{builtin,wrappers}.go and\n   flows/routers/cases/tests.go -- do not edit. *)\n")
	b.WriteString("From Coq Require Import ZArith List String.\nFrom Verif Require Import model.ExArgIndex.\nImport ListNotations.\nOpen Scope Z_scope.\nOpen Scope string_scope.\n\n")
	b.WriteString("Definition registrations : list reg := [\n")
	for i, r := range regs {
		sep := ";"
		if i == len(regs)-1 {
			sep = ""
		}
		fmt.Fprintf(&b, "  Reg %q %q %s %s %s %q%s\n", r.name, r.wrapper, z(r.min), z(r.max), z(r.shift), r.body, sep)
	}
	b.WriteString("].\n\nDefinition arg_index_sites : list site := [\n")
	for i, s := range sites {
		sep := ";"
		if i == len(sites)-1 {
			sep = ""
		}
		gs := make([]string, len(s.guards))
		for j, g := range s.guards {
			gs[j] = strings.TrimSuffix(strings.TrimPrefix(string(g), "("), ")")
		}
		fmt.Fprintf(&b, "  Site %q %d %s %s [%s]%s\n", s.fn, s.line, s.kind, z(s.k), strings.Join(gs, "; "), sep)
	}
	b.WriteString("].\n\nDefinition local_index_sites : list site := [\n")
	for i, s := range locals {
		sep := ";"
		if i == len(locals)-1 {
			sep = ""
		}
		gs := make([]string, len(s.guards))
		for j, g := range s.guards {
			gs[j] = strings.TrimSuffix(strings.TrimPrefix(string(g), "("), ")")
		}
		fmt.Fprintf(&b, "  Site %q %d %s %s [%s]%s\n", s.fn, s.line, s.kind, z(s.k), strings.Join(gs, "; "), sep)
	}
	b.WriteString("].\n\nDefinition dynamic_sites : list (string * Z) := [\n")
	for i, d := range dyn {
		sep := ";"
		if i == len(dyn)-1 {
			sep = ""
		}
		fmt.Fprintf(&b, "  (%q, %d)%s\n", d.fn, d.line, sep)
	}
	fmt.Fprintf(&b, "].\n\nDefinition max_rounding_places_src : Z := %s.\n\nDefinition rounding_guarded : list (string * bool) := [", z(maxPlaces))
	for i, g := range guarded {
		if i > 0 {
			b.WriteString("; ")
		}
		fmt.Fprintf(&b, "(%q, %s)", g[0], g[1])
	}
	b.WriteString("].\n")
	fmt.Fprintf(&b, "\nDefinition max_text_length_src : Z := %s.\nDefinition max_render_size_src : Z := %s.\n", z(int(maxText)), z(int(maxRender)))
	fmt.Fprintf(&b, "Definition max_repeat_length_src : Z := %s.\n", z(int(maxRepeat)))
	fmt.Fprintf(&b, "Definition max_anon_function_depth_src : Z := %s.\nDefinition max_anon_function_calls_src : Z := %s.\n", z(int(anonDepth)), z(int(anonCalls)))
	fmt.Fprintf(&b, "Definition max_evaluation_work_src : Z := %s.\nDefinition function_call_work_src : Z := %s.\n", z(int(evalWork)), z(int(callWork)))
	fmt.Fprintf(&b, "\nDefinition max_number_exponent_src : Z := %s.\n\nDefinition operator_guards : list (string * bool) := [", z(maxExp))
	for i, g := range opGuards {
		if i > 0 {
			b.WriteString("; ")
		}
		fmt.Fprintf(&b, "(%q, %s)", g[0], g[1])
	}
	b.WriteString("].\n\nDefinition base_arity_checks : list (string * bool) := [")
	for i, g := range baseArity {
		if i > 0 {
			b.WriteString("; ")
		}
		fmt.Fprintf(&b, "(%q, %s)", g[0], g[1])
	}
	b.WriteString("].\n")
	writeIfChanged(filepath.Join(*out, "ArgIndex.v"), b.String())
	fmt.Printf("argindex: %d registrations, %d constant sites, %d dynamic sites, maxRoundingPlaces=%d\n", len(regs), len(sites), len(dyn), maxPlaces)
}
