package main

// A small interpreter for the subset of Go in which goflow's argument-count checks and numeric guards are written.
// The translator does not compare source TEXT with a recorded shape (a refactor — a helper extracted, if/else
// turned into a switch, a condition split over two statements — would break that without changing anything);
// it RUNS the functions, as they are in the source tree, on a grid of inputs and compares what they decide with
// the decision the Coq model makes (model/ExEval.v: min_max_args, bad_places, mul_body, pow_body, ...).
//
// Supported: functions and closures of one package (calls between them are followed to any depth), int / bool /
// string / nil values, if / switch / return / assignment / short declarations, the operators of integer and boolean
// expressions, len, integer conversions, new(T) for big.Int, and — by reflection on the REAL libraries linked into
// this program — any method of decimal.Decimal, *big.Int, *xNumber, *xError, plus the package-level
// functions and variables listed in newInterp.  Anything else stops the translator with the position of the construct.

import (
	"bytes"
	"fmt"
	"go/ast"
	"go/token"
	"math/big"
	"reflect"
	"strconv"
	"strings"
	"unicode/utf8"

	"github.com/shopspring/decimal"
)

// stand-ins for goflow's *types.XNumber and *types.XError (only what the interpreted functions use of them)
type xNumber struct{ d decimal.Decimal }

func newXNumber(d decimal.Decimal) *xNumber { return &xNumber{d} }
func (x *xNumber) Native() decimal.Decimal  { return x.d }
func (x *xNumber) Equals(o *xNumber) bool   { return x.d.Equals(o.d) }
func (x *xNumber) Compare(o *xNumber) int   { return x.d.Cmp(o.d) }
func (x *xNumber) Render() string           { return x.d.String() }

type xText struct{ s string }

func newXText(s string) *xText  { return &xText{s} }
func (x *xText) Native() string { return x.s }
func (x *xText) Empty() bool    { return x.s == "" }
func (x *xText) Length() int    { return utf8.RuneCountInString(x.s) }

type xError struct{ msg string }

func newXErrorf(format string, a ...any) *xError { return &xError{fmt.Sprintf(format, a...)} }

type scope struct {
	vars   map[string]any
	parent *scope
}

func (s *scope) lookup(n string) (any, bool) {
	for c := s; c != nil; c = c.parent {
		if v, ok := c.vars[n]; ok {
			return v, true
		}
	}
	return nil, false
}

func (s *scope) assign(n string, v any) bool {
	for c := s; c != nil; c = c.parent {
		if _, ok := c.vars[n]; ok {
			c.vars[n] = v
			return true
		}
	}
	return false
}

type closure struct {
	typ  *ast.FuncType
	body *ast.BlockStmt
	env  *scope
}

// hostFunc: a function of the translator handed to interpreted code (the wrapped function f of an arity check)
type hostFunc func(args []any) any

type tuple []any

type returned struct{ val any }

type interp struct {
	funcs    map[string]*ast.FuncDecl
	globals  map[string]ast.Expr // package-level const / var initialisers
	bindings map[string]any      // "pkg.Name" -> reflect-callable function or value
	steps    int
	where    string
}

func newInterp(files ...*ast.File) *interp {
	in := &interp{funcs: map[string]*ast.FuncDecl{}, globals: map[string]ast.Expr{}}
	for _, f := range files {
		for _, d := range f.Decls {
			switch x := d.(type) {
			case *ast.FuncDecl:
				if x.Recv == nil {
					in.funcs[x.Name.Name] = x
				}
			case *ast.GenDecl:
				for _, sp := range x.Specs {
					if vs, ok := sp.(*ast.ValueSpec); ok {
						for i, n := range vs.Names {
							if i < len(vs.Values) {
								in.globals[n.Name] = vs.Values[i]
							}
						}
					}
				}
			}
		}
	}
	in.bindings = map[string]any{
		"types.NewXErrorf":          newXErrorf,
		"types.NewXNumber":          newXNumber,
		"types.XNumberZero":         newXNumber(decimal.Zero),
		"types.NewXText":            newXText,
		"types.XTextEmpty":          newXText(""),
		"fmt.Sprintf":               fmt.Sprintf,
		"fmt.Sprint":                fmt.Sprint,
		"big.NewInt":                big.NewInt,
		"decimal.New":               decimal.New,
		"decimal.NewFromInt":        decimal.NewFromInt,
		"decimal.NewFromFloat":      decimal.NewFromFloat,
		"decimal.RequireFromString": decimal.RequireFromString,
		"decimal.Zero":              decimal.Zero,
	}
	return in
}

func (in *interp) fail(n ast.Node, f string, a ...any) {
	fatal("%s: cannot interpret %s: %s", in.where, fset.Position(n.Pos()), fmt.Sprintf(f, a...))
}

func (in *interp) tick(n ast.Node) {
	in.steps++
	if in.steps > 40000000 {
		in.fail(n, "too many steps")
	}
}

// hostValue: what interpreted code sees of a host value (all integers are int64, a nil pointer is nil)
func hostValue(v reflect.Value) any {
	if !v.IsValid() {
		return nil
	}
	switch v.Kind() {
	case reflect.Int, reflect.Int8, reflect.Int16, reflect.Int32, reflect.Int64:
		return v.Int()
	case reflect.Uint, reflect.Uint8, reflect.Uint16, reflect.Uint32, reflect.Uint64:
		return int64(v.Uint())
	case reflect.Ptr, reflect.Interface, reflect.Slice, reflect.Map, reflect.Func:
		if v.IsNil() {
			return nil
		}
	}
	return v.Interface()
}

func (in *interp) hostCall(n ast.Node, fn reflect.Value, args []any) any {
	t := fn.Type()
	var rargs []reflect.Value
	for i, a := range args {
		var pt reflect.Type
		switch {
		case t.IsVariadic() && i >= t.NumIn()-1:
			pt = t.In(t.NumIn() - 1).Elem()
		case i < t.NumIn():
			pt = t.In(i)
		default:
			in.fail(n, "too many arguments for %s", t)
		}
		switch {
		case a == nil:
			rargs = append(rargs, reflect.Zero(pt))
		default:
			av := reflect.ValueOf(a)
			if av.Type() != pt {
				if !av.Type().ConvertibleTo(pt) && !av.Type().AssignableTo(pt) {
					in.fail(n, "argument %d of type %s for parameter %s", i, av.Type(), pt)
				}
				if av.Type().AssignableTo(pt) {
					nv := reflect.New(pt).Elem()
					nv.Set(av)
					av = nv
				} else {
					av = av.Convert(pt)
				}
			}
			rargs = append(rargs, av)
		}
	}
	if len(rargs) < t.NumIn()-1 || (!t.IsVariadic() && len(rargs) != t.NumIn()) {
		in.fail(n, "wrong number of arguments for %s", t)
	}
	out := fn.Call(rargs)
	switch len(out) {
	case 0:
		return nil
	case 1:
		return hostValue(out[0])
	}
	tp := make(tuple, len(out))
	for i := range out {
		tp[i] = hostValue(out[i])
	}
	return tp
}

// call: v is a closure, a host function, a declared function name's *ast.FuncDecl, or a reflect-callable
func (in *interp) call(n ast.Node, v any, args []any) any {
	switch f := v.(type) {
	case hostFunc:
		return f(args)
	case *ast.FuncDecl:
		return in.run(n, f.Type, f.Body, &scope{vars: map[string]any{}}, args)
	case *closure:
		return in.run(n, f.typ, f.body, f.env, args)
	}
	rv := reflect.ValueOf(v)
	if rv.Kind() == reflect.Func {
		return in.hostCall(n, rv, args)
	}
	in.fail(n, "call of a %T", v)
	return nil
}

func (in *interp) run(n ast.Node, typ *ast.FuncType, body *ast.BlockStmt, parent *scope, args []any) any {
	sc := &scope{vars: map[string]any{}, parent: parent}
	i := 0
	if typ.Params != nil {
		for _, p := range typ.Params.List {
			_, variadic := p.Type.(*ast.Ellipsis)
			for _, name := range p.Names {
				switch {
				case variadic:
					rest := []any{}
					if i < len(args) {
						rest = append(rest, args[i:]...)
					}
					sc.vars[name.Name] = rest
					i = len(args)
				case i < len(args):
					sc.vars[name.Name] = args[i]
					i++
				default:
					in.fail(n, "missing argument %s", name.Name)
				}
			}
		}
	}
	if r := in.block(body.List, sc); r != nil {
		return r.val
	}
	return nil
}

func (in *interp) block(list []ast.Stmt, sc *scope) *returned {
	for _, s := range list {
		if r := in.stmt(s, sc); r != nil {
			return r
		}
	}
	return nil
}

func (in *interp) stmt(s ast.Stmt, sc *scope) *returned {
	in.tick(s)
	switch x := s.(type) {
	case *ast.ReturnStmt:
		switch len(x.Results) {
		case 0:
			return &returned{}
		case 1:
			return &returned{in.eval(x.Results[0], sc)}
		}
		tp := make(tuple, len(x.Results))
		for i, e := range x.Results {
			tp[i] = in.eval(e, sc)
		}
		return &returned{tp}
	case *ast.ExprStmt:
		in.eval(x.X, sc)
	case *ast.BlockStmt:
		return in.block(x.List, &scope{vars: map[string]any{}, parent: sc})
	case *ast.AssignStmt:
		in.assignStmt(x, sc)
	case *ast.IncDecStmt:
		id, ok := x.X.(*ast.Ident)
		if !ok {
			in.fail(x, "increment of a non-variable")
		}
		v, _ := sc.lookup(id.Name)
		d := int64(1)
		if x.Tok == token.DEC {
			d = -1
		}
		sc.assign(id.Name, v.(int64)+d)
	case *ast.DeclStmt:
		gd, ok := x.Decl.(*ast.GenDecl)
		if !ok || gd.Tok != token.VAR {
			in.fail(x, "declaration")
		}
		for _, sp := range gd.Specs {
			vs := sp.(*ast.ValueSpec)
			for i, n := range vs.Names {
				var v any
				if i < len(vs.Values) {
					v = in.eval(vs.Values[i], sc)
				} else if id, isId := vs.Type.(*ast.Ident); isId && (id.Name == "int" || id.Name == "int64" || id.Name == "int32") {
					v = int64(0)
				} else if id, isId := vs.Type.(*ast.Ident); isId && id.Name == "bool" {
					v = false
				} else if vs.Type != nil && src(vs.Type) == "bytes.Buffer" {
					v = &bytes.Buffer{}
				} else if vs.Type != nil && src(vs.Type) == "strings.Builder" {
					v = &strings.Builder{}
				}
				sc.vars[n.Name] = v
			}
		}
	case *ast.IfStmt:
		inner := &scope{vars: map[string]any{}, parent: sc}
		if x.Init != nil {
			if r := in.stmt(x.Init, inner); r != nil {
				return r
			}
		}
		c, ok := in.eval(x.Cond, inner).(bool)
		if !ok {
			in.fail(x.Cond, "condition is not a boolean")
		}
		if c {
			return in.block(x.Body.List, &scope{vars: map[string]any{}, parent: inner})
		}
		switch e := x.Else.(type) {
		case *ast.BlockStmt:
			return in.block(e.List, &scope{vars: map[string]any{}, parent: inner})
		case *ast.IfStmt:
			return in.stmt(e, inner)
		}
	case *ast.ForStmt:
		inner := &scope{vars: map[string]any{}, parent: sc}
		if x.Init != nil {
			in.stmt(x.Init, inner)
		}
		for {
			if x.Cond != nil {
				c, ok := in.eval(x.Cond, inner).(bool)
				if !ok {
					in.fail(x.Cond, "loop condition is not a boolean")
				}
				if !c {
					break
				}
			}
			if r := in.block(x.Body.List, &scope{vars: map[string]any{}, parent: inner}); r != nil {
				return r
			}
			if x.Post != nil {
				in.stmt(x.Post, inner)
			}
		}
	case *ast.SwitchStmt:
		inner := &scope{vars: map[string]any{}, parent: sc}
		if x.Init != nil {
			in.stmt(x.Init, inner)
		}
		var tag any = true
		if x.Tag != nil {
			tag = in.eval(x.Tag, inner)
		}
		var deflt *ast.CaseClause
		for _, c := range x.Body.List {
			cc := c.(*ast.CaseClause)
			if cc.List == nil {
				deflt = cc
				continue
			}
			for _, e := range cc.List {
				if in.equal(e, in.eval(e, inner), tag) {
					return in.caseBody(cc, inner)
				}
			}
		}
		if deflt != nil {
			return in.caseBody(deflt, inner)
		}
	default:
		in.fail(s, "statement %T", s)
	}
	return nil
}

func (in *interp) caseBody(cc *ast.CaseClause, sc *scope) *returned {
	for _, s := range cc.Body {
		if b, ok := s.(*ast.BranchStmt); ok {
			if b.Tok == token.BREAK {
				return nil
			}
			in.fail(s, "branch statement")
		}
		if r := in.stmt(s, &scope{vars: map[string]any{}, parent: sc}); r != nil {
			return r
		}
	}
	return nil
}

func (in *interp) assignStmt(x *ast.AssignStmt, sc *scope) {
	var vals []any
	if len(x.Rhs) == 1 && len(x.Lhs) > 1 {
		tp, ok := in.eval(x.Rhs[0], sc).(tuple)
		if !ok || len(tp) != len(x.Lhs) {
			in.fail(x, "assignment count")
		}
		vals = tp
	} else {
		for _, e := range x.Rhs {
			vals = append(vals, in.eval(e, sc))
		}
	}
	for i, l := range x.Lhs {
		id, ok := l.(*ast.Ident)
		if !ok {
			in.fail(l, "assignment to a non-variable")
		}
		v := vals[i]
		switch x.Tok {
		case token.DEFINE:
			if id.Name != "_" {
				sc.vars[id.Name] = v
			}
		case token.ASSIGN:
			if id.Name != "_" && !sc.assign(id.Name, v) {
				in.fail(l, "assignment to undeclared %s", id.Name)
			}
		case token.ADD_ASSIGN, token.SUB_ASSIGN, token.MUL_ASSIGN:
			old, _ := sc.lookup(id.Name)
			op := map[token.Token]token.Token{token.ADD_ASSIGN: token.ADD, token.SUB_ASSIGN: token.SUB, token.MUL_ASSIGN: token.MUL}[x.Tok]
			sc.assign(id.Name, in.arith(l, op, old, v))
		default:
			in.fail(x, "assignment operator %s", x.Tok)
		}
	}
}

func (in *interp) equal(n ast.Node, a, b any) bool {
	if a == nil || b == nil {
		return a == nil && b == nil
	}
	switch x := a.(type) {
	case int64:
		y, ok := b.(int64)
		return ok && x == y
	case bool:
		y, ok := b.(bool)
		return ok && x == y
	case string:
		y, ok := b.(string)
		return ok && x == y
	}
	in.fail(n, "comparison of %T and %T", a, b)
	return false
}

func (in *interp) arith(n ast.Node, op token.Token, a, b any) any {
	x, ok1 := a.(int64)
	y, ok2 := b.(int64)
	if !ok1 || !ok2 {
		if s1, isS := a.(string); isS && op == token.ADD {
			if s2, isS2 := b.(string); isS2 {
				return s1 + s2
			}
		}
		in.fail(n, "%s on %T and %T", op, a, b)
	}
	switch op {
	case token.ADD:
		return x + y
	case token.SUB:
		return x - y
	case token.MUL:
		return x * y
	case token.QUO:
		if y == 0 {
			in.fail(n, "division by zero")
		}
		return x / y
	case token.REM:
		if y == 0 {
			in.fail(n, "division by zero")
		}
		return x % y
	case token.LSS:
		return x < y
	case token.LEQ:
		return x <= y
	case token.GTR:
		return x > y
	case token.GEQ:
		return x >= y
	}
	in.fail(n, "operator %s", op)
	return nil
}

func (in *interp) eval(e ast.Expr, sc *scope) any {
	in.tick(e)
	switch x := e.(type) {
	case *ast.ParenExpr:
		return in.eval(x.X, sc)
	case *ast.BasicLit:
		switch x.Kind {
		case token.INT:
			v, err := strconv.ParseInt(x.Value, 0, 64)
			if err != nil {
				in.fail(x, "integer literal")
			}
			return v
		case token.STRING:
			s, err := strconv.Unquote(x.Value)
			if err != nil {
				in.fail(x, "string literal")
			}
			return s
		}
		in.fail(x, "literal %s", x.Value)
	case *ast.Ident:
		switch x.Name {
		case "nil":
			return nil
		case "true":
			return true
		case "false":
			return false
		}
		if v, ok := sc.lookup(x.Name); ok {
			return v
		}
		if g, ok := in.globals[x.Name]; ok {
			return in.eval(g, &scope{vars: map[string]any{}})
		}
		if f, ok := in.funcs[x.Name]; ok {
			return f
		}
		in.fail(x, "unknown identifier %s", x.Name)
	case *ast.FuncLit:
		return &closure{typ: x.Type, body: x.Body, env: sc}
	case *ast.UnaryExpr:
		v := in.eval(x.X, sc)
		switch x.Op {
		case token.NOT:
			b, ok := v.(bool)
			if !ok {
				in.fail(x, "! on %T", v)
			}
			return !b
		case token.SUB:
			i, ok := v.(int64)
			if !ok {
				in.fail(x, "- on %T", v)
			}
			return -i
		}
		in.fail(x, "unary %s", x.Op)
	case *ast.BinaryExpr:
		switch x.Op {
		case token.LAND:
			a, ok := in.eval(x.X, sc).(bool)
			if !ok {
				in.fail(x.X, "&& on a non-boolean")
			}
			if !a {
				return false
			}
			b, ok := in.eval(x.Y, sc).(bool)
			if !ok {
				in.fail(x.Y, "&& on a non-boolean")
			}
			return b
		case token.LOR:
			a, ok := in.eval(x.X, sc).(bool)
			if !ok {
				in.fail(x.X, "|| on a non-boolean")
			}
			if a {
				return true
			}
			b, ok := in.eval(x.Y, sc).(bool)
			if !ok {
				in.fail(x.Y, "|| on a non-boolean")
			}
			return b
		case token.EQL:
			return in.equal(x, in.eval(x.X, sc), in.eval(x.Y, sc))
		case token.NEQ:
			return !in.equal(x, in.eval(x.X, sc), in.eval(x.Y, sc))
		}
		return in.arith(x, x.Op, in.eval(x.X, sc), in.eval(x.Y, sc))
	case *ast.SelectorExpr:
		if pkg, ok := x.X.(*ast.Ident); ok {
			if _, isVar := sc.lookup(pkg.Name); !isVar {
				if b, ok := in.bindings[pkg.Name+"."+x.Sel.Name]; ok {
					return b
				}
				in.fail(x, "%s.%s is not available to the interpreter", pkg.Name, x.Sel.Name)
			}
		}
		in.fail(x, "field selection")
	case *ast.IndexExpr:
		l, ok := in.eval(x.X, sc).([]any)
		i, ok2 := in.eval(x.Index, sc).(int64)
		if !ok || !ok2 {
			in.fail(x, "index expression")
		}
		if i < 0 || int(i) >= len(l) {
			fatal("%s: INDEX OUT OF RANGE at %s while interpreting (index %d, length %d)", in.where, fset.Position(x.Pos()), i, len(l))
		}
		return l[i]
	case *ast.SliceExpr:
		l, ok := in.eval(x.X, sc).([]any)
		if !ok || x.High != nil {
			in.fail(x, "slice expression")
		}
		lo := int64(0)
		if x.Low != nil {
			lo = in.eval(x.Low, sc).(int64)
		}
		if lo < 0 || int(lo) > len(l) {
			fatal("%s: SLICE OUT OF RANGE at %s while interpreting", in.where, fset.Position(x.Pos()))
		}
		return l[lo:]
	case *ast.CallExpr:
		return in.callExpr(x, sc)
	}
	in.fail(e, "expression %T", e)
	return nil
}

func (in *interp) callExpr(x *ast.CallExpr, sc *scope) any {
	// builtins and conversions
	if id, ok := x.Fun.(*ast.Ident); ok {
		if _, shadowed := sc.lookup(id.Name); !shadowed {
			switch id.Name {
			case "len":
				switch v := in.eval(x.Args[0], sc).(type) {
				case []any:
					return int64(len(v))
				case string:
					return int64(len(v))
				}
				in.fail(x, "len of that")
			case "int", "int64", "int32", "uint32":
				v, ok := in.eval(x.Args[0], sc).(int64)
				if !ok {
					in.fail(x, "integer conversion of a non-integer")
				}
				return v
			case "new":
				if src(x.Args[0]) == "big.Int" {
					return new(big.Int)
				}
				in.fail(x, "new(%s)", src(x.Args[0]))
			}
		}
	}
	var args []any
	for i, a := range x.Args {
		v := in.eval(a, sc)
		if x.Ellipsis.IsValid() && i == len(x.Args)-1 {
			l, ok := v.([]any)
			if !ok {
				in.fail(a, "spread of a non-slice")
			}
			args = append(args, l...)
		} else {
			args = append(args, v)
		}
	}
	// method call on a host value
	if sel, ok := x.Fun.(*ast.SelectorExpr); ok {
		isPkg := false
		if pkg, isId := sel.X.(*ast.Ident); isId {
			if _, isVar := sc.lookup(pkg.Name); !isVar {
				_, isPkg = in.bindings[pkg.Name+"."+sel.Sel.Name]
				if !isPkg {
					if _, isGlobal := in.globals[pkg.Name]; !isGlobal {
						in.fail(x, "%s.%s is not available to the interpreter", pkg.Name, sel.Sel.Name)
					}
				}
			}
		}
		if !isPkg {
			recv := in.eval(sel.X, sc)
			if recv == nil {
				in.fail(x, "method %s on nil", sel.Sel.Name)
			}
			switch recv.(type) {
			case decimal.Decimal, *big.Int, *xNumber, *xError, *xText, *bytes.Buffer, *strings.Builder:
			default:
				in.fail(x, "method %s on a %T", sel.Sel.Name, recv)
			}
			m := reflect.ValueOf(recv).MethodByName(sel.Sel.Name)
			if !m.IsValid() {
				in.fail(x, "no method %s on %T", sel.Sel.Name, recv)
			}
			return in.hostCall(x, m, args)
		}
	}
	return in.call(x, in.eval(x.Fun, sc), args)
}
