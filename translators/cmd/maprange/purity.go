package main

// Side-effect summaries for calls in VALUE position inside a map-range body.
//
// `xs = append(xs, alloc.Next(k))` followed by a sort looks like CollectThenSort, but if alloc.Next mutates alloc
// (or draws from an injected stream) the values collected depend on the visiting order.  A call whose result is used
// is therefore only transparent when its callee cannot write state that outlives the iteration.  Per goflow function
// we compute which kinds of state it may write (package-level, through its receiver, through its arguments, unknown),
// transitively over the static call graph (interface calls: every goflow method of that name); functions outside the
// module are classified by a table (pure standard-library packages, in-place mutators, everything else unknown).

import (
	"go/ast"
	"go/token"
	"go/types"
	"strings"

	"golang.org/x/tools/go/packages"
)

type effSummary struct {
	global, recv, param, unknown bool
}

func (s effSummary) any() bool { return s.global || s.recv || s.param || s.unknown }

type callEdge struct {
	callee   *types.Func
	recvKind string   // how the receiver expression is rooted in the caller: recv | param | global | fresh | other | ""
	argKinds []string // same for the reference-typed arguments
	iface    bool
}

type fnInfo struct {
	sum   effSummary
	edges []callEdge
}

// extSummary classifies a function that has no body in the goflow module
func extSummary(fn *types.Func) effSummary {
	if fn.Pkg() == nil {
		return effSummary{} // universe scope (error.Error)
	}
	p, n := fn.Pkg().Path(), fn.Name()
	sig, _ := fn.Type().(*types.Signature)
	recvT := ""
	if sig != nil && sig.Recv() != nil {
		recvT = sig.Recv().Type().String()
	}
	pure, wRecv, wParam, unk := effSummary{}, effSummary{recv: true}, effSummary{param: true}, effSummary{unknown: true}
	switch {
	case p == "strings":
		if strings.Contains(recvT, "Builder") || strings.Contains(recvT, "Reader") {
			return wRecv
		}
		return pure
	case p == "bytes":
		if strings.Contains(recvT, "Buffer") || strings.Contains(recvT, "Reader") {
			return wRecv
		}
		return pure
	case p == "strconv", p == "unicode", p == "unicode/utf8", p == "unicode/utf16", p == "math", p == "errors", p == "path",
		p == "path/filepath", p == "html", p == "regexp", p == "regexp/syntax", p == "encoding/base64", p == "encoding/hex",
		p == "math/bits", p == "cmp", p == "net/mail", p == "mime":
		return pure
	case p == "fmt":
		if strings.HasPrefix(n, "Sprint") || n == "Errorf" || n == "Sprintf" {
			return pure
		}
		if strings.HasPrefix(n, "Fprint") {
			return wParam
		}
		return unk
	case p == "time":
		return pure // time.Now / Since are stream sources, reported separately
	case p == "net/url":
		if strings.Contains(recvT, "Values") && (n == "Set" || n == "Add" || n == "Del") {
			return wRecv
		}
		return pure
	case p == "net/http":
		if strings.Contains(recvT, "Header") {
			if n == "Get" || n == "Values" || n == "Clone" {
				return pure
			}
			return wRecv
		}
		if n == "StatusText" || n == "CanonicalHeaderKey" {
			return pure
		}
		return unk
	case p == "encoding/json":
		if n == "Marshal" || n == "MarshalIndent" || n == "Valid" || recvT == "encoding/json.RawMessage" {
			return pure
		}
		return wParam
	case p == "sort":
		if n == "SearchStrings" || n == "SearchInts" || n == "Search" || strings.HasSuffix(n, "AreSorted") || n == "IsSorted" {
			return pure
		}
		return wParam
	case p == "slices":
		switch n {
		case "Sort", "SortFunc", "SortStableFunc", "Reverse", "Insert", "Delete", "DeleteFunc", "Compact", "CompactFunc", "Replace", "Grow", "Clip":
			return wParam
		}
		return pure
	case p == "maps", p == "golang.org/x/exp/maps":
		switch n {
		case "Copy", "DeleteFunc", "Insert", "Clear":
			return wParam
		}
		return pure
	case p == "reflect":
		if strings.HasPrefix(n, "Set") || n == "Call" || n == "Send" || n == "Append" {
			return unk
		}
		return pure
	case p == "math/big":
		if recvT != "" {
			return wRecv
		}
		return pure
	case p == "sync", p == "sync/atomic":
		return wRecv
	case strings.HasSuffix(p, "shopspring/decimal"), strings.HasSuffix(p, "Masterminds/semver"), strings.HasSuffix(p, "nyaruka/phonenumbers"),
		strings.HasPrefix(p, "golang.org/x/text"), strings.HasPrefix(p, "golang.org/x/net/http/httpguts"), strings.HasPrefix(p, "golang.org/x/exp/constraints"):
		if n == "UnmarshalJSON" || n == "UnmarshalText" || n == "Scan" {
			return wRecv
		}
		return pure
	case strings.HasSuffix(p, "gocommon/jsonx"):
		if strings.HasPrefix(n, "Unmarshal") || strings.HasPrefix(n, "MustUnmarshal") {
			return wParam
		}
		return pure
	case strings.HasSuffix(p, "gocommon/i18n"), strings.HasSuffix(p, "gocommon/urns"), strings.HasSuffix(p, "gocommon/stringsx"),
		strings.HasSuffix(p, "gocommon/dates"), strings.HasSuffix(p, "gocommon/uuids"), strings.HasSuffix(p, "gocommon/random"):
		if strings.HasPrefix(n, "Set") || n == "UnmarshalJSON" || n == "UnmarshalText" || n == "Scan" {
			return unk
		}
		return pure // Now / New* / random draws are stream sources, reported separately
	case strings.HasSuffix(p, "buger/jsonparser"):
		if n == "ObjectEach" || n == "ArrayEach" || n == "EachKey" {
			return unk // call back
		}
		return pure
	}
	return unk
}

func (a *analyzer) rootKindIn(info *types.Info, e ast.Expr, recv types.Object, params map[types.Object]bool, fresh map[types.Object]bool) string {
	r := rootIdent(e)
	if r == nil {
		switch ast.Unparen(e).(type) {
		case *ast.CompositeLit, *ast.BasicLit, *ast.FuncLit:
			return "fresh"
		case *ast.UnaryExpr:
			if u := ast.Unparen(e).(*ast.UnaryExpr); u.Op == token.AND {
				if _, ok := ast.Unparen(u.X).(*ast.CompositeLit); ok {
					return "fresh"
				}
				return a.rootKindIn(info, u.X, recv, params, fresh)
			}
		}
		return "other"
	}
	o := objOf(info, r)
	switch {
	case o == nil:
		return "other"
	case isPkgLevelObj(o):
		return "global"
	case o == recv:
		return "recv"
	case params[o]:
		return "param"
	case fresh[o]:
		return "fresh"
	}
	return "other"
}

func isPkgLevelObj(o types.Object) bool {
	v, ok := o.(*types.Var)
	if !ok || v.IsField() || v.Pkg() == nil {
		return false
	}
	return v.Parent() == v.Pkg().Scope()
}

func refTyped(t types.Type) bool {
	if t == nil {
		return true
	}
	switch u := t.Underlying().(type) {
	case *types.Pointer, *types.Map, *types.Slice, *types.Chan, *types.Interface, *types.Signature:
		return true
	case *types.Struct:
		for i := 0; i < u.NumFields(); i++ {
			if refTyped(u.Field(i).Type()) {
				return true
			}
		}
	case *types.Array:
		return refTyped(u.Elem())
	}
	return false
}

func (s *effSummary) addKind(kind string) {
	switch kind {
	case "global":
		s.global = true
	case "recv":
		s.recv = true
	case "param":
		s.param = true
	case "fresh":
	default:
		s.unknown = true
	}
}

// buildSummaries: local effects + call edges per goflow function, then a fixed point
func (a *analyzer) buildSummaries() {
	a.fninfo = map[*types.Func]*fnInfo{}
	for _, p := range a.pkgs {
		for _, f := range p.Syntax {
			for _, d := range f.Decls {
				fd, ok := d.(*ast.FuncDecl)
				if !ok || fd.Body == nil {
					continue
				}
				obj, _ := p.TypesInfo.Defs[fd.Name].(*types.Func)
				if obj == nil {
					continue
				}
				a.fninfo[obj] = a.scanFunc(p, fd)
			}
		}
	}
	for changed := true; changed; {
		changed = false
		for _, fi := range a.fninfo {
			before := fi.sum
			for _, e := range fi.edges {
				cs := a.calleeSummary(e.callee, e.iface)
				if cs.global {
					fi.sum.global = true
				}
				if cs.unknown {
					fi.sum.unknown = true
				}
				if cs.recv {
					fi.sum.addKind(e.recvKind)
				}
				if cs.param {
					for _, k := range e.argKinds {
						fi.sum.addKind(k)
					}
				}
			}
			if fi.sum != before {
				changed = true
			}
		}
	}
}

// calleeSummary: goflow function -> its summary; interface method -> union over the goflow methods of that name (plus
// the table when the interface is declared outside the module); other functions -> the table
func (a *analyzer) calleeSummary(fn *types.Func, iface bool) effSummary {
	fn = fn.Origin()
	if fi, ok := a.fninfo[fn]; ok {
		return fi.sum
	}
	if iface {
		var s effSummary
		found := false
		for _, m := range a.methods[fn.Name()] {
			if fi, ok := a.fninfo[m]; ok {
				found = true
				s.global = s.global || fi.sum.global
				s.recv = s.recv || fi.sum.recv
				s.param = s.param || fi.sum.param
				s.unknown = s.unknown || fi.sum.unknown
			}
		}
		if fn.Pkg() != nil && !strings.HasPrefix(fn.Pkg().Path(), modPath) {
			e := extSummary(fn)
			if found && e.unknown && !e.global {
				e.unknown = false // implemented inside the module: the implementations decide
			}
			s.global, s.recv, s.param, s.unknown = s.global || e.global, s.recv || e.recv, s.param || e.param, s.unknown || e.unknown
		} else if !found {
			// interface of the module without any implementation in the library (services supplied by the embedder)
			s.unknown = true
		}
		return s
	}
	return extSummary(fn)
}

func (a *analyzer) scanFunc(p *packages.Package, fd *ast.FuncDecl) *fnInfo {
	info := p.TypesInfo
	fi := &fnInfo{}
	var recv types.Object
	params := map[types.Object]bool{}
	fresh := map[types.Object]bool{}
	if fd.Recv != nil && len(fd.Recv.List) > 0 && len(fd.Recv.List[0].Names) > 0 {
		recv = info.Defs[fd.Recv.List[0].Names[0]]
	}
	addParams := func(fl *ast.FieldList) {
		if fl == nil {
			return
		}
		for _, f := range fl.List {
			for _, id := range f.Names {
				if o := info.Defs[id]; o != nil {
					params[o] = true
				}
			}
		}
	}
	addParams(fd.Type.Params)
	// fresh locals: initialised by an allocation and never re-assigned from something else; named results
	if fd.Type.Results != nil {
		for _, f := range fd.Type.Results.List {
			for _, id := range f.Names {
				if o := info.Defs[id]; o != nil {
					fresh[o] = true
				}
			}
		}
	}
	isFresh := func(e ast.Expr) bool {
		switch x := ast.Unparen(e).(type) {
		case *ast.CompositeLit, *ast.BasicLit, *ast.FuncLit:
			return true
		case *ast.UnaryExpr:
			if x.Op == token.AND {
				_, ok := ast.Unparen(x.X).(*ast.CompositeLit)
				return ok
			}
		case *ast.CallExpr:
			if id, ok := ast.Unparen(x.Fun).(*ast.Ident); ok {
				if b, ok := info.Uses[id].(*types.Builtin); ok && (b.Name() == "make" || b.Name() == "new") {
					return true
				}
			}
			if tv, ok := info.Types[x.Fun]; ok && tv.IsType() {
				return false
			}
		}
		return false
	}
	ast.Inspect(fd.Body, func(n ast.Node) bool {
		switch x := n.(type) {
		case *ast.FuncLit:
			addParams(x.Type.Params)
		case *ast.AssignStmt:
			if x.Tok == token.DEFINE {
				for i, l := range x.Lhs {
					if id, ok := l.(*ast.Ident); ok {
						if o := info.Defs[id]; o != nil {
							if len(x.Lhs) == len(x.Rhs) && (isFresh(x.Rhs[i]) || !refTyped(o.Type())) {
								fresh[o] = true
							}
						}
					}
				}
			}
		case *ast.ValueSpec:
			for i, id := range x.Names {
				if o := info.Defs[id]; o != nil {
					if len(x.Values) == 0 || (i < len(x.Values) && isFresh(x.Values[i])) || !refTyped(o.Type()) {
						fresh[o] = true
					}
				}
			}
		case *ast.RangeStmt:
			for _, l := range []ast.Expr{x.Key, x.Value} {
				if id, ok := l.(*ast.Ident); ok && x.Tok == token.DEFINE {
					if o := info.Defs[id]; o != nil && !refTyped(o.Type()) {
						fresh[o] = true
					}
				}
			}
		}
		return true
	})
	// a fresh local re-assigned from something that is not fresh may alias anything
	ast.Inspect(fd.Body, func(n ast.Node) bool {
		if x, ok := n.(*ast.AssignStmt); ok && x.Tok == token.ASSIGN {
			for i, l := range x.Lhs {
				if id, ok := l.(*ast.Ident); ok {
					if o := info.Uses[id]; o != nil && fresh[o] && refTyped(o.Type()) {
						if len(x.Lhs) != len(x.Rhs) || !isFresh(x.Rhs[i]) {
							// x = append(x, ..) keeps freshness
							keep := false
							if len(x.Lhs) == len(x.Rhs) {
								if ce, ok := ast.Unparen(x.Rhs[i]).(*ast.CallExpr); ok {
									if fid, ok := ast.Unparen(ce.Fun).(*ast.Ident); ok {
										if b, ok := info.Uses[fid].(*types.Builtin); ok && b.Name() == "append" && len(ce.Args) > 0 {
											if aid, ok := ast.Unparen(ce.Args[0]).(*ast.Ident); ok && info.Uses[aid] == o {
												keep = true
											}
										}
									}
								}
							}
							if !keep {
								delete(fresh, o)
							}
						}
					}
				}
			}
		}
		return true
	})
	write := func(lhs ast.Expr) {
		lhs = ast.Unparen(lhs)
		if id, ok := lhs.(*ast.Ident); ok {
			if id.Name == "_" {
				return
			}
			if o := objOf(info, id); o != nil && isPkgLevelObj(o) {
				fi.sum.global = true
			}
			return // assignment to a local / parameter variable itself
		}
		kind := a.rootKindIn(info, lhs, recv, params, fresh)
		// a direct field assignment on a by-value struct receiver / parameter changes the copy only
		if sel, ok := lhs.(*ast.SelectorExpr); ok && (kind == "recv" || kind == "param") {
			if id, ok := ast.Unparen(sel.X).(*ast.Ident); ok {
				if o := objOf(info, id); o != nil {
					if _, isStruct := o.Type().Underlying().(*types.Struct); isStruct {
						return
					}
				}
			}
		}
		fi.sum.addKind(kind)
	}
	ast.Inspect(fd.Body, func(n ast.Node) bool {
		switch x := n.(type) {
		case *ast.AssignStmt:
			for _, l := range x.Lhs {
				if x.Tok == token.DEFINE {
					if id, ok := l.(*ast.Ident); ok && info.Defs[id] != nil {
						continue
					}
				}
				write(l)
			}
		case *ast.IncDecStmt:
			write(x.X)
		case *ast.SendStmt, *ast.GoStmt:
			fi.sum.unknown = true
		case *ast.RangeStmt:
			if x.Tok == token.ASSIGN {
				for _, l := range []ast.Expr{x.Key, x.Value} {
					if l != nil {
						write(l)
					}
				}
			}
		case *ast.CallExpr:
			if tv, ok := info.Types[x.Fun]; ok && tv.IsType() {
				return true
			}
			fun := ast.Unparen(x.Fun)
			if id, ok := fun.(*ast.Ident); ok {
				if b, ok := info.Uses[id].(*types.Builtin); ok {
					switch b.Name() {
					case "delete", "clear", "copy":
						if len(x.Args) > 0 {
							write(&ast.IndexExpr{X: x.Args[0], Index: &ast.Ident{Name: "i"}})
						}
					}
					return true
				}
			}
			fn := calleeFunc(info, x)
			if fn == nil {
				fi.sum.unknown = true // function value
				return true
			}
			e := callEdge{callee: fn}
			if sig, ok := fn.Type().(*types.Signature); ok && sig.Recv() != nil {
				_, e.iface = sig.Recv().Type().Underlying().(*types.Interface)
				if sel, ok := fun.(*ast.SelectorExpr); ok {
					e.recvKind = a.rootKindIn(info, sel.X, recv, params, fresh)
				} else {
					e.recvKind = "other"
				}
			}
			for _, arg := range x.Args {
				if refTyped(info.TypeOf(arg)) {
					e.argKinds = append(e.argKinds, a.rootKindIn(info, arg, recv, params, fresh))
				}
			}
			fi.edges = append(fi.edges, e)
		}
		return true
	})
	return fi
}

// callImpure: may this call (in value position inside a map-range body) write state that outlives the iteration?
// `ownedRoot` tells whether an expression is rooted at a per-iteration local of the loop.
func (a *analyzer) callImpure(info *types.Info, ce *ast.CallExpr, fn *types.Func, ownedRoot func(ast.Expr) bool) bool {
	iface := false
	if sig, ok := fn.Type().(*types.Signature); ok && sig.Recv() != nil {
		_, iface = sig.Recv().Type().Underlying().(*types.Interface)
	}
	s := a.calleeSummary(fn, iface)
	if s.global || s.unknown {
		return true
	}
	if s.recv {
		if sel, ok := ast.Unparen(ce.Fun).(*ast.SelectorExpr); ok {
			if !ownedRoot(sel.X) {
				return true
			}
		} else {
			return true
		}
	}
	if s.param {
		for _, arg := range ce.Args {
			if refTyped(info.TypeOf(arg)) && !ownedRoot(arg) {
				return true
			}
		}
	}
	return false
}
