// maprange — translator for property C08 (determinism): writes coq/gen/MapRangeSites.v.
//
// Every place where goflow's non-test, non-generated code observes the iteration order of a Go map is a
// *site*:   `for k, v := range m` with m of map type,   and calls that expose the same order
// (`maps.Keys/Values/All`, x/exp `maps.Keys/Values`, `reflect.Value.MapKeys/MapRange`).
// Per site the translator emits
//
//	id      = (package path relative to the module, enclosing function, ordinal of the site in that function)
//	effects = the *shape descriptor*: the set of effects of the loop body that can carry iteration order to
//	          the outside, computed syntactically (with go/types for resolution):
//	            map-index write keyed by the loop key / by something else, delete, append to a slice (with
//	            what sorts that slice later in the function, before the first `return` after the loop),
//	            numeric / float / string accumulation, assignment to outer state, flag set, early return
//	            (constant / error / value), break, callback call, call statement (discarded result),
//	            string building, consumption of an injected stream (uuid / clock / random, transitively),
//	            channel send, go, defer, panic.
//
// The descriptor is a set (sorted, de-duplicated), not a hash of the body: edits that do not add a kind of
// effect leave it unchanged.  Classification of descriptors is done in Coq (model/MapOrder.v,
// model/MapRangeExceptions.v); this program only extracts.
//
// Fails loudly (exit 2) when packages do not load / type-check or when no site is found.
package main

import (
	"flag"
	"fmt"
	"go/ast"
	"go/token"
	"go/types"
	"os"
	"path/filepath"
	"sort"
	"strings"
	"time"

	"golang.org/x/tools/go/packages"
)

// module whose packages are being analysed: goflow, and in the second pass the dependency github.com/nyaruka/gocommon
var modPath = "github.com/nyaruka/goflow"

const depPath = "github.com/nyaruka/gocommon"

// packages that are not part of the engine library: command line tools, test helpers, generated parsers
var skipPrefixes = []string{"cmd/", "test", "antlr/gen/"}

type site struct {
	Pkg, Func string
	Ord       int
	Callers   int    // references to the enclosing function in non-test goflow code
	Kind      string // "range" | "call:<name>"
	MapType   string
	Pos       string
	Effects   []string // Coq terms
}

type funcKey = *types.Func

type analyzer struct {
	fset      *token.FileSet
	pkgs      []*packages.Package
	callees   map[funcKey]map[funcKey]bool // static call graph over goflow functions
	bodyOf    map[funcKey]bool
	streamy   map[funcKey]bool          // consumes uuid / clock / random stream (transitively)
	methods   map[string][]funcKey      // goflow methods by name (for interface calls)
	decls     map[funcKey]*ast.FuncDecl // bodies, to look into small helpers
	declInfo  map[funcKey]*types.Info
	fninfo    map[*types.Func]*fnInfo // side-effect summaries (purity.go)
	uses      map[funcKey]int         // references (calls and method values) per function, non-test goflow code
	ifaceUses map[string]int          // references to interface methods, by method name
}

func fatal(f string, a ...any) {
	fmt.Fprintf(os.Stderr, "maprange: "+f+"\n", a...)
	os.Exit(2)
}

func main() {
	repo := flag.String("repo", "/repo", "goflow working tree")
	out := flag.String("out", "coq/gen", "output directory")
	list := flag.Bool("list", false, "print the sites to stdout")
	flag.Parse()

	absRepo, _ := filepath.Abs(*repo)
	env := os.Environ()
	cfg := &packages.Config{
		Mode: packages.NeedName | packages.NeedFiles | packages.NeedCompiledGoFiles | packages.NeedSyntax |
			packages.NeedTypes | packages.NeedTypesInfo | packages.NeedImports | packages.NeedDeps,
		Dir:   absRepo,
		Tests: false,
		Env:   env,
	}
	// the working tree may be in the middle of a commit / another go command may hold the module cache: a load that
	// fails or reports package errors is retried before it counts as "the tie is broken"
	var pkgs []*packages.Package
	var err error
	for attempt := 0; attempt < 4; attempt++ {
		pkgs, err = packages.Load(cfg, "./...")
		bad := err != nil
		for _, p := range pkgs {
			if len(p.Errors) > 0 {
				bad = true
			}
		}
		if !bad {
			break
		}
		time.Sleep(time.Duration(3*(attempt+1)) * time.Second)
	}
	if err != nil {
		fatal("load: %v", err)
	}
	var mine []*packages.Package
	for _, p := range pkgs {
		if len(p.Errors) > 0 {
			fatal("package %s has errors: %v", p.PkgPath, p.Errors[0])
		}
		if p.PkgPath != modPath && !strings.HasPrefix(p.PkgPath, modPath+"/") {
			continue
		}
		mine = append(mine, p)
	}
	if len(mine) < 20 {
		fatal("only %d goflow packages loaded from %s", len(mine), absRepo)
	}
	sort.Slice(mine, func(i, j int) bool { return mine[i].PkgPath < mine[j].PkgPath })

	a := &analyzer{fset: pkgs[0].Fset, pkgs: mine}
	a.buildCallGraph()
	a.buildSummaries()
	a.countUses()
	versions := a.registeredVersions()

	var sites []site
	scanned := 0
	for _, p := range mine {
		rel := strings.TrimPrefix(strings.TrimPrefix(p.PkgPath, modPath), "/")
		if rel == "" {
			rel = "."
		}
		skip := false
		for _, sp := range skipPrefixes {
			if rel == strings.TrimSuffix(sp, "/") || strings.HasPrefix(rel+"/", sp) || strings.HasPrefix(rel, sp) {
				skip = true
			}
		}
		if skip {
			continue
		}
		for i, f := range p.Syntax {
			name := p.CompiledGoFiles[i]
			if strings.HasSuffix(name, "_test.go") || isGenerated(f) {
				continue
			}
			scanned++
			sites = append(sites, a.fileSites(p, rel, f)...)
		}
	}
	if len(sites) == 0 {
		fatal("no map-range site found in %d files: source layout changed?", scanned)
	}
	sort.SliceStable(sites, func(i, j int) bool {
		if sites[i].Pkg != sites[j].Pkg {
			return sites[i].Pkg < sites[j].Pkg
		}
		if sites[i].Func != sites[j].Func {
			return sites[i].Func < sites[j].Func
		}
		return sites[i].Ord < sites[j].Ord
	})

	var sb strings.Builder
	sb.WriteString("(* GENERATED by translators/cmd/maprange from the goflow working tree -- do not edit.\n")
	sb.WriteString("   One entry per place where non-test, non-generated goflow code observes Go map iteration order. *)\n")
	sb.WriteString("From Coq Require Import List String NArith.\nFrom Verif Require Import model.MapOrder.\nImport ListNotations.\nOpen Scope string_scope.\n\n")
	fmt.Fprintf(&sb, "Definition map_range_files_scanned : nat := %d.\n\n", scanned)
	sb.WriteString("Definition map_range_sites : list site := [\n")
	for i, s := range sites {
		sep := ";"
		if i == len(sites)-1 {
			sep = ""
		}
		fmt.Fprintf(&sb, "  (* %s  %s  %s *)\n", s.Pos, s.Kind, safeWords(strings.ReplaceAll(s.MapType, "*)", "* )")))
		fmt.Fprintf(&sb, "  {| s_pkg := %s; s_func := %s; s_ord := %d; s_maptype := %s; s_callers := %d; s_effects := [%s] |}%s\n",
			coqString(s.Pkg), coqString(s.Func), s.Ord, coqString(s.MapType), s.Callers, strings.Join(s.Effects, "; "), sep)
	}
	sb.WriteString("].\n\n")
	// second pass: the packages of github.com/nyaruka/gocommon that goflow imports (urns, dates, i18n, jsonx ...), read
	// from the module cache: goflow's output goes through them, so their map iteration is part of the census
	depPkgs := map[string]bool{}
	var visitImports func(p *packages.Package)
	seenPkg := map[string]bool{}
	visitImports = func(p *packages.Package) {
		if seenPkg[p.PkgPath] {
			return
		}
		seenPkg[p.PkgPath] = true
		if p.PkgPath == depPath || strings.HasPrefix(p.PkgPath, depPath+"/") {
			depPkgs[p.PkgPath] = true
		}
		for _, ip := range p.Imports {
			visitImports(ip)
		}
	}
	for _, p := range mine {
		visitImports(p)
	}
	var depPatterns []string
	for pp := range depPkgs {
		depPatterns = append(depPatterns, pp)
	}
	sort.Strings(depPatterns)
	var depSites []site
	depScanned := 0
	if len(depPatterns) > 0 {
		dpkgs, err := packages.Load(cfg, depPatterns...)
		if err != nil {
			fatal("load %s: %v", depPath, err)
		}
		var dmine []*packages.Package
		for _, p := range dpkgs {
			if len(p.Errors) > 0 {
				fatal("package %s has errors: %v", p.PkgPath, p.Errors[0])
			}
			if p.PkgPath == depPath || strings.HasPrefix(p.PkgPath, depPath+"/") {
				dmine = append(dmine, p)
			}
		}
		sort.Slice(dmine, func(i, j int) bool { return dmine[i].PkgPath < dmine[j].PkgPath })
		modPath = depPath
		da := &analyzer{fset: dpkgs[0].Fset, pkgs: dmine}
		da.buildCallGraph()
		da.buildSummaries()
		da.countUses()
		for _, p := range dmine {
			rel := "gocommon/" + strings.TrimPrefix(strings.TrimPrefix(p.PkgPath, depPath), "/")
			for i, f := range p.Syntax {
				name := p.CompiledGoFiles[i]
				if strings.HasSuffix(name, "_test.go") || isGenerated(f) {
					continue
				}
				depScanned++
				depSites = append(depSites, da.fileSites(p, rel, f)...)
			}
		}
		modPath = "github.com/nyaruka/goflow"
		// callers of a dependency site = references FROM goflow's library code to the enclosing function, or, for a
		// method, to its receiver type or any function of the dependency package that mentions the type in its name
		// (constructors): a mock that only goflow's tests use has none
		refs := map[string]int{} // "pkgpath.Name" -> references from non-test, non-skipped goflow packages
		for _, p := range mine {
			rel := strings.TrimPrefix(strings.TrimPrefix(p.PkgPath, modPath), "/")
			skip := false
			for _, sp := range skipPrefixes {
				if rel == strings.TrimSuffix(sp, "/") || strings.HasPrefix(rel+"/", sp) || strings.HasPrefix(rel, sp) {
					skip = true
				}
			}
			if skip {
				continue
			}
			for _, obj := range p.TypesInfo.Uses {
				if obj.Pkg() != nil && strings.HasPrefix(obj.Pkg().Path(), depPath) {
					refs[obj.Pkg().Path()+"."+obj.Name()]++
				}
			}
		}
		for i := range depSites {
			pp := depPath + strings.TrimPrefix(depSites[i].Pkg, "gocommon")
			fn := depSites[i].Func
			n := 0
			if k := strings.Index(fn, "."); k > 0 {
				recv := fn[:k]
				for name, c := range refs {
					if strings.HasPrefix(name, pp+".") && strings.Contains(name[len(pp)+1:], recv) {
						n += c
					}
				}
			} else if fn == "init" || strings.HasPrefix(fn, "var") {
				n = 1
			} else {
				n = refs[pp+"."+fn]
				// unexported helper: reachable when anything of its package is used
				if len(fn) > 0 && fn[0] >= 'a' && fn[0] <= 'z' {
					for name, c := range refs {
						if strings.HasPrefix(name, pp+".") {
							n += c
						}
					}
				}
			}
			depSites[i].Callers = n
		}
		sort.SliceStable(depSites, func(i, j int) bool {
			if depSites[i].Pkg != depSites[j].Pkg {
				return depSites[i].Pkg < depSites[j].Pkg
			}
			if depSites[i].Func != depSites[j].Func {
				return depSites[i].Func < depSites[j].Func
			}
			return depSites[i].Ord < depSites[j].Ord
		})
	}
	sb.WriteString("(* the packages of github.com/nyaruka/gocommon that goflow imports, read from the module cache *)\n")
	fmt.Fprintf(&sb, "Definition dep_files_scanned : nat := %d.\n", depScanned)
	sb.WriteString("Definition dep_map_range_sites : list site := [\n")
	for i, s := range depSites {
		sep := ";"
		if i == len(depSites)-1 {
			sep = ""
		}
		fmt.Fprintf(&sb, "  (* %s  %s *)\n", s.Pos, s.Kind)
		fmt.Fprintf(&sb, "  {| s_pkg := %s; s_func := %s; s_ord := %d; s_maptype := %s; s_callers := %d; s_effects := [%s] |}%s\n",
			coqString(s.Pkg), coqString(s.Func), s.Ord, coqString(s.MapType), s.Callers, strings.Join(s.Effects, "; "), sep)
	}
	sb.WriteString("].\n\n")
	if *list {
		for _, s := range depSites {
			fmt.Printf("DEP %-26s %-40s %d c=%d %-24s [%s]   %s\n", s.Pkg, s.Func, s.Ord, s.Callers, s.Pos, strings.Join(s.Effects, "; "), s.MapType)
		}
	}
	sb.WriteString("(* flows/definition/migrations: the versions passed to registerMigration, in source order *)\n")
	sb.WriteString("Definition registered_versions : list (N * N * N) := [")
	for i, v := range versions {
		if i > 0 {
			sb.WriteString("; ")
		}
		fmt.Fprintf(&sb, "(%d, %d, %d)%%N", v[0], v[1], v[2])
	}
	sb.WriteString("].\n\n")
	sb.WriteString("(* references to wall clock, global random source, process identity ... (not the injected sources) in library code *)\n")
	sb.WriteString("Definition ambient_calls : list ambient_call := [")
	amb := a.ambientCalls()
	for i, x := range amb {
		if i > 0 {
			sb.WriteString(";")
		}
		fmt.Fprintf(&sb, "\n  (* %s *) {| am_pkg := %s; am_func := %s; am_callee := %s |}", x.Pos, coqString(x.Pkg), coqString(x.Func), coqString(x.Callee))
	}
	sb.WriteString("].\n")

	if *list {
		for _, x := range amb {
			fmt.Printf("ambient %-30s %-40s %-20s %s\n", x.Pkg, x.Func, x.Callee, x.Pos)
		}
		for _, s := range sites {
			fmt.Printf("%-34s %-44s %d c=%d %-28s [%s]   %s\n", s.Pkg, s.Func, s.Ord, s.Callers, s.Pos, strings.Join(s.Effects, "; "), s.MapType)
		}
	}
	if err := os.MkdirAll(*out, 0o755); err != nil {
		fatal("%v", err)
	}
	path := filepath.Join(*out, "MapRangeSites.v")
	old, _ := os.ReadFile(path)
	if string(old) != sb.String() {
		if err := os.WriteFile(path+".tmp", []byte(sb.String()), 0o644); err != nil {
			fatal("%v", err)
		}
		if err := os.Rename(path+".tmp", path); err != nil {
			fatal("%v", err)
		}
	}
	fmt.Fprintf(os.Stderr, "maprange: %d sites in %d files\n", len(sites), scanned)
}

func isGenerated(f *ast.File) bool {
	for _, cg := range f.Comments {
		if cg.Pos() > f.Package {
			break
		}
		for _, c := range cg.List {
			if strings.Contains(c.Text, "Code generated") && strings.Contains(c.Text, "DO NOT EDIT") {
				return true
			}
		}
	}
	return false
}

// words the framework's source scan rejects anywhere in a Coq file (also inside strings and comments): a goflow
// identifier that happens to be one of them is written with an inserted apostrophe
var scanWords = []string{"Admitted", "admit", "Axiom", "Axioms", "Parameter", "Parameters", "Conjecture", "Conjectures", "bypass_check", "native_compute"}

func safeWords(s string) string {
	for _, w := range scanWords {
		for i := 0; ; {
			j := strings.Index(s[i:], w)
			if j < 0 {
				break
			}
			j += i
			before := j == 0 || !isWordByte(s[j-1])
			after := j+len(w) == len(s) || !isWordByte(s[j+len(w)])
			if before && after {
				s = s[:j+1] + "'" + s[j+1:]
			}
			i = j + 1
		}
	}
	return s
}

func isWordByte(b byte) bool {
	return b == '_' || b >= '0' && b <= '9' || b >= 'a' && b <= 'z' || b >= 'A' && b <= 'Z'
}

func coqString(s string) string {
	return "\"" + strings.ReplaceAll(safeWords(s), "\"", "\"\"") + "\""
}

// ambient sources: calls that read incidental process state instead of the injected clock / UUID / random sources
func ambientCallee(fn *types.Func) string {
	if fn == nil || fn.Pkg() == nil {
		return ""
	}
	p, n := fn.Pkg().Path(), fn.Name()
	sig, _ := fn.Type().(*types.Signature)
	isMethod := sig != nil && sig.Recv() != nil
	switch {
	case p == "time" && !isMethod && n == "LoadLocation":
		return "time.LoadLocation" // the name "Local" answers the zone of the process ($TZ, /etc/localtime)
	case p == "time" && !isMethod && (n == "Unix" || n == "UnixMilli" || n == "UnixMicro"):
		return "time.Unix" // the result carries the zone of the process until it is moved with In(..)
	case p == "time" && isMethod && n == "Local":
		return "time.Time.Local"
	case p == "time" && !isMethod && (n == "Now" || n == "Since" || n == "Until" || n == "After" || n == "Tick" || n == "NewTimer" || n == "NewTicker" || n == "AfterFunc"):
		return "time." + n
	case (p == "math/rand" || p == "math/rand/v2") && !isMethod && n != "New" && n != "NewSource" && n != "NewPCG" && n != "NewChaCha8" && n != "NewZipf":
		return p + "." + n
	case p == "crypto/rand":
		return "crypto/rand." + n
	case p == "os" && !isMethod && (n == "Getpid" || n == "Getppid" || n == "Hostname" || n == "Getenv" || n == "LookupEnv" || n == "Environ" || n == "Getwd" || n == "Executable"):
		return "os." + n
	case p == "runtime" && (n == "NumGoroutine" || n == "NumCPU" || n == "GOMAXPROCS" || n == "Stack" || n == "Caller" || n == "Callers"):
		return "runtime." + n
	case strings.HasSuffix(p, "google/uuid") && !isMethod && strings.HasPrefix(n, "New"):
		return "uuid." + n
	}
	return ""
}

type ambient struct {
	Pkg, Func, Callee, Pos string
}

func (a *analyzer) ambientCalls() []ambient {
	var res []ambient
	for _, p := range a.pkgs {
		rel := strings.TrimPrefix(strings.TrimPrefix(p.PkgPath, modPath), "/")
		skip := false
		for _, sp := range skipPrefixes {
			if rel == strings.TrimSuffix(sp, "/") || strings.HasPrefix(rel+"/", sp) || strings.HasPrefix(rel, sp) {
				skip = true
			}
		}
		if skip {
			continue
		}
		for i, f := range p.Syntax {
			if strings.HasSuffix(p.CompiledGoFiles[i], "_test.go") || isGenerated(f) {
				continue
			}
			for _, d := range f.Decls {
				name := "var"
				if fd, ok := d.(*ast.FuncDecl); ok {
					name = fd.Name.Name
					if fd.Recv != nil && len(fd.Recv.List) > 0 {
						name = recvName(fd.Recv.List[0].Type) + "." + name
					}
				}
				ast.Inspect(d, func(n ast.Node) bool {
					// any reference counts (a call, or the function taken as a value)
					id, ok := n.(*ast.Ident)
					if !ok {
						return true
					}
					if fn, ok := p.TypesInfo.Uses[id].(*types.Func); ok {
						if c := ambientCallee(fn); c != "" {
							res = append(res, ambient{rel, name, c, a.pos(id.Pos())})
						}
					}
					if v, ok := p.TypesInfo.Uses[id].(*types.Var); ok && v.Pkg() != nil && v.Pkg().Path() == "time" && v.Name() == "Local" && !v.IsField() {
						res = append(res, ambient{rel, name, "time.Local", a.pos(id.Pos())})
					}
					return true
				})
			}
		}
	}
	sort.Slice(res, func(i, j int) bool {
		if res[i].Pkg != res[j].Pkg {
			return res[i].Pkg < res[j].Pkg
		}
		if res[i].Func != res[j].Func {
			return res[i].Func < res[j].Func
		}
		return res[i].Pos < res[j].Pos
	})
	return res
}

// registeredVersions reads the calls registerMigration(semver.MustParse("x.y.z"), ...) of the migrations package
func (a *analyzer) registeredVersions() [][3]int {
	var res [][3]int
	found := false
	for _, p := range a.pkgs {
		if !strings.HasSuffix(p.PkgPath, "flows/definition/migrations") {
			continue
		}
		found = true
		for _, f := range p.Syntax {
			ast.Inspect(f, func(n ast.Node) bool {
				ce, ok := n.(*ast.CallExpr)
				if !ok {
					return true
				}
				id, ok := ce.Fun.(*ast.Ident)
				if !ok || id.Name != "registerMigration" {
					return true
				}
				if len(ce.Args) != 2 {
					fatal("registerMigration call with %d arguments at %s", len(ce.Args), a.pos(ce.Pos()))
				}
				inner, ok := ce.Args[0].(*ast.CallExpr)
				if !ok || len(inner.Args) != 1 {
					fatal("registerMigration: version is not semver.MustParse(literal) at %s", a.pos(ce.Pos()))
				}
				lit, ok := inner.Args[0].(*ast.BasicLit)
				if !ok || lit.Kind != token.STRING {
					fatal("registerMigration: version is not a string literal at %s", a.pos(ce.Pos()))
				}
				var v [3]int
				if n, err := fmt.Sscanf(strings.Trim(lit.Value, "\"`"), "%d.%d.%d", &v[0], &v[1], &v[2]); n != 3 || err != nil {
					fatal("registerMigration: cannot read version %s", lit.Value)
				}
				res = append(res, v)
				return true
			})
		}
	}
	if !found || len(res) == 0 {
		fatal("no registerMigration(semver.MustParse(..), ..) call found: source layout changed?")
	}
	return res
}

// countUses: references to every function / method (calls and method values) in the non-test goflow code
func (a *analyzer) countUses() {
	a.uses = map[funcKey]int{}
	a.ifaceUses = map[string]int{}
	for _, p := range a.pkgs {
		for id, obj := range p.TypesInfo.Uses {
			fn, ok := obj.(*types.Func)
			if !ok {
				continue
			}
			_ = id
			fn = fn.Origin()
			a.uses[fn]++
			if sig, ok := fn.Type().(*types.Signature); ok && sig.Recv() != nil {
				if _, isIface := sig.Recv().Type().Underlying().(*types.Interface); isIface {
					a.ifaceUses[fn.Name()]++
				}
			}
		}
	}
}

func (a *analyzer) callersOf(fn *types.Func) int {
	if fn == nil {
		return 1 // initializer expressions, init(): run by the runtime
	}
	if fn.Name() == "init" || fn.Name() == "main" {
		return 1
	}
	n := a.uses[fn.Origin()]
	if sig, ok := fn.Type().(*types.Signature); ok && sig.Recv() != nil {
		n += a.ifaceUses[fn.Name()] // may be reached through any interface with a method of that name
		if fn.Exported() {
			// exported methods of exported types can be called by the embedding application
			if named := recvNamed(sig.Recv().Type()); named != nil && named.Obj().Exported() {
				n++
			}
		}
	} else if fn.Exported() {
		n++ // exported function: callable by the embedding application
	}
	return n
}

func recvNamed(t types.Type) *types.Named {
	if p, ok := t.(*types.Pointer); ok {
		t = p.Elem()
	}
	n, _ := t.(*types.Named)
	return n
}

// ------------------------------------------------------------------------------------------------
// call graph: which goflow functions consume the injected uuid / clock / random streams

func isStreamSource(fn *types.Func) bool {
	if fn.Pkg() == nil {
		return false
	}
	p, n := fn.Pkg().Path(), fn.Name()
	switch {
	case strings.HasSuffix(p, "gocommon/uuids") && (strings.HasPrefix(n, "New") && n != "NewSeededGenerator"):
		return true
	case strings.HasSuffix(p, "gocommon/dates") && (n == "Now" || n == "Since"):
		return true
	case strings.HasSuffix(p, "gocommon/random"):
		return n != "SetGenerator" && n != "NewSeededGenerator"
	case p == "time" && (n == "Now" || n == "Since"):
		return true
	case p == "math/rand" || p == "math/rand/v2" || p == "crypto/rand":
		return true
	}
	return false
}

func (a *analyzer) buildCallGraph() {
	a.callees = map[funcKey]map[funcKey]bool{}
	a.streamy = map[funcKey]bool{}
	a.methods = map[string][]funcKey{}
	a.bodyOf = map[funcKey]bool{}
	for _, p := range a.pkgs {
		for _, f := range p.Syntax {
			for _, d := range f.Decls {
				fd, ok := d.(*ast.FuncDecl)
				if !ok || fd.Body == nil {
					continue
				}
				obj, _ := p.TypesInfo.Defs[fd.Name].(*types.Func)
				if obj == nil {
					continue
				}
				a.bodyOf[obj] = true
				if a.decls == nil {
					a.decls = map[funcKey]*ast.FuncDecl{}
					a.declInfo = map[funcKey]*types.Info{}
				}
				a.decls[obj] = fd
				a.declInfo[obj] = p.TypesInfo
				if fd.Recv != nil {
					a.methods[obj.Name()] = append(a.methods[obj.Name()], obj)
				}
				set := map[funcKey]bool{}
				a.callees[obj] = set
				ast.Inspect(fd.Body, func(n ast.Node) bool {
					ce, ok := n.(*ast.CallExpr)
					if !ok {
						return true
					}
					if fn := calleeFunc(p.TypesInfo, ce); fn != nil {
						set[fn] = true
					}
					return true
				})
			}
		}
	}
	// fixed point
	for changed := true; changed; {
		changed = false
		for fn, cs := range a.callees {
			if a.streamy[fn] {
				continue
			}
			for c := range cs {
				if a.fnStreamy(c) {
					a.streamy[fn] = true
					changed = true
					break
				}
			}
		}
	}
}

// fnStreamy: c is a stream source, a goflow function known to consume, or an interface method one of whose
// goflow implementations (by name) consumes
func (a *analyzer) fnStreamy(c *types.Func) bool {
	if isStreamSource(c) || a.streamy[c] {
		return true
	}
	if sig, ok := c.Type().(*types.Signature); ok && sig.Recv() != nil {
		if _, isIface := sig.Recv().Type().Underlying().(*types.Interface); isIface {
			for _, m := range a.methods[c.Name()] {
				if a.streamy[m] {
					return true
				}
			}
		}
	}
	return false
}

func calleeFunc(info *types.Info, ce *ast.CallExpr) *types.Func {
	var id *ast.Ident
	switch f := ast.Unparen(ce.Fun).(type) {
	case *ast.Ident:
		id = f
	case *ast.SelectorExpr:
		id = f.Sel
	case *ast.IndexExpr: // generic instantiation f[T](..)
		switch g := ast.Unparen(f.X).(type) {
		case *ast.Ident:
			id = g
		case *ast.SelectorExpr:
			id = g.Sel
		}
	}
	if id == nil {
		return nil
	}
	fn, _ := info.Uses[id].(*types.Func)
	return fn
}

// ------------------------------------------------------------------------------------------------
// sites

func (a *analyzer) fileSites(p *packages.Package, rel string, f *ast.File) []site {
	var res []site
	for _, d := range f.Decls {
		switch decl := d.(type) {
		case *ast.FuncDecl:
			if decl.Body == nil {
				continue
			}
			name := decl.Name.Name
			if decl.Recv != nil && len(decl.Recv.List) > 0 {
				name = recvName(decl.Recv.List[0].Type) + "." + name
			}
			named := false
			if decl.Type.Results != nil {
				for _, f := range decl.Type.Results.List {
					if len(f.Names) > 0 {
						named = true
					}
				}
			}
			fobj, _ := p.TypesInfo.Defs[decl.Name].(*types.Func)
			res = append(res, a.funcSites(p, rel, name, decl.Body, named, fobj)...)
		case *ast.GenDecl:
			for _, sp := range decl.Specs {
				vs, ok := sp.(*ast.ValueSpec)
				if !ok {
					continue
				}
				for i, v := range vs.Values {
					n := "var"
					if i < len(vs.Names) {
						n = "var:" + vs.Names[i].Name
					}
					res = append(res, a.funcSites(p, rel, n, v, false, nil)...)
				}
			}
		}
	}
	return res
}

func recvName(e ast.Expr) string {
	switch t := e.(type) {
	case *ast.StarExpr:
		return recvName(t.X)
	case *ast.Ident:
		return t.Name
	case *ast.IndexExpr:
		return recvName(t.X)
	case *ast.IndexListExpr:
		return recvName(t.X)
	}
	return "?"
}

func isMap(t types.Type) bool {
	if t == nil {
		return false
	}
	switch u := t.Underlying().(type) {
	case *types.Map:
		return true
	case *types.Pointer:
		_, ok := u.Elem().Underlying().(*types.Map)
		return ok
	case *types.TypeParam:
		_ = u
	}
	// type parameter whose core type is a map
	if tp, ok := t.(*types.TypeParam); ok {
		if tp.Constraint() != nil {
			if iface, ok := tp.Constraint().Underlying().(*types.Interface); ok {
				all := iface.NumEmbeddeds() > 0
				for i := 0; i < iface.NumEmbeddeds(); i++ {
					if !unionAllMaps(iface.EmbeddedType(i)) {
						all = false
					}
				}
				return all
			}
		}
	}
	return false
}

func unionAllMaps(t types.Type) bool {
	if u, ok := t.(*types.Union); ok {
		for i := 0; i < u.Len(); i++ {
			if _, ok := u.Term(i).Type().Underlying().(*types.Map); !ok {
				return false
			}
		}
		return u.Len() > 0
	}
	_, ok := t.Underlying().(*types.Map)
	return ok
}

// order-exposing calls other than `range`
func orderCall(info *types.Info, ce *ast.CallExpr) string {
	fn := calleeFunc(info, ce)
	if fn == nil || fn.Pkg() == nil {
		return ""
	}
	p, n := fn.Pkg().Path(), fn.Name()
	if (p == "maps" || p == "golang.org/x/exp/maps") && (n == "Keys" || n == "Values" || n == "All") {
		return p + "." + n
	}
	if p == "reflect" && (n == "MapKeys" || n == "MapRange") {
		return "reflect." + n
	}
	return ""
}

func (a *analyzer) funcSites(p *packages.Package, rel, fname string, root ast.Node, named bool, fobj *types.Func) []site {
	callers := a.callersOf(fobj)
	info := p.TypesInfo
	var res []site
	ord := 0
	// parent chain for order-exposing calls (to see the wrapper: slices.Sorted(maps.Keys(m)))
	var stack []ast.Node
	ast.Inspect(root, func(n ast.Node) bool {
		if n == nil {
			stack = stack[:len(stack)-1]
			return true
		}
		stack = append(stack, n)
		switch x := n.(type) {
		case *ast.RangeStmt:
			t := info.TypeOf(x.X)
			if isMap(t) {
				s := site{Pkg: rel, Func: fname, Ord: ord, Callers: callers, Kind: "range", MapType: types.TypeString(t, relQualifier),
					Pos: a.pos(x.Pos())}
				ord++
				s.Effects = a.loopEffects(info, root, x, named)
				res = append(res, s)
			}
		case *ast.CallExpr:
			if oc := orderCall(info, x); oc != "" {
				s := site{Pkg: rel, Func: fname, Ord: ord, Callers: callers, Kind: "call:" + oc, Pos: a.pos(x.Pos())}
				if len(x.Args) > 0 {
					s.MapType = types.TypeString(info.TypeOf(x.Args[0]), relQualifier)
				}
				ord++
				eff := "EOrderCall SortNone"
				// wrapped directly in slices.Sorted(..) => total sort before anything sees the order
				if len(stack) >= 2 {
					if par, ok := stack[len(stack)-2].(*ast.CallExpr); ok {
						if fn := calleeFunc(info, par); fn != nil && fn.Pkg() != nil && fn.Pkg().Path() == "slices" && fn.Name() == "Sorted" {
							eff = "EOrderCall SortTotal"
						}
					}
				}
				// collected into a local that is sorted before anything else sees it:
				//   x := slices.Collect(maps.Keys(m)) / slices.AppendSeq(base, maps.Keys(m)); slices.Sort(x)
				if k := a.collectedThenSorted(info, stack); k != "" {
					eff = "EOrderCall " + k
				}
				s.Effects = []string{eff}
				res = append(res, s)
			}
		}
		return true
	})
	return res
}

// collectedThenSorted: stack ends with [.. BlockStmt, AssignStmt `x := / = collect(.., <order call>)`, CallExpr collect, CallExpr order call]
// where collect is slices.Collect or slices.AppendSeq with the order call as its LAST argument, x is a plain local, and the
// first later statement of the block that mentions x is a sort of x (library sort, or an unexported helper whose first
// statement sorts its parameter).  Returns that sort's kind, "" when the shape is anything else.
func (a *analyzer) collectedThenSorted(info *types.Info, stack []ast.Node) string {
	if len(stack) < 4 {
		return ""
	}
	oc := stack[len(stack)-1]
	coll, ok := stack[len(stack)-2].(*ast.CallExpr)
	if !ok || len(coll.Args) == 0 || ast.Unparen(coll.Args[len(coll.Args)-1]) != oc {
		return ""
	}
	fn := calleeFunc(info, coll)
	if fn == nil || fn.Pkg() == nil || fn.Pkg().Path() != "slices" || (fn.Name() != "Collect" && fn.Name() != "AppendSeq") {
		return ""
	}
	as, ok := stack[len(stack)-3].(*ast.AssignStmt)
	if !ok || len(as.Lhs) != 1 || len(as.Rhs) != 1 || ast.Unparen(as.Rhs[0]) != ast.Expr(coll) {
		return ""
	}
	id, ok := as.Lhs[0].(*ast.Ident)
	if !ok {
		return ""
	}
	xo := info.Defs[id]
	if xo == nil {
		xo = info.Uses[id]
	}
	if v, isVar := xo.(*types.Var); !isVar || v.IsField() || v.Parent() == v.Pkg().Scope() {
		return ""
	}
	blk, ok := stack[len(stack)-4].(*ast.BlockStmt)
	if !ok {
		return ""
	}
	after := false
	for _, st := range blk.List {
		if st == ast.Stmt(as) {
			after = true
			continue
		}
		if !after {
			continue
		}
		mentions := false
		ast.Inspect(st, func(n ast.Node) bool {
			if i2, ok := n.(*ast.Ident); ok && (info.Uses[i2] == xo || info.Defs[i2] == xo) {
				mentions = true
			}
			return true
		})
		if !mentions {
			continue
		}
		es, ok := st.(*ast.ExprStmt)
		if !ok {
			return ""
		}
		sc, ok := es.X.(*ast.CallExpr)
		if !ok {
			return ""
		}
		c := &loopCtx{a: a, info: info}
		return c.sortCallKind(sc, id.Name)
	}
	return ""
}

func relQualifier(p *types.Package) string {
	return strings.TrimPrefix(strings.TrimPrefix(p.Path(), modPath+"/"), "github.com/nyaruka/")
}

func (a *analyzer) pos(p token.Pos) string {
	ps := a.fset.Position(p)
	parts := strings.Split(filepath.ToSlash(ps.Filename), "/")
	if len(parts) > 2 {
		parts = parts[len(parts)-2:]
	}
	return fmt.Sprintf("%s:%d", strings.Join(parts, "/"), ps.Line)
}

// ------------------------------------------------------------------------------------------------
// shape descriptor of one loop

type loopCtx struct {
	a            *analyzer
	info         *types.Info
	encl         ast.Node // enclosing function body (or initializer expression)
	loop         *ast.RangeStmt
	keyObj       types.Object
	valObj       types.Object
	effects      map[string]bool
	namedResults bool
	defs         map[types.Object]ast.Expr  // locals of the body -> the expression they are initialised with (nil: none / several)
	written      map[types.Object]bool      // variables declared outside the body that the body assigns to
	ownRead      map[*ast.Ident]bool        // occurrences that belong to the variable's own accumulation statement
	flagConsts   map[string]map[string]bool // target -> the constants assigned to it
	retConsts    map[string]bool            // the constant tuples returned
	retErrs      map[string]bool            // the source texts of the error tuples returned
	retErrLocal  bool                       // a returned error is built from the key, the value or another variable of the body
}

func (a *analyzer) loopEffects(info *types.Info, encl ast.Node, loop *ast.RangeStmt, named bool) []string {
	c := &loopCtx{a: a, info: info, encl: encl, loop: loop, effects: map[string]bool{}, namedResults: named,
		defs: map[types.Object]ast.Expr{}, written: map[types.Object]bool{}, ownRead: map[*ast.Ident]bool{},
		flagConsts: map[string]map[string]bool{}, retConsts: map[string]bool{}, retErrs: map[string]bool{}}
	if id, ok := loop.Key.(*ast.Ident); ok && id.Name != "_" {
		c.keyObj = objOf(info, id)
	}
	if id, ok := loop.Value.(*ast.Ident); ok && id.Name != "_" {
		c.valObj = objOf(info, id)
	}
	// `for k = range m` with pre-declared outer variables: the last key survives the loop
	if loop.Tok == token.ASSIGN {
		c.add("EAssignOuter")
	}
	c.collectDefs()
	c.walk(loop.Body, 0)
	// x = c1 in one place and x = c2 in another: which one is last depends on the order
	for _, cs := range c.flagConsts {
		if len(cs) > 1 {
			delete(c.effects, "EFlagSet")
			c.add("EAssignOuter")
		}
	}
	if len(c.retConsts) > 1 {
		delete(c.effects, "EReturnConst")
		c.add("EReturnValue")
	}
	// EReturnErr stands for ONE error whose text does not depend on the entry that raised it: with two different error
	// returns (or a text built from the key / value) WHICH error comes back depends on the iteration order
	if c.effects["EReturnErr"] && (len(c.retErrs) > 1 || c.retErrLocal) {
		delete(c.effects, "EReturnErr")
		c.add("EReturnValue")
	}
	c.loopCarried()
	out := make([]string, 0, len(c.effects))
	for e := range c.effects {
		out = append(out, e)
	}
	sort.Strings(out)
	return out
}

func objOf(info *types.Info, id *ast.Ident) types.Object {
	if o := info.Defs[id]; o != nil {
		return o
	}
	return info.Uses[id]
}

func (c *loopCtx) add(e string) { c.effects[e] = true }

// local: declared inside the loop body (so a fresh instance per iteration)
func (c *loopCtx) local(o types.Object) bool {
	if o == nil {
		return false
	}
	return o.Pos() >= c.loop.Body.Pos() && o.Pos() <= c.loop.Body.End()
}

// isRefType: can a value of this type reach other memory (a reference anywhere inside it, not only at top level)
func isRefType(t types.Type) bool {
	return refTyped(t)
}

// labelInside: is the label declared inside the site's loop body (or is it the label of the site's loop itself,
// in which case `continue L` is the next key)
func (c *loopCtx) labelInside(name string) bool {
	found := false
	ast.Inspect(c.loop.Body, func(n ast.Node) bool {
		if ls, ok := n.(*ast.LabeledStmt); ok && ls.Label.Name == name {
			found = true
		}
		return true
	})
	if found {
		return true
	}
	ast.Inspect(c.encl, func(n ast.Node) bool {
		if ls, ok := n.(*ast.LabeledStmt); ok && ls.Label.Name == name && ls.Stmt == ast.Stmt(c.loop) {
			found = true
		}
		return true
	})
	return found
}

// owned: a local of the body that cannot alias state outliving the iteration: either its type holds no
// reference at top level, or it is initialised by a fresh allocation (make, new, composite literal, &T{...})
func (c *loopCtx) owned(o types.Object) bool {
	if !c.local(o) {
		return false
	}
	if !isRefType(o.Type()) {
		return true
	}
	init, ok := c.defs[o]
	if !ok || init == nil {
		return false
	}
	return c.freshExpr(init)
}

func (c *loopCtx) freshExpr(e ast.Expr) bool {
	switch x := ast.Unparen(e).(type) {
	case *ast.CompositeLit, *ast.FuncLit, *ast.BasicLit:
		return true
	case *ast.UnaryExpr:
		if x.Op == token.AND {
			_, ok := ast.Unparen(x.X).(*ast.CompositeLit)
			return ok
		}
	case *ast.CallExpr:
		if id, ok := ast.Unparen(x.Fun).(*ast.Ident); ok {
			if b, ok := c.info.Uses[id].(*types.Builtin); ok && (b.Name() == "make" || b.Name() == "new") {
				return true
			}
		}
	}
	return false
}

// collectDefs records, for every variable declared in the body, its initialiser (nil when there are several
// assignments or none)
func (c *loopCtx) collectDefs() {
	set := func(id *ast.Ident, e ast.Expr) {
		o := c.info.Defs[id]
		if o == nil {
			return
		}
		if _, dup := c.defs[o]; dup {
			c.defs[o] = nil
			return
		}
		c.defs[o] = e
	}
	ast.Inspect(c.loop.Body, func(n ast.Node) bool {
		switch x := n.(type) {
		case *ast.AssignStmt:
			for i, l := range x.Lhs {
				id, ok := l.(*ast.Ident)
				if !ok {
					continue
				}
				if x.Tok == token.DEFINE && c.info.Defs[id] != nil {
					if len(x.Rhs) == len(x.Lhs) {
						set(id, x.Rhs[i])
					} else {
						set(id, nil)
					}
				} else if o := c.info.Uses[id]; o != nil && c.local(o) {
					c.defs[o] = nil // re-assigned later: unknown
				}
			}
		case *ast.ValueSpec:
			for i, id := range x.Names {
				if i < len(x.Values) {
					set(id, x.Values[i])
				} else {
					set(id, nil)
				}
			}
		case *ast.RangeStmt:
			for _, l := range []ast.Expr{x.Key, x.Value} {
				if id, ok := l.(*ast.Ident); ok && x.Tok == token.DEFINE {
					set(id, nil)
				}
			}
		}
		return true
	})
}

// loopCarried: the body reads a variable that it also writes, other than in that variable's own accumulation
// statement: the value read depends on which keys were visited before
func (c *loopCtx) loopCarried() {
	if len(c.written) == 0 {
		return
	}
	ast.Inspect(c.loop.Body, func(n ast.Node) bool {
		if ix, ok := n.(*ast.IndexExpr); ok && c.isKey(ix.Index) {
			// dst[k] with k the loop key: only this iteration touches that element (keys are distinct)
			if r := rootIdent(ix.X); r != nil {
				c.ownRead[r] = true
			}
		}
		id, ok := n.(*ast.Ident)
		if !ok {
			return true
		}
		if o := c.info.Uses[id]; o != nil && c.written[o] && !c.ownRead[id] {
			c.add("ELoopCarried")
		}
		return true
	})
}

// noteWrite records an assignment target rooted at a variable declared outside the body
func (c *loopCtx) noteWrite(l ast.Expr) {
	if r := rootIdent(l); r != nil {
		o := objOf(c.info, r)
		if o != nil && !c.local(o) && o != c.keyObj && o != c.valObj {
			if _, isVar := o.(*types.Var); isVar {
				c.written[o] = true
				c.ownRead[r] = true
			}
		}
	}
}

func (c *loopCtx) noteOwnRead(e ast.Expr) {
	if r := rootIdent(e); r != nil {
		c.ownRead[r] = true
	}
}

func rootIdent(e ast.Expr) *ast.Ident {
	for {
		switch x := ast.Unparen(e).(type) {
		case *ast.Ident:
			return x
		case *ast.SelectorExpr:
			e = x.X
		case *ast.IndexExpr:
			e = x.X
		case *ast.StarExpr:
			e = x.X
		case *ast.SliceExpr:
			e = x.X
		case *ast.TypeAssertExpr:
			e = x.X
		case *ast.CallExpr:
			return nil
		default:
			return nil
		}
	}
}

// isKey: the expression is the loop key, possibly through a type conversion
func (c *loopCtx) isKey(e ast.Expr) bool {
	if c.keyObj == nil {
		return false
	}
	e = ast.Unparen(e)
	if id, ok := e.(*ast.Ident); ok {
		return c.info.Uses[id] == c.keyObj
	}
	if ce, ok := e.(*ast.CallExpr); ok && len(ce.Args) == 1 {
		// a conversion of the key only when it cannot identify two keys: identical underlying types
		if tv, ok := c.info.Types[ce.Fun]; ok && tv.IsType() {
			from := c.info.TypeOf(ce.Args[0])
			if from != nil && types.Identical(from.Underlying(), tv.Type.Underlying()) {
				return c.isKey(ce.Args[0])
			}
		}
	}
	return false
}

func isConstExpr(info *types.Info, e ast.Expr) bool {
	e = ast.Unparen(e)
	if tv, ok := info.Types[e]; ok && (tv.Value != nil || tv.IsNil()) {
		return true
	}
	switch x := e.(type) {
	case *ast.BasicLit:
		return true
	case *ast.Ident:
		return x.Name == "nil" || x.Name == "true" || x.Name == "false"
	case *ast.CompositeLit:
		return len(x.Elts) == 0
	case *ast.UnaryExpr:
		return isConstExpr(info, x.X)
	}
	return false
}

func constText(info *types.Info, e ast.Expr) string {
	e = ast.Unparen(e)
	if tv, ok := info.Types[e]; ok && tv.Value != nil {
		return tv.Value.ExactString()
	}
	return types.ExprString(e)
}

func isErrorType(t types.Type) bool {
	if t == nil {
		return false
	}
	return types.Identical(t, types.Universe.Lookup("error").Type()) || strings.HasSuffix(t.String(), "XError")
}

func accKind(t types.Type) string {
	if t == nil {
		return "EAssignOuter"
	}
	if b, ok := t.Underlying().(*types.Basic); ok {
		switch {
		case b.Info()&types.IsString != 0:
			return "EStringBuild"
		case b.Info()&types.IsInteger != 0:
			return "EAccumInt"
		case b.Info()&types.IsFloat != 0 || b.Info()&types.IsComplex != 0:
			return "EAccumFloat"
		case b.Info()&types.IsBoolean != 0:
			return "EAccumBool"
		}
	}
	return "EAssignOuter"
}

func commutativeOp(t token.Token) bool {
	switch t {
	case token.ADD, token.MUL, token.OR, token.AND, token.XOR, token.LAND, token.LOR,
		token.ADD_ASSIGN, token.MUL_ASSIGN, token.OR_ASSIGN, token.AND_ASSIGN, token.XOR_ASSIGN, token.SUB_ASSIGN:
		return true
	}
	return false
}

// depth = number of enclosing breakable statements inside the site's loop body
func (c *loopCtx) walk(n ast.Node, depth int) {
	if n == nil {
		return
	}
	switch x := n.(type) {
	case *ast.BlockStmt:
		for _, s := range x.List {
			c.walk(s, depth)
		}
	case *ast.IfStmt:
		c.walk(x.Init, depth)
		c.expr(x.Cond)
		c.walk(x.Body, depth)
		c.walk(x.Else, depth)
	case *ast.ForStmt:
		c.walk(x.Init, depth+1)
		c.expr(x.Cond)
		c.walk(x.Post, depth+1)
		c.walk(x.Body, depth+1)
	case *ast.RangeStmt:
		c.expr(x.X)
		if isMap(c.info.TypeOf(x.X)) {
			c.add("ENestedMapRange")
		}
		if x.Tok == token.ASSIGN {
			for _, l := range []ast.Expr{x.Key, x.Value} {
				if l != nil {
					c.assignTarget(l, nil, token.ASSIGN)
				}
			}
		}
		c.walk(x.Body, depth+1)
	case *ast.SwitchStmt:
		c.walk(x.Init, depth)
		c.expr(x.Tag)
		c.walk(x.Body, depth+1)
	case *ast.TypeSwitchStmt:
		c.walk(x.Init, depth)
		c.walk(x.Assign, depth)
		c.walk(x.Body, depth+1)
	case *ast.SelectStmt:
		c.add("EChan")
		c.walk(x.Body, depth+1)
	case *ast.CaseClause:
		for _, e := range x.List {
			c.expr(e)
		}
		for _, s := range x.Body {
			c.walk(s, depth)
		}
	case *ast.CommClause:
		c.walk(x.Comm, depth)
		for _, s := range x.Body {
			c.walk(s, depth)
		}
	case *ast.LabeledStmt:
		c.walk(x.Stmt, depth)
	case *ast.DeclStmt:
		if gd, ok := x.Decl.(*ast.GenDecl); ok {
			for _, sp := range gd.Specs {
				if vs, ok := sp.(*ast.ValueSpec); ok {
					for _, v := range vs.Values {
						c.expr(v)
					}
				}
			}
		}
	case *ast.ExprStmt:
		c.exprStmt(x.X)
	case *ast.AssignStmt:
		for _, r := range x.Rhs {
			c.expr(r)
		}
		for i, l := range x.Lhs {
			var r ast.Expr
			if len(x.Rhs) == len(x.Lhs) {
				r = x.Rhs[i]
			}
			if x.Tok == token.DEFINE {
				// new variables are local; re-assigned ones (mixed :=) are handled like '='
				if id, ok := l.(*ast.Ident); ok && c.info.Defs[id] != nil {
					continue
				}
			}
			c.assignTarget(l, r, x.Tok)
		}
	case *ast.IncDecStmt:
		c.assignTarget(x.X, nil, token.ADD_ASSIGN)
	case *ast.ReturnStmt:
		for _, r := range x.Results {
			c.expr(r)
		}
		c.add(c.returnKind(x))
	case *ast.BranchStmt:
		switch x.Tok {
		case token.BREAK:
			if x.Label != nil || depth == 0 {
				c.add("EBreak")
			}
		case token.GOTO:
			c.add("EBreak")
		case token.CONTINUE:
			// `continue` = next key: no effect; `continue L` with L outside this loop's body leaves the loop like a break
			if x.Label != nil && !c.labelInside(x.Label.Name) {
				c.add("EBreak")
			}
		}
	case *ast.SendStmt:
		c.add("EChan")
		c.expr(x.Value)
	case *ast.GoStmt:
		c.add("EGo")
		c.expr(x.Call)
	case *ast.DeferStmt:
		c.add("EDefer")
		c.expr(x.Call)
	case *ast.EmptyStmt:
	default:
		c.add(fmt.Sprintf("EUnknown %q", fmt.Sprintf("%T", n)))
	}
}

func (c *loopCtx) returnKind(r *ast.ReturnStmt) string {
	kind := "EReturnConst"
	for _, e := range r.Results {
		if isConstExpr(c.info, e) {
			continue
		}
		if isErrorType(c.info.TypeOf(e)) {
			if kind == "EReturnConst" {
				kind = "EReturnErr"
			}
			continue
		}
		kind = "EReturnValue"
	}
	if len(r.Results) == 0 && c.namedResults {
		kind = "EReturnValue" // naked return: named results may carry loop state
	}
	if kind == "EReturnErr" {
		parts := make([]string, len(r.Results))
		for i, e := range r.Results {
			parts[i] = types.ExprString(e)
			if isErrorType(c.info.TypeOf(e)) && !isConstExpr(c.info, e) && c.refsLoopLocal(e) {
				c.retErrLocal = true
			}
		}
		c.retErrs[strings.Join(parts, ",")] = true
	}
	if kind == "EReturnConst" {
		parts := make([]string, len(r.Results))
		for i, e := range r.Results {
			parts[i] = constText(c.info, e)
		}
		c.retConsts[strings.Join(parts, ",")] = true
	}
	return kind
}

// refsLoopLocal: does e mention the key, the value or any variable declared inside the loop?
func (c *loopCtx) refsLoopLocal(e ast.Expr) bool {
	found := false
	ast.Inspect(e, func(n ast.Node) bool {
		if id, ok := n.(*ast.Ident); ok {
			if o, ok := c.info.Uses[id].(*types.Var); ok && !o.IsField() && o.Pos() >= c.loop.Pos() && o.Pos() <= c.loop.End() {
				found = true
			}
		}
		return !found
	})
	return found
}

// expressions: look for callbacks, stream consumption, function literals, nested order calls
func (c *loopCtx) expr(e ast.Expr) {
	if e == nil {
		return
	}
	ast.Inspect(e, func(n ast.Node) bool {
		switch x := n.(type) {
		case *ast.CallExpr:
			c.callEffects(x, false)
		case *ast.FuncLit:
			// a closure created in the body: its body's effects happen when it is called; attribute them here
			c.walk(x.Body, 1)
			return false
		case *ast.UnaryExpr:
			if x.Op == token.ARROW {
				c.add("EChan")
			}
		}
		return true
	})
}

// callEffects classifies one call; stmt = the call is a statement (result discarded)
func (c *loopCtx) callEffects(ce *ast.CallExpr, stmt bool) {
	info := c.info
	if tv, ok := info.Types[ce.Fun]; ok && tv.IsType() {
		return // conversion
	}
	fun := ast.Unparen(ce.Fun)
	// builtins
	if id, ok := fun.(*ast.Ident); ok {
		if b, ok := info.Uses[id].(*types.Builtin); ok {
			switch b.Name() {
			case "delete":
				if len(ce.Args) == 2 {
					if r := rootIdent(ce.Args[0]); r != nil && c.owned(objOf(info, r)) {
						return
					}
					c.noteWrite(ce.Args[0])
					if c.isKey(ce.Args[1]) {
						c.add("EMapDeleteKey")
					} else {
						c.add("EMapDeleteOther")
					}
				}
			case "panic":
				c.add("EPanic")
			case "append":
				if stmt {
					return
				}
			case "close":
				c.add("EChan")
			}
			return
		}
	}
	if oc := orderCall(info, ce); oc != "" {
		c.add("ENestedMapRange")
	}
	fn := calleeFunc(info, ce)
	if fn == nil {
		// call of a function value: parameter, local variable, struct field, map element, result of a call
		c.add("ECallback")
		return
	}
	if c.a.fnStreamy(fn) {
		c.add("EStreamConsume")
	}
	if isStringBuildCall(fn) {
		// only matters if the builder outlives the iteration
		if sel, ok := fun.(*ast.SelectorExpr); ok {
			if r := rootIdent(sel.X); r != nil && c.owned(objOf(info, r)) {
				return
			}
		}
		if fn.Pkg() != nil && fn.Pkg().Path() == "fmt" {
			if len(ce.Args) > 0 {
				if r := rootIdent(ce.Args[0]); r != nil && c.owned(objOf(info, r)) {
					return
				}
			}
		}
		c.add("EStringBuild")
		return
	}
	// a call whose callee may write state that outlives the iteration (through its receiver, its arguments,
	// package-level variables, or in ways the summary cannot see) is an effect even when only its result is used
	ownedRoot := func(e ast.Expr) bool {
		switch ast.Unparen(e).(type) {
		case *ast.CompositeLit, *ast.BasicLit, *ast.FuncLit:
			return true
		}
		r := rootIdent(e)
		return r != nil && c.owned(objOf(info, r))
	}
	if c.a.callImpure(info, ce, fn, ownedRoot) {
		if stmt {
			c.add("ECallStmt")
		} else {
			c.add("ECallImpure")
		}
		return
	}
	if stmt {
		// a call whose result is discarded exists for its side effect
		if sel, ok := fun.(*ast.SelectorExpr); ok {
			if r := rootIdent(sel.X); r != nil {
				o := objOf(info, r)
				if c.owned(o) {
					return // method on a per-iteration local that cannot alias outer state
				}
			}
		}
		c.add("ECallStmt")
	}
}

func isStringBuildCall(fn *types.Func) bool {
	if fn.Pkg() == nil {
		return false
	}
	p, n := fn.Pkg().Path(), fn.Name()
	if p == "fmt" && (strings.HasPrefix(n, "Fprint")) {
		return true
	}
	if sig, ok := fn.Type().(*types.Signature); ok && sig.Recv() != nil {
		rt := sig.Recv().Type().String()
		if (strings.Contains(rt, "strings.Builder") || strings.Contains(rt, "bytes.Buffer") || strings.Contains(rt, "bufio.Writer")) &&
			strings.HasPrefix(n, "Write") {
			return true
		}
		if p == "io" && n == "Write" {
			return true
		}
	}
	if p == "io" && n == "WriteString" {
		return true
	}
	return false
}

func (c *loopCtx) exprStmt(e ast.Expr) {
	if ce, ok := ast.Unparen(e).(*ast.CallExpr); ok {
		for _, a := range ce.Args {
			c.expr(a)
		}
		if sel, ok := ast.Unparen(ce.Fun).(*ast.SelectorExpr); ok {
			c.expr(sel.X)
		}
		c.callEffects(ce, true)
		return
	}
	c.expr(e)
}

// assignTarget classifies an assignment `l <tok> r` inside the loop body
func (c *loopCtx) assignTarget(l ast.Expr, r ast.Expr, tok token.Token) {
	info := c.info
	l = ast.Unparen(l)
	if id, ok := l.(*ast.Ident); ok && id.Name == "_" {
		return
	}
	root := rootIdent(l)
	var rootObj types.Object
	if root != nil {
		rootObj = objOf(info, root)
	}
	switch x := l.(type) {
	case *ast.IndexExpr:
		ct := info.TypeOf(x.X)
		_, isMapT := ct.Underlying().(*types.Map)
		if c.owned(rootObj) {
			return
		}
		c.noteWrite(l)
		if isMapT || isSliceOrArray(ct) {
			if c.isKey(x.Index) {
				c.add("EMapWriteKey")
			} else if isMapT {
				c.add("EMapWriteOther")
			} else {
				c.add("EAssignOuter")
			}
			return
		}
		c.add("EAssignOuter")
		return
	case *ast.Ident:
		if c.local(rootObj) {
			return
		}
		// loop variables themselves are per-iteration
		if rootObj != nil && (rootObj == c.keyObj || rootObj == c.valObj) {
			return
		}
		c.noteWrite(l)
		c.classifyScalar(l, r, tok)
		return
	case *ast.SelectorExpr, *ast.StarExpr:
		if c.owned(rootObj) {
			return
		}
		if rootObj != nil && rootObj == c.valObj {
			c.add("EElemWrite")
			return
		}
		c.noteWrite(l)
		c.classifyScalar(l, r, tok)
		return
	}
	c.add("EAssignOuter")
}

func isSliceOrArray(t types.Type) bool {
	switch t.Underlying().(type) {
	case *types.Slice, *types.Array:
		return true
	case *types.Pointer:
		return true
	}
	return false
}

func (c *loopCtx) classifyScalar(l ast.Expr, r ast.Expr, tok token.Token) {
	info := c.info
	lt := info.TypeOf(l)
	ls := types.ExprString(l)
	if tok != token.ASSIGN && tok != token.DEFINE {
		if commutativeOp(tok) {
			c.add(accKind(lt))
		} else {
			c.add("EAssignOuter")
		}
		return
	}
	if r == nil {
		c.add("EAssignOuter")
		return
	}
	r = ast.Unparen(r)
	// x = append(x, ...)
	if ce, ok := r.(*ast.CallExpr); ok {
		if id, ok := ast.Unparen(ce.Fun).(*ast.Ident); ok {
			if b, ok := info.Uses[id].(*types.Builtin); ok && b.Name() == "append" && len(ce.Args) > 0 &&
				types.ExprString(ast.Unparen(ce.Args[0])) == ls {
				c.noteOwnRead(ce.Args[0])
				c.add("EAppend " + c.sortedAfter(ls))
				return
			}
			if b, ok := info.Uses[id].(*types.Builtin); ok && (b.Name() == "max" || b.Name() == "min") {
				for _, a := range ce.Args {
					if types.ExprString(ast.Unparen(a)) == ls {
						c.noteOwnRead(a)
						k := accKind(lt)
						if k == "EAccumFloat" {
							k = "EAccumInt" // max/min are exact on floats (NaN aside)
						}
						c.add(k)
						return
					}
				}
			}
		}
	}
	if isConstExpr(info, r) {
		if c.flagConsts[ls] == nil {
			c.flagConsts[ls] = map[string]bool{}
		}
		c.flagConsts[ls][constText(info, r)] = true
		c.add("EFlagSet")
		return
	}
	// x = x op e  /  x = e op x
	if be, ok := r.(*ast.BinaryExpr); ok && commutativeOp(be.Op) {
		if types.ExprString(ast.Unparen(be.X)) == ls || types.ExprString(ast.Unparen(be.Y)) == ls {
			k := accKind(lt)
			if k == "EStringBuild" || types.ExprString(ast.Unparen(be.X)) == ls || be.Op != token.SUB {
				if types.ExprString(ast.Unparen(be.X)) == ls {
					c.noteOwnRead(be.X)
				} else {
					c.noteOwnRead(be.Y)
				}
				c.add(k)
				return
			}
		}
	}
	c.add("EAssignOuter")
}

// sortedAfter: what sorts slice expression `target` after the loop, before control can leave the function:
// the first sort call on it that precedes (or is inside) the first `return` following the loop
func (c *loopCtx) sortedAfter(target string) string {
	loopEnd := c.loop.End()
	var firstRet *ast.ReturnStmt
	type sc struct {
		pos  token.Pos
		kind string
	}
	var sorts []sc
	ast.Inspect(c.encl, func(n ast.Node) bool {
		if n == nil {
			return true
		}
		if n.End() <= loopEnd {
			return false // entirely before the end of the loop
		}
		switch x := n.(type) {
		case *ast.FuncLit:
			if x.Pos() > loopEnd {
				return false // comparators etc.: a return inside does not leave the enclosing function
			}
		case *ast.ReturnStmt:
			if x.Pos() > loopEnd && (firstRet == nil || x.Pos() < firstRet.Pos()) {
				firstRet = x
			}
		case *ast.CallExpr:
			if x.Pos() > loopEnd {
				if k := c.sortCallKind(x, target); k != "" {
					sorts = append(sorts, sc{x.Pos(), k})
				}
			}
		}
		return true
	})
	best, bestPos := "SortNone", token.NoPos
	for _, s := range sorts {
		if firstRet != nil && s.pos > firstRet.End() {
			continue
		}
		if bestPos == token.NoPos || s.pos < bestPos {
			best, bestPos = s.kind, s.pos
		}
	}
	return best
}

// libSortKind: the sorting functions of the standard library, uniformly
func libSortKind(fn *types.Func) string {
	if fn == nil || fn.Pkg() == nil {
		return ""
	}
	p, n := fn.Pkg().Path(), fn.Name()
	switch {
	case p == "sort" && (n == "Strings" || n == "Ints" || n == "Float64s"):
		return "SortTotal"
	case p == "slices" && n == "Sort":
		return "SortTotal"
	case p == "sort" && (n == "Slice" || n == "SliceStable" || n == "Sort" || n == "Stable"):
		return "SortBy"
	case p == "slices" && (n == "SortFunc" || n == "SortStableFunc"):
		return "SortBy"
	}
	return ""
}

// helperSortKind: the slice is handed to an unexported helper of the same package whose FIRST statement that
// mentions the corresponding parameter sorts it (joinSorted(lines): slices.Sort(lines); return strings.Join(..))
func (c *loopCtx) helperSortKind(fn *types.Func, ce *ast.CallExpr, target string) string {
	fd := c.a.decls[fn.Origin()]
	info := c.a.declInfo[fn.Origin()]
	if fd == nil || info == nil || fn.Exported() || fd.Type.Params == nil {
		return ""
	}
	idx := -1
	for i, a := range ce.Args {
		if types.ExprString(ast.Unparen(a)) == target {
			idx = i
		}
	}
	if idx < 0 {
		return ""
	}
	var param types.Object
	k := 0
	for _, f := range fd.Type.Params.List {
		for _, id := range f.Names {
			if k == idx {
				param = info.Defs[id]
			}
			k++
		}
	}
	if param == nil {
		return ""
	}
	for _, st := range fd.Body.List {
		mentions := false
		ast.Inspect(st, func(n ast.Node) bool {
			if id, ok := n.(*ast.Ident); ok && info.Uses[id] == param {
				mentions = true
			}
			return true
		})
		if !mentions {
			continue
		}
		es, ok := st.(*ast.ExprStmt)
		if !ok {
			return ""
		}
		sc, ok := es.X.(*ast.CallExpr)
		if !ok || len(sc.Args) == 0 {
			return ""
		}
		arg := ast.Unparen(sc.Args[0])
		if conv, ok := arg.(*ast.CallExpr); ok && len(conv.Args) == 1 {
			if tv, ok := info.Types[conv.Fun]; ok && tv.IsType() {
				arg = ast.Unparen(conv.Args[0])
			}
		}
		if id, ok := arg.(*ast.Ident); !ok || info.Uses[id] != param {
			return ""
		}
		return libSortKind(calleeFunc(info, sc))
	}
	return ""
}

func (c *loopCtx) sortCallKind(ce *ast.CallExpr, target string) string {
	fn := calleeFunc(c.info, ce)
	if fn == nil || fn.Pkg() == nil || len(ce.Args) == 0 {
		return ""
	}
	if strings.HasPrefix(fn.Pkg().Path(), modPath) {
		return c.helperSortKind(fn, ce, target)
	}
	arg := ast.Unparen(ce.Args[0])

	// sort.Sort(byX(target))
	if conv, ok := arg.(*ast.CallExpr); ok && len(conv.Args) == 1 {
		if tv, ok := c.info.Types[conv.Fun]; ok && tv.IsType() {
			arg = ast.Unparen(conv.Args[0])
		}
	}
	if types.ExprString(arg) != target {
		return ""
	}
	return libSortKind(fn)
}
