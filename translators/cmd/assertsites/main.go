// assertsites — translator for property C16 (rejection clause): writes coq/gen/AssertSites.v.
//
// For the packages that handle definition JSON before it has been validated
//
//	flows/definition/migrations   flows/definition/legacy   utils/jsonpath
//
// (non-test files) every expression that can panic on unexpected data is a *site*:
//
//	type assertion  x.(T)        form  comma-ok        v, ok := x.(T)  /  v, _ := x.(T)  (never panics)
//	                                   type-switch     switch y := x.(type)              (never panics)
//	                                   case-guarded    bare x.(T) inside `case T:` of a type switch over the same x
//	                                   bare            anything else (panics when the dynamic type is not T)
//	index           a[i]         on a slice, array, string or pointer to array (map indexing never panics)
//	slice           a[i:j]       on a slice, array, string
//	                             form  range-index     i is the key variable of an enclosing `for i := range a` /
//	                                                   `for i, _ := range a` over the same expression text, or over
//	                                                   an expression b with a declared as make(T, len(b)) in the function
//	                                                   or i is a parameter of the less function handed to sort.Slice(a, ..)
//	                                   len-loop        i is the variable of an enclosing `for i := c; i < len(a); i++`
//	                                   const-guarded   i is an integer literal k and an enclosing `if` has a condition
//	                                                   containing len(a) > / >= / == / != against a literal, or the
//	                                                   function returns early on a len(a) test before the site
//	                                   from-index      bounds are results of strings.Index/LastIndex/IndexByte... on the
//	                                                   same expression guarded by a test against -1, or len(...) calls
//	                                   unguarded       anything else
//
// Every site is identified by (package, file, function, ordinal-free key = source text of the expression and an
// occurrence counter within the function), so that unrelated edits do not move it.
// The classification is syntactic and conservative: `unguarded` and `bare` sites have to be accepted one by one in
// coq/model/MigrateSites.v (with the reason they cannot fail); a site that is new or that changed its form breaks the
// obligation c16_assert_sites_total.
//
// Fails loudly (exit 2) when the packages do not load or type-check, or when no site is found.
package main

import (
	"bytes"
	"flag"
	"fmt"
	"go/ast"
	"go/printer"
	"go/token"
	"go/types"
	"os"
	"path/filepath"
	"sort"
	"strconv"
	"strings"

	"golang.org/x/tools/go/packages"
)

const modPath = "github.com/nyaruka/goflow"

var targets = []string{"./flows/definition/migrations", "./flows/definition/legacy", "./utils/jsonpath"}

func fatal(f string, a ...any) {
	fmt.Fprintf(os.Stderr, "assertsites: "+f+"\n", a...)
	os.Exit(2)
}

type site struct {
	Pkg, File, Func string
	Kind            string // assert | index | slice
	Form            string
	Expr            string // source text
	Operand         string // static type of the operand
	Occ             int    // occurrence of (Kind, Expr) within the function
}

type walker struct {
	fset  *token.FileSet
	info  *types.Info
	pkg   string
	file  string
	sites []site
}

func (w *walker) text(n ast.Node) string {
	var b bytes.Buffer
	printer.Fprint(&b, w.fset, n)
	return strings.Join(strings.Fields(b.String()), " ")
}

// is e (after stripping parens) the integer literal / constant?
func (w *walker) constInt(e ast.Expr) (int64, bool) {
	if tv, ok := w.info.Types[e]; ok && tv.Value != nil {
		if v, err := strconv.ParseInt(tv.Value.ExactString(), 10, 64); err == nil {
			return v, true
		}
	}
	return 0, false
}

// does cond mention len(<x>) in a comparison?
func (w *walker) hasLenTest(cond ast.Expr, x string) bool {
	found := false
	ast.Inspect(cond, func(n ast.Node) bool {
		be, ok := n.(*ast.BinaryExpr)
		if !ok {
			return true
		}
		switch be.Op {
		case token.GTR, token.GEQ, token.LSS, token.LEQ, token.EQL, token.NEQ:
			for _, side := range []ast.Expr{be.X, be.Y} {
				if call, ok := side.(*ast.CallExpr); ok && len(call.Args) == 1 {
					if id, ok := call.Fun.(*ast.Ident); ok && id.Name == "len" && w.text(call.Args[0]) == x {
						found = true
					}
				}
			}
			// s == "" / s != "" is a length test on the string s
			if be.Op == token.EQL || be.Op == token.NEQ {
				if lit, ok := be.Y.(*ast.BasicLit); ok && lit.Kind == token.STRING && lit.Value == `""` && w.text(be.X) == x {
					found = true
				}
			}
		}
		return true
	})
	return found
}

// is e built only from len(...) calls, integer constants, + and -, and variables assigned from strings.Index-like
// calls that an enclosing condition compares (with -1 / 0)?
func (w *walker) boundIsDerived(e ast.Expr, indexVars map[string]bool) bool {
	ok := true
	ast.Inspect(e, func(n ast.Node) bool {
		switch t := n.(type) {
		case *ast.BinaryExpr:
			if t.Op != token.ADD && t.Op != token.SUB {
				ok = false
			}
		case *ast.CallExpr:
			if id, isId := t.Fun.(*ast.Ident); isId && id.Name == "len" {
				return false
			}
			ok = false
		case *ast.Ident:
			if _, isConst := w.constInt(t); !isConst && !indexVars[t.Name] {
				ok = false
			}
		case *ast.BasicLit, *ast.ParenExpr:
		default:
			if n != nil {
				ok = false
			}
		}
		return ok
	})
	return ok
}

type scope struct {
	rangeKeys map[string][]string // key variable -> texts of the ranged expressions (enclosing loops)
	lenLoops  map[string][]string // loop variable -> texts x of enclosing `i < len(x)` loops
	conds     []ast.Expr          // enclosing if conditions (then-branches) and earlier early-return tests
	switches  map[string][]string // text of type-switch operand or bound name -> case type texts currently inside
	indexVars map[string]bool     // variables assigned from strings.Index-like calls and tested by an enclosing condition
	sameLen   map[string]string   // a -> b when a := make(T, len(b))
}

func (w *walker) walkFunc(fn *ast.FuncDecl) {
	if fn.Body == nil {
		return
	}
	name := fn.Name.Name
	if fn.Recv != nil && len(fn.Recv.List) == 1 {
		name = w.text(fn.Recv.List[0].Type) + "." + name
	}
	occ := map[string]int{}
	add := func(kind, form string, e ast.Expr, operand ast.Expr) {
		txt := w.text(e)
		k := kind + "|" + txt
		occ[k]++
		ot := ""
		if tv, ok := w.info.Types[operand]; ok && tv.Type != nil {
			ot = types.TypeString(tv.Type, func(p *types.Package) string { return p.Name() })
		}
		w.sites = append(w.sites, site{Pkg: w.pkg, File: w.file, Func: name, Kind: kind, Form: form, Expr: txt, Operand: ot, Occ: occ[k]})
	}

	// pre-pass: a := make(T, len(b)); i := strings.Index(...)
	sameLen := map[string]string{}
	idxAssigned := map[string]bool{}
	ast.Inspect(fn.Body, func(n ast.Node) bool {
		as, ok := n.(*ast.AssignStmt)
		if !ok || len(as.Lhs) != 1 || len(as.Rhs) != 1 {
			return true
		}
		call, ok := as.Rhs[0].(*ast.CallExpr)
		if !ok {
			return true
		}
		if id, ok := call.Fun.(*ast.Ident); ok && id.Name == "make" && len(call.Args) >= 2 {
			if lc, ok := call.Args[1].(*ast.CallExpr); ok && len(lc.Args) == 1 {
				if lid, ok := lc.Fun.(*ast.Ident); ok && lid.Name == "len" {
					sameLen[w.text(as.Lhs[0])] = w.text(lc.Args[0])
				}
			}
		}
		if sel, ok := call.Fun.(*ast.SelectorExpr); ok {
			if x, ok := sel.X.(*ast.Ident); ok && x.Name == "strings" && strings.Contains(sel.Sel.Name, "Index") {
				idxAssigned[w.text(as.Lhs[0])] = true
			}
		}
		return true
	})

	var visit func(n ast.Node, sc scope, commaOK map[*ast.TypeAssertExpr]bool)
	visitList := func(list []ast.Stmt, sc scope, commaOK map[*ast.TypeAssertExpr]bool) {
		// statements of one block: an `if <len test> { return/continue/break ... }` guards what follows
		conds := sc.conds
		for _, st := range list {
			s2 := sc
			s2.conds = conds
			visit(st, s2, commaOK)
			if ifs, ok := st.(*ast.IfStmt); ok && ifs.Else == nil && len(ifs.Body.List) > 0 {
				switch ifs.Body.List[len(ifs.Body.List)-1].(type) {
				case *ast.ReturnStmt, *ast.BranchStmt:
					conds = append(append([]ast.Expr{}, conds...), ifs.Cond)
				}
			}
		}
	}
	copyMap := func(m map[string][]string) map[string][]string {
		c := make(map[string][]string, len(m)+1)
		for k, v := range m {
			c[k] = v
		}
		return c
	}
	visit = func(n ast.Node, sc scope, commaOK map[*ast.TypeAssertExpr]bool) {
		if n == nil {
			return
		}
		switch t := n.(type) {
		case *ast.BlockStmt:
			visitList(t.List, sc, commaOK)
			return
		case *ast.CaseClause:
			for _, e := range t.List {
				visit(e, sc, commaOK)
			}
			visitList(t.Body, sc, commaOK)
			return
		case *ast.CommClause:
			visit(t.Comm, sc, commaOK)
			visitList(t.Body, sc, commaOK)
			return
		case *ast.AssignStmt:
			if len(t.Lhs) == 2 && len(t.Rhs) == 1 {
				if ta, ok := t.Rhs[0].(*ast.TypeAssertExpr); ok {
					commaOK[ta] = true
				}
			}
		case *ast.ValueSpec:
			if len(t.Names) == 2 && len(t.Values) == 1 {
				if ta, ok := t.Values[0].(*ast.TypeAssertExpr); ok {
					commaOK[ta] = true
				}
			}
		case *ast.IfStmt:
			visit(t.Init, sc, commaOK)
			visit(t.Cond, sc, commaOK)
			s2 := sc
			s2.conds = append(append([]ast.Expr{}, sc.conds...), t.Cond)
			if len(idxAssigned) > 0 {
				iv := map[string]bool{}
				for k, v := range sc.indexVars {
					iv[k] = v
				}
				ast.Inspect(t.Cond, func(m ast.Node) bool {
					if id, ok := m.(*ast.Ident); ok && idxAssigned[id.Name] {
						iv[id.Name] = true
					}
					return true
				})
				s2.indexVars = iv
			}
			visit(t.Body, s2, commaOK)
			s3 := sc
			s3.conds = s2.conds // the else branch is under the (negated) test as well
			visit(t.Else, s3, commaOK)
			return
		case *ast.RangeStmt:
			visit(t.X, sc, commaOK)
			s2 := sc
			if id, ok := t.Key.(*ast.Ident); ok && id.Name != "_" {
				s2.rangeKeys = copyMap(sc.rangeKeys)
				s2.rangeKeys[id.Name] = append(append([]string{}, sc.rangeKeys[id.Name]...), w.text(t.X))
			}
			visit(t.Body, s2, commaOK)
			return
		case *ast.ForStmt:
			visit(t.Init, sc, commaOK)
			visit(t.Cond, sc, commaOK)
			visit(t.Post, sc, commaOK)
			s2 := sc
			if be, ok := t.Cond.(*ast.BinaryExpr); ok && be.Op == token.LSS {
				if id, ok := be.X.(*ast.Ident); ok {
					if call, ok := be.Y.(*ast.CallExpr); ok && len(call.Args) == 1 {
						if lid, ok := call.Fun.(*ast.Ident); ok && lid.Name == "len" {
							s2.lenLoops = copyMap(sc.lenLoops)
							s2.lenLoops[id.Name] = append(append([]string{}, sc.lenLoops[id.Name]...), w.text(call.Args[0]))
						}
					}
				}
			}
			visit(t.Body, s2, commaOK)
			return
		case *ast.TypeSwitchStmt:
			visit(t.Init, sc, commaOK)
			var ta *ast.TypeAssertExpr
			bound := ""
			switch a := t.Assign.(type) {
			case *ast.AssignStmt:
				ta, _ = a.Rhs[0].(*ast.TypeAssertExpr)
				if id, ok := a.Lhs[0].(*ast.Ident); ok {
					bound = id.Name
				}
			case *ast.ExprStmt:
				ta, _ = a.X.(*ast.TypeAssertExpr)
			}
			if ta != nil {
				add("assert", "type-switch", ta, ta.X)
				visit(ta.X, sc, commaOK)
				for _, c := range t.Body.List {
					cc := c.(*ast.CaseClause)
					s2 := sc
					s2.switches = copyMap(sc.switches)
					var tys []string
					for _, e := range cc.List {
						tys = append(tys, w.text(e))
					}
					s2.switches[w.text(ta.X)] = tys
					if bound != "" {
						s2.switches[bound] = tys
					}
					visitList(cc.Body, s2, commaOK)
				}
			}
			return
		case *ast.TypeAssertExpr:
			if t.Type != nil {
				form := "bare"
				if commaOK[t] {
					form = "comma-ok"
				} else if tys, ok := sc.switches[w.text(t.X)]; ok && len(tys) == 1 && tys[0] == w.text(t.Type) {
					form = "case-guarded"
				}
				add("assert", form, t, t.X)
			}
		case *ast.IndexExpr:
			tv, ok := w.info.Types[t.X]
			if ok && tv.Type != nil && !tv.IsType() {
				under := tv.Type.Underlying()
				if p, isPtr := under.(*types.Pointer); isPtr {
					under = p.Elem().Underlying()
				}
				panics := false
				switch u := under.(type) {
				case *types.Slice, *types.Array:
					panics = true
				case *types.Basic:
					panics = u.Info()&types.IsString != 0
				}
				if _, isSig := under.(*types.Signature); isSig {
					panics = false // generic instantiation
				}
				if panics {
					add("index", w.indexForm(t.X, t.Index, sc), t, t.X)
				}
			}
		case *ast.SliceExpr:
			form := "unguarded"
			x := w.text(t.X)
			all := true
			for _, b := range []ast.Expr{t.Low, t.High, t.Max} {
				if b == nil {
					continue
				}
				if w.indexForm(t.X, b, sc) == "unguarded" && !w.boundIsDerived(b, sc.indexVars) {
					all = false
				}
			}
			if all && (t.Low != nil || t.High != nil) {
				form = "from-index"
				// constant bounds need a len test on the same expression
				for _, b := range []ast.Expr{t.Low, t.High} {
					if b == nil {
						continue
					}
					if k, isConst := w.constInt(b); isConst && k > 0 {
						guarded := false
						for _, c := range sc.conds {
							if w.hasLenTest(c, x) {
								guarded = true
							}
						}
						if !guarded {
							form = "unguarded"
						}
					}
				}
			}
			if t.Low == nil && t.High == nil {
				form = "from-index" // a[:] cannot fail
			}
			add("slice", form, t, t.X)
		case *ast.CallExpr:
			if sel, ok := t.Fun.(*ast.SelectorExpr); ok && len(t.Args) == 2 {
				if x, ok := sel.X.(*ast.Ident); ok && x.Name == "sort" && (sel.Sel.Name == "Slice" || sel.Sel.Name == "SliceStable") {
					if fl, ok := t.Args[1].(*ast.FuncLit); ok {
						visit(t.Args[0], sc, commaOK)
						s2 := scope{sameLen: sc.sameLen, rangeKeys: map[string][]string{}}
						for _, f := range fl.Type.Params.List {
							for _, nm := range f.Names {
								s2.rangeKeys[nm.Name] = []string{w.text(t.Args[0])}
							}
						}
						visit(fl.Body, s2, commaOK)
						return
					}
				}
			}
		case *ast.FuncLit:
			// closures see the enclosing guards syntactically but may run later: start from an empty scope
			visit(t.Body, scope{sameLen: sc.sameLen}, commaOK)
			return
		}
		// generic descent, children in source order
		var children []ast.Node
		first := true
		ast.Inspect(n, func(m ast.Node) bool {
			if first {
				first = false
				return true
			}
			if m != nil {
				children = append(children, m)
			}
			return false
		})
		for _, c := range children {
			visit(c, sc, commaOK)
		}
	}
	visit(fn.Body, scope{sameLen: sameLen}, map[*ast.TypeAssertExpr]bool{})
}

func (w *walker) indexForm(x, idx ast.Expr, sc scope) string {
	xt := w.text(x)
	if id, ok := idx.(*ast.Ident); ok {
		for _, r := range sc.rangeKeys[id.Name] {
			if r == xt || sc.sameLen[xt] == r || sc.sameLen[r] == xt {
				return "range-index"
			}
		}
		for _, r := range sc.lenLoops[id.Name] {
			if r == xt || sc.sameLen[xt] == r {
				return "len-loop"
			}
		}
	}
	if _, isConst := w.constInt(idx); isConst {
		for _, c := range sc.conds {
			if w.hasLenTest(c, xt) {
				return "const-guarded"
			}
		}
	}
	return "unguarded"
}

func coqString(s string) string {
	var b strings.Builder
	b.WriteByte('"')
	for _, c := range s {
		switch {
		case c == '"':
			b.WriteString(`""`)
		case c < 0x20 || c > 0x7e:
			b.WriteByte('?')
		default:
			b.WriteRune(c)
		}
	}
	b.WriteByte('"')
	return b.String()
}

func main() {
	repo := flag.String("repo", "/repo", "goflow working tree")
	out := flag.String("out", "coq/gen", "output directory")
	flag.Parse()
	absRepo, _ := filepath.Abs(*repo)
	cfg := &packages.Config{
		Mode: packages.NeedName | packages.NeedFiles | packages.NeedCompiledGoFiles | packages.NeedSyntax |
			packages.NeedTypes | packages.NeedTypesInfo | packages.NeedImports | packages.NeedDeps,
		Dir: absRepo, Tests: false, Env: os.Environ(),
	}
	pkgs, err := packages.Load(cfg, targets...)
	if err != nil {
		fatal("load: %v", err)
	}
	if len(pkgs) != len(targets) {
		fatal("expected %d packages, loaded %d", len(targets), len(pkgs))
	}
	sort.Slice(pkgs, func(i, j int) bool { return pkgs[i].PkgPath < pkgs[j].PkgPath })
	var sites []site
	for _, p := range pkgs {
		if len(p.Errors) > 0 {
			fatal("package %s has errors: %v", p.PkgPath, p.Errors[0])
		}
		for i, f := range p.Syntax {
			fn := filepath.Base(p.CompiledGoFiles[i])
			if strings.HasSuffix(fn, "_test.go") {
				continue
			}
			w := &walker{fset: p.Fset, info: p.TypesInfo, pkg: strings.TrimPrefix(p.PkgPath, modPath+"/"), file: fn}
			for _, d := range f.Decls {
				if fd, ok := d.(*ast.FuncDecl); ok {
					w.walkFunc(fd)
				}
			}
			// package-level initialisers
			for _, d := range f.Decls {
				if gd, ok := d.(*ast.GenDecl); ok && gd.Tok == token.VAR {
					ast.Inspect(gd, func(n ast.Node) bool {
						if ta, ok := n.(*ast.TypeAssertExpr); ok && ta.Type != nil {
							w.sites = append(w.sites, site{Pkg: w.pkg, File: fn, Func: "<package>", Kind: "assert", Form: "bare", Expr: w.text(ta), Occ: 1})
						}
						return true
					})
				}
			}
			sites = append(sites, w.sites...)
		}
	}
	if len(sites) == 0 {
		fatal("no site found")
	}
	sort.SliceStable(sites, func(i, j int) bool {
		a, b := sites[i], sites[j]
		if a.Pkg != b.Pkg {
			return a.Pkg < b.Pkg
		}
		if a.File != b.File {
			return a.File < b.File
		}
		return false
	})

	var b bytes.Buffer
	b.WriteString("(* GENERATED by translators/cmd/assertsites from flows/definition/migrations, flows/definition/legacy and utils/jsonpath\n" +
		"   -- do not edit; regenerated on every run of bin/check C16 *)\n")
	b.WriteString("From Coq Require Import List NArith String.\nImport ListNotations.\nLocal Open Scope string_scope.\n\n")
	b.WriteString("Inductive site_kind := KAssert | KIndex | KSlice.\n")
	b.WriteString("Inductive site_form := FCommaOk | FTypeSwitch | FCaseGuarded | FBare | FRangeIndex | FLenLoop | FConstGuarded | FFromIndex | FUnguarded.\n\n")
	b.WriteString("Record site := { s_pkg : string; s_file : string; s_func : string; s_kind : site_kind; s_form : site_form;\n" +
		"                 s_expr : string; s_occ : N; s_operand : string }.\n\n")
	kinds := map[string]string{"assert": "KAssert", "index": "KIndex", "slice": "KSlice"}
	forms := map[string]string{"comma-ok": "FCommaOk", "type-switch": "FTypeSwitch", "case-guarded": "FCaseGuarded", "bare": "FBare",
		"range-index": "FRangeIndex", "len-loop": "FLenLoop", "const-guarded": "FConstGuarded", "from-index": "FFromIndex", "unguarded": "FUnguarded"}
	b.WriteString("Definition assert_sites : list site := [\n")
	for i, s := range sites {
		sep := ";"
		if i == len(sites)-1 {
			sep = ""
		}
		fmt.Fprintf(&b, "  {| s_pkg := %s; s_file := %s; s_func := %s; s_kind := %s; s_form := %s;\n     s_expr := %s; s_occ := %d; s_operand := %s |}%s\n",
			coqString(s.Pkg), coqString(s.File), coqString(s.Func), kinds[s.Kind], forms[s.Form], coqString(s.Expr), s.Occ, coqString(s.Operand), sep)
	}
	b.WriteString("].\n")

	path := filepath.Join(*out, "AssertSites.v")
	if old, err := os.ReadFile(path); err == nil && bytes.Equal(old, b.Bytes()) {
		return
	}
	if err := os.MkdirAll(*out, 0o755); err != nil {
		fatal("%v", err)
	}
	if err := os.WriteFile(path, b.Bytes(), 0o644); err != nil {
		fatal("%v", err)
	}
}
