// legacytable — translator for property C17 (legacy expression migration): writes coq/gen/LegacyTable.v
// (and coq/gen/LegacyTable.json, the same data for the harness driver).
//
// Extracted, as data only:
//
//	flows/definition/legacy/expressions/functions.go   var callMigrators = map[string]callMigrator{ ... }
//	      "name": asIs() | asRename(`n`) | asTemplate(`fmt`) | asOperatorTemplate(`fmt`, prec...) |
//	              asJoin(`sep`, prec) |
//	              asParamMigrators(`n`, pm...) | asParamMigratorsWithDefaults(`n`, []string{...}, pm...)
//	      pm ::= paramAsIs() | paramDecremented() | paramBySpaces()
//	      prec ::= integer literal | precXxx | precXxx + integer literal
//	flows/definition/legacy/expressions/visitor.go     const ( precConcatenation = iota + 1; precEquality; ... precAtom )
//	flows/definition/legacy/expressions/migrate.go     var functionReturnTypes = map[string]string{...}
//	                                                   var ContextTopLevels = []string{...}
//	flows/expressions.go                               var RunContextTopLevels = []string{...}
//	antlr/LexUnicode.g4                                fragments UnicodeLetter (LU LL LT LM LO), UnicodeDigit
//
// Fails loudly (exit 2) whenever the source no longer has exactly this shape: an unknown helper, a
// non-literal argument, a format verb other than %s %v %[n]s %[n]v %%, a default list longer than the
// list of per-argument migrators, a missing helper function, a duplicate key, ...
// The behaviour of the helpers themselves (asTemplate's placeholder count, paramDecremented's Atoi, ...)
// is modelled by hand in coq/model/Legacy.v and tied by the correspondence run of harness/cmd/c17.
package main

import (
	"encoding/json"
	"flag"
	"fmt"
	"go/ast"
	"go/parser"
	"go/token"
	"os"
	"path/filepath"
	"regexp"
	"sort"
	"strconv"
	"strings"
)

func fatal(f string, a ...any) {
	fmt.Fprintf(os.Stderr, "legacytable: "+f+"\n", a...)
	os.Exit(2)
}

type entry struct {
	Name     string   `json:"name"`
	Kind     string   `json:"kind"` // asis | rename | template | join | params
	Arg      string   `json:"arg,omitempty"`
	Precs    []int    `json:"precs,omitempty"` // template: per parameter; join: one element
	Defaults []string `json:"defaults,omitempty"`
	PMs      []string `json:"pms,omitempty"`      // asis | decremented | byspaces
	Required int      `json:"required,omitempty"` // optional: number of required parameters
	Inner    *entry   `json:"inner,omitempty"`    // optional: the wrapped migrator
}

func parseFile(path string) (*token.FileSet, *ast.File) {
	fset := token.NewFileSet()
	f, err := parser.ParseFile(fset, path, nil, parser.SkipObjectResolution)
	if err != nil {
		fatal("cannot parse %s: %v", path, err)
	}
	return fset, f
}

// findVar returns the single value expression of package-level `var name = ...`
func findVar(f *ast.File, name, path string) ast.Expr {
	var found ast.Expr
	for _, d := range f.Decls {
		gd, ok := d.(*ast.GenDecl)
		if !ok || gd.Tok != token.VAR {
			continue
		}
		for _, s := range gd.Specs {
			vs := s.(*ast.ValueSpec)
			for i, n := range vs.Names {
				if n.Name == name {
					if len(vs.Values) != len(vs.Names) {
						fatal("%s: var %s has no initialiser of the expected form", path, name)
					}
					if found != nil {
						fatal("%s: var %s declared twice", path, name)
					}
					found = vs.Values[i]
				}
			}
		}
	}
	if found == nil {
		fatal("%s: package-level var %s not found", path, name)
	}
	return found
}

func strLit(e ast.Expr, what string) string {
	bl, ok := e.(*ast.BasicLit)
	if !ok || bl.Kind != token.STRING {
		fatal("%s: expected a string literal", what)
	}
	s, err := strconv.Unquote(bl.Value)
	if err != nil {
		fatal("%s: cannot unquote %s", what, bl.Value)
	}
	return s
}

func callName(e ast.Expr, what string) (string, []ast.Expr) {
	ce, ok := e.(*ast.CallExpr)
	if !ok {
		fatal("%s: expected a call to a migrator constructor", what)
	}
	id, ok := ce.Fun.(*ast.Ident)
	if !ok {
		fatal("%s: expected a call to a plain identifier", what)
	}
	if ce.Ellipsis != token.NoPos {
		fatal("%s: variadic spread is not understood", what)
	}
	return id.Name, ce.Args
}

func stringSliceLit(e ast.Expr, what string) []string {
	if id, ok := e.(*ast.Ident); ok && id.Name == "nil" {
		return nil
	}
	cl, ok := e.(*ast.CompositeLit)
	if !ok {
		fatal("%s: expected a []string literal", what)
	}
	at, ok := cl.Type.(*ast.ArrayType)
	if !ok || at.Len != nil {
		fatal("%s: expected a []string literal", what)
	}
	if id, ok := at.Elt.(*ast.Ident); !ok || id.Name != "string" {
		fatal("%s: expected a []string literal", what)
	}
	out := []string{}
	for i, el := range cl.Elts {
		if _, isKV := el.(*ast.KeyValueExpr); isKV {
			fatal("%s: keyed slice element", what)
		}
		out = append(out, strLit(el, fmt.Sprintf("%s[%d]", what, i)))
	}
	return out
}

func stringMapLit(e ast.Expr, what string) [][2]string {
	cl, ok := e.(*ast.CompositeLit)
	if !ok {
		fatal("%s: expected a map literal", what)
	}
	mt, ok := cl.Type.(*ast.MapType)
	if !ok {
		fatal("%s: expected a map literal", what)
	}
	for _, t := range []ast.Expr{mt.Key, mt.Value} {
		if id, ok := t.(*ast.Ident); !ok || id.Name != "string" {
			fatal("%s: expected map[string]string", what)
		}
	}
	seen := map[string]bool{}
	out := [][2]string{}
	for _, el := range cl.Elts {
		kv, ok := el.(*ast.KeyValueExpr)
		if !ok {
			fatal("%s: element without key", what)
		}
		k := strLit(kv.Key, what+" key")
		if seen[k] {
			fatal("%s: duplicate key %q", what, k)
		}
		seen[k] = true
		out = append(out, [2]string{k, strLit(kv.Value, what+"["+k+"]")})
	}
	sort.Slice(out, func(i, j int) bool { return out[i][0] < out[j][0] })
	return out
}

// precedence constants of visitor.go: const ( precConcatenation = iota + 1; precEquality; ...; precAtom )
var precNames = []string{"precConcatenation", "precEquality", "precComparison", "precAddition", "precMultiplication",
	"precExponent", "precNegation", "precAtom"}

func precConsts(f *ast.File, path string) map[string]int {
	for _, d := range f.Decls {
		gd, ok := d.(*ast.GenDecl)
		if !ok || gd.Tok != token.CONST || len(gd.Specs) == 0 {
			continue
		}
		first := gd.Specs[0].(*ast.ValueSpec)
		if len(first.Names) != 1 || first.Names[0].Name != precNames[0] {
			continue
		}
		// first spec must be `= iota + 1`, the others must have no value (implicit repetition)
		ok = false
		if len(first.Values) == 1 {
			if be, isBin := first.Values[0].(*ast.BinaryExpr); isBin && be.Op == token.ADD {
				id, isID := be.X.(*ast.Ident)
				bl, isLit := be.Y.(*ast.BasicLit)
				ok = isID && id.Name == "iota" && isLit && bl.Kind == token.INT && bl.Value == "1"
			}
		}
		if !ok {
			fatal("%s: %s is not declared as `iota + 1`", path, precNames[0])
		}
		out := map[string]int{}
		for i, sp := range gd.Specs {
			vs := sp.(*ast.ValueSpec)
			if len(vs.Names) != 1 || (i > 0 && (len(vs.Values) != 0 || vs.Type != nil)) {
				fatal("%s: precedence constant block has an unexpected shape at position %d", path, i)
			}
			out[vs.Names[0].Name] = i + 1
		}
		if len(out) != len(precNames) {
			fatal("%s: expected the %d precedence constants %v, found %d", path, len(precNames), precNames, len(out))
		}
		for _, n := range precNames {
			if _, has := out[n]; !has {
				fatal("%s: precedence constant %s not found", path, n)
			}
		}
		return out
	}
	fatal("%s: precedence constant block (const ( %s = iota + 1 ... )) not found", path, precNames[0])
	return nil
}

// precExpr evaluates: integer literal | precXxx | precXxx + integer literal
func precExpr(e ast.Expr, consts map[string]int, what string) int {
	switch x := e.(type) {
	case *ast.BasicLit:
		if x.Kind == token.INT {
			n, err := strconv.Atoi(x.Value)
			if err == nil && n >= 0 && n < 100 {
				return n
			}
		}
	case *ast.Ident:
		if v, ok := consts[x.Name]; ok {
			return v
		}
	case *ast.BinaryExpr:
		if x.Op == token.ADD {
			if bl, ok := x.Y.(*ast.BasicLit); ok && bl.Kind == token.INT {
				return precExpr(x.X, consts, what) + precExpr(bl, consts, what)
			}
		}
	}
	fatal("%s: precedence argument is not of the form  n | precXxx | precXxx + n", what)
	return 0
}

var verbRe = regexp.MustCompile(`%(\[[0-9]+\])?.?`)

// checkFormat accepts exactly the verbs the Coq model of fmt.Sprintf implements
func checkFormat(name, f string) {
	for _, m := range verbRe.FindAllString(f, -1) {
		ok := false
		switch {
		case m == "%s" || m == "%v" || m == "%%":
			ok = true
		case strings.HasPrefix(m, "%[") && (strings.HasSuffix(m, "]s") || strings.HasSuffix(m, "]v")):
			n, err := strconv.Atoi(m[2 : len(m)-2])
			ok = err == nil && n >= 1 && n <= 99
		}
		if !ok {
			fatal("callMigrators[%q]: format verb %q in template %q is outside the modelled subset of fmt.Sprintf", name, m, f)
		}
	}
}

func pmKind(e ast.Expr, what string) string {
	n, args := callName(e, what)
	if len(args) != 0 {
		fatal("%s: %s() takes no arguments", what, n)
	}
	switch n {
	case "paramAsIs":
		return "asis"
	case "paramDecremented":
		return "decremented"
	case "paramBySpaces":
		return "byspaces"
	}
	fatal("%s: unknown parameter migrator %s", what, n)
	return ""
}

func requireFuncs(f *ast.File, path string, sigs map[string]int) {
	have := map[string]int{}
	for _, d := range f.Decls {
		if fd, ok := d.(*ast.FuncDecl); ok && fd.Recv == nil {
			n := 0
			for _, p := range fd.Type.Params.List {
				if len(p.Names) == 0 {
					n++
				} else {
					n += len(p.Names)
				}
			}
			have[fd.Name.Name] = n
		}
	}
	for name, n := range sigs {
		got, ok := have[name]
		if !ok {
			fatal("%s: helper func %s not found", path, name)
		}
		if got != n {
			fatal("%s: helper func %s has %d parameters, expected %d", path, name, got, n)
		}
	}
}

// keepsNegative reports whether paramDecremented returns a negative literal position unchanged:
//
//	if asInt < 0 { return param }
func keepsNegative(f *ast.File) bool {
	found := false
	for _, d := range f.Decls {
		fd, ok := d.(*ast.FuncDecl)
		if !ok || fd.Name.Name != "paramDecremented" || fd.Body == nil {
			continue
		}
		ast.Inspect(fd.Body, func(n ast.Node) bool {
			is, ok := n.(*ast.IfStmt)
			if !ok || is.Init != nil || is.Else != nil || len(is.Body.List) != 1 {
				return true
			}
			be, ok := is.Cond.(*ast.BinaryExpr)
			if !ok || be.Op != token.LSS {
				return true
			}
			x, okx := be.X.(*ast.Ident)
			y, oky := be.Y.(*ast.BasicLit)
			rs, okr := is.Body.List[0].(*ast.ReturnStmt)
			if okx && oky && okr && x.Name == "asInt" && y.Value == "0" && len(rs.Results) == 1 {
				if id, ok := rs.Results[0].(*ast.Ident); ok && id.Name == "param" {
					found = true
				}
			}
			return true
		})
	}
	return found
}

// parseMigrator reads one call migrator constructor expression
func parseMigrator(name string, expr ast.Expr, what string, consts map[string]int) entry {
	ctor, args := callName(expr, what)
	e := entry{Name: name}
	switch ctor {
	case "asIs":
		if len(args) != 0 {
			fatal("%s: asIs takes no arguments", what)
		}
		e.Kind = "asis"
	case "asRename":
		if len(args) != 1 {
			fatal("%s: asRename takes one argument", what)
		}
		e.Kind, e.Arg = "rename", strLit(args[0], what)
	case "asTemplate":
		if len(args) != 1 {
			fatal("%s: asTemplate takes one argument", what)
		}
		e.Kind, e.Arg = "template", strLit(args[0], what)
		checkFormat(name, e.Arg)
	case "asOperatorTemplate":
		if len(args) < 1 {
			fatal("%s: asOperatorTemplate needs a template", what)
		}
		e.Kind, e.Arg = "template", strLit(args[0], what)
		checkFormat(name, e.Arg)
		for i, a := range args[1:] {
			e.Precs = append(e.Precs, precExpr(a, consts, fmt.Sprintf("%s precedence %d", what, i)))
		}
	case "asJoin":
		if len(args) != 2 {
			fatal("%s: asJoin takes two arguments", what)
		}
		e.Kind, e.Arg = "join", strLit(args[0], what)
		e.Precs = []int{precExpr(args[1], consts, what+" precedence")}
	case "asParamMigrators", "asParamMigratorsWithDefaults":
		min := 1
		if ctor == "asParamMigratorsWithDefaults" {
			min = 2
		}
		if len(args) < min {
			fatal("%s: %s needs at least %d arguments", what, ctor, min)
		}
		e.Kind, e.Arg = "params", strLit(args[0], what)
		e.Defaults = []string{}
		rest := args[1:]
		if ctor == "asParamMigratorsWithDefaults" {
			e.Defaults = stringSliceLit(args[1], what+" defaults")
			if e.Defaults == nil {
				e.Defaults = []string{}
			}
			rest = args[2:]
		}
		e.PMs = []string{}
		for i, a := range rest {
			e.PMs = append(e.PMs, pmKind(a, fmt.Sprintf("%s param %d", what, i)))
		}
		if len(e.Defaults) > len(e.PMs) {
			fatal("%s: %d defaults but only %d parameter migrators (index out of range in the Go code)", what, len(e.Defaults), len(e.PMs))
		}
	case "asDateDif":
		if len(args) != 0 {
			fatal("%s: asDateDif takes no arguments", what)
		}
		e.Kind = "datedif"
	case "withOptionalDefaults":
		if len(args) != 3 {
			fatal("%s: withOptionalDefaults takes three arguments", what)
		}
		bl, ok := args[0].(*ast.BasicLit)
		if !ok || bl.Kind != token.INT {
			fatal("%s: withOptionalDefaults: number of required parameters is not an integer literal", what)
		}
		n, _ := strconv.Atoi(bl.Value)
		e.Kind, e.Required = "optional", n
		e.Defaults = stringSliceLit(args[1], what+" defaults")
		inner := parseMigrator(name, args[2], what+" inner", consts)
		e.Inner = &inner
	default:
		fatal("%s: unknown migrator constructor %s", what, ctor)
	}
	return e
}

// intConst reads `name = <integer literal>` from a const declaration of the file
func intConst(f *ast.File, path, name string) int {
	for _, d := range f.Decls {
		gd, ok := d.(*ast.GenDecl)
		if !ok || gd.Tok != token.CONST {
			continue
		}
		for _, sp := range gd.Specs {
			vs := sp.(*ast.ValueSpec)
			for i, n := range vs.Names {
				if n.Name == name && i < len(vs.Values) {
					if bl, ok := vs.Values[i].(*ast.BasicLit); ok && bl.Kind == token.INT {
						v, err := strconv.Atoi(bl.Value)
						if err == nil {
							return v
						}
					}
					fatal("%s: constant %s is not an integer literal", path, name)
				}
			}
		}
	}
	fatal("%s: constant %s not found", path, name)
	return 0
}

func extractTable(repo string, consts map[string]int) []entry {
	path := filepath.Join(repo, "flows/definition/legacy/expressions/functions.go")
	_, f := parseFile(path)
	requireFuncs(f, path, map[string]int{"asIs": 0, "asRename": 1, "asTemplate": 1, "asOperatorTemplate": 2, "asJoin": 2, "asDateDif": 0, "withOptionalDefaults": 3, "numTemplateParams": 1, "asParamMigrators": 2,
		"asParamMigratorsWithDefaults": 3, "paramAsIs": 0, "paramDecremented": 0, "paramBySpaces": 0,
		"migrateFunctionCall": 2, "renderCall": 2})
	v := findVar(f, "callMigrators", path)
	cl, ok := v.(*ast.CompositeLit)
	if !ok {
		fatal("%s: callMigrators is no longer a composite literal", path)
	}
	mt, ok := cl.Type.(*ast.MapType)
	if !ok {
		fatal("%s: callMigrators is not a map literal", path)
	}
	if id, ok := mt.Key.(*ast.Ident); !ok || id.Name != "string" {
		fatal("%s: callMigrators key type is not string", path)
	}
	if id, ok := mt.Value.(*ast.Ident); !ok || id.Name != "callMigrator" {
		fatal("%s: callMigrators value type is not callMigrator", path)
	}
	seen := map[string]bool{}
	var out []entry
	for _, el := range cl.Elts {
		kv, ok := el.(*ast.KeyValueExpr)
		if !ok {
			fatal("%s: callMigrators element without key", path)
		}
		name := strLit(kv.Key, "callMigrators key")
		if seen[name] {
			fatal("callMigrators: duplicate key %q", name)
		}
		seen[name] = true
		what := fmt.Sprintf("callMigrators[%q]", name)
		e := parseMigrator(name, kv.Value, what, consts)
		out = append(out, e)
	}
	if len(out) == 0 {
		fatal("callMigrators is empty")
	}
	sort.Slice(out, func(i, j int) bool { return out[i].Name < out[j].Name })
	return out
}

// ---- LexUnicode.g4 -------------------------------------------------------------------------------

var fragRe = regexp.MustCompile(`(?s)fragment\s+(\w+)[^:]*:(.*?)\n\s*;`)
var rangeRe = regexp.MustCompile(`'\\u([0-9a-fA-F]{4})'(?:\s*\.\.\s*'\\u([0-9a-fA-F]{4})')?`)

func unicodeRanges(repo string) (letters, digits [][2]int) {
	path := filepath.Join(repo, "antlr/LexUnicode.g4")
	b, err := os.ReadFile(path)
	if err != nil {
		fatal("cannot read %s: %v", path, err)
	}
	frags := map[string]string{}
	for _, m := range fragRe.FindAllStringSubmatch(string(b), -1) {
		frags[m[1]] = m[2]
	}
	parse := func(name string) [][2]int {
		body, ok := frags[name]
		if !ok {
			fatal("%s: fragment %s not found", path, name)
		}
		var out [][2]int
		for _, m := range rangeRe.FindAllStringSubmatch(body, -1) {
			lo, _ := strconv.ParseInt(m[1], 16, 32)
			hi := lo
			if m[2] != "" {
				hi, _ = strconv.ParseInt(m[2], 16, 32)
			}
			if hi < lo {
				fatal("%s: fragment %s has an inverted range", path, name)
			}
			out = append(out, [2]int{int(lo), int(hi)})
		}
		// anything in the body that is not a range, '|' or white space means we did not understand it
		left := strings.TrimSpace(strings.NewReplacer("|", "").Replace(rangeRe.ReplaceAllString(body, "")))
		if left != "" {
			fatal("%s: fragment %s contains something other than code point ranges: %.40q", path, name, left)
		}
		if len(out) == 0 {
			fatal("%s: fragment %s is empty", path, name)
		}
		return out
	}
	ul := strings.Fields(strings.NewReplacer("|", " ").Replace(frags["UnicodeLetter"]))
	want := []string{"UnicodeClass_LU", "UnicodeClass_LL", "UnicodeClass_LT", "UnicodeClass_LM", "UnicodeClass_LO"}
	if strings.Join(ul, ",") != strings.Join(want, ",") {
		fatal("%s: UnicodeLetter is no longer LU|LL|LT|LM|LO (%v)", path, ul)
	}
	for _, c := range want {
		letters = append(letters, parse(c)...)
	}
	digits = parse("UnicodeDigit")
	norm := func(rs [][2]int) [][2]int {
		sort.Slice(rs, func(i, j int) bool { return rs[i][0] < rs[j][0] })
		var out [][2]int
		for _, r := range rs {
			if n := len(out); n > 0 && r[0] <= out[n-1][1]+1 {
				if r[1] > out[n-1][1] {
					out[n-1][1] = r[1]
				}
			} else {
				out = append(out, r)
			}
		}
		return out
	}
	return norm(letters), norm(digits)
}

// ---- emission ------------------------------------------------------------------------------------

func coqStr(s string) string {
	var sb strings.Builder
	sb.WriteString("[")
	first := true
	for _, c := range s {
		if !first {
			sb.WriteString(";")
		}
		first = false
		fmt.Fprintf(&sb, "%d", c)
	}
	sb.WriteString("]")
	return sb.String()
}

func coqStrs(xs []string) string {
	parts := make([]string, len(xs))
	for i, x := range xs {
		parts[i] = coqStr(x)
	}
	return "[" + strings.Join(parts, "; ") + "]"
}

func coqNats(xs []int) string {
	parts := make([]string, len(xs))
	for i, x := range xs {
		parts[i] = fmt.Sprintf("%d%%nat", x)
	}
	return "[" + strings.Join(parts, "; ") + "]"
}

func coqMigrator(e entry) string {
	var v string
	switch e.Kind {
	case "asis":
		v = "AsIs"
	case "rename":
		v = "Rename " + coqStr(e.Arg)
	case "template":
		v = "Template " + coqStr(e.Arg) + " " + coqNats(e.Precs)
	case "join":
		v = fmt.Sprintf("Join %s %d%%nat", coqStr(e.Arg), e.Precs[0])
	case "params":
		pms := make([]string, len(e.PMs))
		for j, p := range e.PMs {
			pms[j] = map[string]string{"asis": "PAsIs", "decremented": "PDecremented", "byspaces": "PBySpaces"}[p]
		}
		v = fmt.Sprintf("Params %s %s [%s]", coqStr(e.Arg), coqStrs(e.Defaults), strings.Join(pms, "; "))
	case "datedif":
		v = "DateDif"
	case "optional":
		v = fmt.Sprintf("Optional %d%%nat %s (%s)", e.Required, coqStrs(e.Defaults), coqMigrator(*e.Inner))
	}
	return v
}

func comment(s string) string {
	s = strings.ReplaceAll(s, "(*", "( *")
	s = strings.ReplaceAll(s, "*)", "* )")
	return s
}

func writeIfChanged(path, content string) {
	if old, err := os.ReadFile(path); err == nil && string(old) == content {
		return
	}
	if err := os.MkdirAll(filepath.Dir(path), 0o755); err != nil {
		fatal("%v", err)
	}
	if err := os.WriteFile(path+".tmp", []byte(content), 0o644); err != nil {
		fatal("%v", err)
	}
	if err := os.Rename(path+".tmp", path); err != nil {
		fatal("%v", err)
	}
}

func main() {
	repo := flag.String("repo", "/repo", "goflow working tree")
	out := flag.String("out", "coq/gen", "output directory")
	flag.Parse()

	vpath := filepath.Join(*repo, "flows/definition/legacy/expressions/visitor.go")
	_, vf := parseFile(vpath)
	consts := precConsts(vf, vpath)
	requireFuncs(vf, vpath, map[string]int{"precedenceOf": 1, "asOperand": 2})
	table := extractTable(*repo, consts)
	_, ff := parseFile(filepath.Join(*repo, "flows/definition/legacy/expressions/functions.go"))
	keepsNeg := keepsNegative(ff)

	mpath := filepath.Join(*repo, "flows/definition/legacy/expressions/migrate.go")
	_, mf := parseFile(mpath)
	retTypes := stringMapLit(findVar(mf, "functionReturnTypes", mpath), "functionReturnTypes")
	legacyTops := stringSliceLit(findVar(mf, "ContextTopLevels", mpath), "ContextTopLevels")
	// migrate.go separateFrom(wrapped, following): keeps @(...) around a bare identifier that the following text would extend
	separates := false
	for _, d := range mf.Decls {
		if fd, ok := d.(*ast.FuncDecl); ok && fd.Recv == nil && fd.Name.Name == "separateFrom" {
			separates = true
		}
	}
	if separates {
		requireFuncs(mf, mpath, map[string]int{"separateFrom": 2})
	}
	requireFuncs(mf, mpath, map[string]int{"MigrateTemplate": 2, "migrateLegacyTemplateAsString": 2, "migrateExpression": 3,
		"inferType": 1, "isValidIdentifier": 1, "wrapRawExpression": 3, "wrap": 2, "MigrateStringLiteral": 1})
	epath := filepath.Join(*repo, "flows/expressions.go")
	_, ef := parseFile(epath)
	runTops := stringSliceLit(findVar(ef, "RunContextTopLevels", epath), "RunContextTopLevels")
	if len(legacyTops) == 0 || len(runTops) == 0 {
		fatal("empty top-level list")
	}
	letters, digits := unicodeRanges(*repo)

	var sb strings.Builder
	sb.WriteString("(* GENERATED by translators/cmd/legacytable from flows/definition/legacy/expressions/{functions,migrate,visitor}.go,\n")
	sb.WriteString("   flows/expressions.go and antlr/LexUnicode.g4 -- do not edit; regenerated on every run of bin/check C17 *)\n")
	sb.WriteString("From Coq Require Import List NArith.\nFrom Verif Require Import model.LegacyTy.\nImport ListNotations.\nOpen Scope N_scope.\n\n")
	sb.WriteString("Definition legacy_table : list (text * cmig) := [\n")
	for i, e := range table {
		sep := ";"
		if i == len(table)-1 {
			sep = ""
		}
		v := coqMigrator(e)
		fmt.Fprintf(&sb, "  (%s, %s)%s  (* %s: %s %s *)\n", coqStr(e.Name), v, sep, comment(e.Name), e.Kind, comment(e.Arg))
	}
	sb.WriteString("].\n\n")
	sb.WriteString("Definition function_return_types : list (text * text) := [\n")
	for i, kv := range retTypes {
		sep := ";"
		if i == len(retTypes)-1 {
			sep = ""
		}
		fmt.Fprintf(&sb, "  (%s, %s)%s  (* %s -> %s *)\n", coqStr(kv[0]), coqStr(kv[1]), sep, comment(kv[0]), comment(kv[1]))
	}
	sb.WriteString("].\n\n")
	fmt.Fprintf(&sb, "(* functions.go paramDecremented: `if asInt < 0 { return param }` present? *)\nDefinition decremented_keeps_negative : bool := %v.\n\n", keepsNeg)
	bpath := filepath.Join(*repo, "excellent/base.go")
	_, bf := parseFile(bpath)
	limits := [][2]any{
		{"max_expression_tokens", intConst(mf, mpath, "maxExpressionTokens")},
		{"max_expression_nesting", intConst(mf, mpath, "maxExpressionNesting")},
		{"max_migrated_growth", intConst(mf, mpath, "maxMigratedGrowth")},
		{"max_migrated_slack", intConst(mf, mpath, "maxMigratedSlack")},
		{"max_parse_depth", intConst(bf, bpath, "MaxParseDepth")},
	}
	sb.WriteString("(* migrate.go: maxExpressionTokens, maxExpressionNesting, maxMigratedGrowth, maxMigratedSlack; excellent/base.go: MaxParseDepth *)\n")
	for _, l := range limits {
		fmt.Fprintf(&sb, "Definition %s : nat := %d%%nat.\n", l[0], l[1])
	}
	sb.WriteString("\n")
	fmt.Fprintf(&sb, "(* migrate.go: func separateFrom(wrapped, following) present? *)\nDefinition separates_identifiers : bool := %v.\n\n", separates)
	sb.WriteString("(* visitor.go: const ( precConcatenation = iota + 1; ... ) *)\n")
	for _, n := range precNames {
		cn := "prec_" + strings.ToLower(n[4:])
		fmt.Fprintf(&sb, "Definition %s : nat := %d%%nat.\n", cn, consts[n])
	}
	sb.WriteString("\n")
	fmt.Fprintf(&sb, "(* migrate.go: ContextTopLevels = %s *)\nDefinition legacy_top_levels : list text := %s.\n\n", comment(strings.Join(legacyTops, " ")), coqStrs(legacyTops))
	fmt.Fprintf(&sb, "(* flows/expressions.go: RunContextTopLevels = %s *)\nDefinition run_top_levels : list text := %s.\n\n", comment(strings.Join(runTops, " ")), coqStrs(runTops))
	emitRanges := func(name string, rs [][2]int) {
		fmt.Fprintf(&sb, "Definition %s : list (N * N) := [\n", name)
		for i, r := range rs {
			sep := ";"
			if i == len(rs)-1 {
				sep = ""
			}
			fmt.Fprintf(&sb, " (%d,%d)%s", r[0], r[1], sep)
			if i%8 == 7 {
				sb.WriteString("\n")
			}
		}
		sb.WriteString("].\n\n")
	}
	emitRanges("uletter_ranges", letters)
	emitRanges("udigit_ranges", digits)
	writeIfChanged(filepath.Join(*out, "LegacyTable.v"), sb.String())

	js, err := json.MarshalIndent(map[string]any{"table": table, "function_return_types": retTypes, "precedences": consts,
		"legacy_top_levels": legacyTops, "run_top_levels": runTops}, "", " ")
	if err != nil {
		fatal("%v", err)
	}
	writeIfChanged(filepath.Join(*out, "LegacyTable.json"), string(js)+"\n")
	fmt.Printf("legacytable: %d call migrators, %d return types, %d letter ranges, %d digit ranges\n",
		len(table), len(retTypes), len(letters), len(digits))
}
