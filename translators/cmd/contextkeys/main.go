// contextkeys — translator for property C19 (redacted URNs are invisible to expressions):
// writes coq/gen/ContextKeys.v.
//
// Census (go/packages with type information, goflow working tree, non-test files): every function or method in a
// package under flows/ whose result type is map[string]types.XValue — these are the builders of the expression
// context (Context(env), RootContext(env), MapContext(env), nodeContext(env), asMap(), ...).  For each of them
// the keys of the map it returns:
//
//	string-literal keys of map[string]types.XValue composite literals and of m["k"] = v assignments,
//	"*" for dynamically keyed assignments m[k] = v and for a result that is not built in the function itself
//	(return f(..)): then the class is that of the whole function body.
//
// and for each key the URN-derivation class of its value expression (local variables are replaced by what is
// assigned to them in the function):
//
//	KPlain    no sub-expression has a URN type (urns.URN, flows.ContactURN, flows.URNList, flows.Destination,
//	          pointers/slices of them) and no goflow function referenced by it touches one (transitively)
//	KUrnSink  URN-derived, but every URN-typed sub-expression is consumed by .ToXValue(env) / .MapContext, and
//	          every referenced URN-touching function is one of the policy-aware sinks: (*Contact).Format,
//	          runs.FormatRunSummary, or another context builder reached through flows.Context / flows.ContextFunc
//	KChannel  derived from the URN list through (*Contact).PreferredChannel (channel resolution)
//	KUrnRaw   URN-derived in any other way (e.g. u.URN().Path(), len(c.urns), c.Country())
//
// Fails loudly (exit 2) when the expected shape is gone: fewer than 20 builders, no Contact.Context,
// no run.RootContext, flows.Context / flows.ContextFunc missing, a builder without any key.
package main

import (
	"flag"
	"fmt"
	"go/ast"
	"go/token"
	"go/types"
	"os"
	"path/filepath"
	"sort"
	"strconv"
	"strings"

	"golang.org/x/tools/go/packages"
)

const modPath = "github.com/nyaruka/goflow"

func fatal(f string, a ...any) {
	fmt.Fprintf(os.Stderr, "contextkeys: "+f+"\n", a...)
	os.Exit(2)
}

type class int

const (
	plain class = iota
	sink
	channel
	raw
)

func (c class) String() string { return [...]string{"KPlain", "KUrnSink", "KChannel", "KUrnRaw"}[c] }

func maxc(a, b class) class {
	if b > a {
		return b
	}
	return a
}

type fn struct {
	obj  *types.Func
	decl *ast.FuncDecl
	pkg  *packages.Package
}

type analyzer struct {
	pkgs    []*packages.Package
	funcs   map[*types.Func]*fn
	named   []*types.Named // all named types of goflow
	touches map[*types.Func]bool
	refs    map[*types.Func][]*types.Func
	direct  map[*types.Func]bool
	why     []string
}

func isURNType(t types.Type) bool {
	for i := 0; i < 8 && t != nil; i++ {
		switch u := t.(type) {
		case *types.Pointer:
			t = u.Elem()
			continue
		case *types.Slice:
			t = u.Elem()
			continue
		case *types.Array:
			t = u.Elem()
			continue
		case *types.Map:
			t = u.Elem()
			continue
		case *types.Named:
			o := u.Obj()
			if o.Pkg() == nil {
				return false
			}
			p, n := o.Pkg().Path(), o.Name()
			if p == "github.com/nyaruka/gocommon/urns" && n == "URN" {
				return true
			}
			if p == modPath+"/flows" && (n == "ContactURN" || n == "URNList" || n == "Destination") {
				return true
			}
			return false
		}
		return false
	}
	return false
}

func isXValueMap(t types.Type) bool {
	m, ok := t.Underlying().(*types.Map)
	if !ok {
		return false
	}
	if b, ok := m.Key().(*types.Basic); !ok || b.Kind() != types.String {
		return false
	}
	n, ok := m.Elem().(*types.Named)
	return ok && n.Obj().Pkg() != nil && n.Obj().Pkg().Path() == modPath+"/excellent/types" && n.Obj().Name() == "XValue"
}

func isXValue(t types.Type) bool {
	n, ok := t.(*types.Named)
	return ok && n.Obj().Pkg() != nil && n.Obj().Pkg().Path() == modPath+"/excellent/types" && n.Obj().Name() == "XValue"
}

func (a *analyzer) lookupInterface(pkgPath, name string) *types.Interface {
	for _, p := range a.pkgs {
		if p.PkgPath == pkgPath {
			if o := p.Types.Scope().Lookup(name); o != nil {
				if i, ok := o.Type().Underlying().(*types.Interface); ok {
					return i
				}
			}
		}
	}
	return nil
}

func inModule(o types.Object) bool {
	return o != nil && o.Pkg() != nil && (o.Pkg().Path() == modPath || strings.HasPrefix(o.Pkg().Path(), modPath+"/"))
}

func fullName(f *types.Func) string {
	sig := f.Type().(*types.Signature)
	if r := sig.Recv(); r != nil {
		t := r.Type()
		if p, ok := t.(*types.Pointer); ok {
			t = p.Elem()
		}
		parts := strings.Split(f.Pkg().Path(), "/")
		if n, ok := t.(*types.Named); ok {
			return parts[len(parts)-1] + "." + n.Obj().Name() + "." + f.Name()
		}
		return parts[len(parts)-1] + ".?." + f.Name()
	}
	parts := strings.Split(f.Pkg().Path(), "/")
	return parts[len(parts)-1] + "." + f.Name()
}

// the functions an identifier / selector may denote: a concrete goflow function, or for an interface method every
// goflow implementation of it
func (a *analyzer) resolve(info *types.Info, e ast.Expr) []*types.Func {
	var obj types.Object
	switch x := e.(type) {
	case *ast.Ident:
		obj = info.Uses[x]
	case *ast.SelectorExpr:
		if sel := info.Selections[x]; sel != nil {
			obj = sel.Obj()
		} else {
			obj = info.Uses[x.Sel]
		}
	}
	f, ok := obj.(*types.Func)
	if !ok || !inModule(f) {
		return nil
	}
	f = f.Origin()
	sig := f.Type().(*types.Signature)
	if sig.Recv() != nil {
		if iface, ok := sig.Recv().Type().Underlying().(*types.Interface); ok {
			return a.implementations(iface, f.Name())
		}
	}
	return []*types.Func{f}
}

func (a *analyzer) implementations(iface *types.Interface, name string) []*types.Func {
	var out []*types.Func
	for _, n := range a.named {
		if _, isIface := n.Underlying().(*types.Interface); isIface {
			continue
		}
		for _, t := range []types.Type{n, types.NewPointer(n)} {
			if types.Implements(t, iface) {
				o, _, _ := types.LookupFieldOrMethod(t, true, n.Obj().Pkg(), name)
				if f, ok := o.(*types.Func); ok && inModule(f) {
					out = append(out, f.Origin())
				}
				break
			}
		}
	}
	return out
}

func (a *analyzer) buildTouches() {
	a.refs = map[*types.Func][]*types.Func{}
	a.direct = map[*types.Func]bool{}
	for obj, f := range a.funcs {
		if f.decl.Body == nil {
			continue
		}
		info := f.pkg.TypesInfo
		ast.Inspect(f.decl.Body, func(n ast.Node) bool {
			e, ok := n.(ast.Expr)
			if !ok {
				return true
			}
			if tv, ok := info.Types[e]; ok && tv.Type != nil && isURNType(tv.Type) {
				a.direct[obj] = true
			}
			if call, ok := e.(*ast.CallExpr); ok {
				if fs := a.resolve(info, ast.Unparen(call.Fun)); len(fs) == 1 && isWrapper(fs[0]) && len(call.Args) == 2 {
					ts, _ := a.wrapperTargets(info, f.pkg.Types, fs[0], call.Args[1])
					a.refs[obj] = append(a.refs[obj], ts...)
				}
			}
			switch e.(type) {
			case *ast.Ident, *ast.SelectorExpr:
				for _, r := range a.resolve(info, e) {
					if !isWrapper(r) {
						a.refs[obj] = append(a.refs[obj], r)
					}
				}
			}
			return true
		})
	}
	a.touches = map[*types.Func]bool{}
	for f := range a.direct {
		a.touches[f] = true
	}
	for changed := true; changed; {
		changed = false
		for f, rs := range a.refs {
			if a.touches[f] {
				continue
			}
			for _, r := range rs {
				if a.touches[r] {
					a.touches[f] = true
					changed = true
					break
				}
			}
		}
	}
}

// ---- classification of one value expression ------------------------------------------------------------------

type fctx struct {
	a       *analyzer
	f       *fn
	info    *types.Info
	defs    map[*types.Var][]ast.Expr // local variable -> expressions assigned to it
	visited map[*types.Var]bool
}

func (c *fctx) collectDefs() {
	c.defs = map[*types.Var][]ast.Expr{}
	add := func(id *ast.Ident, e ast.Expr) {
		if id == nil || id.Name == "_" || e == nil {
			return
		}
		var v *types.Var
		if o, ok := c.info.Defs[id].(*types.Var); ok {
			v = o
		} else if o, ok := c.info.Uses[id].(*types.Var); ok {
			v = o
		}
		if v != nil && !v.IsField() {
			c.defs[v] = append(c.defs[v], e)
		}
	}
	ast.Inspect(c.f.decl.Body, func(n ast.Node) bool {
		switch s := n.(type) {
		case *ast.AssignStmt:
			for i, l := range s.Lhs {
				id, ok := l.(*ast.Ident)
				if !ok {
					continue
				}
				if len(s.Rhs) == len(s.Lhs) {
					add(id, s.Rhs[i])
				} else if len(s.Rhs) == 1 {
					add(id, s.Rhs[0])
				}
			}
		case *ast.ValueSpec:
			for i, id := range s.Names {
				if len(s.Values) == len(s.Names) {
					add(id, s.Values[i])
				} else if len(s.Values) == 1 {
					add(id, s.Values[0])
				}
			}
		case *ast.RangeStmt:
			if id, ok := s.Key.(*ast.Ident); ok {
				add(id, s.X)
			}
			if id, ok := s.Value.(*ast.Ident); ok {
				add(id, s.X)
			}
		}
		return true
	})
}

func (c *fctx) typeOf(e ast.Expr) types.Type {
	if tv, ok := c.info.Types[e]; ok {
		return tv.Type
	}
	if id, ok := e.(*ast.Ident); ok {
		if o := c.info.Uses[id]; o != nil {
			return o.Type()
		}
	}
	return nil
}

func isWrapper(f *types.Func) bool {
	return f.Pkg() != nil && f.Pkg().Path() == modPath+"/flows" && (f.Name() == "Context" || f.Name() == "ContextFunc") &&
		f.Type().(*types.Signature).Recv() == nil
}

func isSinkMethod(f *types.Func) bool {
	sig := f.Type().(*types.Signature)
	if sig.Recv() == nil {
		return f.Pkg().Path() == modPath+"/flows/runs" && f.Name() == "FormatRunSummary"
	}
	rt := sig.Recv().Type()
	if (f.Name() == "ToXValue" || f.Name() == "MapContext") && isURNType(rt) {
		return true
	}
	if p, ok := rt.(*types.Pointer); ok {
		if n, ok := p.Elem().(*types.Named); ok && n.Obj().Pkg().Path() == modPath+"/flows" && n.Obj().Name() == "Contact" && f.Name() == "Format" {
			return true
		}
	}
	return false
}

func isPreferredChannel(f *types.Func) bool {
	return f.Name() == "PreferredChannel" && f.Pkg().Path() == modPath+"/flows" && f.Type().(*types.Signature).Recv() != nil
}

// classify e; top is true when e is the defining expression of a URN-typed local variable (its use sites decide)
func (c *fctx) classify(e ast.Expr, defOfURNVar bool) class {
	res := plain
	var stack []ast.Node
	ast.Inspect(e, func(n ast.Node) bool {
		if n == nil {
			stack = stack[:len(stack)-1]
			return true
		}
		var parent ast.Node
		if len(stack) > 0 {
			parent = stack[len(stack)-1]
		}
		stack = append(stack, n)
		x, ok := n.(ast.Expr)
		if !ok {
			return true
		}
		if p, ok := parent.(*ast.SelectorExpr); ok && p.Sel == x {
			return true // the name after the dot: judged with the selector expression itself
		}
		// calls of the generic context wrappers: the class comes from the builder(s) they reach
		if call, ok := x.(*ast.CallExpr); ok {
			if fs := c.a.resolve(c.info, ast.Unparen(call.Fun)); len(fs) == 1 && isWrapper(fs[0]) && len(call.Args) == 2 {
				res = maxc(res, c.wrapperTarget(fs[0], call.Args[1]))
			}
		}
		// references to goflow functions
		switch x.(type) {
		case *ast.Ident, *ast.SelectorExpr:
			for _, f := range c.a.resolve(c.info, x) {
				switch {
				case isWrapper(f):
				case isSinkMethod(f):
					res = maxc(res, sink)
				case isPreferredChannel(f):
					res = maxc(res, channel)
				case c.a.touches[f]:
					if t, ok := f.Type().(*types.Signature); ok && t.Results().Len() > 0 && isURNType(t.Results().At(0).Type()) {
						// returns a URN-typed value: judged where that value is consumed
						res = maxc(res, sink)
					} else if isBuilderFunc(f) {
						// a method value of another builder (passed to ContextFunc): covered by its own entry
						res = maxc(res, sink)
					} else {
						res = maxc(res, raw)
					}
				}
			}
		}
		// URN-typed sub-expressions: how are they consumed?
		if t := c.typeOf(x); t != nil && isURNType(t) {
			res = maxc(res, sink)
			ok := false
			switch p := parent.(type) {
			case nil:
				ok = defOfURNVar
			case *ast.SelectorExpr:
				if p.X == x {
					if p.Sel.Name == "ToXValue" || p.Sel.Name == "MapContext" {
						ok = true
					} else if pt := c.selResultType(p); pt != nil && isURNType(pt) {
						ok = true
					}
				}
			case *ast.IndexExpr:
				ok = p.X == x && isURNType(c.typeOf(p))
			case *ast.SliceExpr:
				ok = p.X == x
			case *ast.ParenExpr, *ast.StarExpr:
				ok = isURNType(c.typeOf(p.(ast.Expr)))
			case *ast.UnaryExpr:
				ok = p.Op == token.AND
			}
			if !ok {
				res = maxc(res, raw)
			}
		}
		// local variables: what was assigned to them
		if id, ok := x.(*ast.Ident); ok {
			if v, ok := c.info.Uses[id].(*types.Var); ok && !c.visited[v] {
				if ds, ok := c.defs[v]; ok {
					c.visited[v] = true
					for _, d := range ds {
						res = maxc(res, c.classify(d, isURNType(v.Type())))
					}
					c.visited[v] = false
				}
			}
		}
		return true
	})
	return res
}

func isBuilderFunc(f *types.Func) bool {
	sig := f.Type().(*types.Signature)
	return sig.Results().Len() == 1 && isXValueMap(sig.Results().At(0).Type())
}

// type of p, or of its result when p denotes a method
func (c *fctx) selResultType(p *ast.SelectorExpr) types.Type {
	t := c.typeOf(p)
	if sig, ok := t.(*types.Signature); ok {
		if sig.Results().Len() == 0 {
			return nil
		}
		return sig.Results().At(0).Type()
	}
	return t
}

// flows.Context(env, X): the Context builder(s) of X's static type; flows.ContextFunc(env, fn): fn.
// ok=false: a value we cannot follow
func (a *analyzer) wrapperTargets(info *types.Info, pkg *types.Package, w *types.Func, arg ast.Expr) ([]*types.Func, bool) {
	if w.Name() == "ContextFunc" {
		ts := a.resolve(info, ast.Unparen(arg))
		return ts, len(ts) > 0
	}
	var t types.Type
	if tv, ok := info.Types[arg]; ok {
		t = tv.Type
	}
	if t == nil {
		return nil, false
	}
	if b, ok := t.(*types.Basic); ok && b.Kind() == types.UntypedNil {
		return nil, true
	}
	if iface, ok := t.Underlying().(*types.Interface); ok {
		ts := a.implementations(iface, "Context")
		return ts, len(ts) > 0
	}
	o, _, _ := types.LookupFieldOrMethod(t, true, pkg, "Context")
	if f, ok := o.(*types.Func); ok {
		return []*types.Func{f.Origin()}, true
	}
	return nil, false
}

func (c *fctx) wrapperTarget(w *types.Func, arg ast.Expr) class {
	targets, ok := c.a.wrapperTargets(c.info, c.f.pkg.Types, w, arg)
	if !ok {
		return raw
	}
	res := plain
	for _, t := range targets {
		if c.a.touches[t] {
			if isBuilderFunc(t) {
				res = maxc(res, sink)
			} else {
				res = maxc(res, raw)
			}
		}
	}
	return res
}

// ---- keys of one builder -----------------------------------------------------------------------------------

type keyInfo struct {
	key string
	cl  class
}

func (a *analyzer) builderKeys(f *fn) []keyInfo {
	c := &fctx{a: a, f: f, info: f.pkg.TypesInfo, visited: map[*types.Var]bool{}}
	c.collectDefs()
	keys := map[string]class{}
	put := func(k string, cl class) {
		if old, ok := keys[k]; ok {
			cl = maxc(old, cl)
		}
		keys[k] = cl
	}
	keyName := func(e ast.Expr) string {
		if tv, ok := c.info.Types[e]; ok && tv.Value != nil {
			if s, err := strconv.Unquote(tv.Value.ExactString()); err == nil {
				return s
			}
		}
		return "*"
	}
	// maps built in the function that ARE the result: the returned literals and the local maps returned by name.
	// Nested literals (values of keys) are covered by the class of the key that contains them.
	nested := map[*ast.CompositeLit]bool{}
	ast.Inspect(f.decl.Body, func(n ast.Node) bool {
		if cl, ok := n.(*ast.CompositeLit); ok {
			if t := c.typeOf(cl); t != nil && isXValueMap(t) {
				for _, el := range cl.Elts {
					if kv, ok := el.(*ast.KeyValueExpr); ok {
						ast.Inspect(kv.Value, func(m ast.Node) bool {
							if in, ok := m.(*ast.CompositeLit); ok {
								nested[in] = true
							}
							return true
						})
					}
				}
			}
		}
		return true
	})
	bodyClass := func() class {
		res := plain
		ast.Inspect(f.decl.Body, func(n ast.Node) bool {
			if s, ok := n.(*ast.ExprStmt); ok {
				res = maxc(res, c.classify(s.X, false))
			}
			if s, ok := n.(*ast.AssignStmt); ok {
				for _, r := range s.Rhs {
					res = maxc(res, c.classify(r, true))
				}
			}
			if s, ok := n.(*ast.ReturnStmt); ok {
				for _, r := range s.Results {
					res = maxc(res, c.classify(r, false))
				}
			}
			return true
		})
		return res
	}
	ast.Inspect(f.decl.Body, func(n ast.Node) bool {
		switch s := n.(type) {
		case *ast.CompositeLit:
			if t := c.typeOf(s); t != nil && isXValueMap(t) && !nested[s] {
				for _, el := range s.Elts {
					if kv, ok := el.(*ast.KeyValueExpr); ok {
						put(keyName(kv.Key), c.classify(kv.Value, false))
					}
				}
			}
		case *ast.AssignStmt:
			for i, l := range s.Lhs {
				if ix, ok := l.(*ast.IndexExpr); ok && len(s.Rhs) == len(s.Lhs) {
					if t := c.typeOf(ix.X); t != nil && isXValueMap(t) {
						put(keyName(ix.Index), c.classify(s.Rhs[i], false))
					}
				}
			}
		case *ast.ReturnStmt:
			for _, r := range s.Results {
				r = ast.Unparen(r)
				switch r.(type) {
				case *ast.CompositeLit, *ast.Ident:
				default:
					put("*", bodyClass())
				}
			}
		}
		return true
	})
	var out []keyInfo
	for k, cl := range keys {
		out = append(out, keyInfo{k, cl})
	}
	sort.Slice(out, func(i, j int) bool { return out[i].key < out[j].key })
	return out
}

func coqStr(s string) string { return "\"" + strings.ReplaceAll(s, "\"", "\"\"") + "\"" }

func main() {
	repo := flag.String("repo", "/repo", "goflow working tree")
	out := flag.String("out", "coq/gen", "output directory")
	list := flag.Bool("list", false, "print the table to stdout")
	flag.Parse()

	absRepo, _ := filepath.Abs(*repo)
	cfg := &packages.Config{
		Mode: packages.NeedName | packages.NeedFiles | packages.NeedCompiledGoFiles | packages.NeedSyntax |
			packages.NeedTypes | packages.NeedTypesInfo | packages.NeedImports | packages.NeedDeps,
		Dir: absRepo, Tests: false, Env: os.Environ(),
	}
	pkgs, err := packages.Load(cfg, "./...")
	if err != nil {
		fatal("load: %v", err)
	}
	a := &analyzer{funcs: map[*types.Func]*fn{}}
	for _, p := range pkgs {
		if len(p.Errors) > 0 {
			fatal("package %s has errors: %v", p.PkgPath, p.Errors[0])
		}
		if p.PkgPath != modPath && !strings.HasPrefix(p.PkgPath, modPath+"/") {
			continue
		}
		a.pkgs = append(a.pkgs, p)
	}
	if len(a.pkgs) < 20 {
		fatal("only %d goflow packages loaded from %s", len(a.pkgs), absRepo)
	}
	sort.Slice(a.pkgs, func(i, j int) bool { return a.pkgs[i].PkgPath < a.pkgs[j].PkgPath })
	for _, p := range a.pkgs {
		sc := p.Types.Scope()
		for _, name := range sc.Names() {
			if tn, ok := sc.Lookup(name).(*types.TypeName); ok && !tn.IsAlias() {
				if n, ok := tn.Type().(*types.Named); ok && n.TypeParams().Len() == 0 {
					a.named = append(a.named, n)
				}
			}
		}
		for i, f := range p.Syntax {
			if strings.HasSuffix(p.CompiledGoFiles[i], "_test.go") {
				continue
			}
			for _, d := range f.Decls {
				if fd, ok := d.(*ast.FuncDecl); ok {
					if obj, ok := p.TypesInfo.Defs[fd.Name].(*types.Func); ok {
						a.funcs[obj] = &fn{obj: obj, decl: fd, pkg: p}
					}
				}
			}
		}
	}
	a.buildTouches()

	// sanity: the wrappers exist
	haveWrap := 0
	for obj := range a.funcs {
		if isWrapper(obj) {
			haveWrap++
		}
	}
	if haveWrap != 2 {
		fatal("flows.Context / flows.ContextFunc not found (%d)", haveWrap)
	}

	type entry struct {
		name string
		pos  string
		keys []keyInfo
	}
	var entries []entry
	for obj, f := range a.funcs {
		if !strings.HasPrefix(f.pkg.PkgPath, modPath+"/flows") || f.decl.Body == nil || !isBuilderFunc(obj) {
			continue
		}
		ks := a.builderKeys(f)
		if len(ks) == 0 {
			fatal("builder %s has no recognisable key", fullName(obj))
		}
		pos := f.pkg.Fset.Position(f.decl.Pos())
		rel, _ := filepath.Rel(absRepo, pos.Filename)
		entries = append(entries, entry{fullName(obj), rel, ks})
	}
	sort.Slice(entries, func(i, j int) bool {
		if entries[i].name != entries[j].name {
			return entries[i].name < entries[j].name
		}
		return entries[i].pos < entries[j].pos
	})
	names := map[string]bool{}
	for _, e := range entries {
		if names[e.name] {
			fatal("two builders named %s", e.name)
		}
		names[e.name] = true
	}
	if len(entries) < 20 || !names["flows.Contact.Context"] || !names["runs.run.RootContext"] || !names["flows.URNList.MapContext"] {
		fatal("unexpected census: %d builders (Contact.Context %v, run.RootContext %v, URNList.MapContext %v)", len(entries),
			names["flows.Contact.Context"], names["runs.run.RootContext"], names["flows.URNList.MapContext"])
	}

	var sb strings.Builder
	sb.WriteString("(* GENERATED by translators/cmd/contextkeys from the goflow working tree - do not edit.\n")
	sb.WriteString("   Every builder of expression-context maps under flows/ (result type map[string]types.XValue), its keys and\n")
	sb.WriteString("   the URN-derivation class of each key's value expression. *)\n")
	sb.WriteString("From Coq Require Import List String.\nFrom Verif Require Import model.Redact.\nImport ListNotations.\nOpen Scope string_scope.\n\n")
	sb.WriteString("Definition source_context_keys : list (string * list (string * key_class)) :=\n  [ ")
	for i, e := range entries {
		if i > 0 {
			sb.WriteString(";\n    ")
		}
		fmt.Fprintf(&sb, "(* %s *)\n    (%s,\n      [", e.pos, coqStr(e.name))
		for j, k := range e.keys {
			if j > 0 {
				sb.WriteString("; ")
			}
			fmt.Fprintf(&sb, "(%s, %s)", coqStr(k.key), k.cl)
		}
		sb.WriteString("])")
	}
	sb.WriteString(" ].\n")

	// ---- what the evaluator is handed besides the context: the methods of the environments built under flows/
	envIface := a.lookupInterface(modPath+"/envs", "Environment")
	if envIface == nil {
		fatal("envs.Environment not found")
	}
	type row struct {
		name    string
		touches bool
	}
	var envRows, valRows []row
	for obj, f := range a.funcs {
		if !strings.HasPrefix(f.pkg.PkgPath, modPath+"/flows") || f.decl.Body == nil {
			continue
		}
		sig := obj.Type().(*types.Signature)
		if sig.Recv() != nil {
			rt := sig.Recv().Type()
			if types.Implements(rt, envIface) || types.Implements(types.NewPointer(rt), envIface) {
				envRows = append(envRows, row{fullName(obj), a.touches[obj]})
			}
		}
		// functions that hand a types.XValue to the context directly (not through a map): the two URN sinks and
		// the group / field / path / legacy-extra values.  Router tests (flows/routers/cases) are functions of
		// their arguments and are not part of the context.
		if sig.Results().Len() == 1 && isXValue(sig.Results().At(0).Type()) && !isWrapper(obj) &&
			!strings.HasPrefix(f.pkg.PkgPath, modPath+"/flows/routers/cases") {
			valRows = append(valRows, row{fullName(obj), a.touches[obj]})
		}
	}
	sortRows := func(rs []row) {
		sort.Slice(rs, func(i, j int) bool { return rs[i].name < rs[j].name })
	}
	sortRows(envRows)
	sortRows(valRows)
	if len(envRows) < 4 || len(valRows) < 2 {
		fatal("unexpected census: %d environment methods, %d value builders", len(envRows), len(valRows))
	}
	writeRows := func(name, comment string, rs []row) {
		fmt.Fprintf(&sb, "\n(* %s *)\nDefinition %s : list (string * bool) :=\n  [ ", comment, name)
		for i, r := range rs {
			if i > 0 {
				sb.WriteString(";\n    ")
			}
			fmt.Fprintf(&sb, "(%s, %v)", coqStr(r.name), r.touches)
		}
		sb.WriteString(" ].\n")
	}
	writeRows("source_env_methods", "methods of every type under flows/ that implements envs.Environment; true = touches a URN (transitively)", envRows)
	writeRows("source_value_builders", "functions under flows/ (router tests apart) whose result type is types.XValue; true = touches a URN", valRows)

	// ---- who reads the contact's URNs: the step from twin STATES to twin RUNS rests on "only add_contact_urn and
	// set_contact_channel change the state depending on the held URNs".  Census: every function under flows/actions,
	// flows/modifiers, flows/routers whose body calls a URN-touching function of
	// package flows with receiver Contact, ContactURN, URNList, ChannelAssets or sessionEnvironment; with the set reached.
	isSeed := func(f *types.Func) bool {
		if f.Pkg() == nil || f.Pkg().Path() != modPath+"/flows" || !a.touches[f] {
			return false
		}
		sig := f.Type().(*types.Signature)
		if sig.Recv() == nil {
			return false
		}
		t := sig.Recv().Type()
		if p, ok := t.(*types.Pointer); ok {
			t = p.Elem()
		}
		n, ok := t.(*types.Named)
		if !ok {
			return false
		}
		switch n.Obj().Name() {
		case "Contact", "ContactURN", "URNList", "ChannelAssets", "sessionEnvironment":
			return true
		}
		return false
	}
	inReaderPkgs := func(path string) bool {
		for _, p := range []string{"/flows/actions", "/flows/modifiers", "/flows/routers"} {
			if path == modPath+p || strings.HasPrefix(path, modPath+p+"/") {
				return true
			}
		}
		return false
	}
	type srow struct{ name, val string }
	var readerRows []srow
	for obj, f := range a.funcs {
		if !inReaderPkgs(f.pkg.PkgPath) || f.decl.Body == nil {
			continue
		}
		// direct references only: the function in whose body the URN API is called (a helper shared by several
		// actions is listed itself; calls through the Modifier interface are listed at the modifier)
		seeds := map[string]bool{}
		for _, r := range a.refs[obj] {
			if isSeed(r) {
				seeds[strings.TrimPrefix(fullName(r), "flows.")] = true
			}
		}
		if len(seeds) > 0 {
			var ks []string
			for k := range seeds {
				ks = append(ks, k)
			}
			sort.Strings(ks)
			readerRows = append(readerRows, srow{fullName(obj), strings.Join(ks, " ")})
		}
	}
	sort.Slice(readerRows, func(i, j int) bool { return readerRows[i].name < readerRows[j].name })
	if len(readerRows) < 3 {
		fatal("unexpected census: %d readers of the contact's URNs", len(readerRows))
	}
	for i := 1; i < len(readerRows); i++ {
		if readerRows[i].name == readerRows[i-1].name {
			fatal("two URN readers named %s", readerRows[i].name)
		}
	}
	sb.WriteString("\n(* functions under flows/actions, flows/modifiers, flows/routers whose body calls a URN-touching method of Contact,\n   ContactURN, URNList, ChannelAssets or sessionEnvironment (package flows), with the methods reached *)\n")
	sb.WriteString("Definition source_urn_readers : list (string * string) :=\n  [ ")
	for i, r := range readerRows {
		if i > 0 {
			sb.WriteString(";\n    ")
		}
		fmt.Fprintf(&sb, "(%s, %s)", coqStr(r.name), coqStr(r.val))
	}
	sb.WriteString(" ].\n")

	if *list {
		for _, r := range readerRows {
			fmt.Printf("reader %-58s %s\n", r.name, r.val)
		}
		for _, r := range envRows {
			fmt.Printf("env    %-50s %v\n", r.name, r.touches)
		}
		for _, r := range valRows {
			fmt.Printf("value  %-50s %v\n", r.name, r.touches)
		}
		for _, e := range entries {
			fmt.Printf("%-34s %s\n", e.name, e.pos)
			for _, k := range e.keys {
				fmt.Printf("    %-16s %s\n", k.key, k.cl)
			}
		}
	}
	if err := os.MkdirAll(*out, 0o755); err != nil {
		fatal("%v", err)
	}
	path := filepath.Join(*out, "ContextKeys.v")
	old, _ := os.ReadFile(path)
	if string(old) != sb.String() {
		if err := os.WriteFile(path+".tmp", []byte(sb.String()), 0o644); err != nil {
			fatal("%v", err)
		}
		if err := os.Rename(path+".tmp", path); err != nil {
			fatal("%v", err)
		}
	}
	fmt.Fprintf(os.Stderr, "contextkeys: %d builders, %d keys\n", len(entries), func() int {
		n := 0
		for _, e := range entries {
			n += len(e.keys)
		}
		return n
	}())
}
