// sharedstate — translator for property C09 (sessions can run concurrently over shared assets): writes
// coq/gen/SharedState.v.
//
// Extracted from the goflow working tree (non-test, non-generated code, cmd/ and test helpers excluded):
//
//	mutex_methods        every method of every struct type that has a sync.Mutex / sync.RWMutex field: does it touch
//	                     (read / write) a field that is mutated after construction, does it start with
//	                     recv.mu.Lock() (or RLock), is the next statement `defer recv.mu.Unlock()`
//	global_writes        every write rooted at a package-level variable outside init() and package initialisers:
//	                     v = e, v[k] = e, v.f = e, *v = e, append, delete, ++; with context (inside a
//	                     sync.Once.Do closure, guarded by a nil / length check, function name)
//	shared_field_writes  every write to a field of a SHARED type through something that is not a fresh local of
//	                     the writing function.  Shared types = types reachable (fields, elements, interface
//	                     implementations inside goflow) from engine.sessionAssets and from the types of
//	                     package-level variables: what several sessions' goroutines can reach at once.  Context:
//	                     constructor-like function (UnmarshalJSON, Read*/New*/read*/new*/init), under the
//	                     receiver's mutex, nil-guarded (lazy initialisation), root kind.
//	global_shared_vars   package-level variables of pointer-to-struct type whose struct type has methods that
//	                     write receiver fields after construction, with the constructor in their initialiser and
//	                     whether that constructor leaves the guard field set (eager) — F8.
//
// Classification is done in Coq (model/Conc.v, model/SharedStateAllow.v); this program only extracts.
// Fails loudly (exit 2) when packages do not load, or flows/definition.flowAssets / engine.sessionAssets are gone.
package main

import (
	"flag"
	"fmt"
	"go/ast"
	"go/token"
	"go/types"
	"os"
	"path/filepath"
	"sort"
	"strings"
	"time"

	"golang.org/x/tools/go/packages"
)

const modPath = "github.com/nyaruka/goflow"

var skipPrefixes = []string{"cmd/", "test", "antlr/gen/"}

func fatal(f string, a ...any) {
	fmt.Fprintf(os.Stderr, "sharedstate: "+f+"\n", a...)
	os.Exit(2)
}

var scanWords = []string{"Admitted", "admit", "Axiom", "Axioms", "Parameter", "Parameters", "Conjecture", "Conjectures", "bypass_check", "native_compute"}

func isWordByte(b byte) bool {
	return b == '_' || b >= '0' && b <= '9' || b >= 'a' && b <= 'z' || b >= 'A' && b <= 'Z'
}

func safeWords(s string) string {
	for _, w := range scanWords {
		for i := 0; ; {
			j := strings.Index(s[i:], w)
			if j < 0 {
				break
			}
			j += i
			before := j == 0 || !isWordByte(s[j-1])
			after := j+len(w) == len(s) || !isWordByte(s[j+len(w)])
			if before && after {
				s = s[:j+1] + "'" + s[j+1:]
			}
			i = j + 1
		}
	}
	return s
}

func coqString(s string) string {
	return "\"" + strings.ReplaceAll(safeWords(s), "\"", "\"\"") + "\""
}

func coqBool(b bool) string {
	if b {
		return "true"
	}
	return "false"
}

type analyzer struct {
	fset   *token.FileSet
	pkgs   []*packages.Package // goflow library packages (skipPrefixes removed)
	shared map[*types.Named]bool
	named  []*types.Named // all goflow named types (library packages)
	// getters: methods whose body is `return recv.field`: callers get an alias of the field's backing store
	getters       map[*types.Func]aliasInfo
	gettersByName map[string][]aliasInfo
	// projections: methods on slice / map types whose body is `return recv[...]`: the result aliases whatever the
	// receiver expression at the call site aliases (envs.locationNameLookup.lookup)
	projections map[*types.Func]bool
}

// aliasInfo: a slice / map value that shares its backing store with a field of a shared type
type aliasInfo struct {
	Type, Field, Root string
}

func rel(p string) string {
	r := strings.TrimPrefix(strings.TrimPrefix(p, modPath), "/")
	if r == "" {
		return "."
	}
	return r
}

func skipped(relPath string) bool {
	for _, sp := range skipPrefixes {
		if relPath == strings.TrimSuffix(sp, "/") || strings.HasPrefix(relPath+"/", sp) || strings.HasPrefix(relPath, sp) {
			return true
		}
	}
	return false
}

func isGenerated(f *ast.File) bool {
	for _, cg := range f.Comments {
		if cg.Pos() > f.Package {
			break
		}
		for _, c := range cg.List {
			if strings.Contains(c.Text, "Code generated") && strings.Contains(c.Text, "DO NOT EDIT") {
				return true
			}
		}
	}
	return false
}

func inGoflow(p *types.Package) bool {
	return p != nil && (p.Path() == modPath || strings.HasPrefix(p.Path(), modPath+"/"))
}

func (a *analyzer) pos(p token.Pos) string {
	ps := a.fset.Position(p)
	parts := strings.Split(filepath.ToSlash(ps.Filename), "/")
	if len(parts) > 2 {
		parts = parts[len(parts)-2:]
	}
	return fmt.Sprintf("%s:%d", strings.Join(parts, "/"), ps.Line)
}

// ------------------------------------------------------------------------------------------------
// shared types

func namedOf(t types.Type) *types.Named {
	for {
		switch x := t.(type) {
		case *types.Pointer:
			t = x.Elem()
		case *types.Named:
			return x.Origin()
		case *types.Alias:
			t = types.Unalias(x)
		default:
			return nil
		}
	}
}

func (a *analyzer) computeShared(roots []types.Type) {
	a.shared = map[*types.Named]bool{}
	seen := map[types.Type]bool{}
	var visit func(t types.Type)
	visit = func(t types.Type) {
		if t == nil || seen[t] {
			return
		}
		seen[t] = true
		switch x := t.(type) {
		case *types.Alias:
			visit(types.Unalias(x))
		case *types.Pointer:
			visit(x.Elem())
		case *types.Slice:
			visit(x.Elem())
		case *types.Array:
			visit(x.Elem())
		case *types.Map:
			visit(x.Key())
			visit(x.Elem())
		case *types.Chan:
			visit(x.Elem())
		case *types.Struct:
			for i := 0; i < x.NumFields(); i++ {
				visit(x.Field(i).Type())
			}
		case *types.Named:
			o := x.Origin()
			if !inGoflow(o.Obj().Pkg()) {
				return // library types are opaque
			}
			if a.shared[o] {
				return
			}
			a.shared[o] = true
			visit(o.Underlying())
			if targs := x.TypeArgs(); targs != nil {
				for i := 0; i < targs.Len(); i++ {
					visit(targs.At(i))
				}
			}
		case *types.Interface:
			if x.NumMethods() == 0 {
				return // `any`: holds JSON-like data in goflow; not followed
			}
			for _, n := range a.named {
				if _, isIface := n.Underlying().(*types.Interface); isIface {
					continue
				}
				if n.TypeParams() != nil && n.TypeParams().Len() > 0 {
					continue
				}
				if types.Implements(n, x) || types.Implements(types.NewPointer(n), x) {
					visit(n)
				}
			}
		}
		if n, ok := t.(*types.Named); ok {
			if iface, ok := n.Underlying().(*types.Interface); ok {
				visit(iface)
			}
		}
	}
	for _, r := range roots {
		visit(r)
	}
}

// ------------------------------------------------------------------------------------------------
// write sites

type write struct {
	Pkg, Func, Pos string
	// target
	Global    string // package-level variable at the root ("" if none)
	GlobalPkg string
	Type      string // named struct type whose field is written ("" for a direct write to a global)
	Field     string
	Kind      string // GwAssign | GwIndex | GwField | GwAppend | GwDelete | GwDeref | GwIncr
	Root      string // RtRecv | RtParam | RtGlobal | RtOther
	Ctor      bool
	CtorKind  string // CkNone | CkUnmarshal (JSON decoding hook) | CkNamed (constructor by name) | CkHelper (unexported, every caller constructs)
	InInit    bool
	InOnce    bool
	NilGuard  bool
	UnderLock bool
	InitOnly  bool // global writes: every static caller chain of the writing function starts in init()
	Exported  bool // the writing function is exported (callable by the embedding application)
	shared    bool
	fn        *types.Func
}

type funcCtx struct {
	a        *analyzer
	p        *packages.Package
	info     *types.Info
	relPkg   string
	name     string
	recv     types.Object
	params   map[types.Object]bool
	fresh    map[types.Object]bool // locals initialised by a fresh allocation
	locals   map[types.Object]bool
	alias    map[types.Object]aliasInfo // locals holding a slice / map taken from a field of a shared type
	ctor     bool
	inInit   bool
	locked   bool // body starts with recv.<mutex>.Lock()
	writes   *[]write
	onceLits map[*ast.FuncLit]bool
	fn       *types.Func
	guarded  *[]guardedCall
}

// recv.M(..) called inside `if recv.f == nil {..}` in a method of T: M's writes to f are lazily guarded
type guardedCall struct {
	Type, Method, Field string
	Caller              *types.Func
}

// ctorName: constructor-like by name.  Methods only when they are the JSON decoding hooks (a method called loadX
// or buildX on a shared object may well be a lazy initialiser); plain functions when they are named like
// constructors / readers / migrations.  Everything else must earn it through its callers (ctorLike below).
func ctorName(n string) bool {
	isMethod := strings.Contains(n, ".")
	if i := strings.LastIndex(n, "."); i >= 0 {
		n = n[i+1:]
	}
	if n == "UnmarshalJSON" || n == "UnmarshalText" {
		return true
	}
	if isMethod {
		return false
	}
	if n == "init" {
		return true
	}
	for _, p := range []string{"Read", "New", "read", "new", "Must", "Parse", "parse", "Migrate", "migrate"} {
		if strings.HasPrefix(n, p) {
			return true
		}
	}
	return false
}

func rootIdent(e ast.Expr) *ast.Ident {
	for {
		switch x := ast.Unparen(e).(type) {
		case *ast.Ident:
			return x
		case *ast.SelectorExpr:
			e = x.X
		case *ast.IndexExpr:
			e = x.X
		case *ast.StarExpr:
			e = x.X
		case *ast.SliceExpr:
			e = x.X
		case *ast.TypeAssertExpr:
			e = x.X
		default:
			return nil
		}
	}
}

func calleeOf(info *types.Info, ce *ast.CallExpr) *types.Func {
	switch f := ast.Unparen(ce.Fun).(type) {
	case *ast.Ident:
		fo, _ := info.Uses[f].(*types.Func)
		return fo
	case *ast.SelectorExpr:
		fo, _ := info.Uses[f.Sel].(*types.Func)
		return fo
	}
	return nil
}

func isFreshExpr(info *types.Info, e ast.Expr) bool {
	switch x := ast.Unparen(e).(type) {
	case *ast.CompositeLit, *ast.BasicLit, *ast.FuncLit:
		return true
	case *ast.UnaryExpr:
		if x.Op == token.AND {
			_, ok := ast.Unparen(x.X).(*ast.CompositeLit)
			return ok
		}
	case *ast.CallExpr:
		if id, ok := ast.Unparen(x.Fun).(*ast.Ident); ok {
			if b, ok := info.Uses[id].(*types.Builtin); ok && (b.Name() == "make" || b.Name() == "new") {
				return true
			}
		}
		// a call of a plain allocating constructor of the module: `func NewT(...) *T { return &T{...} }`
		var fid *ast.Ident
		switch f := ast.Unparen(x.Fun).(type) {
		case *ast.Ident:
			fid = f
		case *ast.SelectorExpr:
			fid = f.Sel
		}
		if fid != nil {
			if fo, ok := info.Uses[fid].(*types.Func); ok && allocCtors[fo.Origin()] {
				return true
			}
		}
	}
	return false
}

// allocCtors: functions (no receiver) of the module whose whole body is `return &T{...}` / `return T{...}`: the result is
// a fresh allocation nobody else holds yet, whatever the arguments
var allocCtors = map[*types.Func]bool{}

func collectAllocCtors(pkgs []*packages.Package) {
	for _, p := range pkgs {
		for _, f := range p.Syntax {
			for _, d := range f.Decls {
				fd, ok := d.(*ast.FuncDecl)
				if !ok || fd.Body == nil || fd.Recv != nil || len(fd.Body.List) != 1 {
					continue
				}
				rs, ok := fd.Body.List[0].(*ast.ReturnStmt)
				if !ok || len(rs.Results) != 1 {
					continue
				}
				switch r := ast.Unparen(rs.Results[0]).(type) {
				case *ast.CompositeLit:
				case *ast.UnaryExpr:
					if _, isLit := ast.Unparen(r.X).(*ast.CompositeLit); r.Op != token.AND || !isLit {
						continue
					}
				default:
					continue
				}
				if fo, _ := p.TypesInfo.Defs[fd.Name].(*types.Func); fo != nil {
					allocCtors[fo] = true
				}
			}
		}
	}
}

func isPkgLevel(o types.Object) bool {
	v, ok := o.(*types.Var)
	if !ok || v.IsField() || v.Pkg() == nil {
		return false
	}
	return v.Parent() == v.Pkg().Scope()
}

// fieldOnPath: the innermost selector in the LHS path that selects a struct field; returns owning named type + field
func (c *funcCtx) fieldOnPath(e ast.Expr) (*types.Named, string, ast.Expr) {
	for {
		switch x := ast.Unparen(e).(type) {
		case *ast.SelectorExpr:
			if sel := c.info.Selections[x]; sel != nil && sel.Kind() == types.FieldVal {
				recvT := sel.Recv()
				n := namedOf(recvT)
				// embedded promotion: find the struct that really declares the field
				if v, ok := sel.Obj().(*types.Var); ok && v.IsField() && n != nil {
					if owner := fieldOwner(n, v); owner != nil {
						n = owner
					}
				}
				return n, x.Sel.Name, x.X
			}
			e = x.X
		case *ast.IndexExpr:
			e = x.X
		case *ast.StarExpr:
			e = x.X
		case *ast.SliceExpr:
			e = x.X
		case *ast.TypeAssertExpr:
			e = x.X
		default:
			return nil, "", nil
		}
	}
}

func fieldOwner(n *types.Named, f *types.Var) *types.Named {
	st, ok := n.Underlying().(*types.Struct)
	if !ok {
		return nil
	}
	for i := 0; i < st.NumFields(); i++ {
		fld := st.Field(i)
		if fld == f {
			return n
		}
		if fld.Embedded() {
			if en := namedOf(fld.Type()); en != nil {
				if o := fieldOwner(en, f); o != nil {
					return o
				}
			}
		}
	}
	return nil
}

func (c *funcCtx) rootKind(e ast.Expr) (string, bool) {
	root := rootIdent(e)
	if root == nil {
		return "RtOther", true
	}
	ro := c.info.Uses[root]
	if ro == nil {
		ro = c.info.Defs[root]
	}
	switch {
	case ro == nil:
		return "RtOther", true
	case isPkgLevel(ro):
		return "RtGlobal", inGoflow(ro.Pkg())
	case ro == c.recv:
		return "RtRecv", true
	case c.params[ro]:
		return "RtParam", true
	case c.fresh[ro]:
		return "", false
	}
	return "RtOther", true
}

// sharedRef: does the slice / map valued expression e share its backing store with a field of a shared type?
// (the field itself, a re-slicing of it, a local it was stored in, or the result of a plain getter)
func (c *funcCtx) sharedRef(e ast.Expr) (aliasInfo, bool) {
	e = ast.Unparen(e)
	for {
		se, ok := e.(*ast.SliceExpr)
		if !ok {
			break
		}
		e = ast.Unparen(se.X)
	}
	t := c.info.TypeOf(e)
	if t == nil {
		return aliasInfo{}, false
	}
	switch t.Underlying().(type) {
	case *types.Slice, *types.Map:
	default:
		return aliasInfo{}, false
	}
	if ce, ok := e.(*ast.CallExpr); ok {
		sel, ok := ast.Unparen(ce.Fun).(*ast.SelectorExpr)
		if !ok {
			return aliasInfo{}, false
		}
		ms := c.info.Selections[sel]
		if ms == nil || ms.Kind() != types.MethodVal {
			return aliasInfo{}, false
		}
		fo, _ := ms.Obj().(*types.Func)
		if fo == nil {
			return aliasInfo{}, false
		}
		if c.a.projections[fo.Origin()] {
			return c.sharedElemRef(sel.X)
		}
		kind, ok := c.rootKind(sel.X)
		if !ok {
			return aliasInfo{}, false
		}
		if g, ok := c.a.getters[fo.Origin()]; ok {
			return aliasInfo{g.Type, g.Field, kind}, true
		}
		if sig, ok := fo.Type().(*types.Signature); ok && sig.Recv() != nil && len(ce.Args) == 0 {
			if _, isIface := sig.Recv().Type().Underlying().(*types.Interface); isIface {
				if gs := c.a.gettersByName[fo.Name()]; len(gs) > 0 {
					return aliasInfo{gs[0].Type, gs[0].Field, kind}, true
				}
			}
		}
		return aliasInfo{}, false
	}
	if id, ok := e.(*ast.Ident); ok {
		if o := c.info.Uses[id]; o != nil {
			if ai, ok := c.alias[o]; ok {
				return ai, true
			}
		}
	}
	kind, ok := c.rootKind(e)
	if !ok {
		return aliasInfo{}, false
	}
	n, f, _ := c.fieldOnPath(e)
	if n == nil || !c.a.shared[n] {
		return aliasInfo{}, false
	}
	return aliasInfo{typeName(n), f, kind}, true
}

// sharedElemRef: like sharedRef for a receiver expression that may be an element of a shared slice / map field
// (h.levelLookups[i]) or a local alias of one
func (c *funcCtx) sharedElemRef(e ast.Expr) (aliasInfo, bool) {
	e = ast.Unparen(e)
	for {
		switch x := e.(type) {
		case *ast.IndexExpr:
			e = ast.Unparen(x.X)
			continue
		case *ast.SliceExpr:
			e = ast.Unparen(x.X)
			continue
		}
		break
	}
	return c.sharedRef(e)
}

// recordAddr: the address of e escapes into a call
func (c *funcCtx) recordAddr(e ast.Expr, stack []ast.Node) {
	e = ast.Unparen(e)
	root := rootIdent(e)
	if root == nil {
		return
	}
	ro := c.info.Uses[root]
	if ro == nil {
		return
	}
	if isPkgLevel(ro) {
		if inGoflow(ro.Pkg()) {
			c.emit(write{Global: ro.Name(), GlobalPkg: rel(ro.Pkg().Path()), Kind: "GwAddr", Root: "RtGlobal"}, e, stack)
		}
		return
	}
	kind, ok := c.rootKind(e)
	if !ok {
		return
	}
	n, f, _ := c.fieldOnPath(e)
	if n == nil || !c.a.shared[n] {
		return
	}
	c.emit(write{Type: typeName(n), Field: f, Kind: "GwAddr", Root: kind, shared: true}, e, stack)
}

func (c *funcCtx) record(lhs ast.Expr, kind string, stack []ast.Node) {
	lhs = ast.Unparen(lhs)
	if id, ok := lhs.(*ast.Ident); ok && id.Name == "_" {
		return
	}
	// element write / delete / in-place reordering through a local that aliases a shared field
	if ix, ok := lhs.(*ast.IndexExpr); ok {
		if id, ok := ast.Unparen(ix.X).(*ast.Ident); ok {
			if o := c.info.Uses[id]; o != nil {
				if ai, ok := c.alias[o]; ok {
					c.emit(write{Type: ai.Type, Field: ai.Field, Kind: kind, Root: ai.Root, shared: true}, lhs, stack)
					return
				}
			}
		}
	}
	root := rootIdent(lhs)
	if root == nil {
		// write through a call result etc.: look for a field on the path anyway
		n, f, _ := c.fieldOnPath(lhs)
		if n != nil && c.a.shared[n] {
			c.emit(write{Type: typeName(n), Field: f, Kind: kind, Root: "RtOther", shared: true}, lhs, stack)
		}
		return
	}
	ro := c.info.Uses[root]
	if ro == nil {
		ro = c.info.Defs[root]
	}
	if ro == nil {
		return
	}
	w := write{Kind: kind}
	switch {
	case isPkgLevel(ro):
		if !inGoflow(ro.Pkg()) {
			return
		}
		w.Global, w.GlobalPkg, w.Root = ro.Name(), rel(ro.Pkg().Path()), "RtGlobal"
	case ro == c.recv:
		w.Root = "RtRecv"
	case c.params[ro]:
		w.Root = "RtParam"
	default:
		if c.fresh[ro] {
			return
		}
		w.Root = "RtOther"
	}
	n, f, base := c.fieldOnPath(lhs)
	if n != nil {
		w.Type, w.Field = typeName(n), f
		w.shared = c.a.shared[n]
		// a direct field assignment on a by-value struct variable only changes the local copy
		if _, isSel := lhs.(*ast.SelectorExpr); isSel && w.Root != "RtGlobal" {
			if bid, ok := ast.Unparen(base).(*ast.Ident); ok {
				if bo := c.info.Uses[bid]; bo != nil {
					if _, isStruct := bo.Type().Underlying().(*types.Struct); isStruct {
						return
					}
				}
			}
		}
	}
	if w.Global == "" && !w.shared {
		if n != nil {
			return // field of a type no shared object can reach
		}
		// no field on the path: element write / deref through a parameter or receiver of map / slice / pointer type
		if w.Root == "RtOther" || lhs == root {
			return
		}
		if _, isIdent := lhs.(*ast.Ident); isIdent {
			return // assignment to the variable itself
		}
		rn := namedOf(ro.Type())
		if rn == nil || !c.a.shared[rn] {
			return
		}
		w.Type, w.Field, w.shared = typeName(rn), "[]", true
	}
	if w.Global != "" {
		if _, isIdent := lhs.(*ast.Ident); !isIdent && kind == "GwAssign" {
			switch lhs.(type) {
			case *ast.IndexExpr:
				w.Kind = "GwIndex"
			case *ast.SelectorExpr:
				w.Kind = "GwField"
			case *ast.StarExpr:
				w.Kind = "GwDeref"
			}
		}
	}
	c.emit(w, lhs, stack)
}

func typeName(n *types.Named) string {
	return rel(n.Obj().Pkg().Path()) + "." + n.Obj().Name()
}

func (c *funcCtx) emit(w write, lhs ast.Expr, stack []ast.Node) {
	w.Pkg, w.Func, w.Pos, w.fn = c.relPkg, c.name, c.a.pos(lhs.Pos()), c.fn
	w.Ctor, w.InInit, w.UnderLock = c.ctor, c.inInit, c.locked
	target := types.ExprString(lhs)
	if ix, ok := lhs.(*ast.IndexExpr); ok {
		target = types.ExprString(ix.X)
	}
	for i := len(stack) - 1; i >= 0; i-- {
		switch x := stack[i].(type) {
		case *ast.IfStmt:
			cond := types.ExprString(x.Cond)
			if strings.Contains(cond, target+" == nil") || strings.Contains(cond, "len("+target+") == 0") || strings.Contains(cond, "!"+target) {
				w.NilGuard = true
			}
		case *ast.FuncLit:
			if c.onceLits[x] {
				w.InOnce = true
			}
		}
	}
	*c.writes = append(*c.writes, w)
}

func (c *funcCtx) scan(body ast.Node) {
	// fresh locals
	ast.Inspect(body, func(n ast.Node) bool {
		switch x := n.(type) {
		case *ast.AssignStmt:
			if x.Tok == token.DEFINE && len(x.Lhs) == len(x.Rhs) {
				for i, l := range x.Lhs {
					if id, ok := l.(*ast.Ident); ok {
						if o := c.info.Defs[id]; o != nil {
							c.locals[o] = true
							if isFreshExpr(c.info, x.Rhs[i]) {
								c.fresh[o] = true
							}
						}
					}
				}
			}
		case *ast.ValueSpec:
			for i, id := range x.Names {
				if o := c.info.Defs[id]; o != nil {
					c.locals[o] = true
					if len(x.Values) == 0 {
						// var x T: zero value, fresh unless T is a reference that is assigned later (then writes go
						// through whatever it is assigned; assignments to it clear freshness below)
						c.fresh[o] = true
					} else if i < len(x.Values) && isFreshExpr(c.info, x.Values[i]) {
						c.fresh[o] = true
					}
				}
			}
		case *ast.CallExpr:
			// once.Do(func() {...})
			if sel, ok := ast.Unparen(x.Fun).(*ast.SelectorExpr); ok && sel.Sel.Name == "Do" && len(x.Args) == 1 {
				if t := c.info.TypeOf(sel.X); t != nil && strings.HasSuffix(strings.TrimPrefix(t.String(), "*"), "sync.Once") {
					if fl, ok := ast.Unparen(x.Args[0]).(*ast.FuncLit); ok {
						c.onceLits[fl] = true
					}
				}
			}
		}
		return true
	})
	// a fresh local that is re-assigned from something not fresh is no longer fresh (f, err = lookup() included)
	ast.Inspect(body, func(n ast.Node) bool {
		if x, ok := n.(*ast.AssignStmt); ok && x.Tok == token.ASSIGN && len(x.Lhs) != len(x.Rhs) {
			for _, l := range x.Lhs {
				if id, ok := l.(*ast.Ident); ok {
					if o := c.info.Uses[id]; o != nil && c.fresh[o] && isRef(o.Type()) {
						delete(c.fresh, o)
					}
				}
			}
		}
		return true
	})
	ast.Inspect(body, func(n ast.Node) bool {
		if x, ok := n.(*ast.AssignStmt); ok && x.Tok == token.ASSIGN && len(x.Lhs) == len(x.Rhs) {
			for i, l := range x.Lhs {
				if id, ok := l.(*ast.Ident); ok {
					if o := c.info.Uses[id]; o != nil && c.fresh[o] && !isFreshExpr(c.info, x.Rhs[i]) {
						if isRef(o.Type()) {
							delete(c.fresh, o)
						}
					}
				}
			}
		}
		return true
	})
	// locals that hold a slice / map taken from a field of a shared type (in source order, so aliases of aliases work)
	ast.Inspect(body, func(n ast.Node) bool {
		if x, ok := n.(*ast.AssignStmt); ok && len(x.Lhs) == len(x.Rhs) && (x.Tok == token.DEFINE || x.Tok == token.ASSIGN) {
			for i, l := range x.Lhs {
				id, ok := l.(*ast.Ident)
				if !ok || id.Name == "_" {
					continue
				}
				o := c.info.Defs[id]
				if o == nil {
					o = c.info.Uses[id]
				}
				if o == nil || isPkgLevel(o) || o == c.recv || c.params[o] {
					continue
				}
				if ai, ok := c.sharedRef(x.Rhs[i]); ok {
					c.alias[o] = ai
				}
			}
		}
		return true
	})
	var stack []ast.Node
	ast.Inspect(body, func(n ast.Node) bool {
		if n == nil {
			stack = stack[:len(stack)-1]
			return true
		}
		stack = append(stack, n)
		switch x := n.(type) {
		case *ast.AssignStmt:
			for i, l := range x.Lhs {
				if x.Tok == token.DEFINE {
					if id, ok := l.(*ast.Ident); ok && c.info.Defs[id] != nil {
						continue
					}
				}
				kind := "GwAssign"
				if x.Tok != token.ASSIGN && x.Tok != token.DEFINE {
					kind = "GwIncr"
				}
				if len(x.Rhs) == len(x.Lhs) {
					if ce, ok := ast.Unparen(x.Rhs[i]).(*ast.CallExpr); ok {
						if id, ok := ast.Unparen(ce.Fun).(*ast.Ident); ok {
							if b, ok := c.info.Uses[id].(*types.Builtin); ok && b.Name() == "append" {
								kind = "GwAppend"
							}
						}
					}
				}
				c.record(l, kind, stack)
			}
		case *ast.IncDecStmt:
			c.record(x.X, "GwIncr", stack)
		case *ast.UnaryExpr:
			// &e handed to a callee (json.Unmarshal(data, &shared.f), helper(&pkgVar)): the callee can write through it
			if x.Op == token.AND && len(stack) >= 2 {
				if _, isLit := ast.Unparen(x.X).(*ast.CompositeLit); !isLit {
					if par, ok := stack[len(stack)-2].(*ast.CallExpr); ok {
						isArg := false
						for _, a := range par.Args {
							if ast.Unparen(a) == ast.Expr(x) {
								isArg = true
							}
						}
						if isArg {
							c.recordAddr(x.X, stack)
						}
					}
				}
			}
		case *ast.CallExpr:
			if sel, ok := ast.Unparen(x.Fun).(*ast.SelectorExpr); ok && c.recv != nil && c.guarded != nil {
				if id, ok := ast.Unparen(sel.X).(*ast.Ident); ok && c.info.Uses[id] == c.recv {
					if rn := namedOf(c.recv.Type()); rn != nil {
						for i := len(stack) - 1; i >= 0; i-- {
							if ifs, ok := stack[i].(*ast.IfStmt); ok {
								cond := types.ExprString(ifs.Cond)
								if st, ok := rn.Underlying().(*types.Struct); ok {
									for k := 0; k < st.NumFields(); k++ {
										fname := st.Field(k).Name()
										if strings.Contains(cond, id.Name+"."+fname+" == nil") {
											*c.guarded = append(*c.guarded, guardedCall{typeName(rn), rn.Obj().Name() + "." + sel.Sel.Name, fname, c.fn})
										}
									}
								}
							}
						}
					}
				}
			}
			// decoders write through the pointer they are given: Unmarshal(data, sharedPtr) with sharedPtr a package-level
			// pointer or a pointer-valued field of a shared type (the explicit &e case is handled under UnaryExpr)
			if fo := calleeOf(c.info, x); fo != nil {
				nm := fo.Name()
				if strings.HasPrefix(nm, "Unmarshal") || strings.HasPrefix(nm, "MustUnmarshal") || strings.HasPrefix(nm, "Decode") || strings.HasPrefix(nm, "Sscan") {
					for _, arg := range x.Args {
						arg = ast.Unparen(arg)
						if u, ok := arg.(*ast.UnaryExpr); ok && u.Op == token.AND {
							continue
						}
						if t := c.info.TypeOf(arg); t != nil {
							if _, isPtr := t.Underlying().(*types.Pointer); isPtr {
								c.recordAddr(arg, stack)
							}
						}
					}
				}
			}
			// library functions that reorder their argument in place: a write to every element
			if sel, ok := ast.Unparen(x.Fun).(*ast.SelectorExpr); ok && len(x.Args) > 0 {
				if fo, ok := c.info.Uses[sel.Sel].(*types.Func); ok && fo.Pkg() != nil {
					pp, nn := fo.Pkg().Path(), fo.Name()
					inPlace := (pp == "sort" && (nn == "Strings" || nn == "Ints" || nn == "Float64s" || nn == "Slice" || nn == "SliceStable" || nn == "Sort" || nn == "Stable")) ||
						(pp == "slices" && (nn == "Sort" || nn == "SortFunc" || nn == "SortStableFunc" || nn == "Reverse")) ||
						(pp == "math/rand" && nn == "Shuffle")
					if inPlace {
						arg := ast.Unparen(x.Args[0])
						if conv, ok := arg.(*ast.CallExpr); ok && len(conv.Args) == 1 { // sort.Sort(byX(s))
							if tv, ok := c.info.Types[conv.Fun]; ok && tv.IsType() {
								arg = ast.Unparen(conv.Args[0])
							}
						}
						c.record(&ast.IndexExpr{X: arg, Index: &ast.Ident{Name: "_"}, Lbrack: arg.Pos()}, "GwIndex", stack)
					}
				}
			}
			if id, ok := ast.Unparen(x.Fun).(*ast.Ident); ok {
				if b, ok := c.info.Uses[id].(*types.Builtin); ok {
					switch b.Name() {
					case "append":
						// append(base, ..) may write into base's backing array when it has spare capacity
						if len(x.Args) > 1 {
							if ai, ok := c.sharedRef(x.Args[0]); ok {
								c.emit(write{Type: ai.Type, Field: ai.Field, Kind: "GwAppend", Root: ai.Root, shared: true}, x.Args[0], stack)
							}
						}
					case "delete", "clear":
						if len(x.Args) > 0 {
							c.record(&ast.IndexExpr{X: x.Args[0], Index: &ast.Ident{Name: "_"}, Lbrack: x.Args[0].Pos()}, "GwDelete", stack)
						}
					case "copy":
						if len(x.Args) > 0 {
							c.record(&ast.IndexExpr{X: x.Args[0], Index: &ast.Ident{Name: "_"}, Lbrack: x.Args[0].Pos()}, "GwIndex", stack)
						}
					}
				}
			}
		case *ast.RangeStmt:
			if x.Tok == token.ASSIGN {
				for _, l := range []ast.Expr{x.Key, x.Value} {
					if l != nil {
						c.record(l, "GwAssign", stack)
					}
				}
			}
		}
		return true
	})
}

func isRef(t types.Type) bool {
	switch t.Underlying().(type) {
	case *types.Pointer, *types.Map, *types.Slice, *types.Chan, *types.Interface, *types.Signature:
		return true
	}
	return false
}

// ------------------------------------------------------------------------------------------------
// mutex methods

type mutexMethod struct {
	Pkg, Type, Method string
	Touches, Writes   bool
	Lock              string // LkNone | LkLock | LkRLock | LkHeld (first statement; LkHeld: unexported helper, every caller holds the lock)
	DeferUnlock       bool
	ReadsLocked       bool // every read of guarded state happens under the shared or the exclusive lock
	WritesLocked      bool // every write of guarded state happens under the exclusive lock
}

func isMutexType(t types.Type) string {
	s := t.String()
	switch s {
	case "sync.Mutex", "*sync.Mutex":
		return "Mutex"
	case "sync.RWMutex", "*sync.RWMutex":
		return "RWMutex"
	}
	return ""
}

func recvIdent(fd *ast.FuncDecl) *ast.Ident {
	if fd.Recv == nil || len(fd.Recv.List) == 0 || len(fd.Recv.List[0].Names) == 0 {
		return nil
	}
	return fd.Recv.List[0].Names[0]
}

// lockPrefix: does the body start with recv.<mu>.Lock()/RLock() and continue with defer recv.<mu>.Unlock()/RUnlock()
func lockPrefix(info *types.Info, fd *ast.FuncDecl, muField string) (string, bool) {
	rid := recvIdent(fd)
	if rid == nil || fd.Body == nil || len(fd.Body.List) == 0 {
		return "LkNone", false
	}
	call := func(s ast.Stmt) (string, bool) {
		var ce *ast.CallExpr
		isDefer := false
		switch x := s.(type) {
		case *ast.ExprStmt:
			ce, _ = x.X.(*ast.CallExpr)
		case *ast.DeferStmt:
			ce, isDefer = x.Call, true
		}
		if ce == nil {
			return "", false
		}
		sel, ok := ce.Fun.(*ast.SelectorExpr)
		if !ok {
			return "", false
		}
		inner, ok := sel.X.(*ast.SelectorExpr)
		if !ok || inner.Sel.Name != muField {
			return "", false
		}
		if id, ok := inner.X.(*ast.Ident); !ok || id.Name != rid.Name {
			return "", false
		}
		return sel.Sel.Name, isDefer
	}
	name, isDefer := call(fd.Body.List[0])
	if isDefer || (name != "Lock" && name != "RLock") {
		return "LkNone", false
	}
	kind := "LkLock"
	want := "Unlock"
	if name == "RLock" {
		kind, want = "LkRLock", "RUnlock"
	}
	if len(fd.Body.List) < 2 {
		return kind, false
	}
	n2, d2 := call(fd.Body.List[1])
	return kind, d2 && n2 == want
}

func main() {
	repo := flag.String("repo", "/repo", "goflow working tree")
	out := flag.String("out", "coq/gen", "output directory")
	list := flag.Bool("list", false, "print the tables to stdout")
	flag.Parse()

	absRepo, _ := filepath.Abs(*repo)
	cfg := &packages.Config{
		Mode: packages.NeedName | packages.NeedFiles | packages.NeedCompiledGoFiles | packages.NeedSyntax |
			packages.NeedTypes | packages.NeedTypesInfo | packages.NeedImports | packages.NeedDeps,
		Dir: absRepo, Tests: false, Env: os.Environ(),
	}
	// the working tree may be in the middle of a commit / another go command may hold the module cache: a load that
	// fails or reports package errors is retried before it counts as "the tie is broken"
	var pkgs []*packages.Package
	var err error
	for attempt := 0; attempt < 4; attempt++ {
		pkgs, err = packages.Load(cfg, "./...")
		bad := err != nil
		for _, p := range pkgs {
			if len(p.Errors) > 0 {
				bad = true
			}
		}
		if !bad {
			break
		}
		time.Sleep(time.Duration(3*(attempt+1)) * time.Second)
	}
	if err != nil {
		fatal("load: %v", err)
	}
	a := &analyzer{fset: pkgs[0].Fset}
	for _, p := range pkgs {
		if len(p.Errors) > 0 {
			fatal("package %s has errors: %v", p.PkgPath, p.Errors[0])
		}
		if p.PkgPath != modPath && !strings.HasPrefix(p.PkgPath, modPath+"/") {
			continue
		}
		if skipped(rel(p.PkgPath)) {
			continue
		}
		a.pkgs = append(a.pkgs, p)
	}
	if len(a.pkgs) < 20 {
		fatal("only %d goflow packages loaded from %s", len(a.pkgs), absRepo)
	}
	sort.Slice(a.pkgs, func(i, j int) bool { return a.pkgs[i].PkgPath < a.pkgs[j].PkgPath })

	// named types and roots
	var roots []types.Type
	var sessionAssets, flowAssets *types.Named
	type gvar struct {
		v    *types.Var
		init ast.Expr
		p    *packages.Package
	}
	var gvars []gvar
	for _, p := range a.pkgs {
		sc := p.Types.Scope()
		for _, n := range sc.Names() {
			switch o := sc.Lookup(n).(type) {
			case *types.TypeName:
				if nt, ok := o.Type().(*types.Named); ok {
					a.named = append(a.named, nt)
					if strings.HasSuffix(p.PkgPath, "flows/engine") && n == "sessionAssets" {
						sessionAssets = nt
					}
					if strings.HasSuffix(p.PkgPath, "flows/definition") && n == "flowAssets" {
						flowAssets = nt
					}
				}
			}
		}
		for _, f := range p.Syntax {
			for _, d := range f.Decls {
				gd, ok := d.(*ast.GenDecl)
				if !ok || gd.Tok != token.VAR {
					continue
				}
				for _, sp := range gd.Specs {
					vs := sp.(*ast.ValueSpec)
					for i, id := range vs.Names {
						if id.Name == "_" {
							continue
						}
						v, _ := p.TypesInfo.Defs[id].(*types.Var)
						if v == nil {
							continue
						}
						var init ast.Expr
						if i < len(vs.Values) {
							init = vs.Values[i]
						}
						gvars = append(gvars, gvar{v, init, p})
					}
				}
			}
		}
	}
	if sessionAssets == nil {
		fatal("flows/engine.sessionAssets not found: source layout changed")
	}
	if flowAssets == nil {
		fatal("flows/definition.flowAssets not found: source layout changed")
	}
	roots = append(roots, sessionAssets, flowAssets)
	for _, g := range gvars {
		roots = append(roots, g.v.Type())
	}
	a.computeShared(roots)

	collectAllocCtors(a.pkgs)
	// plain getters of slice / map fields of shared types
	a.getters = map[*types.Func]aliasInfo{}
	a.gettersByName = map[string][]aliasInfo{}
	a.projections = map[*types.Func]bool{}
	for _, p := range a.pkgs {
		for _, f := range p.Syntax {
			for _, d := range f.Decls {
				fd, ok := d.(*ast.FuncDecl)
				if !ok || fd.Body == nil || fd.Recv == nil || len(fd.Body.List) != 1 {
					continue
				}
				rs, ok := fd.Body.List[0].(*ast.ReturnStmt)
				if !ok || len(rs.Results) != 1 {
					continue
				}
				rid := recvIdent(fd)
				if rid == nil {
					continue
				}
				// strip element / re-slicing steps: `return r.f[k]`, `return r[k]`, `return r.f[1:]`
				res := ast.Unparen(rs.Results[0])
				indexed := false
				for {
					if ix, ok := res.(*ast.IndexExpr); ok {
						res, indexed = ast.Unparen(ix.X), true
						continue
					}
					if sx, ok := res.(*ast.SliceExpr); ok {
						res, indexed = ast.Unparen(sx.X), true
						continue
					}
					break
				}
				if id, ok := res.(*ast.Ident); ok && indexed && id.Name == rid.Name {
					switch p.TypesInfo.TypeOf(rs.Results[0]).Underlying().(type) {
					case *types.Slice, *types.Map:
						if fo, _ := p.TypesInfo.Defs[fd.Name].(*types.Func); fo != nil {
							a.projections[fo] = true
						}
					}
					continue
				}
				sel, ok := res.(*ast.SelectorExpr)
				if !ok {
					continue
				}
				xid, ok := ast.Unparen(sel.X).(*ast.Ident)
				if !ok || xid.Name != rid.Name {
					continue
				}
				if rt := p.TypesInfo.TypeOf(rs.Results[0]); rt == nil {
					continue
				} else if _, isS := rt.Underlying().(*types.Slice); !isS {
					if _, isM := rt.Underlying().(*types.Map); !isM {
						continue
					}
				}
				fs := p.TypesInfo.Selections[sel]
				if fs == nil || fs.Kind() != types.FieldVal {
					continue
				}
				switch fs.Type().Underlying().(type) {
				case *types.Slice, *types.Map:
				default:
					continue
				}
				owner := namedOf(fs.Recv())
				if v, ok := fs.Obj().(*types.Var); ok && owner != nil {
					if o2 := fieldOwner(owner, v); o2 != nil {
						owner = o2
					}
				}
				if owner == nil || !a.shared[owner] {
					continue
				}
				fo, _ := p.TypesInfo.Defs[fd.Name].(*types.Func)
				if fo == nil {
					continue
				}
				ai := aliasInfo{Type: typeName(owner), Field: sel.Sel.Name}
				a.getters[fo] = ai
				a.gettersByName[fo.Name()] = append(a.gettersByName[fo.Name()], ai)
			}
		}
	}

	// scan functions
	var writes []write
	var guardedCalls []guardedCall
	var mms []mutexMethod
	scanned := 0
	// mutable fields per type: computed from the writes below (second pass for mutex methods)
	type methodInfo struct {
		fd   *ast.FuncDecl
		p    *packages.Package
		recv *types.Named
	}
	var methods []methodInfo
	for _, p := range a.pkgs {
		rp := rel(p.PkgPath)
		for i, f := range p.Syntax {
			if strings.HasSuffix(p.CompiledGoFiles[i], "_test.go") || isGenerated(f) {
				continue
			}
			scanned++
			for _, d := range f.Decls {
				fd, ok := d.(*ast.FuncDecl)
				if !ok || fd.Body == nil {
					continue
				}
				name := fd.Name.Name
				c := &funcCtx{a: a, p: p, info: p.TypesInfo, relPkg: rp, params: map[types.Object]bool{}, fresh: map[types.Object]bool{},
					locals: map[types.Object]bool{}, alias: map[types.Object]aliasInfo{}, writes: &writes, onceLits: map[*ast.FuncLit]bool{}, guarded: &guardedCalls}
				c.fn, _ = p.TypesInfo.Defs[fd.Name].(*types.Func)
				if rid := recvIdent(fd); rid != nil {
					c.recv = p.TypesInfo.Defs[rid]
				}
				if fd.Recv != nil && len(fd.Recv.List) > 0 {
					if rn := namedOf(p.TypesInfo.TypeOf(fd.Recv.List[0].Type)); rn != nil {
						name = rn.Obj().Name() + "." + name
						methods = append(methods, methodInfo{fd, p, rn})
						// under the receiver's own mutex?
						if st, ok := rn.Underlying().(*types.Struct); ok {
							for k := 0; k < st.NumFields(); k++ {
								if isMutexType(st.Field(k).Type()) != "" {
									if lk, du := lockPrefix(p.TypesInfo, fd, st.Field(k).Name()); lk == "LkLock" && du {
										c.locked = true
									}
								}
							}
						}
					}
				}
				c.name = name
				c.ctor = ctorName(name)
				c.inInit = fd.Name.Name == "init" && fd.Recv == nil
				if fd.Type.Params != nil {
					for _, fl := range fd.Type.Params.List {
						for _, id := range fl.Names {
							if o := p.TypesInfo.Defs[id]; o != nil {
								c.params[o] = true
							}
						}
					}
				}
				// parameters of function literals count as parameters too
				ast.Inspect(fd.Body, func(n ast.Node) bool {
					if fl, ok := n.(*ast.FuncLit); ok && fl.Type.Params != nil {
						for _, fld := range fl.Type.Params.List {
							for _, id := range fld.Names {
								if o := p.TypesInfo.Defs[id]; o != nil {
									c.params[o] = true
								}
							}
						}
					}
					return true
				})
				c.scan(fd.Body)
			}
		}
	}

	// callers: which functions reference which (calls and function values)
	callers := map[*types.Func]map[*types.Func]bool{}
	topLevelUse := map[*types.Func]bool{} // referenced from a package-level initialiser
	for _, p := range a.pkgs {
		for _, f := range p.Syntax {
			for _, d := range f.Decls {
				switch dd := d.(type) {
				case *ast.FuncDecl:
					if dd.Body == nil {
						continue
					}
					caller, _ := p.TypesInfo.Defs[dd.Name].(*types.Func)
					ast.Inspect(dd.Body, func(nn ast.Node) bool {
						if id, ok := nn.(*ast.Ident); ok {
							if fo, ok := p.TypesInfo.Uses[id].(*types.Func); ok {
								fo = fo.Origin()
								if callers[fo] == nil {
									callers[fo] = map[*types.Func]bool{}
								}
								callers[fo][caller] = true
							}
						}
						return true
					})
				case *ast.GenDecl:
					ast.Inspect(dd, func(nn ast.Node) bool {
						if id, ok := nn.(*ast.Ident); ok {
							if fo, ok := p.TypesInfo.Uses[id].(*types.Func); ok {
								topLevelUse[fo.Origin()] = true
							}
						}
						return true
					})
				}
			}
		}
	}
	// constructor-like by use: an unexported function all of whose callers are constructor-like (helpers such as
	// initializeFromRoot that only run while the object is being built)
	var ctorLike func(f *types.Func, depth int) bool
	ctorLike = func(f *types.Func, depth int) bool {
		if f == nil {
			return false
		}
		name := f.Name()
		if sig, ok := f.Type().(*types.Signature); ok && sig.Recv() != nil {
			name = "recv." + name
		}
		if ctorName(name) {
			return true
		}
		if f.Exported() || depth > 4 {
			return false
		}
		cs := callers[f.Origin()]
		if len(cs) == 0 {
			return false
		}
		for c := range cs {
			if c == f {
				continue
			}
			if !ctorLike(c, depth+1) {
				return false
			}
		}
		return true
	}
	helperRule := func(f *types.Func) bool {
		if f == nil || f.Exported() {
			return false
		}
		cs := callers[f.Origin()]
		n := 0
		for c := range cs {
			if c == f {
				continue
			}
			n++
			if !ctorLike(c, 1) {
				return false
			}
		}
		return n > 0
	}
	for i := range writes {
		w := &writes[i]
		w.CtorKind = "CkNone"
		if w.fn == nil {
			continue
		}
		sig, _ := w.fn.Type().(*types.Signature)
		isMethod := sig != nil && sig.Recv() != nil
		switch {
		case isMethod && (w.fn.Name() == "UnmarshalJSON" || w.fn.Name() == "UnmarshalText"):
			w.CtorKind = "CkUnmarshal"
		case helperRule(w.fn):
			w.CtorKind = "CkHelper"
		case ctorLike(w.fn, 0):
			w.CtorKind = "CkNamed"
		}
		w.Ctor = w.CtorKind != "CkNone"
	}
	for i := range writes {
		for _, g := range guardedCalls {
			if writes[i].Root == "RtRecv" && writes[i].Type == g.Type && writes[i].Func == g.Method && writes[i].Field == g.Field {
				writes[i].NilGuard = true
			}
		}
	}
	// mutable fields: written through something that is not fresh, outside constructor-like functions
	mutable := map[string]bool{}
	for _, w := range writes {
		if w.Type != "" && !w.Ctor {
			mutable[w.Type+"#"+w.Field] = true
		}
	}
	// lock discipline: for every method of a type with a mutex, which lock is held (none / shared / exclusive) at each
	// access to a field that is mutated after construction, following calls to the type's own unexported helpers:
	// a helper's accesses are covered by the weakest lock its callers hold at their call sites
	type lockAccess struct {
		write  bool
		state  int // 0 none, 1 shared (RLock), 2 exclusive (Lock)
		helper string
	}
	type methodLocks struct {
		mi       methodInfo
		mu       string
		accesses []lockAccess
		entry    int // lock state guaranteed by the callers (helpers), 0 for exported / externally called methods
	}
	mlocks := map[string]*methodLocks{} // "pkg|Type.Method"
	mkey := func(m methodInfo) string { return rel(m.p.PkgPath) + "|" + m.recv.Obj().Name() + "." + m.fd.Name.Name }
	for _, m := range methods {
		st, ok := m.recv.Underlying().(*types.Struct)
		if !ok {
			continue
		}
		mu := ""
		for k := 0; k < st.NumFields(); k++ {
			if isMutexType(st.Field(k).Type()) != "" {
				mu = st.Field(k).Name()
			}
		}
		if mu == "" {
			continue
		}
		tn := typeName(m.recv)
		rid := recvIdent(m.fd)
		ml := &methodLocks{mi: m, mu: mu}
		mlocks[mkey(m)] = ml
		if rid == nil {
			continue
		}
		info := m.p.TypesInfo
		ro := info.Defs[rid]
		isRecvSel := func(e ast.Expr) (*ast.SelectorExpr, bool) {
			sel, ok := ast.Unparen(e).(*ast.SelectorExpr)
			if !ok {
				return nil, false
			}
			id, ok := ast.Unparen(sel.X).(*ast.Ident)
			return sel, ok && info.Uses[id] == ro
		}
		// selectors recv.f in write position
		writeSel := map[*ast.SelectorExpr]bool{}
		markWrite := func(e ast.Expr) {
			for {
				e = ast.Unparen(e)
				if sel, ok := isRecvSel(e); ok {
					writeSel[sel] = true
					return
				}
				switch x := e.(type) {
				case *ast.SelectorExpr:
					e = x.X
				case *ast.IndexExpr:
					e = x.X
				case *ast.StarExpr:
					e = x.X
				case *ast.SliceExpr:
					e = x.X
				default:
					return
				}
			}
		}
		ast.Inspect(m.fd.Body, func(n ast.Node) bool {
			switch x := n.(type) {
			case *ast.AssignStmt:
				for _, l := range x.Lhs {
					markWrite(l)
				}
			case *ast.IncDecStmt:
				markWrite(x.X)
			case *ast.CallExpr:
				if id, ok := ast.Unparen(x.Fun).(*ast.Ident); ok {
					if b, ok := info.Uses[id].(*types.Builtin); ok && (b.Name() == "delete" || b.Name() == "clear" || b.Name() == "copy") && len(x.Args) > 0 {
						markWrite(x.Args[0])
					}
				}
			}
			return true
		})
		state, deferred := 0, false
		ast.Inspect(m.fd.Body, func(n ast.Node) bool {
			switch x := n.(type) {
			case *ast.DeferStmt:
				// defer recv.mu.Unlock(): the lock stays until the method returns
				if sel, ok := x.Call.Fun.(*ast.SelectorExpr); ok {
					if inner, ok := isRecvSel(sel.X); ok && inner.Sel.Name == mu {
						deferred = true
						return false
					}
				}
			case *ast.CallExpr:
				if sel, ok := x.Fun.(*ast.SelectorExpr); ok {
					if inner, ok := isRecvSel(sel.X); ok && inner.Sel.Name == mu {
						switch sel.Sel.Name {
						case "Lock":
							state = 2
						case "RLock":
							state = 1
						case "Unlock", "RUnlock":
							if !deferred {
								state = 0
							}
						}
						return false
					}
					// call of another method of the same object
					if id, ok := ast.Unparen(sel.X).(*ast.Ident); ok && info.Uses[id] == ro {
						if ms := info.Selections[sel]; ms != nil && ms.Kind() == types.MethodVal {
							if rn := namedOf(ms.Recv()); rn != nil && typeName(rn) == tn {
								ml.accesses = append(ml.accesses, lockAccess{state: state, helper: rel(m.p.PkgPath) + "|" + rn.Obj().Name() + "." + sel.Sel.Name})
							}
						}
					}
				}
			case *ast.SelectorExpr:
				if sel, ok := isRecvSel(x); ok && sel.Sel.Name != mu && mutable[tn+"#"+sel.Sel.Name] {
					ml.accesses = append(ml.accesses, lockAccess{write: writeSel[sel], state: state})
				}
			}
			return true
		})
	}
	// entry state of helpers: the weakest lock held at any call site; exported methods and methods referenced from
	// outside the type's own methods start without a lock
	callSites := map[string][]int{}
	for _, ml := range mlocks {
		for _, a := range ml.accesses {
			if a.helper != "" {
				callSites[a.helper] = append(callSites[a.helper], -1) // placeholder, resolved below
			}
		}
	}
	for iter := 0; iter < 6; iter++ {
		for k, ml := range mlocks {
			fo, _ := ml.mi.p.TypesInfo.Defs[ml.mi.fd.Name].(*types.Func)
			entry := 0
			if fo != nil && !fo.Exported() && len(callSites[k]) > 0 {
				// every reference to the helper must be one of the recorded same-object calls
				nrefs := 0
				for c := range callers[fo.Origin()] {
					_ = c
					nrefs++
				}
				entry = 2
				seen := 0
				for _, other := range mlocks {
					for _, a := range other.accesses {
						if a.helper == k {
							seen++
							eff := a.state
							if other.entry > eff {
								eff = other.entry
							}
							if eff < entry {
								entry = eff
							}
						}
					}
				}
				// referenced by functions that are not methods of this object: unknown lock state
				external := false
				for c := range callers[fo.Origin()] {
					isOwn := false
					for _, other := range mlocks {
						if of, ok := other.mi.p.TypesInfo.Defs[other.mi.fd.Name].(*types.Func); ok && of == c {
							isOwn = true
						}
					}
					if !isOwn {
						external = true
					}
				}
				if external || seen == 0 || topLevelUse[fo.Origin()] {
					entry = 0
				}
			}
			ml.entry = entry
		}
	}
	type lockSummary struct{ touches, writes, readsOK, writesOK bool }
	var summarize func(k string, depth int) lockSummary
	summarize = func(k string, depth int) lockSummary {
		ml := mlocks[k]
		res := lockSummary{readsOK: true, writesOK: true}
		if ml == nil || depth > 6 {
			return res
		}
		for _, a := range ml.accesses {
			eff := a.state
			if ml.entry > eff {
				eff = ml.entry
			}
			if a.helper != "" {
				continue // the helper is judged on its own, with the entry state computed from all its call sites
			}
			res.touches = true
			if a.write {
				res.writes = true
				if eff < 2 {
					res.writesOK = false
				}
			} else if eff < 1 {
				res.readsOK = false
			}
		}
		return res
	}
	var reach func(k string, depth int, seen map[string]bool) (bool, bool)
	reach = func(k string, depth int, seen map[string]bool) (bool, bool) {
		ml := mlocks[k]
		if ml == nil || seen[k] || depth > 6 {
			return false, false
		}
		seen[k] = true
		own := summarize(k, 0)
		t, w := own.touches, own.writes
		for _, a := range ml.accesses {
			if a.helper != "" {
				ht, hw := reach(a.helper, depth+1, seen)
				t, w = t || ht, w || hw
			}
		}
		return t, w
	}
	lockedWrites := map[string]bool{} // "pkg|Type.Method": every write of guarded state happens under the exclusive lock
	for k, ml := range mlocks {
		m := ml.mi
		mm := mutexMethod{Pkg: rel(m.p.PkgPath), Type: m.recv.Obj().Name(), Method: m.fd.Name.Name}
		mm.Lock, mm.DeferUnlock = lockPrefix(m.p.TypesInfo, m.fd, ml.mu)
		if mm.Lock == "LkNone" && ml.entry > 0 {
			mm.Lock = "LkHeld"
		}
		own := summarize(k, 0)
		mm.Touches, mm.Writes = reach(k, 0, map[string]bool{})
		mm.ReadsLocked, mm.WritesLocked = own.readsOK, own.writesOK
		lockedWrites[k] = own.writes && own.writesOK
		mms = append(mms, mm)
	}
	for i := range writes {
		w := &writes[i]
		if w.Root == "RtRecv" && lockedWrites[w.Pkg+"|"+w.Func] {
			w.UnderLock = true
		}
	}
	sort.Slice(mms, func(i, j int) bool {
		if mms[i].Pkg != mms[j].Pkg {
			return mms[i].Pkg < mms[j].Pkg
		}
		if mms[i].Type != mms[j].Type {
			return mms[i].Type < mms[j].Type
		}
		return mms[i].Method < mms[j].Method
	})

	// global vars of mutable-by-method types
	mutatingMethods := map[string][]string{}    // type -> methods that write receiver fields outside constructors
	guardFields := map[string]map[string]bool{} // type -> fields written under a nil guard (lazy initialisation)
	writesField := map[string]map[string]bool{} // "type|method" -> fields written
	for _, w := range writes {
		if w.Root == "RtRecv" && !w.Ctor && w.Type != "" {
			mutatingMethods[w.Type] = appendUnique(mutatingMethods[w.Type], w.Func)
			if w.NilGuard {
				if guardFields[w.Type] == nil {
					guardFields[w.Type] = map[string]bool{}
				}
				guardFields[w.Type][w.Field] = true
			}
			k := w.Type + "|" + w.Func
			if writesField[k] == nil {
				writesField[k] = map[string]bool{}
			}
			writesField[k][w.Field] = true
		}
	}
	type lazyVar struct {
		Pkg, Var, Type, Ctor string
		Eager                bool
		Methods              []string
	}
	var lvs []lazyVar
	funcDecls := map[*types.Func]*ast.FuncDecl{}
	funcPkg := map[*types.Func]*packages.Package{}
	for _, p := range a.pkgs {
		for _, f := range p.Syntax {
			for _, d := range f.Decls {
				if fd, ok := d.(*ast.FuncDecl); ok && fd.Body != nil {
					if fo, ok := p.TypesInfo.Defs[fd.Name].(*types.Func); ok {
						funcDecls[fo] = fd
						funcPkg[fo] = p
					}
				}
			}
		}
	}
	for _, g := range gvars {
		if _, isPtr := g.v.Type().Underlying().(*types.Pointer); !isPtr {
			continue
		}
		n := namedOf(g.v.Type())
		if n == nil || !inGoflow(n.Obj().Pkg()) {
			continue
		}
		tn := typeName(n)
		// mutating methods of the type and of the types it embeds (promoted methods)
		var allMut func(nt *types.Named, depth int) []string
		allMut = func(nt *types.Named, depth int) []string {
			res := append([]string{}, mutatingMethods[typeName(nt)]...)
			if st, ok := nt.Underlying().(*types.Struct); ok && depth < 4 {
				for k := 0; k < st.NumFields(); k++ {
					if st.Field(k).Embedded() {
						if en := namedOf(st.Field(k).Type()); en != nil && inGoflow(en.Obj().Pkg()) {
							res = append(res, allMut(en, depth+1)...)
						}
					}
				}
			}
			return res
		}
		muts := allMut(n, 0)
		if len(muts) == 0 {
			continue
		}
		lv := lazyVar{Pkg: rel(g.p.PkgPath), Var: g.v.Name(), Type: tn, Methods: muts}
		// constructor in the initialiser: eager when its body assigns every guard field of the type in a
		// composite literal or calls a method of the type (which then runs before the value is published)
		if ce, ok := ast.Unparen(g.init).(*ast.CallExpr); ok {
			var fo *types.Func
			switch fx := ast.Unparen(ce.Fun).(type) {
			case *ast.Ident:
				fo, _ = g.p.TypesInfo.Uses[fx].(*types.Func)
			case *ast.SelectorExpr:
				fo, _ = g.p.TypesInfo.Uses[fx.Sel].(*types.Func)
			}
			if fo != nil {
				lv.Ctor = fo.Name()
				if fd := funcDecls[fo]; fd != nil {
					info := funcPkg[fo].TypesInfo
					set := map[string]bool{} // guard fields the constructor leaves set
					ast.Inspect(fd.Body, func(nn ast.Node) bool {
						switch c2 := nn.(type) {
						case *ast.CallExpr:
							if sel, ok := c2.Fun.(*ast.SelectorExpr); ok {
								if s := info.Selections[sel]; s != nil && s.Kind() == types.MethodVal {
									if rn := namedOf(s.Recv()); rn != nil && typeName(rn) == tn {
										for f := range writesField[tn+"|"+rn.Obj().Name()+"."+sel.Sel.Name] {
											set[f] = true
										}
									}
								}
							}
						case *ast.CompositeLit:
							if rn := namedOf(info.TypeOf(c2)); rn != nil && typeName(rn) == tn {
								for _, el := range c2.Elts {
									if kv, ok := el.(*ast.KeyValueExpr); ok {
										if id, ok := kv.Key.(*ast.Ident); ok {
											set[id.Name] = true
										}
									}
								}
							}
						}
						return true
					})
					lv.Eager = true
					for f := range guardFields[tn] {
						if !set[f] {
							lv.Eager = false
						}
					}
				}
			}
		} else if g.init != nil && isFreshExpr(g.p.TypesInfo, g.init) {
			lv.Ctor = "literal"
		}
		lvs = append(lvs, lv)
	}
	sort.Slice(lvs, func(i, j int) bool { return lvs[i].Pkg+lvs[i].Var < lvs[j].Pkg+lvs[j].Var })

	var initOnly func(f *types.Func, depth int) bool
	initOnly = func(f *types.Func, depth int) bool {
		if f == nil {
			return false
		}
		if f.Name() == "init" && f.Type().(*types.Signature).Recv() == nil {
			return true
		}
		if depth > 4 {
			return false
		}
		cs := callers[f.Origin()]
		if len(cs) == 0 {
			return topLevelUse[f.Origin()] // only package initialisers use it (or nothing does)
		}
		for c := range cs {
			if c == f {
				continue
			}
			if !initOnly(c, depth+1) {
				return false
			}
		}
		return true
	}
	for i := range writes {
		if writes[i].Global != "" && writes[i].fn != nil {
			writes[i].InitOnly = initOnly(writes[i].fn, 0)
			writes[i].Exported = writes[i].fn.Exported()
		}
	}
	// calls of mutating methods directly on package-level variables: X.SetFoo(..) with X a global
	for _, p := range a.pkgs {
		rp := rel(p.PkgPath)
		for i, f := range p.Syntax {
			if strings.HasSuffix(p.CompiledGoFiles[i], "_test.go") || isGenerated(f) {
				continue
			}
			for _, d := range f.Decls {
				fd, ok := d.(*ast.FuncDecl)
				if !ok || fd.Body == nil {
					continue
				}
				fo, _ := p.TypesInfo.Defs[fd.Name].(*types.Func)
				fname := fd.Name.Name
				if fd.Recv != nil && len(fd.Recv.List) > 0 {
					if rn := namedOf(p.TypesInfo.TypeOf(fd.Recv.List[0].Type)); rn != nil {
						fname = rn.Obj().Name() + "." + fname
					}
				}
				ast.Inspect(fd.Body, func(nn ast.Node) bool {
					ce, ok := nn.(*ast.CallExpr)
					if !ok {
						return true
					}
					sel, ok := ast.Unparen(ce.Fun).(*ast.SelectorExpr)
					if !ok {
						return true
					}
					ms := p.TypesInfo.Selections[sel]
					if ms == nil || ms.Kind() != types.MethodVal {
						return true
					}
					root := rootIdent(sel.X)
					if root == nil {
						return true
					}
					ro := p.TypesInfo.Uses[root]
					if ro == nil || !isPkgLevel(ro) || !inGoflow(ro.Pkg()) {
						return true
					}
					rn := namedOf(ms.Recv())
					if rn == nil || !inGoflow(rn.Obj().Pkg()) {
						return true
					}
					// the method (possibly promoted from an embedded type) writes receiver fields?
					mfn, _ := ms.Obj().(*types.Func)
					if mfn == nil {
						return true
					}
					mrecv := namedOf(mfn.Type().(*types.Signature).Recv().Type())
					if mrecv == nil {
						return true
					}
					mname := mrecv.Obj().Name() + "." + mfn.Name()
					isMut := false
					for _, m := range mutatingMethods[typeName(mrecv)] {
						if m == mname {
							isMut = true
						}
					}
					if !isMut {
						return true
					}
					w := write{Pkg: rp, Func: fname, Pos: a.pos(ce.Pos()), Global: ro.Name(), GlobalPkg: rel(ro.Pkg().Path()), Kind: "GwMethod", Root: "RtGlobal",
						InInit: fd.Name.Name == "init" && fd.Recv == nil, fn: fo}
					w.InitOnly = initOnly(fo, 0)
					if fo != nil {
						w.Exported = fo.Exported()
					}
					writes = append(writes, w)
					return true
				})
			}
		}
	}

	sort.SliceStable(writes, func(i, j int) bool {
		if writes[i].Pkg != writes[j].Pkg {
			return writes[i].Pkg < writes[j].Pkg
		}
		if writes[i].Func != writes[j].Func {
			return writes[i].Func < writes[j].Func
		}
		return writes[i].Pos < writes[j].Pos
	})

	var sb strings.Builder
	sb.WriteString("(* GENERATED by translators/cmd/sharedstate from the goflow working tree -- do not edit.\n")
	sb.WriteString("   Lock discipline, writes to package-level variables and writes to fields of types that several sessions can reach. *)\n")
	sb.WriteString("From Coq Require Import List String.\nFrom Verif Require Import model.Conc.\nImport ListNotations.\nOpen Scope string_scope.\n\n")
	fmt.Fprintf(&sb, "Definition shared_files_scanned : nat := %d.\n", scanned)
	nShared := 0
	for range a.shared {
		nShared++
	}
	fmt.Fprintf(&sb, "Definition shared_types_count : nat := %d.\n\n", nShared)

	sb.WriteString("Definition mutex_methods : list mutex_method := [\n")
	for i, m := range mms {
		sep := ";"
		if i == len(mms)-1 {
			sep = ""
		}
		fmt.Fprintf(&sb, "  {| mm_pkg := %s; mm_type := %s; mm_method := %s; mm_touches := %s; mm_writes := %s; mm_lock := %s; mm_defer_unlock := %s; mm_reads_locked := %s; mm_writes_locked := %s |}%s\n",
			coqString(m.Pkg), coqString(m.Type), coqString(m.Method), coqBool(m.Touches), coqBool(m.Writes), m.Lock, coqBool(m.DeferUnlock), coqBool(m.ReadsLocked), coqBool(m.WritesLocked), sep)
	}
	sb.WriteString("].\n\n")

	var gws, fws []write
	seenW := map[string]bool{}
	for _, w := range writes {
		if w.Global != "" && !w.InInit {
			k := fmt.Sprintf("g|%s|%s|%s|%s|%s|%v|%v|%v", w.Pkg, w.Func, w.GlobalPkg, w.Global, w.Kind, w.InOnce, w.NilGuard, w.InitOnly)
			if !seenW[k] {
				seenW[k] = true
				gws = append(gws, w)
			}
		}
		if w.shared && w.Global == "" {
			k := fmt.Sprintf("f|%s|%s|%s|%s|%s|%v|%v|%v|%v", w.Pkg, w.Func, w.Type, w.Field, w.Root, w.CtorKind, w.UnderLock, w.NilGuard, w.InOnce)
			if !seenW[k] {
				seenW[k] = true
				fws = append(fws, w)
			}
		}
	}
	sb.WriteString("Definition global_writes : list global_write := [\n")
	for i, w := range gws {
		sep := ";"
		if i == len(gws)-1 {
			sep = ""
		}
		fmt.Fprintf(&sb, "  (* %s *)\n  {| gw_pkg := %s; gw_func := %s; gw_var := %s; gw_kind := %s; gw_in_once := %s; gw_nil_guard := %s; gw_init_only := %s; gw_exported := %s |}%s\n",
			w.Pos, coqString(w.Pkg), coqString(w.Func), coqString(w.GlobalPkg+"."+w.Global), w.Kind, coqBool(w.InOnce), coqBool(w.NilGuard), coqBool(w.InitOnly), coqBool(w.Exported), sep)
	}
	sb.WriteString("].\n\n")
	sb.WriteString("Definition shared_field_writes : list field_write := [\n")
	for i, w := range fws {
		sep := ";"
		if i == len(fws)-1 {
			sep = ""
		}
		fmt.Fprintf(&sb, "  (* %s *)\n  {| fw_pkg := %s; fw_func := %s; fw_type := %s; fw_field := %s; fw_root := %s; fw_ctor := %s; fw_under_lock := %s; fw_nil_guard := %s; fw_in_once := %s |}%s\n",
			w.Pos, coqString(w.Pkg), coqString(w.Func), coqString(w.Type), coqString(w.Field), w.Root, w.CtorKind, coqBool(w.UnderLock), coqBool(w.NilGuard), coqBool(w.InOnce), sep)
	}
	sb.WriteString("].\n\n")
	sb.WriteString("Definition global_shared_vars : list shared_var := [\n")
	for i, lv := range lvs {
		sep := ";"
		if i == len(lvs)-1 {
			sep = ""
		}
		ms := make([]string, len(lv.Methods))
		for k, m := range lv.Methods {
			// lazy: every receiver write of the method is nil-guarded; callers: functions of the library that reference it
			lazy, any := true, false
			for _, w := range writes {
				if w.Root == "RtRecv" && !w.Ctor && w.Func == m {
					any = true
					if !w.NilGuard {
						lazy = false
					}
				}
			}
			ncall := 0
			for _, mi := range methods {
				if mi.recv.Obj().Name()+"."+mi.fd.Name.Name == m {
					if fo, ok := mi.p.TypesInfo.Defs[mi.fd.Name].(*types.Func); ok {
						ncall = len(callers[fo.Origin()])
						if topLevelUse[fo.Origin()] {
							ncall++
						}
						// also lazy: only ever called from constructors and from inside `if recv.f == nil { recv.M() }`
						if !lazy {
							guardedBy := map[*types.Func]bool{}
							for _, gc := range guardedCalls {
								if gc.Method == m && gc.Caller != nil {
									guardedBy[gc.Caller] = true
								}
							}
							if len(guardedBy) > 0 && !fo.Exported() {
								all := true
								for c := range callers[fo.Origin()] {
									if !guardedBy[c] && !ctorLike(c, 0) {
										all = false
									}
								}
								lazy = all
							}
						}
					}
				}
			}
			ms[k] = fmt.Sprintf("{| mu_name := %s; mu_lazy := %s; mu_callers := %d |}", coqString(m), coqBool(lazy && any), ncall)
		}
		fmt.Fprintf(&sb, "  {| sv_pkg := %s; sv_var := %s; sv_type := %s; sv_ctor := %s; sv_eager := %s; sv_mutators := [%s] |}%s\n",
			coqString(lv.Pkg), coqString(lv.Var), coqString(lv.Type), coqString(lv.Ctor), coqBool(lv.Eager), strings.Join(ms, "; "), sep)
	}
	sb.WriteString("].\n")

	if *list {
		fmt.Println("== mutex methods")
		for _, m := range mms {
			fmt.Printf("%-20s %-14s %-14s touches=%v writes=%v %s defer=%v readsLocked=%v writesLocked=%v\n", m.Pkg, m.Type, m.Method, m.Touches, m.Writes, m.Lock, m.DeferUnlock, m.ReadsLocked, m.WritesLocked)
		}
		fmt.Println("== global writes")
		for _, w := range gws {
			fmt.Printf("%-28s %-34s %-40s %-9s once=%v nil=%v initonly=%v exported=%v %s\n", w.Pkg, w.Func, w.GlobalPkg+"."+w.Global, w.Kind, w.InOnce, w.NilGuard, w.InitOnly, w.Exported, w.Pos)
		}
		fmt.Println("== shared field writes")
		for _, w := range fws {
			fmt.Printf("%-24s %-40s %-44s %-18s %-8s ctor=%v lock=%v nil=%v %s\n", w.Pkg, w.Func, w.Type, w.Field, w.Root, w.CtorKind, w.UnderLock, w.NilGuard, w.Pos)
		}
		fmt.Println("== global vars of types with mutating methods")
		for _, lv := range lvs {
			fmt.Printf("%-24s %-24s %-34s ctor=%-14s eager=%v %v\n", lv.Pkg, lv.Var, lv.Type, lv.Ctor, lv.Eager, lv.Methods)
		}
	}
	if err := os.MkdirAll(*out, 0o755); err != nil {
		fatal("%v", err)
	}
	path := filepath.Join(*out, "SharedState.v")
	old, _ := os.ReadFile(path)
	if string(old) != sb.String() {
		if err := os.WriteFile(path+".tmp", []byte(sb.String()), 0o644); err != nil {
			fatal("%v", err)
		}
		if err := os.Rename(path+".tmp", path); err != nil {
			fatal("%v", err)
		}
	}
	fmt.Fprintf(os.Stderr, "sharedstate: %d files, %d shared types, %d mutex methods, %d global writes, %d shared field writes, %d shared global vars\n",
		scanned, nShared, len(mms), len(gws), len(fws), len(lvs))
}

func appendUnique(xs []string, x string) []string {
	for _, y := range xs {
		if y == x {
			return xs
		}
	}
	return append(xs, x)
}
