#!/usr/bin/env python3
"""g4cql.py --repo /repo --out coq/gen

Translates the source-derived tables of the contact query language into coq/gen/GrammarCQL.v:
  * antlr/ContactQL.g4 + antlr/LexUnicode.g4: the ordered lexer rules as regular expressions over code points
    (fragments inlined by name, alternatives of single characters merged into one character class),
    the alternatives of the parser rule `expression` in grammar order (their order is ANTLR's operator precedence)
    and the alternatives of `literal`;
  * contactql/visitor.go: the `operatorAliases` and `attributes` maps, the implicit-condition regexes;
  * contactql/parser.go: the Operator / BoolOperator constants, `isNumberRegex`;
  * utils/phone.go: the `possiblePhone` regex.
Fails loudly (exit 2) when any of these no longer has the shape the hand-written model
(coq/model/CqlSyntax.v, CqlParser.v, CqlPrinter.v) relies on.  Writes the file only when its content changed.
"""
import argparse, os, re, sys


def die(msg):
    print("g4cql: " + msg, file=sys.stderr)
    sys.exit(2)


# ------------------------------------------------------------------------------------------------
# .g4 tokenizer / parser (the subset used by ContactQL.g4 and LexUnicode.g4)

def strip_comments(src):
    out = []
    i = 0
    n = len(src)
    while i < n:
        c = src[i]
        if c == "'":                      # literal
            j = i + 1
            while src[j] != "'":
                j += 2 if src[j] == "\\" else 1
            out.append(src[i:j + 1])
            i = j + 1
        elif c == "[":                    # char set
            j = i + 1
            while src[j] != "]":
                j += 2 if src[j] == "\\" else 1
            out.append(src[i:j + 1])
            i = j + 1
        elif src.startswith("//", i):
            j = src.find("\n", i)
            i = n if j < 0 else j
        elif src.startswith("/*", i):
            j = src.find("*/", i)
            if j < 0:
                die("unterminated comment")
            i = j + 2
        else:
            out.append(c)
            i += 1
    return "".join(out)


def g4_tokens(src):
    toks = []
    i = 0
    n = len(src)
    while i < n:
        c = src[i]
        if c.isspace():
            i += 1
        elif c == "'":
            j = i + 1
            while src[j] != "'":
                j += 2 if src[j] == "\\" else 1
            toks.append(("LIT", src[i + 1:j]))
            i = j + 1
        elif c == "[":
            j = i + 1
            while src[j] != "]":
                j += 2 if src[j] == "\\" else 1
            toks.append(("SET", src[i + 1:j]))
            i = j + 1
        elif src.startswith("->", i):
            toks.append(("ARROW", "->"))
            i += 2
        elif src.startswith("..", i):
            toks.append(("DOTDOT", ".."))
            i += 2
        elif c.isalpha() or c == "_":
            j = i
            while j < n and (src[j].isalnum() or src[j] == "_"):
                j += 1
            toks.append(("ID", src[i:j]))
            i = j
        elif c in ":;|()*+?~.#":
            toks.append((c, c))
            i += 1
        else:
            die("unexpected character %r in grammar" % c)
    return toks


def unescape(s, in_set):
    """list of code points of a literal / set body; in a set, ranges a-b are returned as ('-',) markers"""
    out = []
    i = 0
    while i < len(s):
        c = s[i]
        if c == "\\":
            e = s[i + 1]
            if e == "u":
                if s[i + 2] == "{":
                    j = s.index("}", i)
                    out.append(int(s[i + 3:j], 16))
                    i = j + 1
                else:
                    out.append(int(s[i + 2:i + 6], 16))
                    i += 6
                continue
            m = {"n": 10, "r": 13, "t": 9, "b": 8, "f": 12, "\\": 92, "'": 39, "-": 45, "]": 93, "[": 91, '"': 34}
            if e not in m:
                die("unsupported escape \\%s in grammar literal" % e)
            out.append(m[e])
            i += 2
        elif in_set and c == "-" and out and i + 1 < len(s):
            out.append(("-",))
            i += 1
        else:
            out.append(ord(c))
            i += 1
    return out


def set_ranges(body):
    cps = unescape(body, True)
    rs = []
    i = 0
    while i < len(cps):
        if i + 2 < len(cps) and cps[i + 1] == ("-",):
            rs.append((cps[i], cps[i + 2]))
            i += 3
        else:
            if cps[i] == ("-",):
                die("bad range in set [%s]" % body)
            rs.append((cps[i], cps[i]))
            i += 1
    return rs


# regex AST: ("empty",) ("eps",) ("set", ranges) ("not", ranges) ("any",) ("cat", a, b) ("alt", a, b) ("star", a)
#            ("ref", name)

class RuleParser:
    def __init__(self, toks):
        self.t = toks
        self.i = 0

    def peek(self):
        return self.t[self.i] if self.i < len(self.t) else ("EOF", "")

    def next(self):
        tok = self.peek()
        self.i += 1
        return tok

    def expect(self, k):
        tok = self.next()
        if tok[0] != k:
            die("expected %s, got %r" % (k, tok))
        return tok

    def alternatives(self, stop):
        alts = [self.sequence(stop)]
        while self.peek()[0] == "|":
            self.next()
            alts.append(self.sequence(stop))
        return alts

    def sequence(self, stop):
        items = []
        label = None
        while self.peek()[0] not in stop and self.peek()[0] != "|":
            if self.peek()[0] == "#":
                self.next()
                label = self.expect("ID")[1]
                continue
            if self.peek()[0] == "ARROW":
                break
            items.append(self.suffixed())
        return (items, label)

    def suffixed(self):
        a = self.atom()
        while self.peek()[0] in "*+?":
            op = self.next()[0]
            if self.peek()[0] == "?":
                die("non-greedy operators are not supported by the lexer model")
            if op == "*":
                a = ("star", a)
            elif op == "+":
                a = ("cat", a, ("star", a))
            else:
                a = ("alt", a, ("eps",))
        return a

    def atom(self):
        k, v = self.next()
        if k == "LIT":
            cps = unescape(v, False)
            if self.peek()[0] == "DOTDOT":
                self.next()
                hi = unescape(self.expect("LIT")[1], False)
                if len(cps) != 1 or len(hi) != 1:
                    die("range of multi-character literals")
                return ("set", [(cps[0], hi[0])])
            if not cps:
                return ("eps",)
            r = None
            for c in reversed(cps):
                x = ("set", [(c, c)])
                r = x if r is None else ("cat", x, r)
            return r
        if k == "SET":
            return ("set", set_ranges(v))
        if k == "~":
            a = self.atom()
            if a[0] != "set":
                die("~ applied to something that is not a character set")
            return ("not", a[1])
        if k == ".":
            return ("any",)
        if k == "ID":
            return ("ref", v)
        if k == "(":
            alts = self.alternatives([")"])
            self.expect(")")
            return alts_to_re(alts)
        die("unexpected token %r in rule body" % ((k, v),))


def seq_to_re(items):
    if not items:
        return ("eps",)
    r = items[-1]
    for x in reversed(items[:-1]):
        r = ("cat", x, r)
    return r


def alts_to_re(alts):
    res = [seq_to_re(items) for items, _ in alts]
    # merge single-character alternatives into one class (same language)
    merged = []
    for r in res:
        if r[0] == "set" and merged and merged[-1][0] == "set":
            merged[-1] = ("set", merged[-1][1] + r[1])
        else:
            merged.append(r)
    r = merged[-1]
    for x in reversed(merged[:-1]):
        r = ("alt", x, r)
    return r


def parse_grammar(path):
    src = strip_comments(open(path, encoding="utf-8").read())
    toks = g4_tokens(src)
    p = RuleParser(toks)
    header = {}
    rules = []          # (name, is_fragment, alts(list of (items,label)), skip)
    imports = []
    while p.peek()[0] != "EOF":
        k, v = p.peek()
        if k == "ID" and v in ("grammar", "lexer", "parser"):
            p.next()
            if v in ("lexer", "parser"):
                if p.next() != ("ID", "grammar"):
                    die("bad grammar header")
            header["name"] = p.expect("ID")[1]
            p.expect(";")
            continue
        if k == "ID" and v == "import":
            p.next()
            imports.append(p.expect("ID")[1])
            p.expect(";")
            continue
        if k == "ID" and v in ("options", "tokens", "channels", "mode"):
            die("grammar section %r is not supported by the lexer model" % v)
        frag = False
        if (k, v) == ("ID", "fragment"):
            p.next()
            frag = True
        name = p.expect("ID")[1]
        p.expect(":")
        alts = p.alternatives([";", "ARROW"])
        skip = False
        if p.peek()[0] == "ARROW":
            p.next()
            cmd = p.expect("ID")[1]
            if cmd != "skip":
                die("lexer command %r is not supported by the lexer model" % cmd)
            skip = True
        p.expect(";")
        rules.append((name, frag, alts, skip))
    return header, imports, rules


# ------------------------------------------------------------------------------------------------
# Coq output

def norm_ranges(rs):
    rs = sorted(rs)
    out = []
    for lo, hi in rs:
        if lo > hi:
            die("empty range %x..%x" % (lo, hi))
        if out and lo <= out[-1][1] + 1:
            out[-1] = (out[-1][0], max(out[-1][1], hi))
        else:
            out.append((lo, hi))
    return out


def coq_ranges(rs):
    return "[" + "; ".join("(%d, %d)" % r for r in norm_ranges(rs)) + "]"


def coq_re(r, frags):
    k = r[0]
    if k == "eps":
        return "Eps"
    if k == "empty":
        return "Empty"
    if k == "set":
        return "(Chr (CRanges %s))" % coq_ranges(r[1])
    if k == "not":
        return "(Chr (CNot (CRanges %s)))" % coq_ranges(r[1])
    if k == "any":
        return "(Chr CAny)"
    if k == "cat":
        return "(Cat %s %s)" % (coq_re(r[1], frags), coq_re(r[2], frags))
    if k == "alt":
        return "(Alt %s %s)" % (coq_re(r[1], frags), coq_re(r[2], frags))
    if k == "star":
        return "(Star %s)" % coq_re(r[1], frags)
    if k == "ref":
        if r[1] not in frags:
            die("lexer rule references %r which is not a fragment" % r[1])
        return "frag_" + r[1]
    die("bad regex node %r" % (r,))


def resolve_sets(r, fragdefs, seen=()):
    """replace references to fragments that are pure character sets by the set itself (so that alternatives merge)"""
    k = r[0]
    if k == "ref" and r[1] in fragdefs and r[1] not in seen:
        d = resolve_sets(fragdefs[r[1]], fragdefs, seen + (r[1],))
        if d[0] == "set":
            return d
        return r
    if k in ("cat", "alt"):
        a = resolve_sets(r[1], fragdefs, seen)
        b = resolve_sets(r[2], fragdefs, seen)
        if k == "alt" and a[0] == "set" and b[0] == "set":
            return ("set", a[1] + b[1])
        if k == "alt" and a[0] == "set" and b[0] == "alt" and b[1][0] == "set":
            return ("alt", ("set", a[1] + b[1][1]), b[2])
        return (k, a, b)
    if k == "star":
        return ("star", resolve_sets(r[1], fragdefs, seen))
    return r


def coq_str(s):
    return "[" + "; ".join(str(ord(c)) for c in s) + "]"


def go_map(src, name, path):
    m = re.search(r"var\s+" + name + r"\s*=\s*map\[[^\]]+\][\w.]+\s*\{(.*?)\n\}", src, re.S)
    if not m:
        die("%s: map %s not found as a composite literal" % (path, name))
    entries = []
    for line in m.group(1).split("\n"):
        line = line.split("//")[0].strip().rstrip(",")
        if not line:
            continue
        mm = re.match(r"^(\S+)\s*:\s*(\S+)$", line)
        if not mm:
            die("%s: entry %r of %s not understood" % (path, line, name))
        entries.append((mm.group(1), mm.group(2)))
    return entries


def go_consts(src, typ, path):
    """const NAME Type = "value" entries"""
    res = {}
    for m in re.finditer(r"^\s*(\w+)\s+" + typ + r'\s*=\s*"([^"]*)"', src, re.M):
        res[m.group(1)] = m.group(2)
    if not res:
        die("%s: no constants of type %s" % (path, typ))
    return res


def go_string_consts(src):
    res = {}
    for m in re.finditer(r'^\s*(\w+)\s*=\s*"([^"]*)"\s*$', src, re.M):
        res[m.group(1)] = m.group(2)
    return res


def go_regex(src, name, path):
    m = re.search(r"var\s+" + name + r"\s*=\s*regexp\.MustCompile\(`([^`]*)`(.*?)\)\s*$", src, re.M)
    if not m:
        die("%s: regexp %s not found" % (path, name))
    return m.group(1), m.group(2).strip()


def main():
    ap = argparse.ArgumentParser()
    ap.add_argument("--repo", default="/repo")
    ap.add_argument("--out", required=True)
    a = ap.parse_args()

    g4 = os.path.join(a.repo, "antlr", "ContactQL.g4")
    header, imports, rules = parse_grammar(g4)
    if header.get("name") != "ContactQL":
        die("grammar name is not ContactQL")
    all_rules = list(rules)
    for imp in imports:
        _, imps2, r2 = parse_grammar(os.path.join(a.repo, "antlr", imp + ".g4"))
        if imps2:
            die("nested imports not supported")
        all_rules += r2          # imported rules come after the importing grammar's rules (ANTLR semantics)

    lexer_rules = [(n, f, alts, s) for n, f, alts, s in all_rules if n[0].isupper()]
    parser_rules = {n: alts for n, f, alts, s in all_rules if n[0].islower()}

    fragdefs = {}
    for n, f, alts, s in lexer_rules:
        if f:
            if n in fragdefs:
                die("fragment %s defined twice" % n)
            fragdefs[n] = alts_to_re(alts)
    for n in list(fragdefs):
        fragdefs[n] = resolve_sets(fragdefs[n], fragdefs)

    # order fragments so that a definition precedes its uses
    order = []
    def visit(n, stack=()):
        if n in order:
            return
        if n in stack:
            die("recursive fragment " + n)
        def refs(r):
            if r[0] == "ref":
                yield r[1]
            elif r[0] in ("cat", "alt"):
                yield from refs(r[1]); yield from refs(r[2])
            elif r[0] == "star":
                yield from refs(r[1])
        for m in refs(fragdefs[n]):
            if m not in fragdefs:
                die("fragment %s references non-fragment %s" % (n, m))
            visit(m, stack + (n,))
        order.append(n)
    for n in fragdefs:
        visit(n)

    tokens = [(n, resolve_sets(alts_to_re(alts), fragdefs), s) for n, f, alts, s in lexer_rules if not f]
    expected_tokens = ["LPAREN", "RPAREN", "AND", "OR", "COMPARATOR", "STRING", "PROPERTY", "TEXT", "WS", "ERROR"]
    if sorted(n for n, _, _ in tokens) != sorted(expected_tokens):
        die("token rules changed: %s (the model knows %s)" % ([n for n, _, _ in tokens], expected_tokens))

    # parser rules: shapes the model's parser implements
    if sorted(parser_rules) != ["expression", "literal", "parse"]:
        die("parser rules changed: %s" % sorted(parser_rules))
    def shape(items):
        return tuple(x[1] if x[0] == "ref" else "?" for x in items)
    pa = parser_rules["parse"]
    if len(pa) != 1 or shape(pa[0][0]) != ("expression", "EOF"):
        die("rule parse is not `expression EOF`")
    shapes = {
        ("expression", "AND", "expression"): "GBinary (Some AND)",
        ("expression", "expression"): "GBinary None",
        ("expression", "OR", "expression"): "GBinary (Some OR)",
        ("LPAREN", "expression", "RPAREN"): "GGroup",
        ("PROPERTY", "COMPARATOR", "literal"): "GCondition",
        ("literal",): "GLiteral",
    }
    labels = {"GBinary (Some AND)": "combinationAnd", "GBinary None": "combinationImpicitAnd",
              "GBinary (Some OR)": "combinationOr", "GGroup": "expressionGrouping", "GCondition": "condition",
              "GLiteral": "implicitCondition"}
    ealts = []
    for items, label in parser_rules["expression"]:
        sh = shape(items)
        if sh not in shapes:
            die("alternative %r of rule expression has a shape the parser model does not implement" % (sh,))
        g = shapes[sh]
        if labels[g] != label:
            die("alternative %r of rule expression is labelled %r, the visitor model expects %r" % (sh, label, labels[g]))
        ealts.append(g)
    if sorted(ealts) != sorted(shapes.values()):
        die("rule expression no longer has exactly the six known alternatives: %s" % ealts)
    lalts = []
    for items, label in parser_rules["literal"]:
        sh = shape(items)
        if len(sh) != 1 or sh[0] not in ("PROPERTY", "TEXT", "STRING"):
            die("alternative %r of rule literal not understood" % (sh,))
        if label not in ("textLiteral", "stringLiteral"):
            die("label %r of rule literal not understood" % label)
        if (sh[0] == "STRING") != (label == "stringLiteral"):
            die("literal alternative %s labelled %s: the visitor model unquotes exactly STRING tokens" % (sh[0], label))
        lalts.append("(%s, %s)" % (sh[0], "LitString" if label == "stringLiteral" else "LitText"))

    # Go tables
    vpath = os.path.join(a.repo, "contactql", "visitor.go")
    vsrc = open(vpath, encoding="utf-8").read()
    ppath = os.path.join(a.repo, "contactql", "parser.go")
    psrc = open(ppath, encoding="utf-8").read()
    ops = go_consts(psrc, "Operator", ppath)
    opnames = {"OpEqual": "=", "OpNotEqual": "!=", "OpContains": "~", "OpGreaterThan": ">", "OpLessThan": "<",
               "OpGreaterThanOrEqual": ">=", "OpLessThanOrEqual": "<="}
    if ops != opnames:
        die("Operator constants changed: %s" % ops)
    bops = go_consts(psrc, "BoolOperator", ppath)
    if bops != {"BoolOperatorAnd": "and", "BoolOperatorOr": "or"}:
        die("BoolOperator constants changed: %s" % bops)
    ptypes = go_consts(psrc, "PropertyType", ppath)
    if ptypes != {"PropertyTypeAttribute": "attr", "PropertyTypeURN": "urn", "PropertyTypeField": "field"}:
        die("PropertyType constants changed: %s" % ptypes)
    aliases = []
    for k, v in go_map(vsrc, "operatorAliases", vpath):
        if v not in opnames:
            die("operator alias %s maps to unknown operator %s" % (k, v))
        aliases.append((k.strip('"'), v))
    sconsts = go_string_consts(vsrc)
    ftypes = {"assets.FieldTypeText": "FText", "assets.FieldTypeNumber": "FNumber", "assets.FieldTypeDatetime": "FDatetime"}
    attrs = []
    for k, v in go_map(vsrc, "attributes", vpath):
        if k not in sconsts:
            die("attribute key %s is not a string constant of visitor.go" % k)
        if v not in ftypes:
            die("attribute %s has unknown field type %s" % (k, v))
        attrs.append((sconsts[k], ftypes[v]))
    attr_consts = {k: v for k, v in sconsts.items() if k.startswith("Attribute")}

    regexes = {
        "isNumberRegex": (psrc, ppath, r"^\d+(\.\d+)?$"),
        "implicitIsPhoneNumberRegex": (vsrc, vpath, r"^\+?[\-\d]{4,}$"),
        "cleanPhoneNumberRegex": (vsrc, vpath, r"[^+\d]+"),
    }
    for name, (src, path, want) in regexes.items():
        got, extra = go_regex(src, name, path)
        if got != want or extra:
            die("%s: regexp %s is now %r; the model implements %r by hand" % (path, name, got, want))
    phpath = os.path.join(a.repo, "utils", "phone.go")
    phsrc = open(phpath, encoding="utf-8").read()
    got, extra = go_regex(phsrc, "possiblePhone", phpath)
    if got != r"\+?[\d \.\-\(\)]{5,}" or extra:
        die("%s: possiblePhone is now %r" % (phpath, got))
    if "onlyPhone = regexp.MustCompile(`^` + possiblePhone.String() + `$`)" not in phsrc:
        die("%s: onlyPhone is no longer ^possiblePhone$" % phpath)
    mins = {}
    for name in ("minNameTokenContainsLength", "minURNContainsLength"):
        m = re.search(r"const\s+" + name + r"\s*=\s*(\d+)", psrc)
        if not m:
            die("%s: constant %s not found" % (ppath, name))
        mins[name] = int(m.group(1))

    out = []
    out.append("(* GENERATED by translators/g4cql.py from antlr/ContactQL.g4, antlr/LexUnicode.g4, contactql/visitor.go,")
    out.append("   contactql/parser.go, utils/phone.go — do not edit.  Tables only. *)")
    out.append("From Coq Require Import List NArith Bool.")
    out.append("From Verif Require Import lib.RegexLM model.CqlSyntax.")
    out.append("Import ListNotations.")
    out.append("Open Scope N_scope.")
    out.append("")
    for n in order:
        out.append("Definition frag_%s : re := %s." % (n, coq_re(fragdefs[n], fragdefs)))
    out.append("")
    out.append("(* token rules in grammar order *)")
    out.append("Definition lexer_rules : list (rule tkind) := [")
    out.append(";\n".join("  Build_rule %s %s %s" % (n, coq_re(r, fragdefs), "true" if s else "false") for n, r, s in tokens))
    out.append("].")
    out.append("")
    out.append("(* alternatives of the parser rule `expression`, in grammar order (= ANTLR precedence, first binds tightest) *)")
    out.append("Definition expression_alts : list galt := [%s]." % "; ".join(ealts))
    out.append("Definition literal_alts : list (tkind * litkind) := [%s]." % "; ".join(lalts))
    out.append("")
    out.append("(* contactql/visitor.go *)")
    out.append("Definition operator_aliases : list (list N * oper) := [%s]." %
               "; ".join("(%s, %s)" % (coq_str(k), v) for k, v in aliases))
    out.append("Definition attributes : list (list N * ftype) := [%s]." %
               "; ".join("(%s, %s)" % (coq_str(k), v) for k, v in attrs))
    for k in sorted(attr_consts):
        out.append("Definition %s : list N := %s." % (k, coq_str(attr_consts[k])))
    out.append("")
    out.append("(* contactql/parser.go *)")
    out.append("Definition operator_texts : list (oper * list N) := [%s]." %
               "; ".join("(%s, %s)" % (k, coq_str(v)) for k, v in sorted(ops.items())))
    out.append("Definition min_name_token_contains_length : N := %d." % mins["minNameTokenContainsLength"])
    out.append("Definition min_urn_contains_length : N := %d." % mins["minURNContainsLength"])
    out.append("")
    content = "\n".join(out) + "\n"

    os.makedirs(a.out, exist_ok=True)
    path = os.path.join(a.out, "GrammarCQL.v")
    try:
        if open(path).read() == content:
            return
    except FileNotFoundError:
        pass
    with open(path + ".tmp", "w") as f:
        f.write(content)
    os.replace(path + ".tmp", path)
    print("g4cql: wrote", path)


if __name__ == "__main__":
    main()
