module veriftranslators

go 1.23

require github.com/nyaruka/goflow v0.0.0

replace github.com/nyaruka/goflow => /repo
