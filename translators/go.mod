module veriftranslators

go 1.23

require github.com/nyaruka/goflow v0.0.0

replace github.com/nyaruka/goflow => /repo

require (
	github.com/shopspring/decimal v1.4.0
	golang.org/x/tools v0.29.0
)

require (
	golang.org/x/mod v0.22.0 // indirect
	golang.org/x/sync v0.10.0 // indirect
)
