#!/usr/bin/env python3
"""g4ex3.py --repo /repo --out coq/gen

Reads antlr/Excellent3.g4 and antlr/LexUnicode.g4 of the goflow working tree and writes coq/gen/GrammarE3.v:

  lexer_rules     ordered list of (token kind, rule shape)   -- order = tie-break of the ANTLR lexer
  unicode_letter  code point ranges of fragment UnicodeLetter (union of its UnicodeClass_* fragments)
  unicode_digit   code point ranges of fragment UnicodeDigit
  expr_alts       ordered alternatives of parser rule `expression` (order = ANTLR precedence)
  atom_alts       ordered alternatives of parser rule `atom`

The model (coq/model/ExLexer.v, ExParser.v) interprets these tables, so reordering alternatives,
changing an operator token or a lexer rule changes the model.  Every rule must have one of the shapes
the model can interpret; anything else makes this translator FAIL (exit 2): the tie is then broken and
bin/check reports it.  The file is rewritten only when its content changes."""
import sys, os, re, argparse


def die(msg):
    print("g4ex3: " + msg, file=sys.stderr)
    sys.exit(2)


def strip_comments(src):
    out = []
    i, n = 0, len(src)
    while i < n:
        c = src[i]
        if c == "'":                       # literal
            j = i + 1
            while j < n and src[j] != "'":
                j += 2 if src[j] == "\\" else 1
            out.append(src[i:j + 1])
            i = j + 1
        elif c == "[" :                     # char set (may contain quotes / slashes)
            j = i + 1
            while j < n and src[j] != "]":
                j += 2 if src[j] == "\\" else 1
            out.append(src[i:j + 1])
            i = j + 1
        elif src.startswith("//", i):
            j = src.find("\n", i)
            i = n if j < 0 else j
        elif src.startswith("/*", i):
            j = src.find("*/", i)
            i = n if j < 0 else j + 2
        else:
            out.append(c)
            i += 1
    return "".join(out)


def split_rules(src):
    """-> ordered list of (name, body, is_fragment)"""
    rules = []
    i, n = 0, len(src)
    cur = []
    while i < n:
        c = src[i]
        if c == "'":
            j = i + 1
            while j < n and src[j] != "'":
                j += 2 if src[j] == "\\" else 1
            cur.append(src[i:j + 1]); i = j + 1
        elif c == "[":
            j = i + 1
            while j < n and src[j] != "]":
                j += 2 if src[j] == "\\" else 1
            cur.append(src[i:j + 1]); i = j + 1
        elif c == ";":
            rules.append("".join(cur).strip()); cur = []; i += 1
        else:
            cur.append(c); i += 1
    if "".join(cur).strip():
        die("trailing text after the last rule: %r" % "".join(cur).strip()[:60])
    out = []
    for r in rules:
        if re.match(r"^(lexer\s+)?grammar\s+\w+$", r) or re.match(r"^import\s+\w+$", r):
            continue
        m = re.match(r"^(fragment\s+)?([A-Za-z_][A-Za-z_0-9]*)\s*:(.*)$", r, re.S)
        if not m:
            die("cannot parse rule: %r" % r[:80])
        out.append((m.group(2), " ".join(m.group(3).split()), bool(m.group(1))))
    return out


def unescape_lit(s):
    """content of a '...' literal -> list of code points"""
    out = []
    i = 0
    while i < len(s):
        if s[i] == "\\":
            e = s[i + 1]
            if e == "u":
                out.append(int(s[i + 2:i + 6], 16)); i += 6; continue
            m = {"n": 10, "r": 13, "t": 9, "\\": 92, "'": 39, '"': 34}
            if e not in m:
                die("unknown escape in literal %r" % s)
            out.append(m[e]); i += 2
        else:
            out.append(ord(s[i])); i += 1
    return out


def coq_text(cps):
    return "[" + ";".join(str(c) for c in cps) + "]"


KINDS = ["COMMA", "LPAREN", "RPAREN", "LBRACK", "RBRACK", "DOT", "ARROW", "PLUS", "MINUS", "TIMES", "DIVIDE",
         "EXPONENT", "EQ", "NEQ", "LTE", "LT", "GTE", "GT", "AMPERSAND", "TEXT", "INTEGER", "DECIMAL", "TRUE",
         "FALSE", "NULL", "NAME", "WS", "ERROR"]


def lexer_shape(name, body):
    m = re.fullmatch(r"'((?:[^'\\]|\\.)+)'", body)
    if m:
        return "SLit %s" % coq_text(unescape_lit(m.group(1)))
    if re.fullmatch(r"(\[[A-Za-z][A-Za-z]\])+", body):
        word = []
        for a, b in re.findall(r"\[([A-Za-z])([A-Za-z])\]", body):
            if a.lower() != b.lower() or a == b:
                die("lexer rule %s: %s is not an upper/lower pair" % (name, a + b))
            word.append(ord(a.lower()))
        return "SCi %s" % coq_text(word)
    if body == """'"' (~["] | '\\\\"')* '"'""":
        return "SText"
    if body == "[0-9]+":
        return "SDigits"
    if body == "[0-9]+ '.' [0-9]+":
        return "SDecimal"
    if body == "(UnicodeLetter | '_')+ (UnicodeLetter | UnicodeDigit | '_')*":
        return "SName"
    m = re.fullmatch(r"\[((?:[^\]\\]|\\.)+)\]\+ -> skip", body)
    if m:
        cps = []
        s = m.group(1)
        i = 0
        while i < len(s):
            if s[i] == "\\":
                mp = {"t": 9, "n": 10, "r": 13, "\\": 92, "]": 93}
                if s[i + 1] not in mp:
                    die("lexer rule %s: unknown escape in set" % name)
                cps.append(mp[s[i + 1]]); i += 2
            elif s[i] == "-" and 0 < i < len(s) - 1:
                die("lexer rule %s: ranges in a skipped set are not supported" % name)
            else:
                cps.append(ord(s[i])); i += 1
        return "SWs %s" % coq_text(cps)
    if body == ".":
        return "SAny"
    die("lexer rule %s has a shape the model cannot interpret: %s" % (name, body))


def ranges_of(fragments, name, seen=()):
    if name in seen:
        die("fragment cycle at " + name)
    if name not in fragments:
        die("fragment %s not found" % name)
    out = []
    for alt in fragments[name].split("|"):
        alt = alt.strip()
        m = re.fullmatch(r"'\\u([0-9a-fA-F]{4})'\s*\.\.\s*'\\u([0-9a-fA-F]{4})'", alt)
        if m:
            lo, hi = int(m.group(1), 16), int(m.group(2), 16)
            if lo > hi:
                die("fragment %s: empty range %s" % (name, alt))
            out.append((lo, hi)); continue
        m = re.fullmatch(r"'\\u([0-9a-fA-F]{4})'", alt)
        if m:
            out.append((int(m.group(1), 16),) * 2); continue
        if re.fullmatch(r"[A-Za-z_][A-Za-z_0-9]*", alt):
            out += ranges_of(fragments, alt, seen + (name,)); continue
        die("fragment %s: alternative %r is not a range, a character or a fragment" % (name, alt))
    return out


def merge(rs):
    rs = sorted(rs)
    out = []
    for lo, hi in rs:
        if out and lo <= out[-1][1] + 1:
            out[-1] = (out[-1][0], max(out[-1][1], hi))
        else:
            out.append((lo, hi))
    return out


def split_alts(body):
    """top-level '|' split (parentheses respected) -> list of (text, label)"""
    alts, depth, cur = [], 0, []
    for ch in body:
        if ch == "(":
            depth += 1
        elif ch == ")":
            depth -= 1
        if ch == "|" and depth == 0:
            alts.append("".join(cur)); cur = []
        else:
            cur.append(ch)
    alts.append("".join(cur))
    out = []
    for a in alts:
        m = re.fullmatch(r"\s*(.*?)\s*(?:#\s*(\w+))?\s*", a, re.S)
        out.append((" ".join(m.group(1).split()), m.group(2) or ""))
    return out


def tokset(s):
    """'(A | B)' or 'op = (A | B)' or 'A' -> [A, B]"""
    s = re.sub(r"^\w+\s*=\s*", "", s.strip())
    s = s.strip()
    if s.startswith("(") and s.endswith(")"):
        s = s[1:-1]
    ks = [k.strip() for k in s.split("|")]
    for k in ks:
        if k not in KINDS:
            die("unknown token %r in %r" % (k, s))
    return ks


BIN_LABELS = {"exponent": "LExponent", "multiplicationOrDivision": "LMulDiv", "additionOrSubtraction": "LAddSub",
              "comparison": "LComparison", "equality": "LEquality", "concatenation": "LConcat"}
LIT_LABELS = {"textLiteral": "LText", "numberLiteral": "LNumber", "true": "LTrue", "false": "LFalse", "null": "LNull"}


def expr_alt(text, label):
    if text == "atom":
        if label != "atomReference":
            die("expression alternative `atom` must be labelled atomReference")
        return "AAtom"
    m = re.fullmatch(r"(\w+) expression", text)
    if m:
        if label != "negation" or m.group(1) not in KINDS:
            die("unsupported prefix alternative %r # %s" % (text, label))
        return "APrefix %s" % m.group(1)
    m = re.fullmatch(r"expression (.+) expression", text)
    if m:
        if label not in BIN_LABELS:
            die("binary alternative with unknown label %r (visitor.go has no method for it)" % label)
        return "ABinary %s [%s]" % (BIN_LABELS[label], "; ".join(tokset(m.group(1))))
    if text == "LPAREN nameList RPAREN ARROW expression":
        if label != "anonFunction":
            die("anonFunction alternative has label %r" % label)
        return "AAnon"
    if re.fullmatch(r"\(?[A-Z| ]+\)?", text):
        if label not in LIT_LABELS:
            die("literal alternative with unknown label %r" % label)
        return "ALit %s [%s]" % (LIT_LABELS[label], "; ".join(tokset(text)))
    die("expression alternative has a shape the model cannot interpret: %r # %s" % (text, label))


def atom_alt(text, label):
    table = {
        ("atom LPAREN parameters? RPAREN", "functionCall"): "PCall",
        ("atom LBRACK expression RBRACK", "arrayLookup"): "PIndex",
        ("LPAREN expression RPAREN", "parentheses"): "PParen",
        ("NAME", "contextReference"): "PName",
    }
    if (text, label) in table:
        return table[(text, label)]
    m = re.fullmatch(r"atom DOT (\(.*\)|\w+)", text)
    if m and label == "dotLookup":
        return "PDot [%s]" % "; ".join(tokset(m.group(1)))
    die("atom alternative has a shape the model cannot interpret: %r # %s" % (text, label))


def main():
    ap = argparse.ArgumentParser()
    ap.add_argument("--repo", default="/repo")
    ap.add_argument("--out", default="coq/gen")
    a = ap.parse_args()
    g4 = os.path.join(a.repo, "antlr", "Excellent3.g4")
    lu = os.path.join(a.repo, "antlr", "LexUnicode.g4")
    for p in (g4, lu):
        if not os.path.exists(p):
            die("missing " + p)
    rules = split_rules(strip_comments(open(g4, encoding="utf-8").read()))
    if "import LexUnicode" not in open(g4, encoding="utf-8").read():
        die("Excellent3.g4 no longer imports LexUnicode")
    frs = {n: b for n, b, f in split_rules(strip_comments(open(lu, encoding="utf-8").read())) if f}
    for n, b, f in rules:
        if f:
            frs[n] = b

    lex = [(n, b) for n, b, f in rules if n[0].isupper() and not f]
    par = {n: b for n, b, f in rules if n[0].islower()}
    names = [n for n, _ in lex]
    if names != KINDS:
        die("lexer rules are %s, the model's token kinds are %s" % (names, KINDS))
    shapes = [(n, lexer_shape(n, b)) for n, b in lex]

    letters = merge(ranges_of(frs, "UnicodeLetter"))
    digits = merge(ranges_of(frs, "UnicodeDigit"))

    if set(par) != {"parse", "expression", "atom", "parameters", "nameList"}:
        die("parser rules are %s" % sorted(par))
    if par["parse"] != "expression EOF":
        die("rule parse is %r" % par["parse"])
    if split_alts(par["parameters"]) != [("expression (COMMA expression)*", "functionParameters")]:
        die("rule parameters is %r" % par["parameters"])
    if par["nameList"] != "NAME (COMMA NAME)*":
        die("rule nameList is %r" % par["nameList"])
    ealts = [expr_alt(t, l) for t, l in split_alts(par["expression"])]
    aalts = [atom_alt(t, l) for t, l in split_alts(par["atom"])]
    if ealts.count("AAtom") != 1 or ealts.count("AAnon") != 1:
        die("expression must have exactly one atom and one anonFunction alternative")
    for k in ("PCall", "PIndex", "PParen", "PName"):
        if aalts.count(k) != 1:
            die("atom must have exactly one %s alternative" % k)

    def rng(rs):
        return "[" + "; ".join("(%d,%d)" % r for r in rs) + "]"

    out = []
    out.append("(* GENERATED by translators/g4ex3.py from antlr/Excellent3.g4 and antlr/LexUnicode.g4 - do not edit. *)")
    out.append("From Coq Require Import List NArith.")
    out.append("From Verif Require Import model.ExSyntax.")
    out.append("Import ListNotations.")
    out.append("Open Scope N_scope.")
    out.append("")
    out.append("Definition lexer_rules : list (kind * shape) := [")
    out.append(";\n".join("  (%s, %s)" % (n, s) for n, s in shapes))
    out.append("].")
    out.append("")
    out.append("Definition unicode_letter : list (N * N) := %s." % rng(letters))
    out.append("")
    out.append("Definition unicode_digit : list (N * N) := %s." % rng(digits))
    out.append("")
    out.append("Definition expr_alts : list ealt := [")
    out.append(";\n".join("  " + e for e in ealts))
    out.append("].")
    out.append("")
    out.append("Definition atom_alts : list aalt := [")
    out.append(";\n".join("  " + e for e in aalts))
    out.append("].")
    content = "\n".join(out) + "\n"

    os.makedirs(a.out, exist_ok=True)
    path = os.path.join(a.out, "GrammarE3.v")
    try:
        if open(path).read() == content:
            return
    except FileNotFoundError:
        pass
    with open(path + ".tmp", "w") as f:
        f.write(content)
    os.replace(path + ".tmp", path)


if __name__ == "__main__":
    main()
