module verifharness

go 1.23

require (
	github.com/Masterminds/semver v1.5.0
	github.com/antlr4-go/antlr/v4 v4.13.1
	github.com/nyaruka/gocommon v1.59.3
	github.com/nyaruka/goflow v0.0.0
	github.com/shopspring/decimal v1.4.0
)

require (
	github.com/Shopify/gomail v0.0.0-20220729171026-0784ece65e69 // indirect
	github.com/blevesearch/segment v0.9.1 // indirect
	github.com/buger/jsonparser v1.1.1 // indirect
	github.com/davecgh/go-spew v1.1.1 // indirect
	github.com/gabriel-vasile/mimetype v1.4.7 // indirect
	github.com/go-chi/chi/v5 v5.1.0 // indirect
	github.com/go-playground/locales v0.14.1 // indirect
	github.com/go-playground/universal-translator v0.18.1 // indirect
	github.com/go-playground/validator/v10 v10.23.0 // indirect
	github.com/google/uuid v1.6.0 // indirect
	github.com/gorilla/websocket v1.5.3 // indirect
	github.com/leodido/go-urn v1.4.0 // indirect
	github.com/nyaruka/null/v2 v2.0.3 // indirect
	github.com/nyaruka/phonenumbers v1.4.3 // indirect
	github.com/pmezard/go-difflib v1.0.0 // indirect
	github.com/sergi/go-diff v1.3.1 // indirect
	github.com/stretchr/testify v1.10.0 // indirect
	golang.org/x/crypto v0.29.0 // indirect
	golang.org/x/exp v0.0.0-20241108190413-2d47ceb2692f // indirect
	golang.org/x/net v0.31.0 // indirect
	golang.org/x/sys v0.27.0 // indirect
	golang.org/x/text v0.20.0 // indirect
	google.golang.org/protobuf v1.35.2 // indirect
	gopkg.in/yaml.v3 v3.0.1 // indirect
)

replace github.com/nyaruka/goflow => /repo
