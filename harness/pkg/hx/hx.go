// Package hx holds what every correspondence driver shares: the PRNG every random choice derives
// from, the emitters for Coq case files, and the result file protocol understood by bin/check.
package hx

import (
	"encoding/json"
	"flag"
	"fmt"
	"os"
	"path/filepath"
	"sort"
	"strings"
)

// ---------------------------------------------------------------------------------------------
// PRNG: SplitMix64. One state per run, derived from VERIF_SEED; sub-streams by Fork(label).

type Rand struct{ s uint64 }

func NewRand(seed uint64) *Rand { return &Rand{s: seed*0x9E3779B97F4A7C15 + 0x1234567} }

func (r *Rand) U64() uint64 {
	r.s += 0x9E3779B97F4A7C15
	z := r.s
	z = (z ^ (z >> 30)) * 0xBF58476D1CE4E5B9
	z = (z ^ (z >> 27)) * 0x94D049BB133111EB
	return z ^ (z >> 31)
}

// Intn returns a value in [0,n); n<=0 gives 0.
func (r *Rand) Intn(n int) int {
	if n <= 0 {
		return 0
	}
	return int(r.U64() % uint64(n))
}

// Range returns a value in [lo,hi].
func (r *Rand) Range(lo, hi int) int { return lo + r.Intn(hi-lo+1) }

// Chance is true with probability num/den.
func (r *Rand) Chance(num, den int) bool { return r.Intn(den) < num }

func (r *Rand) Bool() bool { return r.U64()&1 == 1 }

// Fork derives an independent stream (so that adding choices in one generator does not shift others).
func (r *Rand) Fork(label string) *Rand {
	h := uint64(1469598103934665603)
	for i := 0; i < len(label); i++ {
		h = (h ^ uint64(label[i])) * 1099511628211
	}
	return &Rand{s: r.U64() ^ h}
}

func Pick[T any](r *Rand, xs []T) T { return xs[r.Intn(len(xs))] }

// ---------------------------------------------------------------------------------------------
// Command line shared by all drivers.

type Opts struct {
	Prop    string // property id the run is for (a driver may serve several)
	Seed    uint64
	Tier    string // quick | thorough | search
	Out     string // output directory (cases_*.v, result.json)
	Replay  string // replay file, if any
	N       int    // override for the number of generated cases (0 = tier default)
	Verbose bool
}

func ParseOpts() *Opts {
	o := &Opts{}
	flag.StringVar(&o.Prop, "prop", "", "property id")
	flag.Uint64Var(&o.Seed, "seed", 1, "PRNG seed")
	flag.StringVar(&o.Tier, "tier", "quick", "quick|thorough|search")
	flag.StringVar(&o.Out, "out", "", "output directory")
	flag.StringVar(&o.Replay, "replay", "", "replay file")
	flag.IntVar(&o.N, "n", 0, "number of generated cases (0 = tier default)")
	flag.BoolVar(&o.Verbose, "v", false, "verbose")
	flag.Parse()
	if o.Out == "" {
		fmt.Fprintln(os.Stderr, "missing -out")
		os.Exit(2)
	}
	if err := os.MkdirAll(o.Out, 0o755); err != nil {
		panic(err)
	}
	return o
}

// Count picks the case count for the tier.
func (o *Opts) Count(quick, thorough int) int {
	if o.N > 0 {
		return o.N
	}
	switch o.Tier {
	case "thorough":
		return thorough
	case "search":
		return quick * 10
	}
	return quick
}

// ---------------------------------------------------------------------------------------------
// Result protocol.

// Failure is one input on which the direct oracle (the property sentence evaluated on the real code)
// failed.  Class identifies the kind of input / call site so that KNOWN_FINDINGS.txt can list it.
type Failure struct {
	Class  string `json:"class"`
	Input  any    `json:"input"`
	Detail string `json:"detail"`
}

// Case describes one correspondence case for replay files: index i of cases file File.
type Case struct {
	File  string `json:"file"`
	Index int    `json:"index"`
	Input any    `json:"input"`
	Impl  any    `json:"impl"`
}

type Result struct {
	Property           string         `json:"property"`
	Seed               uint64         `json:"seed"`
	Tier               string         `json:"tier"`
	Evaluations        int            `json:"evaluations"`
	DistinctNontrivial int            `json:"distinct_nontrivial"`
	Rule               string         `json:"rule"`
	Samples            []any          `json:"samples"`
	Distribution       map[string]int `json:"distribution"`
	OracleChecks       int            `json:"oracle_checks"`
	Failures           []Failure      `json:"failures"`
	CasesFiles         []string       `json:"cases_files"`
	Cases              []Case         `json:"cases,omitempty"`
	Exhaustive         bool           `json:"exhaustive"`
	Notes              []string       `json:"notes,omitempty"`

	distinct map[string]bool
	maxFail  int
}

func NewResult(o *Opts, rule string) *Result {
	return &Result{Property: o.Prop, Seed: o.Seed, Tier: o.Tier, Rule: rule, Distribution: map[string]int{},
		distinct: map[string]bool{}, maxFail: 50, Samples: []any{}, Failures: []Failure{}, CasesFiles: []string{}}
}

// Eval records one evaluation; key is the canonical input (for distinctness), nontrivial by the rule.
func (r *Result) Eval(key string, nontrivial bool) {
	r.Evaluations++
	if nontrivial && !r.distinct[key] {
		r.distinct[key] = true
		r.DistinctNontrivial++
	}
}

func (r *Result) Dist(k string) { r.Distribution[k]++ }

func (r *Result) Sample(x any) {
	if len(r.Samples) < 5 {
		r.Samples = append(r.Samples, x)
	}
}

// Fail records a direct-oracle failure (kept: the first few per class).
func (r *Result) Fail(class string, input any, detail string) {
	n := 0
	for _, f := range r.Failures {
		if f.Class == class {
			n++
		}
	}
	r.Distribution["oracle_fail:"+class]++
	// the FIRST failure of every class is always kept, however many classes there are (a class that is only counted
	// could never be reported as a violation); the second and third of a class only while the list is short
	if n >= 3 || (n >= 1 && len(r.Failures) >= r.maxFail) || len(r.Failures) >= 40*r.maxFail {
		return
	}
	r.Failures = append(r.Failures, Failure{Class: class, Input: input, Detail: detail})
}

func (r *Result) Write(o *Opts) {
	b, err := json.MarshalIndent(r, "", " ")
	if err != nil {
		panic(err)
	}
	if err := os.WriteFile(filepath.Join(o.Out, "result.json"), b, 0o644); err != nil {
		panic(err)
	}
}

// ---------------------------------------------------------------------------------------------
// Coq emitters.

// CoqFile accumulates a cases file.  Convention: the file defines `cases : list <case type>` and ends
// with `Definition M := Eval vm_compute in <mismatches> cases. Print M.`; bin/check expects `M = []`.
type CoqFile struct {
	Name string
	sb   strings.Builder
	N    int
}

func NewCoqFile(name string, header string) *CoqFile {
	f := &CoqFile{Name: name}
	f.sb.WriteString(header)
	f.sb.WriteString("\n")
	return f
}

func (f *CoqFile) Add(s string) { f.sb.WriteString(s); f.sb.WriteString("\n") }

func (f *CoqFile) Save(o *Opts, r *Result) {
	if err := os.WriteFile(filepath.Join(o.Out, f.Name), []byte(f.sb.String()), 0o644); err != nil {
		panic(err)
	}
	r.CasesFiles = append(r.CasesFiles, f.Name)
}

// Str renders a Go string as a Coq `list N` of code points: [104; 105]%N
func Str(s string) string {
	var sb strings.Builder
	sb.WriteString("[")
	first := true
	for _, c := range s {
		if !first {
			sb.WriteString(";")
		}
		first = false
		fmt.Fprintf(&sb, "%d", c)
	}
	sb.WriteString("]%N")
	return sb.String()
}

func List[T any](xs []T, f func(T) string) string {
	parts := make([]string, len(xs))
	for i, x := range xs {
		parts[i] = f(x)
	}
	return "[" + strings.Join(parts, "; ") + "]"
}

func Bool(b bool) string {
	if b {
		return "true"
	}
	return "false"
}

func Opt[T any](x *T, f func(T) string) string {
	if x == nil {
		return "None"
	}
	return "(Some " + f(*x) + ")"
}

func N(i int) string { return fmt.Sprintf("%d%%N", i) }

func Z(i int64) string {
	if i < 0 {
		return fmt.Sprintf("(%d)%%Z", i)
	}
	return fmt.Sprintf("%d%%Z", i)
}

func SortedKeys[V any](m map[string]V) []string {
	ks := make([]string, 0, len(m))
	for k := range m {
		ks = append(ks, k)
	}
	sort.Strings(ks)
	return ks
}
