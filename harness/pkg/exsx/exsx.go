// Package exsx holds what the drivers of C11 and C12 (Excellent syntax stack) share: sharded case
// files, rune-table oracle fills for the Go library functions the models are parametric in
// (unicode.IsLetter/IsNumber/ToLower/IsPrint), string generators.
package exsx

import (
	"fmt"
	"sort"
	"strings"
	"unicode"

	"verifharness/pkg/hx"
)

// Sharder writes cases_<prefix>_<nnn>.v files of at most Shard cases each.
type Sharder struct {
	O      *hx.Opts
	Res    *hx.Result
	Prefix string
	Header string // up to and including "Definition cases : list X := ["
	Footer string // from "]." on
	Shard  int
	file   *hx.CoqFile
	nfile  int
}

func (s *Sharder) Add(coq string, input, impl any) {
	if s.file == nil {
		s.file = hx.NewCoqFile(fmt.Sprintf("cases_%s_%03d.v", s.Prefix, s.nfile), s.Header)
		s.nfile++
	}
	sep := ";"
	if s.file.N == 0 {
		sep = " "
	}
	s.file.Add(sep + " " + coq)
	s.Res.Cases = append(s.Res.Cases, hx.Case{File: s.file.Name, Index: s.file.N, Input: input, Impl: impl})
	s.file.N++
	if s.file.N >= s.Shard {
		s.Flush()
	}
}

func (s *Sharder) Flush() {
	if s.file != nil {
		s.file.Add(s.Footer)
		s.file.Save(s.O, s.Res)
		s.file = nil
	}
}

// RuneSet renders the distinct runes of the strings that satisfy pred, as a Coq list N.
func RuneSet(pred func(rune) bool, strs ...string) string {
	seen := map[rune]bool{}
	var rs []int
	for _, s := range strs {
		for _, c := range s {
			if !seen[c] && pred(c) {
				seen[c] = true
				rs = append(rs, int(c))
			}
		}
	}
	sort.Ints(rs)
	parts := make([]string, len(rs))
	for i, c := range rs {
		parts[i] = fmt.Sprintf("%d", c)
	}
	return "[" + strings.Join(parts, ";") + "]%N"
}

// RuneMap renders (c, f c) for the distinct runes with f c != c, as a Coq list (N*N).
func RuneMap(f func(rune) rune, strs ...string) string {
	seen := map[rune]bool{}
	var rs []int
	for _, s := range strs {
		for _, c := range s {
			if !seen[c] && f(c) != c {
				seen[c] = true
				rs = append(rs, int(c))
			}
		}
	}
	sort.Ints(rs)
	parts := make([]string, len(rs))
	for i, c := range rs {
		parts[i] = fmt.Sprintf("(%d,%d)", c, f(rune(c)))
	}
	return "[" + strings.Join(parts, ";") + "]%N"
}

// IsLN is the library part of excellent.isNameChar.
func IsLN(c rune) bool { return unicode.IsLetter(c) || unicode.IsNumber(c) }

func OptTexts(xs []string, isNil bool) string {
	if isNil {
		return "None"
	}
	return "(Some " + hx.List(xs, hx.Str) + ")"
}

// Special reports whether s contains one of " \ ( ) @ adjacent to another of them (non-triviality rule
// of C12).
func Special(s string) bool {
	rs := []rune(s)
	sp := func(c rune) bool { return strings.ContainsRune(`"\()@`, c) }
	for i := 0; i+1 < len(rs); i++ {
		if sp(rs[i]) && sp(rs[i+1]) {
			return true
		}
	}
	return false
}

// TableFacts checks, over every code point, the facts of Go's unicode tables that the Coq theorems take as hypotheses
// on their table arguments (the per-case tables only list the runes of the case, so they cannot show them): ToLower is
// idempotent and fixes '_', a newline is not printable, NUL, '.' and '@' are neither letter nor number, and ToLower
// never yields a quote or a parenthesis.  Returns what does not hold.
func TableFacts() []string {
	var bad []string
	for c := rune(0); c <= unicode.MaxRune; c++ {
		l := unicode.ToLower(c)
		if unicode.ToLower(l) != l {
			bad = append(bad, fmt.Sprintf("ToLower is not idempotent on U+%04X", c))
		}
		if l != c && (l == '"' || l == '(' || l == ')' || l == 0) {
			bad = append(bad, fmt.Sprintf("ToLower(U+%04X) is U+%04X", c, l))
		}
	}
	if unicode.ToLower('_') != '_' {
		bad = append(bad, "ToLower('_') is not '_'")
	}
	if unicode.IsPrint('\n') {
		bad = append(bad, "IsPrint('\\n')")
	}
	for _, c := range []rune{0, '.', '@'} {
		if IsLN(c) {
			bad = append(bad, fmt.Sprintf("U+%04X is a letter or number", c))
		}
	}
	return bad
}
