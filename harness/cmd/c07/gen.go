package main

// Scenario generator for C07: small flows around ONE node under test (switch router / random router / no
// router), the contact, the environment, the trigger and the resume.  Every choice derives from hx.Rand.

import (
	"fmt"
	"math"
	"sort"
	"strings"

	"github.com/nyaruka/goflow/flows/routers/cases"

	"verifharness/pkg/hx"
)

// languages: index -> code; 0 is the nil language, 1 the flows' base language
var langCodes = []string{"", "eng", "fra", "spa", "kin"}

const baseLang = 1

// Loc is the flow localization: language code -> item uuid -> property -> stored array
type Loc map[string]map[string]map[string][]string

type CatDef struct {
	UUID string `json:"uuid"`
	Name string `json:"name"`
	Exit int    `json:"exit"` // index into Scenario.Exits
}

type CaseDef struct {
	UUID string   `json:"uuid"`
	Type string   `json:"type"`
	Args []string `json:"arguments"`
	Cat  int      `json:"category"` // index into Scenario.Cats
}

type ExitDef struct {
	UUID string `json:"uuid"`
	Dest int    `json:"dest"` // -1: no destination; k: destination node D_k; -2: the node under test itself (loop)
}

type PreRes struct {
	Name     string `json:"name"`
	Value    string `json:"value"`
	Category string `json:"category"`
}

type Scenario struct {
	ID     int    `json:"id"`
	Stream string `json:"stream"` // corpus | switch | ext | random | none
	Kind   string `json:"kind"`   // switch | random | none

	Trigger     string `json:"trigger"` // manual | msg
	TriggerText string `json:"trigger_text"`
	Wait        bool   `json:"wait"`
	TimeoutCat  int    `json:"timeout_category"` // -1: wait without timeout
	Resume      string `json:"resume"`           // "" | msg | timeout
	ResumeText  string `json:"resume_text"`
	// the timeout exit leads back to the node under test, the wait times out a second time, and the SECOND routing is
	// the one observed (the run then has two wait_timed_out events, created at different times)
	SecondTimeout bool `json:"second_timeout"`

	Operand    string    `json:"operand"`
	Cases      []CaseDef `json:"cases"`
	Cats       []CatDef  `json:"categories"`
	Default    int       `json:"default_category"` // -1: none
	ResultName string    `json:"result_name"`
	Exits      []ExitDef `json:"exits"`
	NumDest    int       `json:"num_dest"`

	Pre         bool     `json:"pre_node"`
	PreExits    int      `json:"pre_exits"`
	PreToRouter bool     `json:"pre_first_exit_to_router"`
	PreResults  []PreRes `json:"pre_results"`

	// multi-run scenarios: the pre node sends a localized message and then enters a child flow (not terminal); the child
	// changes the contact and completes in the same sprint; the parent goes on to the router under test, which has to
	// see the contact as it is THEN (language for the localized arguments and category names, name/fields for operands)
	Child       bool   `json:"child_flow"`
	ChildLang   int    `json:"child_lang"` // -1: no set_contact_language; otherwise index into langCodes (0 clears it)
	ChildName   string `json:"child_name"` // "": no set_contact_name
	ChildAge    string `json:"child_age"`  // "": no set_contact_field age
	ChildGender string `json:"child_gender"`

	Loc Loc `json:"localization"`

	ContactLang int    `json:"contact_lang"`
	Allowed     []int  `json:"allowed"`
	ContactName string `json:"contact_name"`
	Age         string `json:"age"`
	Gender      string `json:"gender"`
	InGroups    []int  `json:"in_groups"`
	Country     string `json:"country"`
	DateFormat  string `json:"date_format"`
	MaxResult   int    `json:"max_result_chars"`
	// engine option MaxTemplateChars (cuts the INPUT a router saves); 0 stands for the default 10000 unless
	// max_template_zero is set; negative values are what a host may pass (treated as zero)
	MaxTemplate     int  `json:"max_template_chars"`
	MaxTemplateZero bool `json:"max_template_zero,omitempty"`
	// the trigger / resume text is the given text repeated this many times (0, 1: as given)
	InputRepeat int `json:"input_repeat,omitempty"`
	// the environment's input collation as the host supplies it: "" = not given; "<empty>" = given as the empty string;
	// the three defined collations; anything else is a value goflow does not define
	Collation string `json:"input_collation"`

	RandBits uint64 `json:"rand_bits"` // the 53 bits the random source hands to Float64
}

// the wait of the node under test is really waited on (a msg trigger skips the wait of a first node)
func (sc *Scenario) needsResume() bool {
	return sc.Kind != "none" && sc.Wait && !(sc.Trigger == "msg" && !sc.Pre)
}

// the category a UUID denotes: the first one carrying it
func (sc *Scenario) firstCat(u string) *CatDef {
	for i := range sc.Cats {
		if sc.Cats[i].UUID == u {
			return &sc.Cats[i]
		}
	}
	return nil
}

// the contact's language when the router under test routes
func (sc *Scenario) effLang() int {
	if sc.Child && sc.ChildLang >= 0 {
		return sc.ChildLang
	}
	return sc.ContactLang
}

// the collation value handed to goflow, and whether goflow defines it
func (sc *Scenario) collation() (value string, given bool, defined bool) {
	switch sc.Collation {
	case "":
		return "", false, true
	case "<empty>":
		return "", true, false
	case "default", "confusables", "arabic_variants":
		return sc.Collation, true, true
	}
	return sc.Collation, true, false
}

func (sc *Scenario) maxTemplate() int {
	if sc.MaxTemplate == 0 && !sc.MaxTemplateZero {
		return 10000
	}
	return sc.MaxTemplate
}

func (sc *Scenario) inputText(s string) string {
	if sc.InputRepeat > 1 {
		return strings.Repeat(s, sc.InputRepeat)
	}
	return s
}

// sometimes a small MaxTemplateChars, so that the cut of the saved input (with and without room for the ellipsis) is
// exercised by ordinary operands; not when a set_run_result action saves under the router's own key (its value is an
// evaluated template and would be cut as well)
func genLimits(r *hx.Rand, sc *Scenario) {
	// (nor when a child flow changes the contact: the language / name / field values its actions set are evaluated
	// templates too, and the scenario says what they are)
	if sc.ResultName == "" || sc.Child || !r.Chance(1, 4) {
		return
	}
	key := snakify(sc.ResultName)
	for _, p := range sc.PreResults {
		if snakify(p.Name) == key {
			return
		}
	}
	sc.MaxTemplate = hx.Pick(r, []int{12, 9, 4, 3, 2, 0, -1})
	sc.MaxTemplateZero = sc.MaxTemplate == 0
}

func (sc *Scenario) destUUID(d int) string {
	switch {
	case d == -2:
		return nodeR()
	case d >= 0:
		return nodeD(d)
	}
	return ""
}

func mkUUID(kind, i int) string {
	return fmt.Sprintf("00000c07-%04x-4000-8000-%012x", kind, i)
}

const (
	kFlow = 1 + iota
	kNode
	kExit
	kCat
	kCase
	kAction
	kGroup
	kField
	kContact
)

var groupNames = []string{"Testers", "Males", "Customers"}

func flowUUID() string      { return mkUUID(kFlow, 1) }
func childFlowUUID() string { return mkUUID(kFlow, 3) }
func probeFlowUUID() string { return mkUUID(kFlow, 2) }
func nodeP() string         { return mkUUID(kNode, 1) }
func nodeR() string         { return mkUUID(kNode, 2) }
func nodeD(k int) string    { return mkUUID(kNode, 16+k) }
func exitP(j int) string    { return mkUUID(kExit, 256+j) }
func exitD(k int) string    { return mkUUID(kExit, 512+k) }
func groupUUID(i int) string { return mkUUID(kGroup, i) }

// ---------------------------------------------------------------------------------------------------------
// pools

var allTests []string // sorted names of cases.XTESTS at start-up (includes the driver's extension tests)

func initTests() {
	allTests = allTests[:0]
	for name := range cases.XTESTS {
		allTests = append(allTests, name)
	}
	sort.Strings(allTests)
}

func testID(name string) int {
	i := sort.SearchStrings(allTests, name)
	if i < len(allTests) && allTests[i] == name {
		return i
	}
	return -1
}

var words = []string{"red", "blue", "green", "yellow", "Red", "RED", "rouge", "azul", "dark", "light", "the", "quick", "fox",
	"yes", "no", "1", "2", "5", "10", "23", "réd", "ｒｅｄ", "🙂"}

var textInputs = []string{"red", "blue", "I like red", "dark red and light blue", "RED", "Red.", "the quick fox", "yes", "no thanks",
	"", "   ", "yellow green", "rouge", "azul y rouge", "🙂 red", "red,blue", "réd", "ｒｅｄ"}
var numberInputs = []string{"5", "10", "23", "I am 23 years old", "3.5", "-7", "١٢", "1,000", "0", "between 5 and 10", "1e3", "٢ or 9", "007", "1.0"}
var dateInputs = []string{"1/2/2020", "2020-01-15", "today is 15.1.2020", "31-12-2019", "January 5", "01-01-2020 10:30", "at 10:30", "noon", "2020-02-30", "12/25/19"}
var phoneInputs = []string{"+12065551212", "call me on 206 555 1212", "my number is 0788 383 383", "12345", "+250788383383", "none of your business"}
var emailInputs = []string{"bob@nyaruka.com", "mail me at x.y@z.co please", "bob@", "@nyaruka"}
var locationInputs = []string{"Kigali", "I live in Gasabo", "Gisozi", "Ndera in Gasabo", "Boston", "kigari", "Nyarugenge", "Rwanda"}

const intentResult = `@(parse_json("{\"name\":\"intent\",\"value\":\"book_flight\",\"category\":\"Success\",\"node_uuid\":\"00000c07-0002-4000-8000-000000000002\",\"created_on\":\"2020-01-01T00:00:00Z\",\"extra\":{\"intents\":[{\"name\":\"book_flight\",\"confidence\":0.9},{\"name\":\"book_hotel\",\"confidence\":0.6}],\"entities\":{\"city\":[{\"value\":\"Quito\",\"confidence\":0.8}],\"when\":[]}}}"))`

// operand templates that do not depend on the input
var contextOperands = []string{"@contact.name", "@fields.age", "@contact.fields.gender", "@contact.groups", "@contact",
	"@results.pre", "@results.pre.category", "@results.pre.value", "@(1/0)", "@contact.foo", "hello @contact.foo", "red",
	"@(array(1, 2, 3))", "@(parse_json(\"null\"))", "@contact.language", "@urns.tel", "@(datetime(\"2020-01-15\"))",
	"@(contact.fields.age + 1)", "@results.pre.categories", intentResult, "@input", "@(\"a\" & )", "@contact.created_on",
	"@(format_number(fields.age))", "@results.res", "@results.res.category", "@(repeat(\"ab\", 400))", "@contact.urns"}

var textArgs = []string{"red", "blue", "red blue", "green", "", "   ", "the", "RED", "rouge", "azul", "@contact.name", "@(lower(\"RED\"))",
	"@(1/0)", "@contact.foo", "x @contact.foo", "yes", "no", "quick fox", "réd", "ｒｅｄ", "🙂", "@fields.gender", "light"}
var numberArgs = []string{"5", "10", "23", "0", "@fields.age", "@(2 + 3)", "abc", "", "3.5", "-7", "1000", "@(1/0)", "12", "@contact.foo"}
var dateArgs = []string{"2020-01-01", "@(today())", "@contact.created_on", "@(datetime_add(now(), 1, \"D\"))", "notadate", "2020-01-15",
	"@(datetime(\"2019-12-31T00:00:00Z\"))", "", "15.1.2020"}
var patternArgs = []string{`\d+`, `(red|blue)`, `(?P<x>r)(e)(d)`, `(`, `^\s*$`, `.`, `(\w+) (\w+)`, `[`, `RED`, `(?i)red`}

// arguments that make sense for a test (the generator also produces wrong arities and foreign arguments)
func argsFor(r *hx.Rand, test string) []string {
	pick := func(pool []string) string { return hx.Pick(r, pool) }
	switch test {
	case "has_only_text", "has_phrase", "has_only_phrase", "has_any_word", "has_all_words", "has_beginning":
		return []string{pick(textArgs)}
	case "has_pattern":
		return []string{pick(patternArgs)}
	case "has_number_lt", "has_number_lte", "has_number_eq", "has_number_gte", "has_number_gt":
		return []string{pick(numberArgs)}
	case "has_number_between":
		a, b := pick(numberArgs), pick(numberArgs)
		if r.Chance(1, 2) {
			a, b = "1", hx.Pick(r, []string{"10", "100", "5"})
		}
		return []string{a, b}
	case "has_date_lt", "has_date_eq", "has_date_gt":
		return []string{pick(dateArgs)}
	case "has_phone":
		if r.Chance(1, 2) {
			return []string{}
		}
		return []string{hx.Pick(r, []string{"US", "RW", "XX", "", "@(1/0)"})}
	case "has_group":
		g := r.Intn(4)
		if r.Chance(1, 3) {
			return []string{groupUUID(g)}
		}
		return []string{groupUUID(g), hx.Pick(r, groupNames)}
	case "has_category":
		n := r.Range(0, 3)
		out := []string{}
		for i := 0; i < n; i++ {
			out = append(out, hx.Pick(r, []string{"Red", "Blue", "Cat", "Success", "", "@results.pre.category", "@(1/0)", "Other"}))
		}
		return out
	case "has_intent", "has_top_intent":
		return []string{hx.Pick(r, []string{"book_flight", "book_hotel", "other", "@(1/0)"}), hx.Pick(r, []string{"0.5", "0.95", "0", "abc", "0.6"})}
	case "has_district":
		if r.Chance(1, 2) {
			return []string{}
		}
		return []string{hx.Pick(r, []string{"Kigali", "Boston", "", "@contact.foo"})}
	case "has_ward":
		switch r.Intn(4) {
		case 0:
			return []string{}
		case 1:
			return []string{"Kigali"}
		}
		return []string{hx.Pick(r, []string{"Kigali", "Boston", ""}), hx.Pick(r, []string{"Gasabo", "Brooklyn", ""})}
	case "has_verif_errmatch", "has_verif_other":
		return []string{hx.Pick(r, []string{"1", "0", "0", "@(1/0)"})}
	case "has_verif_nonobjextra", "has_verif_nomatch", "has_verif_nodefault", "has_verif_nilextra", "has_verif_objmatch":
		return []string{hx.Pick(r, []string{"1", "0", "1"})}
	}
	// has_error, has_text, has_value, has_number, has_date, has_time, has_email, has_state and tests this table does not know
	return []string{}
}

// padArg varies how an argument is WRITTEN without changing what it evaluates to (template evaluation trims the
// template; a plain text and an expression producing that text evaluate alike) - or, for inner whitespace, changes it
// in a way only the evaluated form shows.  Applies to base and to localized arguments, for every test.
func padArg(r *hx.Rand, a string) string {
	plain := !strings.ContainsAny(a, "@\"\\")
	expr := a
	if plain {
		expr = "@(\"" + a + "\")"
	}
	switch r.Intn(10) {
	case 0:
		return " " + a
	case 1:
		return a + " "
	case 2:
		return "  " + a + "  "
	case 3:
		return "\t" + a
	case 4:
		return a + "\n"
	case 5:
		return "\n " + a + " \t"
	case 6: // inner whitespace
		if i := strings.Index(a, " "); i >= 0 {
			return a[:i] + "  " + a[i+1:]
		}
		return a + " "
	case 7: // the same text produced by an expression
		return expr
	case 8:
		return " " + expr + " "
	}
	if plain && a != "" { // text + expression pieces
		return " " + a[:len(a)/2] + "@(\"\")" + a[len(a)/2:]
	}
	return a + "  "
}

func maybePad(r *hx.Rand, args []string) []string {
	if len(args) == 0 || !r.Chance(3, 10) {
		return args
	}
	out := append([]string{}, args...)
	k := r.Intn(len(out))
	out[k] = padArg(r, out[k])
	return out
}

type theme struct {
	name     string
	inputs   []string
	operands []string // besides @input.text
	tests    []string
}

var themes = []theme{
	{"text", textInputs, []string{"@contact.name", "red", "@contact.fields.gender", "@results.pre.value", "@(lower(input.text))"},
		[]string{"has_only_text", "has_phrase", "has_only_phrase", "has_any_word", "has_all_words", "has_beginning", "has_text", "has_value", "has_pattern"}},
	{"number", numberInputs, []string{"@fields.age", "@(contact.fields.age + 1)", "@(format_number(fields.age))"},
		[]string{"has_number", "has_number_between", "has_number_lt", "has_number_lte", "has_number_eq", "has_number_gte", "has_number_gt"}},
	{"date", dateInputs, []string{"@contact.created_on", "@(datetime(\"2020-01-15\"))"},
		[]string{"has_date", "has_date_lt", "has_date_eq", "has_date_gt", "has_time"}},
	{"contact", append(append([]string{}, phoneInputs...), emailInputs...), []string{"@urns.tel", "@contact.urns"}, []string{"has_phone", "has_email"}},
	{"location", locationInputs, []string{"Kigali"}, []string{"has_state", "has_district", "has_ward"}},
	{"group", textInputs, []string{"@contact.groups", "@contact.groups", "@contact"}, []string{"has_group"}},
	{"result", textInputs, []string{"@results.pre", "@results.pre", intentResult, intentResult, "@results.res"}, []string{"has_category", "has_intent", "has_top_intent"}},
	{"error", textInputs, []string{"@(1/0)", "@contact.foo", "hello @contact.foo", "@(\"a\" & )", "@(parse_json(\"null\"))", "@input"}, []string{"has_error", "has_text", "has_only_text"}},
	{"misc", textInputs, contextOperands, nil},
}

var extTests = []string{"has_verif_errmatch", "has_verif_other", "has_verif_nonobjextra", "has_verif_nomatch", "has_verif_nodefault",
	"has_verif_nilextra", "has_verif_objmatch"}

func isExt(name string) bool { return strings.HasPrefix(name, "has_verif_") }

var catNames = []string{"Red", "Blue", "Other", "Red", "", "All Responses", "Cat", "No Response", "Success", "red", "Über", "A B"}
var resultNames = []string{"", "", "Res", "Res", "res", "My Result", "pre", "Color 1"}

var allowedLists = [][]int{{}, {1}, {2}, {2, 3}, {3, 2}, {1, 2}, {2, 1}, {3, 1, 2}, {4}, {4, 3}}

// stored translation of an item property: nil = absent
func genTranslation(r *hx.Rand, baseLen int, mk func() string) []string {
	switch r.Intn(9) {
	case 0:
		return []string{}
	case 1:
		return []string{""}
	case 2, 3, 4: // same length
		n := baseLen
		if n == 0 {
			n = 1
		}
		out := make([]string, n)
		for i := range out {
			out[i] = mk()
		}
		return out
	case 5: // other length
		out := make([]string, baseLen+1)
		for i := range out {
			out[i] = mk()
		}
		if r.Chance(1, 3) {
			out[0] = ""
		}
		return out
	}
	return nil
}

func (l Loc) set(lang, item, prop string, arr []string) {
	if arr == nil {
		return
	}
	if l[lang] == nil {
		l[lang] = map[string]map[string][]string{}
	}
	if l[lang][item] == nil {
		l[lang][item] = map[string][]string{}
	}
	l[lang][item][prop] = arr
}

func (l Loc) get(lang, item, prop string) []string {
	if l[lang] == nil || l[lang][item] == nil {
		return nil
	}
	return l[lang][item][prop]
}

// ---------------------------------------------------------------------------------------------------------

func genCommon(r *hx.Rand, sc *Scenario) {
	sc.ContactLang = r.Intn(len(langCodes))
	sc.Allowed = hx.Pick(r, allowedLists)
	sc.ContactName = hx.Pick(r, []string{"Bob", "red", "Ann Lee", "", "23"})
	sc.Age = hx.Pick(r, []string{"23", "5", "", "10"})
	sc.Gender = hx.Pick(r, []string{"Male", "red", ""})
	for g := 0; g < 3; g++ {
		if r.Chance(1, 2) {
			sc.InGroups = append(sc.InGroups, g)
		}
	}
	sc.Country = hx.Pick(r, []string{"US", "RW", "US", ""})
	sc.DateFormat = hx.Pick(r, []string{"DD-MM-YYYY", "MM-DD-YYYY", "YYYY-MM-DD"})
	sc.MaxResult = hx.Pick(r, []int{640, 640, 640, 640, 8, 3, 0})
	sc.Collation = hx.Pick(r, []string{"", "", "", "default", "confusables", "arabic_variants", "arabic_variants", "<empty>", "unicode"})
	sc.Loc = Loc{}
	sc.TimeoutCat = -1
	sc.Default = -1
	sc.ChildLang = -1
}

// exits of the node under test, with destinations D_k or none
func genExits(r *hx.Rand, sc *Scenario, n int) {
	sc.NumDest = r.Range(1, 3)
	for j := 0; j < n; j++ {
		d := -1
		if r.Chance(3, 4) {
			d = r.Intn(sc.NumDest)
		}
		sc.Exits = append(sc.Exits, ExitDef{UUID: mkUUID(kExit, j), Dest: d})
	}
}

func genPre(r *hx.Rand, sc *Scenario, allowPre bool) {
	if !allowPre || !r.Chance(7, 10) {
		return
	}
	sc.Pre = true
	sc.PreExits = r.Range(1, 3)
	sc.PreToRouter = r.Chance(19, 20)
	if r.Chance(3, 5) {
		sc.PreResults = append(sc.PreResults, PreRes{Name: "pre", Value: hx.Pick(r, words), Category: hx.Pick(r, []string{"Red", "Blue", "Cat", "", "Success"})})
	}
	if sc.PreToRouter && r.Chance(2, 5) {
		sc.Child = true
		switch {
		case len(sc.Allowed) > 0 && r.Chance(3, 5):
			sc.ChildLang = hx.Pick(r, sc.Allowed)
		case r.Chance(4, 5):
			sc.ChildLang = r.Intn(len(langCodes))
		}
		if r.Chance(1, 2) {
			sc.ChildName = hx.Pick(r, []string{"red", "Yes", "Ann Lee", "23", "blue"})
		}
		if r.Chance(1, 3) {
			sc.ChildAge = hx.Pick(r, []string{"5", "10", "23", "12"})
		}
		if r.Chance(1, 3) {
			sc.ChildGender = hx.Pick(r, []string{"red", "Male", "yes"})
		}
		for _, l := range []int{2, 3} {
			sc.Loc.set(langCodes[l], mkUUID(kAction, 64), "text", genTranslation(r, 1, func() string { return hx.Pick(r, []string{"Bonjour", "Hola"}) }))
		}
	}
	if sc.ResultName != "" && r.Chance(1, 2) {
		// a previous result under the router's own key, often equal to what the router is going to save
		name := sc.ResultName
		if r.Chance(1, 3) {
			name = strings.ToUpper(name)
		}
		sc.PreResults = append(sc.PreResults, PreRes{Name: name, Value: hx.Pick(r, append(append([]string{}, textInputs...), "0", "1", "2")),
			Category: hx.Pick(r, catNames)})
	}
}

func genBaseRouter(r *hx.Rand, sc *Scenario, ncat int) {
	nexits := r.Range(1, ncat)
	if r.Chance(1, 2) {
		nexits = ncat
	}
	genExits(r, sc, nexits)
	for i := 0; i < ncat; i++ {
		c := CatDef{UUID: mkUUID(kCat, i), Name: hx.Pick(r, catNames), Exit: i % nexits}
		if r.Chance(1, 4) {
			c.Exit = r.Intn(nexits)
		}
		if i > 0 && r.Chance(1, 25) {
			c.UUID = sc.Cats[r.Intn(i)].UUID // duplicate category UUID: the first one is the one found
		}
		sc.Cats = append(sc.Cats, c)
	}
	sc.ResultName = hx.Pick(r, resultNames)
	for _, c := range sc.Cats {
		for _, l := range []int{2, 3} {
			if sc.Loc.get(langCodes[l], c.UUID, "name") == nil {
				sc.Loc.set(langCodes[l], c.UUID, "name", genTranslation(r, 1, func() string {
					return hx.Pick(r, []string{"Rouge", "Bleu", "Autre", "Rojo", "Azul", "Otro"})
				}))
			}
		}
	}
}

func genWait(r *hx.Rand, sc *Scenario, pWait, pTimeout int) {
	if !r.Chance(pWait, 100) {
		return
	}
	sc.Wait = true
	if r.Chance(pTimeout, 100) {
		sc.TimeoutCat = r.Intn(len(sc.Cats))
	}
}

func genTriggerResume(r *hx.Rand, sc *Scenario, inputs []string) {
	sc.Trigger = "manual"
	if r.Chance(2, 5) {
		sc.Trigger = "msg"
		sc.TriggerText = hx.Pick(r, inputs)
	}
	if sc.needsResume() {
		sc.Resume = "msg"
		sc.ResumeText = hx.Pick(r, inputs)
		if sc.TimeoutCat >= 0 && r.Chance(1, 2) {
			sc.Resume = "timeout"
			if r.Chance(1, 3) {
				sc.SecondTimeout = true
				sc.Exits[sc.firstCat(sc.Cats[sc.TimeoutCat].UUID).Exit].Dest = -2
			}
		}
	}
}

func genSwitch(r *hx.Rand, id int, ext bool) *Scenario {
	sc := &Scenario{ID: id, Stream: "switch", Kind: "switch"}
	if ext {
		sc.Stream = "ext"
	}
	genCommon(r, sc)
	th := themes[r.Intn(len(themes))]
	genBaseRouter(r, sc, r.Range(1, 5))
	if r.Chance(4, 5) {
		sc.Default = len(sc.Cats) - 1
		if r.Chance(1, 5) {
			sc.Default = r.Intn(len(sc.Cats))
		}
	}
	genWait(r, sc, 50, 50)
	genPre(r, sc, true)
	genLimits(r, sc)
	genTriggerResume(r, sc, append(append([]string{}, th.inputs...), strings.Repeat("long red ", 90)))

	hasInput := sc.Trigger == "msg" || sc.Resume == "msg"
	if hasInput && r.Chance(3, 5) {
		sc.Operand = "@input.text"
	} else if r.Chance(3, 4) && len(th.operands) > 0 {
		sc.Operand = hx.Pick(r, th.operands)
	} else {
		sc.Operand = hx.Pick(r, contextOperands)
	}

	ncases := r.Range(0, 6)
	for i := 0; i < ncases; i++ {
		var test string
		switch {
		case ext && r.Chance(1, 2):
			test = hx.Pick(r, extTests)
		case len(th.tests) > 0 && r.Chance(13, 20):
			test = hx.Pick(r, th.tests)
		default:
			test = hx.Pick(r, allTests)
			if !ext && isExt(test) {
				test = "has_text"
			}
		}
		c := CaseDef{UUID: mkUUID(kCase, i), Type: test, Args: argsFor(r, test), Cat: r.Intn(len(sc.Cats))}
		switch r.Intn(20) {
		case 0: // one argument too many
			c.Args = append(c.Args, hx.Pick(r, textArgs))
		case 1: // one too few
			if len(c.Args) > 0 {
				c.Args = c.Args[:len(c.Args)-1]
			}
		case 2: // foreign arguments
			c.Args = argsFor(r, hx.Pick(r, allTests))
		}
		if i > 0 && r.Chance(1, 12) { // repeat an earlier case (several cases match)
			prev := sc.Cases[r.Intn(i)]
			c.Type, c.Args = prev.Type, append([]string{}, prev.Args...)
		}
		c.Args = maybePad(r, c.Args)
		sc.Cases = append(sc.Cases, c)
		for _, l := range []int{2, 3} {
			test := c.Type
			sc.Loc.set(langCodes[l], c.UUID, "arguments", genTranslation(r, len(c.Args), func() string {
				a := argsFor(r, test)
				v := ""
				if len(a) == 0 {
					v = hx.Pick(r, textArgs)
				} else {
					v = a[r.Intn(len(a))]
				}
				if r.Chance(3, 10) {
					v = padArg(r, v)
				}
				return v
			}))
		}
	}
	// often make the input exactly what a written-with-whitespace plain argument evaluates to, so that whitespace
	// sensitive tests (has_only_text, has_pattern, has_category, has_group, ...) decide on the evaluated argument
	if hasInput && len(sc.Cases) > 0 && r.Chance(1, 3) {
		c := sc.Cases[r.Intn(len(sc.Cases))]
		largs := c.Args
		for _, l := range []int{2, 3} {
			// preferably the arguments of the language the contact has when the router routes
			if tr := sc.Loc.get(langCodes[l], c.UUID, "arguments"); len(tr) == len(c.Args) && (r.Chance(1, 2) || l == sc.effLang()) {
				largs = tr
			}
		}
		if len(largs) > 0 && !strings.Contains(largs[0], "@") && strings.TrimSpace(largs[0]) != "" {
			sc.Operand = "@input.text"
			if sc.Resume == "msg" {
				sc.ResumeText = strings.TrimSpace(largs[0])
			} else {
				sc.TriggerText = strings.TrimSpace(largs[0])
			}
		}
	}
	return sc
}

// draws worth trying: 0, the largest float below 1, floats next to j/n, floats whose shortest decimal is j/n
func genRandBits(r *hx.Rand, n int) uint64 {
	const one = uint64(1) << 53
	switch r.Intn(6) {
	case 0:
		return hx.Pick(r, []uint64{0, 1, one - 1, one - 2, one / 2, one/2 - 1})
	case 1, 2: // float nearest to j/n, and its neighbours
		j := r.Intn(n + 1)
		v := uint64(math.Round(float64(j) / float64(n) * float64(one)))
		v += uint64(r.Intn(5)) - 2
		return v % one
	case 3: // decimal fractions j/10^k
		j := r.Intn(1000)
		v := uint64(math.Round(float64(j) / 1000 * float64(one)))
		return v % one
	}
	return r.U64() % one
}

func genRandom(r *hx.Rand, id int) *Scenario {
	sc := &Scenario{ID: id, Stream: "random", Kind: "random"}
	genCommon(r, sc)
	ncat := r.Range(1, 10)
	genBaseRouter(r, sc, ncat)
	genWait(r, sc, 15, 50)
	genPre(r, sc, true)
	genLimits(r, sc)
	genTriggerResume(r, sc, textInputs)
	sc.RandBits = genRandBits(r, ncat)
	return sc
}

func genNone(r *hx.Rand, id int) *Scenario {
	sc := &Scenario{ID: id, Stream: "none", Kind: "none"}
	genCommon(r, sc)
	genExits(r, sc, r.Range(1, 4))
	genPre(r, sc, true)
	genTriggerResume(r, sc, textInputs)
	return sc
}
