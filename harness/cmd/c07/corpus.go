package main

import (
	"math"
	"strings"
)

// hand-picked scenarios that run before the generated ones (every branch of the statement and of the model at
// least once, whatever the seed)
func corpus() []*Scenario {
	id := 0
	base := func(kind string) *Scenario {
		id++
		sc := &Scenario{ID: id, Stream: "corpus", Kind: kind, Trigger: "msg", TriggerText: "dark red and blue 23", TimeoutCat: -1, Default: -1, ChildLang: -1,
			ContactLang: 1, Allowed: []int{1}, ContactName: "Bob", Age: "23", Gender: "Male", InGroups: []int{0}, Country: "US",
			DateFormat: "DD-MM-YYYY", MaxResult: 640, Loc: Loc{}, NumDest: 2, Operand: "@input.text", ResultName: "Color"}
		return sc
	}
	std := func(sc *Scenario, ncat int) {
		names := []string{"Red", "Blue", "Number", "Other", "Red"}
		for i := 0; i < ncat; i++ {
			sc.Exits = append(sc.Exits, ExitDef{UUID: mkUUID(kExit, i), Dest: i % 2})
			sc.Cats = append(sc.Cats, CatDef{UUID: mkUUID(kCat, i), Name: names[i%len(names)], Exit: i})
		}
	}
	cs := func(sc *Scenario, typ string, cat int, args ...string) {
		if args == nil {
			args = []string{}
		}
		sc.Cases = append(sc.Cases, CaseDef{UUID: mkUUID(kCase, len(sc.Cases)), Type: typ, Args: args, Cat: cat})
	}
	var out []*Scenario

	// several cases match: the first in definition order decides
	sc := base("switch")
	std(sc, 4)
	sc.Default = 3
	cs(sc, "has_any_word", 1, "blue green")
	cs(sc, "has_any_word", 0, "red")
	cs(sc, "has_number", 2)
	out = append(out, sc)

	// an earlier case errors (argument is not a number; wrong arity), a later one matches
	sc = base("switch")
	std(sc, 4)
	sc.Default = 3
	cs(sc, "has_number_lt", 0, "abc")
	cs(sc, "has_text", 0, "one", "too many")
	cs(sc, "has_number_between", 2, "@(1/0)", "50")
	cs(sc, "has_number_between", 2, "20", "@fields.age")
	out = append(out, sc)

	// nothing matches, no default: the run fails
	sc = base("switch")
	std(sc, 2)
	cs(sc, "has_any_word", 0, "green")
	cs(sc, "has_phone", 1)
	out = append(out, sc)
	// ... also after a wait
	sc = base("switch")
	std(sc, 2)
	sc.Trigger, sc.Wait, sc.Resume, sc.ResumeText = "manual", true, "msg", "nothing"
	cs(sc, "has_any_word", 0, "green")
	out = append(out, sc)

	// default category, operand is an error value / nil / an object
	for _, op := range []string{"@(1/0)", "@(parse_json(\"null\"))", "@contact", "hello @contact.foo"} {
		sc = base("switch")
		std(sc, 4)
		sc.Default = 3
		sc.Operand = op
		cs(sc, "has_any_word", 0, "red")
		cs(sc, "has_error", 1)
		if op == "@contact" {
			sc.Cases = sc.Cases[:1]
		}
		out = append(out, sc)
	}

	// timeout resume: the wait's timeout category, whatever the cases say
	sc = base("switch")
	std(sc, 4)
	sc.Default = 3
	sc.Trigger, sc.Wait, sc.TimeoutCat, sc.Resume = "manual", true, 2, "timeout"
	sc.Operand = "@contact.name"
	cs(sc, "has_text", 0)
	out = append(out, sc)

	// the timeout exit loops back to the wait and it times out again: the run has two wait_timed_out events and
	// RouteTimeout records the time of the FIRST one (its loop does not stop at the last), so the second result has the
	// same value as the first and no run_result_changed event is logged
	sc = base("switch")
	std(sc, 4)
	sc.Default = 3
	sc.Trigger, sc.Wait, sc.TimeoutCat, sc.Resume, sc.SecondTimeout = "manual", true, 2, "timeout", true
	sc.Exits[2].Dest = -2
	cs(sc, "has_text", 0)
	out = append(out, sc)
	sc = base("random")
	std(sc, 3)
	sc.ResultName = ""
	sc.Trigger, sc.Wait, sc.TimeoutCat, sc.Resume, sc.SecondTimeout = "manual", true, 1, "timeout", true
	sc.Exits[1].Dest = -2
	out = append(out, sc)

	// duplicate category names with different exits; duplicate category UUID (the first one is found)
	sc = base("switch")
	std(sc, 5)
	sc.Default = 3
	cs(sc, "has_any_word", 4, "red")
	out = append(out, sc)
	sc = base("switch")
	std(sc, 4)
	sc.Cats[2].UUID = sc.Cats[0].UUID
	sc.Default = 3
	cs(sc, "has_number", 2)
	out = append(out, sc)

	// localized arguments: only the French arguments match; a translation of another length is ignored
	sc = base("switch")
	std(sc, 4)
	sc.Default = 3
	sc.ContactLang, sc.Allowed = 2, []int{1, 2}
	cs(sc, "has_any_word", 0, "green")
	cs(sc, "has_number_between", 2, "100", "200")
	sc.Loc.set("fra", sc.Cases[0].UUID, "arguments", []string{"red rouge"})
	sc.Loc.set("fra", sc.Cases[1].UUID, "arguments", []string{"1", "100", "7"})
	sc.Loc.set("fra", sc.Cats[0].UUID, "name", []string{"Rouge"})
	out = append(out, sc)

	// arguments written with surrounding whitespace are evaluated (template evaluation trims) before the test sees them:
	// "Yes " matches the input "Yes"; so does the localized " Oui\t"; the same for numbers, patterns and category names
	sc = base("switch")
	std(sc, 4)
	sc.Default, sc.TriggerText = 3, "Yes"
	cs(sc, "has_only_text", 1, "No ")
	cs(sc, "has_only_text", 0, "Yes ")
	out = append(out, sc)
	sc = base("switch")
	std(sc, 4)
	sc.Default, sc.TriggerText = 3, "Oui"
	sc.ContactLang, sc.Allowed = 2, []int{1, 2}
	cs(sc, "has_only_text", 0, "Yes")
	sc.Loc.set("fra", sc.Cases[0].UUID, "arguments", []string{" Oui\t"})
	out = append(out, sc)
	sc = base("switch")
	std(sc, 4)
	sc.Default, sc.TriggerText = 3, "ab 12"
	cs(sc, "has_pattern", 1, " ^\\d+$")
	cs(sc, "has_pattern", 0, "\n^ab \\d+$ ")
	cs(sc, "has_number_eq", 2, " 12")
	out = append(out, sc)
	sc = base("switch")
	std(sc, 4)
	sc.Default, sc.TriggerText = 3, "red"
	cs(sc, "has_only_text", 1, " @(\"blue\") ")
	cs(sc, "has_only_text", 0, " @(\"red\") ")
	out = append(out, sc)

	// parent -> child -> back to the router: the child changes the contact in the same sprint and the router has to
	// see the contact as it is then.  The parent localized a message before entering the child.
	child := func(wait bool) *Scenario {
		sc := base("switch")
		std(sc, 4)
		sc.Cats[0].Name, sc.Cats[3].Name = "Yes", "Other"
		sc.Default = 3
		sc.Pre, sc.PreExits, sc.PreToRouter, sc.Child = true, 1, true, true
		sc.ContactLang, sc.Allowed = 1, []int{1, 2}
		sc.Loc.set("fra", mkUUID(kAction, 64), "text", []string{"Bonjour"})
		sc.Loc.set("fra", sc.Cats[0].UUID, "name", []string{"Oui"})
		if wait {
			sc.Trigger, sc.Wait, sc.Resume, sc.ResumeText = "manual", true, "msg", "oui"
		} else {
			sc.TriggerText = "oui"
		}
		return sc
	}
	for _, wait := range []bool{false, true} {
		// the child sets the language to fra: the French arguments ("oui") are the ones to use
		sc = child(wait)
		sc.ChildLang = 2
		cs(sc, "has_only_text", 0, "yes")
		sc.Loc.set("fra", sc.Cases[0].UUID, "arguments", []string{"oui"})
		out = append(out, sc)
	}
	// the child clears the language of a French contact: back to the base arguments
	sc = child(false)
	sc.ContactLang, sc.ChildLang, sc.TriggerText = 2, 0, "yes"
	cs(sc, "has_only_text", 0, "yes")
	sc.Loc.set("fra", sc.Cases[0].UUID, "arguments", []string{"oui"})
	out = append(out, sc)
	// the child renames the contact and sets a field: operands see the new values
	sc = child(false)
	sc.ChildName, sc.Operand = "Yes", "@contact.name"
	cs(sc, "has_only_text", 0, "Yes")
	out = append(out, sc)
	sc = child(false)
	sc.ChildAge, sc.Operand = "10", "@fields.age"
	cs(sc, "has_number_eq", 0, "10")
	out = append(out, sc)

	// an input collation goflow does not define (given as "" in the environment JSON, or an unknown name set by a host
	// in Go): word tests must still answer (fixed: input collation is validated and defaults)
	for _, col := range []string{"<empty>", "unicode", "confusables"} {
		sc = base("switch")
		std(sc, 4)
		sc.Default, sc.Collation, sc.TriggerText = 3, col, "Yes please"
		cs(sc, "has_any_word", 0, "yes")
		cs(sc, "has_phrase", 1, "yes please")
		out = append(out, sc)
	}

	// the engine's limits on what a result keeps: the input is cut to MaxTemplateChars (default 10000) with an ellipsis,
	// the value to MaxResultChars, the operand of the segment is not cut; operands of 9999 / 10000 / 10001 characters
	for _, n := range []int{9999, 10000, 10001} {
		sc = base("switch")
		std(sc, 4)
		sc.Default, sc.TriggerText, sc.InputRepeat = 3, "a", n
		cs(sc, "has_text", 0)
		out = append(out, sc)
	}
	// ... small limits: room for the ellipsis (9), exactly the ellipsis (3), no room (2), zero, negative
	for _, lim := range []int{9, 3, 2, 0, -1} {
		sc = base("switch")
		std(sc, 4)
		sc.Default, sc.MaxTemplate, sc.MaxTemplateZero = 3, lim, lim == 0
		cs(sc, "has_number", 2)
		out = append(out, sc)
	}
	// an extra of 10000 bytes or more is dropped: has_pattern's extra is {"0":"<match>"} = match + 8 bytes; 9991
	// characters are kept, 9992 dropped; 5000 two-byte characters are dropped although fewer than 10000 characters
	for _, n := range []int{9991, 9992} {
		sc = base("switch")
		std(sc, 4)
		sc.Default, sc.TriggerText, sc.InputRepeat = 3, "a", n
		cs(sc, "has_pattern", 0, "^.*$")
		out = append(out, sc)
	}
	sc = base("switch")
	std(sc, 4)
	sc.Default, sc.TriggerText, sc.InputRepeat = 3, "é", 5000
	cs(sc, "has_pattern", 0, "^.*$")
	out = append(out, sc)
	// an operand too large to be converted to text (an array over MaxRenderSize, 10^6; a text is its own rendering whatever
	// its length): its text is empty - value, input and segment operand of the default category are "", an error event is logged
	sc = base("switch")
	std(sc, 4)
	sc.Default, sc.TriggerText, sc.InputRepeat, sc.Operand = 3, "0123456789,", 100001, "@(split(input.text, \",\"))"
	out = append(out, sc)

	// previous result under the same key with the same value and category: saved again, no event
	sc = base("switch")
	std(sc, 4)
	sc.Default = 3
	sc.Trigger, sc.Pre, sc.PreExits, sc.PreToRouter = "manual", true, 2, true
	sc.Wait, sc.Resume, sc.ResumeText = true, "msg", "red"
	sc.PreResults = []PreRes{{Name: "COLOR", Value: "red", Category: "Red"}, {Name: "pre", Value: "x", Category: "Cat"}}
	cs(sc, "has_any_word", 0, "red")
	out = append(out, sc)

	// extra from has_pattern; result value truncated to MaxResultChars
	sc = base("switch")
	std(sc, 4)
	sc.Default = 3
	cs(sc, "has_pattern", 0, `(\w+) (?P<second>\w+)`)
	out = append(out, sc)
	sc = base("switch")
	std(sc, 4)
	sc.Default = 3
	sc.TriggerText = strings.Repeat("long red ", 90)
	cs(sc, "has_text", 0)
	out = append(out, sc)
	sc = base("switch")
	std(sc, 4)
	sc.Default, sc.MaxResult = 3, 3
	cs(sc, "has_phone", 0)
	out = append(out, sc)

	// has_group / has_category / has_intent / locations
	sc = base("switch")
	std(sc, 4)
	sc.Default, sc.Operand = 3, "@contact.groups"
	cs(sc, "has_group", 1, groupUUID(1), "Males")
	cs(sc, "has_group", 0, groupUUID(0))
	out = append(out, sc)
	sc = base("switch")
	std(sc, 4)
	sc.Default, sc.Operand = 3, intentResult
	cs(sc, "has_top_intent", 1, "book_hotel", "0.5")
	cs(sc, "has_intent", 0, "book_hotel", "0.5")
	cs(sc, "has_category", 2, "Success")
	out = append(out, sc)
	sc = base("switch")
	std(sc, 4)
	sc.Default, sc.TriggerText = 3, "I live in Gisozi"
	cs(sc, "has_district", 1, "Kigali")
	cs(sc, "has_ward", 0, "Kigali", "Gasabo")
	cs(sc, "has_state", 2)
	out = append(out, sc)

	// extension tests: non-object extra, no match property, object without default, typed-nil extra
	for _, typ := range []string{"has_verif_nonobjextra", "has_verif_nomatch", "has_verif_nodefault", "has_verif_nilextra", "has_verif_objmatch"} {
		sc = base("switch")
		sc.Stream = "corpus"
		std(sc, 4)
		sc.Default = 3
		cs(sc, typ, 0, "0")
		cs(sc, typ, 1, "1")
		out = append(out, sc)
	}
	// ... match not convertible to text (router error: at a visit the engine call fails, at a resume the session fails),
	// result that is no test result (panic)
	for _, wait := range []bool{false, true} {
		for _, typ := range []string{"has_verif_errmatch", "has_verif_other"} {
			sc = base("switch")
			std(sc, 4)
			sc.Default = 3
			if wait {
				sc.Trigger, sc.Wait, sc.Resume, sc.ResumeText = "manual", true, "msg", "red"
			}
			cs(sc, "has_number_lt", 0, "abc")
			cs(sc, typ, 1, "1")
			cs(sc, "has_text", 0)
			out = append(out, sc)
		}
	}

	// random router: draws 0, just below 1, and the float nearest to 3/10 (below 3/10, its decimal is 0.3)
	const one = uint64(1) << 53
	for _, bits := range []uint64{0, one - 1, uint64(math.Round(0.3 * float64(one))), uint64(math.Round(0.7 * float64(one))), one / 2, one/2 - 1} {
		sc = base("random")
		for i := 0; i < 10; i++ {
			sc.Exits = append(sc.Exits, ExitDef{UUID: mkUUID(kExit, i), Dest: i % 2})
			sc.Cats = append(sc.Cats, CatDef{UUID: mkUUID(kCat, i), Name: "Bucket " + string(rune('A'+i)), Exit: i})
		}
		sc.RandBits = bits
		out = append(out, sc)
	}
	// random router whose third category shares the UUID of the first: the draw 0.9 selects the third one
	// (fixed: random router routes via the category it drew, not via the first category with that UUID)
	sc = base("random")
	std(sc, 3)
	sc.Cats[2].UUID = sc.Cats[0].UUID
	sc.RandBits = uint64(math.Round(0.9 * float64(one)))
	out = append(out, sc)
	// random router behind a wait with a timeout
	sc = base("random")
	std(sc, 3)
	sc.Trigger, sc.Wait, sc.TimeoutCat, sc.Resume = "manual", true, 1, "timeout"
	out = append(out, sc)

	// no router: first exit of several
	sc = base("none")
	sc.ResultName = ""
	for i := 0; i < 3; i++ {
		sc.Exits = append(sc.Exits, ExitDef{UUID: mkUUID(kExit, i), Dest: 1 - i%2})
	}
	out = append(out, sc)
	sc = base("none")
	sc.ResultName = ""
	sc.Exits = append(sc.Exits, ExitDef{UUID: mkUUID(kExit, 0), Dest: -1}, ExitDef{UUID: mkUUID(kExit, 1), Dest: 0})
	out = append(out, sc)
	return out
}
