// Driver for C07 (routers take the exit their definition prescribes).
//
// Generates small flows around one node under test — a switch router (0-6 cases over ALL tests registered in
// cases.XTESTS, duplicate categories, with/without default, localized arguments, arguments that are expressions or
// evaluate to errors, operands of all types), a random router (draws forced through random.SetGenerator) or no
// router — with a contact, an environment, a trigger and (for waits) a msg or timeout resume, runs them through the
// REAL engine and
//   - evaluates the sentences of C07 directly on step.exit_uuid, the run results / run_result_changed events and the
//     sprint segments (direct oracle, oracle.go), the "first truthy case" being recomputed from XTESTS calls;
//   - writes the observations together with the oracle tables (template evaluation, ToXText, XTESTS calls on exactly
//     the (operand, arguments) the cases use) to cases_C07_*.v, where model/Router.v is run on the same inputs.
package main

import (
	"encoding/json"
	"fmt"
	"os"
	"strings"

	"verifharness/pkg/hx"
)

func coqStr(s string) string { return hx.Str(s) }

func coqOptStr(s *string) string {
	if s == nil {
		return "None"
	}
	return "(Some " + coqStr(*s) + ")"
}

// uuid numbering of a scenario: 0 is the empty string, known uuids are numbered in order of registration
type ids struct {
	m map[string]int
}

func (x *ids) n(u string) int {
	if u == "" {
		return 0
	}
	if v, ok := x.m[u]; ok {
		return v
	}
	v := len(x.m) + 1
	x.m[u] = v
	return v
}

func (x *ids) known(u string) int {
	if u == "" {
		return 0
	}
	if v, ok := x.m[u]; ok {
		return v
	}
	return 999999
}

func (sc *Scenario) trCoq(item, prop string) string {
	var parts []string
	for _, l := range []int{2, 3} {
		if arr := sc.Loc.get(langCodes[l], item, prop); arr != nil {
			parts = append(parts, fmt.Sprintf("(%s, %s)", hx.N(l), hx.List(arr, coqStr)))
		}
	}
	return "[" + strings.Join(parts, "; ") + "]"
}

func resultCoq(r *ResultObs) string {
	if r == nil {
		return "None"
	}
	return fmt.Sprintf("(Some {| r_name := %s; r_value := %s; r_category := %s; r_category_localized := %s; r_input := %s; r_extra := %s |})",
		coqStr(r.Name), coqStr(r.Value), coqStr(r.Category), coqStr(r.CategoryLocalized), coqStr(r.Input), coqOptStr(r.Extra))
}

func (sc *Scenario) lcCoq() string {
	return fmt.Sprintf("{| lc_contact := %s; lc_allowed := %s; lc_base := %s |}", hx.N(sc.effLang()), hx.List(sc.Allowed, hx.N), hx.N(baseLang))
}

func observedCoq(o *NodeObs, x *ids) string {
	seg := "None"
	if o.Segment != nil {
		seg = fmt.Sprintf("(Some (%s, %s, %s))", hx.N(x.known(o.Segment.Exit)), coqStr(o.Segment.Operand), hx.N(x.known(o.Segment.Dest)))
	}
	evs := hx.List(o.Events, func(e EventObs) string {
		t := 0
		if e.Kind == 2 || e.Kind == 3 {
			t = testID(e.Test)
			if t < 0 {
				t = 999999
			}
		}
		return fmt.Sprintf("(%s, %s)", hx.N(e.Kind), hx.N(t))
	})
	return fmt.Sprintf("rc_o_outcome := %s; rc_o_step_exit := %s; rc_o_segment := %s;\n     rc_o_saved := %s;\n     rc_o_events := %s",
		hx.N(o.Outcome), hx.N(x.known(o.StepExit)), seg, resultCoq(o.Saved), evs)
}

func (sc *Scenario) flowNodesCoq(x *ids) string {
	ns := []int{}
	if sc.Pre {
		ns = append(ns, x.n(nodeP()))
	}
	ns = append(ns, x.n(nodeR()))
	for k := 0; k < sc.NumDest; k++ {
		ns = append(ns, x.n(nodeD(k)))
	}
	return hx.List(ns, hx.N)
}

// the previous result under the router's key (set by the pre node's set_run_result actions)
func (sc *Scenario) prevResult(obs *Obs) *ResultObs {
	if sc.ResultName == "" {
		return nil
	}
	var prev *ResultObs
	key := snakify(sc.ResultName)
	for _, p := range sc.PreResults {
		if snakify(p.Name) == key {
			prev = &ResultObs{Name: p.Name, Value: truncRunes(p.Value, sc.MaxResult), Category: p.Category}
		}
	}
	if sc.SecondTimeout && len(obs.Timeouts) > 0 {
		// the first timeout went through the same category and saved the time of the (then only) wait_timed_out event
		prev = &ResultObs{Name: sc.ResultName, Value: truncRunes(obs.Timeouts[0], sc.MaxResult), Category: sc.firstCat(sc.Cats[sc.TimeoutCat].UUID).Name}
	}
	return prev
}

// case record for the node under test
func (sc *Scenario) caseCoqR(t *tables, obs *Obs) string {
	x := &ids{m: map[string]int{}}
	exits := hx.List(sc.Exits, func(e ExitDef) string {
		return fmt.Sprintf("{| e_uuid := %s; e_dest := %s |}", hx.N(x.n(e.UUID)), hx.N(x.n(sc.destUUID(e.Dest))))
	})
	router := "None"
	if sc.Kind != "none" {
		cats := hx.List(sc.Cats, func(c CatDef) string {
			return fmt.Sprintf("{| c_uuid := %s; c_name := %s; c_exit := %s; c_tr_name := %s |}",
				hx.N(x.n(c.UUID)), coqStr(c.Name), hx.N(x.n(sc.Exits[c.Exit].UUID)), sc.trCoq(c.UUID, "name"))
		})
		timeout := "None"
		if sc.Wait && sc.TimeoutCat >= 0 {
			timeout = "(Some " + hx.N(x.n(sc.Cats[sc.TimeoutCat].UUID)) + ")"
		}
		base := fmt.Sprintf("{| b_result_name := %s; b_categories := %s; b_timeout := %s |}", coqStr(sc.ResultName), cats, timeout)
		if sc.Kind == "random" {
			router = "(Some (Random " + base + "))"
		} else {
			cs := hx.List(sc.Cases, func(c CaseDef) string {
				return fmt.Sprintf("{| k_test := %s; k_args := %s; k_tr_args := %s; k_cat := %s |}",
					hx.N(testID(c.Type)), hx.List(c.Args, coqStr), sc.trCoq(c.UUID, "arguments"), hx.N(x.n(sc.Cats[c.Cat].UUID)))
			})
			def := ""
			if sc.Default >= 0 {
				def = sc.Cats[sc.Default].UUID
			}
			router = fmt.Sprintf("(Some (Switch %s %s %s %s))", base, coqStr(sc.Operand), cs, hx.N(x.n(def)))
		}
	}
	flowNodes := sc.flowNodesCoq(x)
	site := "AtVisit"
	if sc.needsResume() {
		site = "AtResume"
	}
	d := sc.drawDecimal()
	draw := fmt.Sprintf("{| d_mant := %s%%N; d_scale := %d%%N |}", d.Coefficient().String(), -d.Exponent())
	evals := hx.List(t.evalOrder, func(tpl string) string {
		e := t.evals[tpl]
		return fmt.Sprintf("(%s, (%s, (%s, %d%%nat)))", coqStr(tpl), hx.N(e.ID), hx.Bool(e.Err), e.Warns)
	})
	idxs := make([]int, len(t.values))
	for i := range idxs {
		idxs[i] = i
	}
	texts := hx.List(idxs, func(i int) string {
		s, ok := t.text(i)
		if !ok {
			return fmt.Sprintf("(%s, None)", hx.N(i))
		}
		return fmt.Sprintf("(%s, Some %s)", hx.N(i), coqStr(s))
	})
	regs := make([]int, len(allTests))
	for i := range regs {
		regs[i] = i
	}
	tests := hx.List(t.tests, func(e testEntry) string {
		return fmt.Sprintf("(%s, %s, %s, %s)", hx.N(e.Test), hx.N(e.Operand), hx.List(e.Args, hx.N), e.Coq)
	})
	o := obs.R
	return fmt.Sprintf("{| rc_lc := %s; rc_max := %d%%nat; rc_max_tpl := %d%%nat;\n     rc_node := {| n_router := %s;\n       n_exits := %s |};\n     rc_flow_nodes := %s; rc_site := %s; rc_is_timeout := %s;\n"+
		"     rc_draw := %s; rc_timeouts := %s; rc_prev := %s;\n     rc_evals := %s;\n     rc_texts := %s;\n     rc_registered := %s;\n     rc_tests := %s;\n     %s |}",
		sc.lcCoq(), sc.MaxResult, max(sc.maxTemplate(), 0), router, exits, flowNodes, site, hx.Bool(sc.needsResume() && sc.Resume == "timeout"),
		draw, hx.List(obs.Timeouts, coqStr), resultCoq(sc.prevResult(obs)), evals, texts, hx.List(regs, hx.N), tests, observedCoq(&o, x))
}

// case record for the pre node (no router; exercises the first-exit rule and the segment rule)
func (sc *Scenario) caseCoqP(obs *Obs) string {
	x := &ids{m: map[string]int{}}
	var exits []string
	for j := 0; j < sc.PreExits; j++ {
		d := ""
		if j == 0 && sc.PreToRouter {
			d = nodeR()
		} else if j > 0 && j%2 == 1 {
			d = nodeD(0)
		}
		exits = append(exits, fmt.Sprintf("{| e_uuid := %s; e_dest := %s |}", hx.N(x.n(exitP(j))), hx.N(x.n(d))))
	}
	flowNodes := sc.flowNodesCoq(x)
	o := *obs.P
	// the events of the pre node's step are those of its actions, not of a router
	o.Events = nil
	return fmt.Sprintf("{| rc_lc := %s; rc_max := %d%%nat; rc_max_tpl := %d%%nat;\n     rc_node := {| n_router := None; n_exits := [%s] |};\n     rc_flow_nodes := %s; rc_site := AtVisit; rc_is_timeout := false;\n"+
		"     rc_draw := {| d_mant := 0%%N; d_scale := 0%%N |}; rc_timeouts := []; rc_prev := None;\n     rc_evals := []; rc_texts := []; rc_registered := []; rc_tests := [];\n     %s |}",
		sc.lcCoq(), sc.MaxResult, max(sc.maxTemplate(), 0), strings.Join(exits, "; "), flowNodes, observedCoq(&o, x))
}

func snakify(s string) string {
	// utils.Snakify, restated so that the previous-result lookup does not depend on the code under test:
	// trim, runs of characters outside [a-zA-Z0-9] become "_", lower case (result names are ASCII here)
	s = strings.TrimSpace(s)
	var sb strings.Builder
	inRun := false
	for _, c := range s {
		ok := (c >= 'a' && c <= 'z') || (c >= 'A' && c <= 'Z') || (c >= '0' && c <= '9')
		if ok {
			sb.WriteRune(c)
			inRun = false
		} else if !inRun {
			sb.WriteByte('_')
			inRun = true
		}
	}
	return strings.ToLower(sb.String())
}

const header = `From Coq Require Import List NArith Bool.
From Verif Require Import model.Lang model.Router model.RouterCorr.
Import ListNotations.
Definition cases : list rcase := [`

type replayInput struct {
	Scenario *Scenario `json:"scenario"`
}

func main() {
	o := hx.ParseOpts()
	initTests()
	res := hx.NewResult(o, "corpus of hand-picked scenarios, then generated scenarios in four streams: switch routers over the built-in tests "+
		"(60%), switch routers that also use extension tests with unusual result shapes (10%), random routers with forced draws (20%), "+
		"nodes without router (10%); each scenario is one flow + contact + environment + trigger (+ resume) run through the real engine; about a quarter "+
		"enter a child flow before the router (the child changes the contact's language / name / fields in the same sprint), some time out twice; "+
		"distinct = distinct scenario JSON; non-trivial = at least two cases match, or an earlier case errors, or the default / timeout / "+
		"no-category branch is taken, or a random router has at least two categories, or a router-less node has at least two exits")
	r := hx.NewRand(o.Seed)

	var scenarios []*Scenario
	if o.Replay != "" {
		if sc := loadReplay(o.Replay); sc != nil {
			scenarios = append(scenarios, sc)
		}
	}
	if len(scenarios) == 0 {
		scenarios = append(scenarios, corpus()...)
		n := o.Count(1500, 40000)
		rs, re, rr, rn := r.Fork("switch"), r.Fork("ext"), r.Fork("random"), r.Fork("none")
		for i := 0; i < n; i++ {
			id := 1000 + i
			switch k := i % 10; {
			case k < 6:
				scenarios = append(scenarios, genSwitch(rs, id, false))
			case k < 7:
				scenarios = append(scenarios, genSwitch(re, id, true))
			case k < 9:
				scenarios = append(scenarios, genRandom(rr, id))
			default:
				scenarios = append(scenarios, genNone(rn, id))
			}
		}
	}

	const shard = 250
	var file *hx.CoqFile
	nfile := 0
	flush := func() {
		if file != nil {
			file.Add("].\nDefinition M := Eval vm_compute in mismatches cases.\nPrint M.")
			file.Save(o, res)
			file = nil
		}
	}
	add := func(coq string, input any, impl any) {
		if file == nil {
			file = hx.NewCoqFile(fmt.Sprintf("cases_C07_%03d.v", nfile), header)
			nfile++
		}
		sep := ";"
		if file.N == 0 {
			sep = " "
		}
		file.Add(sep + " " + coq)
		res.Cases = append(res.Cases, hx.Case{File: file.Name, Index: file.N, Input: input, Impl: impl})
		file.N++
		if file.N >= shard {
			flush()
		}
	}

	for _, sc := range scenarios {
		input := replayInput{Scenario: sc}
		sa, env, err := sc.setup()
		if err != nil {
			// the generator only builds definitions the engine accepts; anything else is a defect of the driver
			res.Fail("driver:invalid-scenario", input, err.Error())
			continue
		}
		t, err := sc.buildTables(sa, env)
		if err != nil {
			res.Fail("driver:probe", input, err.Error())
			continue
		}
		out := sc.drive(sa, env, flowUUID())
		obs := sc.observe(out)
		exp := sc.expect(t)

		key, _ := json.Marshal(sc)
		res.Eval(string(key[bytesAfterID(key):]), sc.nontrivial(exp))
		res.Dist("stream=" + sc.Stream)
		res.Dist("branch=" + exp.branch)
		res.Dist(fmt.Sprintf("outcome=%d", obs.R.Outcome))
		if sc.Child {
			res.Dist("child_flow")
			if sc.ChildLang >= 0 && sc.ChildLang != sc.ContactLang {
				res.Dist("child_flow:language_changed")
			}
		}
		if sc.SecondTimeout {
			res.Dist("second_timeout")
		}
		res.Dist("input_collation=" + sc.Collation)
		if sc.Kind == "switch" {
			res.Dist(fmt.Sprintf("cases=%d", len(sc.Cases)))
			res.Dist(fmt.Sprintf("matching=%d", min(exp.nMatching, 3)))
			if exp.errBefore {
				res.Dist("error_before_decision")
			}
			site := "visit"
			if sc.needsResume() {
				site = "resume:" + sc.Resume
			} else if sc.Wait {
				site = "visit:wait-skipped"
			}
			res.Dist("site=" + site)
			for _, c := range sc.Cases {
				res.Dist("test=" + c.Type)
			}
			for _, te := range t.tests {
				res.Dist("test_result=" + te.Desc)
			}
			if obs.R.Saved != nil && len(obs.R.ChangedEvents) == 0 {
				res.Dist("result_saved_unchanged")
			}
		}
		if len(res.Samples) < 5 && (sc.ID%97 == 0 || sc.Stream == "corpus") {
			res.Sample(map[string]any{"scenario": sc, "observed": obs, "prescribed_branch": exp.branch})
		}

		sc.directOracle(exp, obs, res, input)

		if obs.R.Outcome >= 0 {
			add(sc.caseCoqR(t, obs), input, obs.R)
		}
		if obs.P != nil && obs.P.Visited && sc.ID%4 == 0 {
			add(sc.caseCoqP(obs), input, obs.P)
		}
	}
	flush()
	res.Write(o)
}

// the canonical key of a scenario leaves out its running number
func bytesAfterID(b []byte) int {
	if i := strings.Index(string(b), ","); i > 0 {
		return i
	}
	return 0
}

func loadReplay(path string) *Scenario {
	b, err := os.ReadFile(path)
	if err != nil {
		return nil
	}
	var rj struct {
		FailingInput struct {
			Input replayInput `json:"input"`
		} `json:"failing_input"`
		FirstMismatch struct {
			Input replayInput `json:"input"`
		} `json:"first_mismatching_case"`
		Scenario *Scenario `json:"scenario"`
	}
	if json.Unmarshal(b, &rj) != nil {
		return nil
	}
	switch {
	case rj.FailingInput.Input.Scenario != nil:
		return rj.FailingInput.Input.Scenario
	case rj.FirstMismatch.Input.Scenario != nil:
		return rj.FirstMismatch.Input.Scenario
	}
	return rj.Scenario
}
