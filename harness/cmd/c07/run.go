package main

// Runs a scenario through the REAL engine and collects (a) the oracle tables for the Coq model
// (template evaluation, ToXText, XTESTS calls — all made on a probe run that is in the state the run under
// test is in when it routes) and (b) the observables of the node under test.

import (
	"encoding/json"
	"fmt"
	"math/rand"
	"strings"
	"time"

	"github.com/nyaruka/gocommon/dates"
	"github.com/nyaruka/gocommon/i18n"
	"github.com/nyaruka/gocommon/jsonx"
	"github.com/nyaruka/gocommon/random"
	"github.com/nyaruka/gocommon/urns"
	"github.com/nyaruka/gocommon/uuids"
	"github.com/nyaruka/goflow/assets"
	"github.com/nyaruka/goflow/assets/static"
	"github.com/nyaruka/goflow/envs"
	"github.com/nyaruka/goflow/excellent/types"
	"github.com/nyaruka/goflow/flows"
	"github.com/nyaruka/goflow/flows/engine"
	"github.com/nyaruka/goflow/flows/events"
	"github.com/nyaruka/goflow/flows/resumes"
	"github.com/nyaruka/goflow/flows/routers/cases"
	"github.com/nyaruka/goflow/flows/triggers"
	"github.com/nyaruka/goflow/utils"
	"github.com/shopspring/decimal"
)

var fixedNow = time.Date(2020, 1, 15, 12, 30, 0, 0, time.UTC)

// ---------------------------------------------------------------------------------------------------------
// extension tests (cases.RegisterXTest is goflow's extension point): result shapes no built-in test produces

func init() {
	flag := func(args []types.XValue) (bool, *types.XError) {
		if len(args) != 2 {
			return false, types.NewXErrorf("need 2 arguments")
		}
		if types.IsXError(args[1]) {
			return false, args[1].(*types.XError)
		}
		t, xerr := types.ToXText(nil, args[1])
		if xerr != nil {
			return false, xerr
		}
		return t.Native() == "1", nil
	}
	reg := func(name string, mk func(operand types.XValue) types.XValue) {
		cases.RegisterXTest(name, func(env envs.Environment, args ...types.XValue) types.XValue {
			on, xerr := flag(args)
			if xerr != nil {
				return xerr
			}
			if !on {
				return cases.FalseResult
			}
			return mk(args[0])
		})
	}
	// truthy result whose match is an error value: ToXText(match) fails inside matchCase
	reg("has_verif_errmatch", func(types.XValue) types.XValue { return cases.NewTrueResult(types.NewXErrorf("boom")) })
	// not an object and not an error
	reg("has_verif_other", func(types.XValue) types.XValue { return types.NewXText("not a test result") })
	reg("has_verif_nonobjextra", func(op types.XValue) types.XValue {
		return types.NewXObject(map[string]types.XValue{"__default__": types.XBooleanTrue, "match": types.NewXText("m"), "extra": types.NewXText("zzz")})
	})
	reg("has_verif_nomatch", func(op types.XValue) types.XValue {
		return types.NewXObject(map[string]types.XValue{"__default__": types.XBooleanTrue})
	})
	// no default: truthy because it has properties
	reg("has_verif_nodefault", func(op types.XValue) types.XValue {
		return types.NewXObject(map[string]types.XValue{"match": types.NewXNumberFromInt(7)})
	})
	reg("has_verif_nilextra", func(op types.XValue) types.XValue { return cases.NewTrueResultWithExtra(types.NewXText("n"), nil) })
	reg("has_verif_objmatch", func(op types.XValue) types.XValue {
		return cases.NewTrueResultWithExtra(types.NewXArray(types.NewXText("a"), types.NewXNumberFromInt(2)),
			types.NewXObject(map[string]types.XValue{"k": types.NewXText("v"), "n": types.NewXNumberFromInt(1)}))
	})
}

// ---------------------------------------------------------------------------------------------------------
// assets

func (sc *Scenario) routerJSON(probe bool) map[string]any {
	wait := func(timeoutCat string) map[string]any {
		w := map[string]any{"type": "msg"}
		if timeoutCat != "" {
			w["timeout"] = map[string]any{"seconds": 600, "category_uuid": timeoutCat}
		}
		return w
	}
	if probe {
		cat := mkUUID(kCat, 4096)
		r := map[string]any{"type": "switch", "operand": "@input.text", "cases": []any{},
			"categories":            []any{map[string]any{"uuid": cat, "name": "All", "exit_uuid": mkUUID(kExit, 4096)}},
			"default_category_uuid": cat}
		if sc.TimeoutCat >= 0 {
			r["wait"] = wait(cat)
		} else {
			r["wait"] = wait("")
		}
		return r
	}
	cats := []any{}
	for _, c := range sc.Cats {
		m := map[string]any{"uuid": c.UUID, "exit_uuid": sc.Exits[c.Exit].UUID}
		if c.Name != "" {
			m["name"] = c.Name
		}
		cats = append(cats, m)
	}
	r := map[string]any{"type": sc.Kind, "categories": cats}
	if sc.ResultName != "" {
		r["result_name"] = sc.ResultName
	}
	if sc.Wait {
		if sc.TimeoutCat >= 0 {
			r["wait"] = wait(sc.Cats[sc.TimeoutCat].UUID)
		} else {
			r["wait"] = wait("")
		}
	}
	if sc.Kind == "switch" {
		cs := []any{}
		for _, c := range sc.Cases {
			cs = append(cs, map[string]any{"uuid": c.UUID, "type": c.Type, "arguments": c.Args, "category_uuid": sc.Cats[c.Cat].UUID})
		}
		r["operand"] = sc.Operand
		r["cases"] = cs
		if sc.Default >= 0 {
			r["default_category_uuid"] = sc.Cats[sc.Default].UUID
		}
	}
	return r
}

func (sc *Scenario) preActions(base int) []any {
	out := []any{}
	for i, p := range sc.PreResults {
		a := map[string]any{"uuid": mkUUID(kAction, base+i), "type": "set_run_result", "name": p.Name, "value": p.Value}
		if p.Category != "" {
			a["category"] = p.Category
		}
		out = append(out, a)
	}
	return out
}

// what the child flow does to the contact (the probe run does the same itself)
func (sc *Scenario) childActions(base int) []any {
	out := []any{}
	if !sc.Child {
		return out
	}
	if sc.ChildLang >= 0 {
		out = append(out, map[string]any{"uuid": mkUUID(kAction, base), "type": "set_contact_language", "language": langCodes[sc.ChildLang]})
	}
	if sc.ChildName != "" {
		out = append(out, map[string]any{"uuid": mkUUID(kAction, base+1), "type": "set_contact_name", "name": sc.ChildName})
	}
	if sc.ChildAge != "" {
		out = append(out, map[string]any{"uuid": mkUUID(kAction, base+2), "type": "set_contact_field", "field": map[string]any{"key": "age", "name": "Age"}, "value": sc.ChildAge})
	}
	if sc.ChildGender != "" {
		out = append(out, map[string]any{"uuid": mkUUID(kAction, base+3), "type": "set_contact_field", "field": map[string]any{"key": "gender", "name": "Gender"}, "value": sc.ChildGender})
	}
	return out
}

func (sc *Scenario) flowsJSON() []any {
	nodes := []any{}
	if sc.Pre {
		exits := []any{}
		for j := 0; j < sc.PreExits; j++ {
			e := map[string]any{"uuid": exitP(j)}
			if j == 0 && sc.PreToRouter {
				e["destination_uuid"] = nodeR()
			} else if j > 0 && j%2 == 1 {
				e["destination_uuid"] = nodeD(0)
			}
			exits = append(exits, e)
		}
		acts := sc.preActions(0)
		if sc.Child {
			// a localized message first (the run works out its localization languages), then the child flow
			acts = append(acts, map[string]any{"uuid": mkUUID(kAction, 64), "type": "send_msg", "text": "Hello"},
				map[string]any{"uuid": mkUUID(kAction, 65), "type": "enter_flow", "flow": map[string]any{"uuid": childFlowUUID(), "name": "C07 child"}})
		}
		nodes = append(nodes, map[string]any{"uuid": nodeP(), "actions": acts, "exits": exits})
	}
	exits := []any{}
	for _, e := range sc.Exits {
		m := map[string]any{"uuid": e.UUID}
		if d := sc.destUUID(e.Dest); d != "" {
			m["destination_uuid"] = d
		}
		exits = append(exits, m)
	}
	r := map[string]any{"uuid": nodeR(), "exits": exits}
	if sc.Kind != "none" {
		r["router"] = sc.routerJSON(false)
	}
	nodes = append(nodes, r)
	for k := 0; k < sc.NumDest; k++ {
		ex := []any{map[string]any{"uuid": exitD(k)}}
		if k == 1 {
			ex = append(ex, map[string]any{"uuid": exitD(64 + k)})
		}
		nodes = append(nodes, map[string]any{"uuid": nodeD(k), "exits": ex})
	}
	flow := map[string]any{"uuid": flowUUID(), "name": "C07", "spec_version": "13.6.1", "language": langCodes[baseLang], "type": "messaging",
		"localization": sc.Loc, "nodes": nodes}

	// the probe flow brings a run into the state the run under test is in when it routes: same results, same input
	pnodes := []any{}
	if sc.needsResume() {
		pnodes = append(pnodes, map[string]any{"uuid": mkUUID(kNode, 4096), "exits": []any{map[string]any{"uuid": mkUUID(kExit, 4097), "destination_uuid": mkUUID(kNode, 4097)}}})
	}
	pp := map[string]any{"uuid": mkUUID(kNode, 4097), "actions": append(sc.preActions(4096), sc.childActions(4200)...), "exits": []any{map[string]any{"uuid": mkUUID(kExit, 4096)}}}
	if sc.needsResume() {
		pp["router"] = sc.routerJSON(true)
	}
	pnodes = append(pnodes, pp)
	probe := map[string]any{"uuid": probeFlowUUID(), "name": "C07 probe", "spec_version": "13.6.1", "language": langCodes[baseLang], "type": "messaging",
		"localization": map[string]any{}, "nodes": pnodes}
	if sc.Child {
		child := map[string]any{"uuid": childFlowUUID(), "name": "C07 child", "spec_version": "13.6.1", "language": langCodes[baseLang], "type": "messaging",
			"localization": map[string]any{}, "nodes": []any{map[string]any{"uuid": mkUUID(kNode, 8192), "actions": sc.childActions(8192),
				"exits": []any{map[string]any{"uuid": mkUUID(kExit, 8192)}}}}}
		return []any{flow, probe, child}
	}
	return []any{flow, probe}
}

const locationsJSON = `[{"name":"Rwanda","aliases":["Ruanda"],"children":[{"name":"Kigali City","aliases":["Kigali","Kigari"],"children":[
 {"name":"Gasabo","children":[{"name":"Gisozi"},{"name":"Ndera"}]},{"name":"Nyarugenge","children":[]}]}]}]`

func (sc *Scenario) assetsJSON() []byte {
	groups := []any{}
	for i, n := range groupNames {
		groups = append(groups, map[string]any{"uuid": groupUUID(i), "name": n})
	}
	a := map[string]any{
		"flows":  sc.flowsJSON(),
		"groups": groups,
		"fields": []any{
			map[string]any{"uuid": mkUUID(kField, 1), "key": "age", "name": "Age", "type": "number"},
			map[string]any{"uuid": mkUUID(kField, 2), "key": "gender", "name": "Gender", "type": "text"},
		},
		"locations": json.RawMessage(locationsJSON),
	}
	b, err := json.Marshal(a)
	if err != nil {
		panic(err)
	}
	return b
}

func (sc *Scenario) contactJSON() []byte {
	groups := []any{}
	for _, g := range sc.InGroups {
		groups = append(groups, map[string]any{"uuid": groupUUID(g), "name": groupNames[g]})
	}
	fields := map[string]any{}
	if sc.Age != "" {
		var n json.Number = json.Number(sc.Age)
		fields["age"] = map[string]any{"text": sc.Age, "number": n}
	}
	if sc.Gender != "" {
		fields["gender"] = map[string]any{"text": sc.Gender}
	}
	c := map[string]any{"uuid": mkUUID(kContact, 1), "id": 7, "name": sc.ContactName, "status": "active",
		"created_on": "2020-01-01T00:00:00Z", "urns": []string{"tel:+12065551212"}, "groups": groups, "fields": fields}
	if sc.ContactLang != 0 {
		c["language"] = langCodes[sc.ContactLang]
	}
	b, err := json.Marshal(c)
	if err != nil {
		panic(err)
	}
	return b
}

func (sc *Scenario) env() envs.Environment {
	al := make([]i18n.Language, len(sc.Allowed))
	for i, l := range sc.Allowed {
		al[i] = i18n.Language(langCodes[l])
	}
	b := envs.NewBuilder().WithAllowedLanguages(al...).WithDefaultCountry(i18n.Country(sc.Country)).
		WithDateFormat(envs.DateFormat(sc.DateFormat))
	env := b.Build()
	col, given, _ := sc.collation()
	if !given {
		return env
	}
	// the way a host hands an environment over: as JSON through envs.ReadEnvironment ...
	if ej, err := jsonx.Marshal(env); err == nil {
		var m map[string]any
		if json.Unmarshal(ej, &m) == nil {
			m["input_collation"] = col
			if mj, err := json.Marshal(m); err == nil {
				if read, err := envs.ReadEnvironment(mj); err == nil {
					return read
				}
			}
		}
	}
	// ... and when the reader rejects the value, the way a host builds one in Go
	return b.WithInputCollation(envs.Collation(col)).Build()
}

// ---------------------------------------------------------------------------------------------------------
// driving the engine

// fixedSource makes rand.Float64 return v/2^53 for the scenario's 53 bits v: math/rand's Float64 is
// float64(Int63())/(1<<63) (retried when that is 1), and (v<<10)/2^63 = v/2^53 exactly
type fixedSource struct{ bits int64 }

func (sc *Scenario) randSource() *fixedSource { return &fixedSource{bits: int64((sc.RandBits & (1<<53 - 1)) << 10)} }

func (s *fixedSource) Int63() int64 { return s.bits }
func (s *fixedSource) Seed(int64)   {}

type runOut struct {
	session  flows.Session
	sprints  []flows.Sprint
	err      error
	panicVal any
}

func (sc *Scenario) drive(sa flows.SessionAssets, env envs.Environment, flowID string) (out runOut) {
	defer func() {
		if p := recover(); p != nil {
			out.panicVal = p
		}
	}()
	flow, err := sa.Flows().Get(assets.FlowUUID(flowID))
	if err != nil {
		out.err = fmt.Errorf("loading flow: %w", err)
		return
	}
	contact, err := flows.ReadContact(sa, sc.contactJSON(), assets.PanicOnMissing)
	if err != nil {
		out.err = fmt.Errorf("reading contact: %w", err)
		return
	}
	eng := engine.NewBuilder().WithMaxResultChars(sc.MaxResult).WithMaxTemplateChars(sc.maxTemplate()).Build()
	newMsg := func(text string) *flows.MsgIn {
		return flows.NewMsgIn(flows.MsgUUID(uuids.NewV4()), urns.URN("tel:+12065551212"), nil, text, nil)
	}
	var trigger flows.Trigger
	if sc.Trigger == "msg" {
		trigger = triggers.NewBuilder(env, flow.Reference(false), contact).Msg(newMsg(sc.inputText(sc.TriggerText))).Build()
	} else {
		trigger = triggers.NewBuilder(env, flow.Reference(false), contact).Manual().Build()
	}
	random.SetGenerator(rand.New(sc.randSource()))
	if sc.SecondTimeout {
		// every dates.Now() a second later than the one before, so that the two timeouts have different times
		dates.SetNowFunc(dates.NewSequentialNow(fixedNow, time.Second))
		defer dates.SetNowFunc(dates.NewFixedNow(fixedNow))
	}
	session, sprint, err := eng.NewSession(sa, trigger)
	out.session = session
	if err != nil {
		out.err = err
		return
	}
	out.sprints = append(out.sprints, sprint)
	if sc.needsResume() && session.Status() == flows.SessionStatusWaiting {
		var resume flows.Resume
		if sc.Resume == "timeout" {
			resume = resumes.NewWaitTimeout(nil, nil)
		} else {
			resume = resumes.NewMsg(nil, nil, newMsg(sc.inputText(sc.ResumeText)))
		}
		sprint, err = session.Resume(resume)
		if err != nil {
			out.err = err
			return
		}
		out.sprints = append(out.sprints, sprint)
		if sc.SecondTimeout && flowID == flowUUID() && session.Status() == flows.SessionStatusWaiting {
			sprint, err = session.Resume(resumes.NewWaitTimeout(nil, nil))
			if err != nil {
				out.err = err
				return
			}
			out.sprints = append(out.sprints, sprint)
		}
	}
	return
}

// ---------------------------------------------------------------------------------------------------------
// oracle tables

type evalEntry struct {
	ID    int
	Err   bool
	Warns int
}

type testEntry struct {
	Test    int
	Operand int
	Args    []int
	Coq     string // test_result N
	Desc    string
}

type tables struct {
	env       envs.Environment
	run       flows.Run
	values    []types.XValue
	evalOrder []string
	evals     map[string]*evalEntry
	tests     []testEntry
	seenTest  map[string]bool
}

func (t *tables) intern(v types.XValue) int {
	t.values = append(t.values, v)
	return len(t.values) - 1
}

func (t *tables) eval(tpl string) *evalEntry {
	if e, ok := t.evals[tpl]; ok {
		return e
	}
	e := &evalEntry{}
	v, _ := t.run.EvaluateTemplateValue(tpl, func(ev flows.Event) {
		switch ev.(type) {
		case *events.ErrorEvent:
			e.Err = true
		case *events.WarningEvent:
			e.Warns++
		}
	})
	e.ID = t.intern(v)
	t.evals[tpl] = e
	t.evalOrder = append(t.evalOrder, tpl)
	return e
}

func (t *tables) text(id int) (string, bool) {
	x, xerr := types.ToXText(t.env, t.values[id])
	if xerr != nil {
		return "", false
	}
	return x.Native(), true
}

// callTest calls the real test on exactly (operand, args) and records the entry
func (t *tables) callTest(name string, operand int, args []int) (res types.XValue, panicked bool) {
	defer func() {
		if p := recover(); p != nil {
			res, panicked = nil, true
		}
	}()
	xs := []types.XValue{t.values[operand]}
	for _, a := range args {
		xs = append(xs, t.values[a])
	}
	res = cases.XTESTS[name].Call(t.env, xs)
	key := fmt.Sprintf("%s|%d|%v", name, operand, args)
	if !t.seenTest[key] {
		t.seenTest[key] = true
		coq, desc := t.resultCoq(res)
		t.tests = append(t.tests, testEntry{Test: testID(name), Operand: operand, Args: args, Coq: coq, Desc: desc})
	}
	return res, false
}

func (t *tables) resultCoq(res types.XValue) (string, string) {
	switch typed := res.(type) {
	case *types.XError:
		return "TError", "error"
	case *types.XObject:
		m, _ := typed.Get("match")
		ms := "None"
		if m != nil {
			ms = fmt.Sprintf("(Some %d%%N)", t.intern(m))
		}
		x, _ := typed.Get("extra")
		xs := "ExAbsent"
		if x != nil {
			if obj, ok := x.(*types.XObject); ok {
				if obj == nil {
					xs = "(ExObject None)"
				} else {
					j, _ := jsonx.Marshal(obj)
					xs = "(ExObject (Some " + coqStr(string(j)) + "))"
				}
			} else {
				xs = "ExOther"
			}
		}
		return fmt.Sprintf("(TObject %v %s %s)", typed.Truthy(), ms, xs), fmt.Sprintf("object truthy=%v", typed.Truthy())
	}
	return "TOther", "other"
}

// localized argument lists a case could be given: the base arguments and every stored translation of the same
// length (which of them is used is the model's / the direct oracle's business)
func (sc *Scenario) candidateArgs(c *CaseDef) [][]string {
	out := [][]string{c.Args}
	for _, l := range []int{2, 3} {
		if tr := sc.Loc.get(langCodes[l], c.UUID, "arguments"); tr != nil && len(tr) == len(c.Args) {
			out = append(out, tr)
		}
	}
	return out
}

func (sc *Scenario) buildTables(sa flows.SessionAssets, env envs.Environment) (*tables, error) {
	po := sc.drive(sa, env, probeFlowUUID())
	if po.err != nil || po.panicVal != nil || po.session == nil || len(po.session.Runs()) != 1 {
		return nil, fmt.Errorf("probe run failed: err=%v panic=%v", po.err, po.panicVal)
	}
	if sc.needsResume() && len(po.sprints) != 2 {
		return nil, fmt.Errorf("probe run did not wait")
	}
	t := &tables{env: po.session.MergedEnvironment(), run: po.session.Runs()[0], evals: map[string]*evalEntry{}, seenTest: map[string]bool{}}
	if sc.Kind != "switch" {
		return t, nil
	}
	op := t.eval(sc.Operand)
	for i := range sc.Cases {
		c := &sc.Cases[i]
		for _, cand := range sc.candidateArgs(c) {
			ids := make([]int, len(cand))
			for k, a := range cand {
				ids[k] = t.eval(a).ID
			}
			t.callTest(c.Type, op.ID, ids)
		}
	}
	return t, nil
}

// ---------------------------------------------------------------------------------------------------------
// observation

type ResultObs struct {
	Name              string  `json:"name"`
	Value             string  `json:"value"`
	Category          string  `json:"category"`
	CategoryLocalized string  `json:"category_localized"`
	Input             string  `json:"input"`
	Extra             *string `json:"extra"`
}

type SegmentObs struct {
	Exit    string `json:"exit"`
	Operand string `json:"operand"`
	Dest    string `json:"dest"`
}

type EventObs struct {
	Kind int    `json:"kind"` // 0 error 1 warning 2 test error 3 non-object extra 4 run_result_changed 5 failure
	Test string `json:"test,omitempty"`
}

type NodeObs struct {
	Outcome  int         `json:"outcome"` // 0 engine error 1 panic 2 run failed 3 left; -1 node not visited
	Detail   string      `json:"detail,omitempty"`
	StepExit string      `json:"step_exit"`
	Segment  *SegmentObs `json:"segment"`
	Saved    *ResultObs  `json:"saved"`
	Events   []EventObs  `json:"events"`
	// for the direct oracle
	ChangedEvents []ResultObs `json:"changed_events"`
	RunStatus     string      `json:"run_status"`
	SessionStatus string      `json:"session_status"`
	NumSegments   int         `json:"num_segments_from_node"`
	Visited       bool        `json:"visited"`
}

type Obs struct {
	R     NodeObs  `json:"node"`
	// formatted creation times of the run's wait_timed_out events, oldest first (input of RouteTimeout's scan)
	Timeouts []string `json:"timeouts"`
	P     *NodeObs `json:"pre_node,omitempty"`
	D     *NodeObs `json:"dest_node,omitempty"`
	DNode string   `json:"dest_node_uuid,omitempty"`
}

func observeNode(out runOut, sprintIdx int, nodeUUID string, exitUUIDs map[string]bool, resultName string) NodeObs {
	return observeNodeAt(out, sprintIdx, nodeUUID, -1, exitUUIDs, resultName)
}

// occurrence: which visit of the node (0-based) is observed; -1 = the last one
func observeNodeAt(out runOut, sprintIdx int, nodeUUID string, occurrence int, exitUUIDs map[string]bool, resultName string) NodeObs {
	o := NodeObs{Events: []EventObs{}}
	if out.panicVal != nil {
		o.Outcome, o.Detail = 1, fmt.Sprint(out.panicVal)
		return o
	}
	if out.err != nil {
		o.Outcome, o.Detail = 0, out.err.Error()
		return o
	}
	run := out.session.Runs()[0]
	o.RunStatus, o.SessionStatus = string(run.Status()), string(out.session.Status())
	var step flows.Step
	seen := 0
	for _, s := range run.Path() {
		if string(s.NodeUUID()) == nodeUUID {
			if occurrence < 0 || seen == occurrence {
				step = s
			}
			seen++
		}
	}
	if step == nil {
		o.Outcome = -1 // the run never came to this node
		return o
	}
	o.Visited = true
	o.StepExit = string(step.ExitUUID())
	if sprintIdx >= len(out.sprints) {
		return o
	}
	sprint := out.sprints[sprintIdx]
	for _, seg := range sprint.Segments() {
		if exitUUIDs[string(seg.Exit().UUID())] {
			o.NumSegments++
			o.Segment = &SegmentObs{Exit: string(seg.Exit().UUID()), Operand: seg.Operand(), Dest: string(seg.Destination().UUID())}
		}
	}
	failed := false
	for _, e := range sprint.Events() {
		if e.StepUUID() != step.UUID() && !(e.StepUUID() == "" && e.Type() == events.TypeFailure) {
			continue
		}
		switch ev := e.(type) {
		case *events.ErrorEvent:
			switch {
			case strings.HasPrefix(ev.Text, "error calling test "):
				name := strings.TrimPrefix(ev.Text, "error calling test ")
				if i := strings.Index(name, "("); i >= 0 {
					name = name[:i]
				}
				o.Events = append(o.Events, EventObs{Kind: 2, Test: strings.ToLower(name)})
			case strings.HasPrefix(ev.Text, "test ") && strings.HasSuffix(ev.Text, " returned non-object extra"):
				name := strings.TrimSuffix(strings.TrimPrefix(ev.Text, "test "), " returned non-object extra")
				o.Events = append(o.Events, EventObs{Kind: 3, Test: strings.ToLower(name)})
			default:
				o.Events = append(o.Events, EventObs{Kind: 0})
			}
		case *events.WarningEvent:
			o.Events = append(o.Events, EventObs{Kind: 1})
		case *events.RunResultChangedEvent:
			o.Events = append(o.Events, EventObs{Kind: 4})
			r := ResultObs{Name: ev.Name, Value: ev.Value, Category: ev.Category}
			if ev.Extra != nil {
				s := string(ev.Extra)
				r.Extra = &s
			}
			o.ChangedEvents = append(o.ChangedEvents, r)
		case *events.FailureEvent:
			o.Events = append(o.Events, EventObs{Kind: 5})
			failed = true
		}
	}
	if resultName != "" {
		if r := run.Results().Get(utils.Snakify(resultName)); r != nil && string(r.NodeUUID) == nodeUUID {
			o.Saved = &ResultObs{Name: r.Name, Value: r.Value, Category: r.Category, CategoryLocalized: r.CategoryLocalized, Input: r.Input}
			if r.Extra != nil {
				s := string(r.Extra)
				o.Saved.Extra = &s
			}
		}
	}
	switch {
	case failed || (run.Status() == flows.RunStatusFailed && o.StepExit == ""):
		o.Outcome = 2
	default:
		o.Outcome = 3
	}
	return o
}

func (sc *Scenario) routingSprint() int {
	if sc.SecondTimeout {
		return 2
	}
	if sc.needsResume() {
		return 1
	}
	return 0
}

func (sc *Scenario) observe(out runOut) *Obs {
	exits := map[string]bool{}
	for _, e := range sc.Exits {
		exits[e.UUID] = true
	}
	occ := -1
	if sc.SecondTimeout {
		occ = 1
	}
	obs := &Obs{R: observeNodeAt(out, sc.routingSprint(), nodeR(), occ, exits, sc.ResultName), Timeouts: []string{}}
	if out.err == nil && out.panicVal == nil && out.session != nil && len(out.session.Runs()) > 0 {
		for _, e := range out.session.Runs()[0].Events() {
			if _, is := e.(*events.WaitTimedOutEvent); is {
				obs.Timeouts = append(obs.Timeouts, dates.FormatISO(e.CreatedOn()))
			}
		}
	}
	if sc.Pre && out.err == nil && out.panicVal == nil {
		pe := map[string]bool{}
		for j := 0; j < sc.PreExits; j++ {
			pe[exitP(j)] = true
		}
		p := observeNode(out, 0, nodeP(), pe, "")
		obs.P = &p
	}
	// the destination node the run went on to, if any
	if obs.R.Outcome == 3 && obs.R.Segment != nil {
		for k := 0; k < sc.NumDest; k++ {
			if nodeD(k) == obs.R.Segment.Dest {
				d := observeNode(out, sc.routingSprint(), nodeD(k), map[string]bool{exitD(k): true, exitD(64 + k): true}, "")
				obs.D, obs.DNode = &d, nodeD(k)
			}
		}
	}
	return obs
}

func (sc *Scenario) setup() (flows.SessionAssets, envs.Environment, error) {
	dates.SetNowFunc(dates.NewFixedNow(fixedNow))
	src, err := static.NewSource(sc.assetsJSON())
	if err != nil {
		return nil, nil, err
	}
	env := sc.env()
	sa, err := engine.NewSessionAssets(env, src, nil)
	if err != nil {
		return nil, nil, err
	}
	return sa, env, nil
}

// the decimal random.Decimal() makes of the scenario's bits: mantissa, scale (digits after the point), text
func (sc *Scenario) drawDecimal() decimal.Decimal {
	return decimal.NewFromFloat(rand.New(sc.randSource()).Float64())
}
