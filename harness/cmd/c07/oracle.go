package main

// Direct oracle: the sentences of C07 evaluated in Go on what the real engine did, independent of the Coq model.
//
//   "A switch router leaves by the exit of the category of the first case, in definition order, whose test matches
//    the evaluated operand with its localized and evaluated arguments, otherwise by the default category's exit;
//    a timeout resume leaves by the wait's timeout category, a random router by category floor(r*n) for its random
//    draw r, and a node without a router by its first exit.  When a result name is set the saved result carries
//    that category's name, the test's match (the operand itself for the default category) as value and the operand
//    as input; a router that selects no category fails the run instead of choosing arbitrarily."

import (
	"fmt"
	"math/big"

	"github.com/nyaruka/goflow/excellent/types"

	"verifharness/pkg/hx"
)

// the arguments the statement's "localized" refers to (C18's chain: contact language if allowed, then the
// environment's default language, then the base language; a translation of another length is not used)
func (sc *Scenario) localizedArgs(c *CaseDef) []string {
	var cands []int
	// the contact's language at routing time (a child flow may have changed it in the same sprint)
	if cl := sc.effLang(); cl != 0 {
		for _, a := range sc.Allowed {
			if a == cl {
				cands = append(cands, cl)
				break
			}
		}
	}
	if len(sc.Allowed) > 0 {
		cands = append(cands, sc.Allowed[0])
	}
	for _, l := range cands {
		if l == baseLang {
			break
		}
		tr := sc.Loc.get(langCodes[l], c.UUID, "arguments")
		if len(tr) > 0 && !(len(tr) == 1 && tr[0] == "") {
			if len(tr) == len(c.Args) {
				return tr
			}
			return c.Args
		}
	}
	return c.Args
}

// utils.TruncateEllipsis restated: at most n characters (negative = 0), ending in "..." where cut if there is room
func truncEllipsis(s string, n int) string {
	if n < 0 {
		n = 0
	}
	r := []rune(s)
	if len(r) <= n {
		return s
	}
	if n < 3 {
		return string(r[:n])
	}
	return string(r[:n-3]) + "..."
}

func truncRunes(s string, n int) string {
	r := []rune(s)
	if len(r) <= n {
		return s
	}
	return string(r[:n])
}

type expectation struct {
	skip      string // non-empty: the statement is silent on this input (reason)
	branch    string // case | default | none | timeout | random | no-router
	catUUID   string // selected category (by UUID)
	catIndex  int    // >= 0: the selected category is THIS element of the category list (random router)
	value     string
	input     string
	hasValue  bool // value/input are prescribed by the statement
	nMatching int
	errBefore bool // an earlier case errored
	winner    int
	testPanic string // a registered test panicked when called on the operand and the arguments of its case
}

// what the statement prescribes for the node under test
func (sc *Scenario) expect(t *tables) expectation {
	e := expectation{winner: -1, catIndex: -1}
	switch {
	case sc.Kind == "none":
		e.branch = "no-router"
	case sc.needsResume() && sc.Resume == "timeout":
		e.branch = "timeout"
		e.catUUID = sc.Cats[sc.TimeoutCat].UUID
	case sc.Kind == "random":
		e.branch = "random"
		d := sc.drawDecimal()
		r, ok := new(big.Rat).SetString(d.String())
		if !ok {
			e.skip = "draw does not parse"
			return e
		}
		n := int64(len(sc.Cats))
		prod := new(big.Rat).Mul(r, big.NewRat(n, 1))
		idx := new(big.Int).Quo(prod.Num(), prod.Denom()) // floor, r*n >= 0
		if !idx.IsInt64() || idx.Int64() < 0 || idx.Int64() >= n {
			e.skip = "floor(r*n) outside the categories"
			return e
		}
		e.catUUID = sc.Cats[idx.Int64()].UUID
		e.catIndex = int(idx.Int64())
		e.input, e.value, e.hasValue = d.String(), "", false
	default:
		e.branch = "switch"
		op := t.eval(sc.Operand)
		opText, _ := t.text(op.ID)
		e.input = opText
		errSeen := false
		for i := range sc.Cases {
			c := &sc.Cases[i]
			largs := sc.localizedArgs(c)
			ids := make([]int, len(largs))
			for k, a := range largs {
				ids[k] = t.eval(a).ID
			}
			res, panicked := t.callTest(c.Type, op.ID, ids)
			if panicked {
				e.skip = "test panics"
				e.testPanic = c.Type
				return e
			}
			switch typed := res.(type) {
			case *types.XError:
				if e.winner < 0 {
					errSeen = true
				}
			case *types.XObject:
				if typed.Truthy() {
					e.nMatching++
					if e.winner < 0 {
						e.winner = i
						e.errBefore = errSeen
						m, _ := typed.Get("match")
						mt, xerr := types.ToXText(t.env, m)
						if xerr != nil {
							e.skip = "match is not convertible to text"
							return e
						}
						e.value = mt.Native()
					}
				}
			default:
				if e.winner < 0 {
					e.skip = "test result is neither an error nor a test result"
					return e
				}
			}
		}
		e.hasValue = true
		switch {
		case e.winner >= 0:
			e.branch = "case"
			e.catUUID = sc.Cats[sc.Cases[e.winner].Cat].UUID
		case sc.Default >= 0:
			e.branch = "default"
			e.errBefore = errSeen
			e.catUUID = sc.Cats[sc.Default].UUID
			e.value = opText
		default:
			e.branch = "none"
			e.errBefore = errSeen
		}
	}
	return e
}

func (sc *Scenario) nontrivial(e expectation) bool {
	switch e.branch {
	case "case":
		return e.nMatching >= 2 || e.errBefore
	case "default", "none", "timeout":
		return true
	case "random":
		return len(sc.Cats) >= 2
	case "no-router":
		return len(sc.Exits) >= 2
	}
	return false
}

// categories the statement's "the category" can denote: those carrying the selected UUID
func (sc *Scenario) catsWithUUID(u string) []CatDef {
	var out []CatDef
	for _, c := range sc.Cats {
		if c.UUID == u {
			out = append(out, c)
		}
	}
	return out
}

func (sc *Scenario) exitDest(exitUUID string) (string, bool) {
	for _, e := range sc.Exits {
		if e.UUID == exitUUID {
			return sc.destUUID(e.Dest), true
		}
	}
	return "", false
}

func (sc *Scenario) directOracle(e expectation, obs *Obs, res *hx.Result, input any) {
	fail := func(class, detail string) { res.Fail(sc.Kind+":"+e.branch+":"+class, input, detail) }
	o := &obs.R

	// nodes without a router leave by their first exit: the pre node and the destination node ...
	if obs.P != nil && obs.P.Visited {
		res.OracleChecks++
		if obs.P.Outcome != 3 || obs.P.StepExit != exitP(0) {
			res.Fail("pre-node:no-router:first-exit", input, fmt.Sprintf("node without router left by %q, its first exit is %q", obs.P.StepExit, exitP(0)))
		}
	}
	if obs.D != nil && obs.D.Visited {
		res.OracleChecks++
		first := ""
		for k := 0; k < sc.NumDest; k++ {
			if nodeD(k) == obs.DNode {
				first = exitD(k)
			}
		}
		if obs.D.Outcome != 3 || obs.D.StepExit != first {
			res.Fail("dest-node:no-router:first-exit", input, fmt.Sprintf("node without router left by %q, its first exit is %q", obs.D.StepExit, first))
		}
	}
	if o.Outcome < 0 {
		return
	}
	if e.testPanic != "" && !isExt(e.testPanic) {
		// "leaves by the exit of the category of the first case ... otherwise by the default category's exit": a built-in test
		// that panics takes the whole engine call down instead (the router neither leaves by an exit nor fails the run)
		res.OracleChecks++
		class := "switch:test-panics:" + e.testPanic
		if _, _, defined := sc.collation(); !defined {
			class = "env:input-collation-undefined:test-panics"
		}
		res.Fail(class, input, fmt.Sprintf("test %s panics on the operand and arguments of its case (input_collation=%q); engine outcome=%d %s",
			e.testPanic, sc.Collation, o.Outcome, o.Detail))
		return
	}
	if e.skip != "" {
		res.Dist("oracle_skipped:" + e.skip)
		return
	}
	res.OracleChecks++
	if o.Outcome < 2 {
		// the statement leaves no room for an engine error or a panic on these inputs (every test returned an error or a
		// test result with a convertible match, every referenced category exists)
		fail("engine-error", fmt.Sprintf("engine call failed: outcome=%d %s", o.Outcome, o.Detail))
		return
	}

	// ... and so does the node under test when it has none
	if e.branch == "no-router" {
		if o.Outcome != 3 || o.StepExit != sc.Exits[0].UUID {
			fail("first-exit", fmt.Sprintf("left by %q, first exit is %q", o.StepExit, sc.Exits[0].UUID))
		}
		sc.checkSegment(e, o, "", fail)
		return
	}

	// "a router that selects no category fails the run instead of choosing arbitrarily"
	if e.branch == "none" {
		if o.Outcome != 2 || o.RunStatus != "failed" {
			fail("not-failed", fmt.Sprintf("no case matched and there is no default, but outcome=%d run=%s exit=%q", o.Outcome, o.RunStatus, o.StepExit))
		}
		if o.StepExit != "" || o.Segment != nil {
			fail("exit-chosen", fmt.Sprintf("no category selected but the step left by %q (segment %v)", o.StepExit, o.Segment))
		}
		if o.Saved != nil {
			fail("result-saved", fmt.Sprintf("no category selected but result saved: %+v", *o.Saved))
		}
		return
	}

	cands := sc.catsWithUUID(e.catUUID)
	if e.catIndex >= 0 {
		// "category floor(r*n)": that element of the list, whatever other categories share its UUID
		cands = []CatDef{sc.Cats[e.catIndex]}
	}
	if o.Outcome != 3 {
		fail("failed", fmt.Sprintf("category %s selected but the run did not leave the node: outcome=%d run=%s", e.catUUID, o.Outcome, o.RunStatus))
		return
	}
	// the exit is the selected category's
	var sel *CatDef
	for i := range cands {
		if sc.Exits[cands[i].Exit].UUID == o.StepExit && (o.Saved == nil || o.Saved.Category == cands[i].Name) {
			sel = &cands[i]
			break
		}
	}
	if sel == nil {
		want := []string{}
		for _, c := range cands {
			want = append(want, fmt.Sprintf("%q->%s", c.Name, sc.Exits[c.Exit].UUID))
		}
		saved := "<none>"
		if o.Saved != nil {
			saved = o.Saved.Category
		}
		if e.catIndex >= 0 {
			// the defect repaired by "fix: random router routes via the category it drew": the drawn category was
			// looked up again by UUID and an earlier category carrying the same UUID was taken
			for i := 0; i < e.catIndex; i++ {
				c := sc.Cats[i]
				if c.UUID == e.catUUID && sc.Exits[c.Exit].UUID == o.StepExit && (o.Saved == nil || o.Saved.Category == c.Name) {
					res.Fail("random:duplicate-category-uuid:first-uuid-wins", input, fmt.Sprintf("draw selects category %d %q (exit %s) but the run left by category %d %q (exit %s), the first one with the same UUID",
						e.catIndex, sc.Cats[e.catIndex].Name, sc.Exits[sc.Cats[e.catIndex].Exit].UUID, i, c.Name, o.StepExit))
					return
				}
			}
		}
		fail("exit", fmt.Sprintf("left by %q with saved category %q; the statement prescribes category %s = %v (winner case %d, %d matching)",
			o.StepExit, saved, e.catUUID, want, e.winner, e.nMatching))
		return
	}
	// the saved result
	if sc.ResultName != "" {
		if o.Saved == nil {
			fail("result-missing", "result name set but the router saved no result")
		} else {
			if o.Saved.Name != sc.ResultName {
				fail("result-name", fmt.Sprintf("saved under %q, result name is %q", o.Saved.Name, sc.ResultName))
			}
			if e.hasValue {
				if want := truncRunes(e.value, sc.MaxResult); o.Saved.Value != want {
					fail("result-value", fmt.Sprintf("value %q, statement prescribes %q", o.Saved.Value, want))
				}
				// "the operand as input" - as far as the engine's limit on stored evaluated text (MaxTemplateChars, C05) lets it
				wantInput := truncEllipsis(e.input, sc.maxTemplate())
				if wantInput != e.input {
					res.Dist("input_cut_to_max_template_chars")
				}
				if o.Saved.Input != wantInput {
					fail("result-input", fmt.Sprintf("input %.80q (%d chars), operand is %.80q (%d chars, limit %d)", o.Saved.Input, len([]rune(o.Saved.Input)), e.input, len([]rune(e.input)), sc.maxTemplate()))
				}
			}
			if e.branch == "random" && o.Saved.Input != truncEllipsis(e.input, sc.maxTemplate()) {
				fail("draw", fmt.Sprintf("recorded draw %q, the generator's draw is %q", o.Saved.Input, e.input))
			}
			for _, ce := range o.ChangedEvents {
				if ce.Name != o.Saved.Name || ce.Value != o.Saved.Value || ce.Category != o.Saved.Category {
					fail("event-differs", fmt.Sprintf("run_result_changed %+v differs from saved result %+v", ce, *o.Saved))
				}
			}
		}
	} else if o.Saved != nil {
		fail("result-unnamed", "no result name but a result was saved")
	}
	operand := e.input
	if e.branch == "timeout" {
		operand = ""
	}
	sc.checkSegment(e, o, operand, fail)
}

// exit in the path = exit in the segment; operand and destination as defined
func (sc *Scenario) checkSegment(e expectation, o *NodeObs, operand string, fail func(string, string)) {
	dest, known := sc.exitDest(o.StepExit)
	if !known {
		fail("unknown-exit", fmt.Sprintf("step left by %q which is no exit of the node", o.StepExit))
		return
	}
	if dest == "" {
		if o.Segment != nil {
			fail("segment-spurious", fmt.Sprintf("exit %s has no destination but a segment was logged: %+v", o.StepExit, *o.Segment))
		}
		return
	}
	if o.Segment == nil || o.NumSegments != 1 {
		fail("segment-missing", fmt.Sprintf("exit %s leads to %s but %d segments were logged", o.StepExit, dest, o.NumSegments))
		return
	}
	if o.Segment.Exit != o.StepExit || o.Segment.Dest != dest {
		fail("segment-exit", fmt.Sprintf("segment %+v, path exit %s, destination %s", *o.Segment, o.StepExit, dest))
	}
	if o.Segment.Operand != operand {
		fail("segment-operand", fmt.Sprintf("segment operand %q, operand is %q", o.Segment.Operand, operand))
	}
}
