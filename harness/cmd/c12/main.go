// Driver for C12 (literal text and string literals are represented faithfully).
//
// Streams (every random choice derives from the run's PRNG):
//
//	scan      random templates over an alphabet weighted towards " \ ( ) @ . newline, control and non-BMP
//	          characters -> token list of the REAL excellent.NewXScanner (with nil / various allowed
//	          top-level lists, both unescape settings) -> cases_C12s_*.v for model/ExScanner.v
//	tpl       templates whose expressions lie in the fragment the model evaluates (text literals, &,
//	          parentheses, top-level text lookups) -> Evaluator.Template output -> cases_C12t_*.v for
//	          model/ExTemplate.v (scanner + lexer + parser + evaluator model)
//	oracle    the property sentence evaluated directly on the real evaluator (independent of the models):
//	  O1 body text without expression start passes through, '@@' -> '@', other '@' literal
//	  O2 Template("@(" + quote(s) + ")") == s
//	  O3 Template(b1 + "@(" + quote(s) + " & " + quote(t) + ")" + b2) == body(b1) + s + t + body(b2)
//	  O4 the scanner ends an expression where the parser does: for e that the real parser accepts,
//	     scanning "@(" + e + ")" + rest yields (EXPRESSION, e) first; and every EXPRESSION token the scanner
//	     cuts out of a random template has balanced parentheses outside TEXT tokens for the real lexer.
package main

import (
	"encoding/json"
	"fmt"
	"os"
	"strconv"
	"strings"
	"unicode"
	"unicode/utf8"

	"github.com/antlr4-go/antlr/v4"
	gen "github.com/nyaruka/goflow/antlr/gen/excellent3"
	"github.com/nyaruka/goflow/envs"
	"github.com/nyaruka/goflow/excellent"
	"github.com/nyaruka/goflow/excellent/functions"
	"github.com/nyaruka/goflow/excellent/types"

	"verifharness/pkg/exsx"
	"verifharness/pkg/hx"
)

// ---------------------------------------------------------------------------------------------
// running the real code

type tok struct {
	T int    `json:"t"`
	S string `json:"s"`
}

func scanReal(tpl string, tops []string, unescape bool) (toks []tok, panicked bool) {
	defer func() {
		if r := recover(); r != nil {
			panicked = true
		}
	}()
	sc := excellent.NewXScanner(strings.NewReader(tpl), tops)
	sc.SetUnescapeBody(unescape)
	for i := 0; i < len(tpl)+5; i++ {
		tt, s := sc.Scan()
		if tt == excellent.EOF {
			return toks, false
		}
		toks = append(toks, tok{int(tt), s})
	}
	return toks, false
}

var env = envs.NewBuilder().Build()

func ctxOf(vals map[string]string) *types.XObject {
	m := map[string]types.XValue{}
	for k, v := range vals {
		m[k] = types.NewXText(v)
	}
	return types.NewXObject(m)
}

func templateReal(tpl string, vals map[string]string) (out string, hasErr bool, panicked string) {
	defer func() {
		if r := recover(); r != nil {
			panicked = fmt.Sprint(r)
		}
	}()
	o, _, err := excellent.NewEvaluator().Template(env, ctxOf(vals), tpl, nil)
	return o, err != nil, ""
}

type ltok struct {
	Kind string
	Text string
}

func lexReal(e string) []ltok {
	l := gen.NewExcellent3Lexer(antlr.NewInputStream(e))
	l.RemoveErrorListeners()
	var out []ltok
	for _, t := range l.GetAllTokens() {
		out = append(out, ltok{l.SymbolicNames[t.GetTokenType()], t.GetText()})
	}
	return out
}

// inFragment decides, on the REAL scanner/lexer/parser, whether every expression of the template lies in the
// fragment model/ExTemplate.v evaluates: text literals (whose escapes do not denote raw bytes >= 0x80, where
// the result of strconv.Unquote is not a code point list), null, context properties (a NAME that is not
// a function), parentheses and &.  Expressions the real parser rejects are inside (the model must reject them too).
func inFragment(tpl string, keys []string) (bool, string) {
	toks, p := scanReal(tpl, keys, true)
	if p {
		return false, "scanner-panic"
	}
	for _, t := range toks {
		if t.T != int(excellent.IDENTIFIER) && t.T != int(excellent.EXPRESSION) {
			continue
		}
		for _, lt := range lexReal(t.S) {
			if lt.Kind == "TEXT" && rawByteEscape(lt.Text) {
				return false, "raw-byte-escape"
			}
		}
		parsed, err := excellent.Parse(t.S, nil)
		if err != nil {
			continue
		}
		ok, why := true, ""
		parsed.Visit(func(e excellent.Expression) {
			switch n := e.(type) {
			case *excellent.TextLiteral, *excellent.NullLiteral, *excellent.Parentheses, *excellent.Concatenation:
			case *excellent.ContextReference:
				if functions.Lookup(n.Name) != nil {
					ok, why = false, "function-name"
				}
			default:
				ok, why = false, fmt.Sprintf("%T", e)
			}
		})
		if !ok {
			return false, why
		}
	}
	return true, ""
}

// rawByteEscape: the double-quoted lexeme is accepted by strconv.Unquote and one of its \xHH / \ooo
// escapes denotes a single byte >= 0x80
func rawByteEscape(lexeme string) bool {
	if _, err := strconv.Unquote(lexeme); err != nil || len(lexeme) < 2 {
		return false
	}
	s := lexeme[1 : len(lexeme)-1]
	for len(s) > 0 {
		v, mb, tail, err := strconv.UnquoteChar(s, '"')
		if err != nil {
			return false
		}
		if !mb && v >= 0x80 {
			return true
		}
		s = tail
	}
	return false
}

// ---------------------------------------------------------------------------------------------
// the statement, in Go (used by the direct oracle only)

func isNameRune(c rune) bool { return unicode.IsLetter(c) || unicode.IsNumber(c) || c == '_' }

// specBody: what a template WITHOUT expressions must evaluate to.  ok=false when the text contains an
// expression start ("@(" or "@" + a name whose top level is allowed), i.e. is outside the sentence.
func specBody(t string, tops map[string]bool) (string, bool) { return specBodyTops(t, tops, false) }

// allowAll: every name is an allowed top level (nil list)
func specBodyTops(t string, tops map[string]bool, allowAll bool) (string, bool) {
	rs := []rune(t)
	var sb strings.Builder
	for i := 0; i < len(rs); {
		c := rs[i]
		if c != '@' {
			sb.WriteRune(c)
			i++
			continue
		}
		if i+1 >= len(rs) {
			sb.WriteRune('@')
			i++
			continue
		}
		n := rs[i+1]
		switch {
		case n == '@':
			sb.WriteRune('@')
			i += 2
		case n == '(':
			return "", false
		case isNameRune(n):
			// a name path: name characters, and dots that are followed by a name character
			j := i + 1
			for j < len(rs) && (isNameRune(rs[j]) || (rs[j] == '.' && j+1 < len(rs) && isNameRune(rs[j+1]))) {
				j++
			}
			path := string(rs[i+1 : j])
			top := strings.ToLower(strings.SplitN(path, ".", 2)[0])
			if allowAll || tops[top] {
				return "", false
			}
			sb.WriteString("@" + path)
			i = j
		default:
			sb.WriteRune('@')
			i++
		}
	}
	return sb.String(), true
}

func feature(s string) string {
	switch {
	case strings.HasSuffix(s, `\`):
		return "ends-in-backslash"
	case strings.Contains(s, `\`) && strings.Contains(s, `"`):
		return "backslash-and-quote"
	case strings.Contains(s, `\`):
		return "backslash"
	case strings.Contains(s, `"`):
		return "quote"
	case strings.ContainsAny(s, "()"):
		return "parenthesis"
	case strings.Contains(s, "@"):
		return "at-sign"
	}
	for _, c := range s {
		if c < 32 || c == 127 {
			return "control"
		}
	}
	for _, c := range s {
		if c > 0xFFFF {
			return "non-bmp"
		}
	}
	for _, c := range s {
		if c > 127 {
			return "non-ascii"
		}
	}
	return "plain"
}

// ---------------------------------------------------------------------------------------------
// generators

var specialPieces = []string{`"`, `"`, `\`, `\`, `(`, `)`, `@`, `@`, `.`, "\n", `\\`, `\"`, `@@`, `@(`, `")`, `"\`, `\\"`,
	`)"`, `("`, `@.`, `@)`, ` `, `&`, `"" `}
var namePieces = []string{"foo", "Foo", "FOO", "bar", "contact", "x1", "_", "_a", "9", "é", "Ünï", "名前", "𝒳", "٣", "a", "b", "²", "Ⅷ", "½", "x²", "ǅ", "ʰ"}
var otherPieces = []string{" ", "  ", "\t", "\r\n", "\x01", "\x7f", " ", "😀", "🙂", "!", "-", "+", ",", "[", "]", "=", "1", "2.5",
	" ", "\ufeff", "'", "`", "#", "$", "%", "€"}
var identPieces = []string{"@foo", "@foo.bar", "@Foo.x", "@bar", "@bar.baz", "@contact.name", "@foo.", "@foo..x", "@foo.1", "@x@y.z",
	"bob@nyaruka.com", "@_x", "@9", "@é", "@Ünï.b", "@名前", "@foo@@", "@x²", "@foo.½", "@Ⅷ", "@foo²", "@x.²"}

func randString(r *hx.Rand, maxPieces int) string {
	n := r.Range(0, maxPieces)
	var sb strings.Builder
	for i := 0; i < n; i++ {
		switch k := r.Intn(10); {
		case k < 5:
			sb.WriteString(hx.Pick(r, specialPieces))
		case k < 7:
			sb.WriteString(hx.Pick(r, namePieces))
		case k < 9:
			sb.WriteString(hx.Pick(r, otherPieces))
		default:
			sb.WriteString(hx.Pick(r, identPieces))
		}
	}
	return sb.String()
}

// a random string VALUE for a literal (any valid UTF-8 without NUL)
func randValue(r *hx.Rand) string {
	switch r.Intn(8) {
	case 0:
		return strings.Repeat(`\`, r.Range(1, 4))
	case 1:
		return randString(r, 3) + strings.Repeat(`\`, r.Range(1, 3))
	case 2:
		return ""
	default:
		return randString(r, 6)
	}
}

// body text (may or may not contain expression starts; the oracle asks specBody)
func randBody(r *hx.Rand) string {
	n := r.Range(0, 6)
	var sb strings.Builder
	for i := 0; i < n; i++ {
		switch k := r.Intn(12); {
		case k < 3:
			sb.WriteString(hx.Pick(r, []string{"@", "@@", "@ ", "@.", "@@@", "@-", "@\n", `@"`, "@)", "@😀"}))
		case k < 5:
			sb.WriteString(hx.Pick(r, []string{"bob@nyaruka.com", "@bar", "@bar.baz", "@Bar_1.x", "hi @mention!", "@é", "@9lives", "@_", "x@y.z.", "@x²", "@foo½", "@Ⅷ", "me@x².com", "@x.²", "@foo_", "@x-", "@x١"}))
		case k < 8:
			sb.WriteString(hx.Pick(r, namePieces))
		case k < 11:
			sb.WriteString(hx.Pick(r, otherPieces))
		default:
			sb.WriteString(hx.Pick(r, []string{`"`, `\`, `(`, `)`, `.`, `("`, `\"`}))
		}
	}
	return sb.String()
}

var topsChoices = [][]string{nil, {}, {"foo"}, {"foo", "contact"}, {"bar", "foo"}, {"ünï", "x"}, {"Foo"}, {"名前", "_x", "9"}}

// ---------------------------------------------------------------------------------------------
// expressions inside the evaluable fragment (for the tpl stream and O4)

func randFragExpr(r *hx.Rand, depth int, keys []string) string {
	ws := func() string { return hx.Pick(r, []string{"", "", " ", "  ", "\n", "\t"}) }
	if depth <= 0 || r.Intn(3) == 0 {
		switch k := r.Intn(10); {
		case k < 6:
			return strconv.Quote(randValue(r))
		case k < 7 && len(keys) > 0:
			return hx.Pick(r, keys)
		case k < 8:
			// hand-written literals: escapes Go accepts, escapes it rejects (fallback = raw), raw specials
			return hx.Pick(r, []string{`"\w+"`, `"a\tb"`, `"é"`, `"\x41"`, `"\101"`, `"it's"`, `"\'"`, "\"a\nb\"", `"\U0001F600"`,
				`"\ud800"`, `"()"`, `")"`, `"@foo"`, `"@@"`, `"\\"`, `"\\\\"`, `"a\\"`, `"\q\""`, `"é😀"`, `"\a\b\f\v"`, `"\x4"`, `"\400"`})
		default:
			return strconv.Quote(hx.Pick(r, namePieces))
		}
	}
	switch r.Intn(4) {
	case 0:
		return "(" + ws() + randFragExpr(r, depth-1, keys) + ws() + ")"
	default:
		return randFragExpr(r, depth-1, keys) + ws() + "&" + ws() + randFragExpr(r, depth-1, keys)
	}
}

// ---------------------------------------------------------------------------------------------

func coqScanCase(tpl string, tops []string, unescape bool, toks []tok, panicked bool) string {
	allTops := strings.Join(tops, "")
	return fmt.Sprintf("{| k_tops := %s; k_unesc := %s; k_in := %s; k_ln := %s; k_low := %s; k_panic := %s; k_toks := %s |}",
		exsx.OptTexts(tops, tops == nil), hx.Bool(unescape), hx.Str(tpl),
		exsx.RuneSet(exsx.IsLN, tpl), exsx.RuneMap(unicode.ToLower, tpl, allTops), hx.Bool(panicked),
		hx.List(toks, func(t tok) string { return fmt.Sprintf("(%d%%N, %s)", t.T, hx.Str(t.S)) }))
}

func coqTplCase(tpl string, keys []string, vals map[string]string, out string, hasErr bool) string {
	kv := make([]string, len(keys))
	for i, k := range keys {
		kv[i] = fmt.Sprintf("(%s, %s)", hx.Str(k), hx.Str(vals[k]))
	}
	return fmt.Sprintf("{| t_ctx := [%s]; t_in := %s; t_ln := %s; t_low := %s; t_out := %s; t_err := %s |}",
		strings.Join(kv, "; "), hx.Str(tpl), exsx.RuneSet(exsx.IsLN, tpl), exsx.RuneMap(unicode.ToLower, tpl, strings.Join(keys, "")),
		hx.Str(out), hx.Bool(hasErr))
}

const scanHeader = `From Coq Require Import List NArith Bool.
From Verif Require Import model.ExScanner model.ExScannerCorr.
Import ListNotations.
Open Scope N_scope.
Definition cases : list scase := [`

const tplHeader = `From Coq Require Import List NArith Bool.
From Verif Require Import model.ExScanner model.ExTemplateCorr.
Import ListNotations.
Open Scope N_scope.
Definition cases : list tcase := [`

const footer = "].\nDefinition M := Eval vm_compute in mismatches cases.\nPrint M."

func validInput(s string) bool { return utf8.ValidString(s) && !strings.ContainsRune(s, 0) }

func main() {
	o := hx.ParseOpts()
	res := hx.NewResult(o, "random templates / string values over an alphabet weighted towards \" \\ ( ) @ . newline, control, non-BMP; "+
		"non-trivial = contains one of \" \\ ( ) @ adjacent to another of them; distinct = distinct input string")
	r := hx.NewRand(o.Seed)
	withTpl := os.Getenv("C12_NO_TPL") == ""

	scanSh := &exsx.Sharder{O: o, Res: res, Prefix: "C12s", Header: scanHeader, Footer: footer, Shard: 400}
	tplSh := &exsx.Sharder{O: o, Res: res, Prefix: "C12t", Header: tplHeader, Footer: footer, Shard: 250}

	// ------------------------------------------------------------------ scanner correspondence
	doScan := func(tpl string, tops []string, unescape bool) {
		if !utf8.ValidString(tpl) {
			return
		}
		toks, p := scanReal(tpl, tops, unescape)
		res.Eval("scan:"+tpl, exsx.Special(tpl))
		for _, t := range toks {
			res.Dist(fmt.Sprintf("scan:token=%d", t.T))
		}
		scanSh.Add(coqScanCase(tpl, tops, unescape, toks, p), map[string]any{"template": tpl, "tops": tops, "unescape": unescape}, toks)
		// O4 (second half): every EXPRESSION the scanner cuts out is parenthesis-balanced for the real lexer
		if validInput(tpl) {
			for _, t := range toks {
				if t.T != int(excellent.EXPRESSION) {
					continue
				}
				res.OracleChecks++
				depth, bad := 0, false
				for _, lt := range lexReal(t.S) {
					if lt.Kind == "LPAREN" {
						depth++
					} else if lt.Kind == "RPAREN" {
						depth--
						if depth < 0 {
							bad = true
						}
					}
				}
				if bad || depth != 0 {
					cls := "scanner-lexer-agree:unbalanced-for-lexer"
					if hasTrailingBackslashLiteralBeforeQuote(t.S) {
						cls = "scanner-lexer-agree:literal-ends-in-backslash-before-later-quote"
					}
					res.Fail(cls, map[string]any{"template": tpl, "expression": t.S}, "scanner returned an EXPRESSION whose parentheses are not balanced for the lexer")
				}
			}
		}
	}

	corpus := []string{``, `@`, `@@`, `@@@`, `a@`, `@.`, `@(`, `@()`, `@("a\\")`, `@("\\")`, `@("a\\" & "b")`, `@("a\\" & ")")`, `@("a\"b")`,
		`bob@nyaruka.com`, `@foo`, `@foo.bar`, `@foo.`, `@foo..bar`, `@foo.bar.`, `@Foo.Bar`, `@bar`, `hi @bar.baz!`, `@("(")`, `@(")")`, `@((1))`,
		`@(1`, `@(")`, `@("\")`, `@("\"")`, `@("\\\")")`, `@(foo) @(bar)`, `x @@foo y`, `@@(foo)`, `@ (foo)`, "@\x00foo", "a\x00b", `@("a" & "b")`,
		`@foo@foo`, `@foo.@foo`, `@foo.1`, `@1`, `@_`, `@é`, `@ünï.x`, `@ÜNÏ`, `@"`, `@\`, `@(@(1))`, `@(")" & "(")`, `@("\\" & "x")`, `@@@foo`, `@@@@`,
		`@(` + strconv.Quote("a\nb\x01😀") + `)`}
	for _, c := range corpus {
		for _, tops := range [][]string{nil, {"foo"}, {"ünï", "foo", "contact"}} {
			doScan(c, tops, true)
		}
		doScan(c, []string{"foo"}, false)
	}
	nScan := o.Count(1500, 60000)
	rs := r.Fork("scan")
	for i := 0; i < nScan; i++ {
		tpl := randString(rs, 10)
		if rs.Intn(6) == 0 {
			tpl = randBody(rs) + "@(" + randFragExpr(rs, 2, []string{"foo"}) + ")" + randBody(rs)
		}
		doScan(tpl, hx.Pick(rs, topsChoices), rs.Intn(5) != 0)
	}
	scanSh.Flush()

	// ------------------------------------------------------------------ template correspondence
	vals := map[string]string{"foo": "bar", "x": "", "名前": "v\\\"@(1)"}
	keys := hx.SortedKeys(vals)
	topSet := map[string]bool{}
	for _, k := range keys {
		topSet[k] = true
	}
	doTpl := func(tpl string) {
		if !utf8.ValidString(tpl) {
			return
		}
		out, hasErr, p := templateReal(tpl, vals)
		if p != "" {
			res.Fail("template-panic", tpl, p)
			return
		}
		if !utf8.ValidString(out) {
			res.Dist("tpl:output-not-utf8(skipped)")
			return
		}
		if ok, why := inFragment(tpl, keys); !ok {
			res.Dist("tpl:outside-fragment(skipped):" + why)
			return
		}
		res.Eval("tpl:"+tpl, exsx.Special(tpl))
		res.Dist(fmt.Sprintf("tpl:err=%v", hasErr))
		res.Sample(map[string]any{"template": tpl, "output": out, "error": hasErr})
		if withTpl {
			tplSh.Add(coqTplCase(tpl, keys, vals, out, hasErr), map[string]any{"template": tpl}, map[string]any{"out": out, "err": hasErr})
		}
	}
	for _, c := range corpus {
		doTpl(c)
	}
	nTpl := o.Count(600, 30000)
	rt := r.Fork("tpl")
	for i := 0; i < nTpl; i++ {
		n := rt.Range(1, 3)
		var sb strings.Builder
		sb.WriteString(randBody(rt))
		for j := 0; j < n; j++ {
			if rt.Intn(5) == 0 {
				sb.WriteString(hx.Pick(rt, []string{"@foo", "@x", "@名前", "@FOO", "@foo.bar"}))
			} else {
				sb.WriteString("@(" + randFragExpr(rt, 2, keys) + ")")
			}
			sb.WriteString(randBody(rt))
		}
		doTpl(sb.String())
	}
	tplSh.Flush()

	// ------------------------------------------------------------------ direct oracle
	ro := r.Fork("oracle")
	nOr := o.Count(3000, 150000)

	// O1
	o1 := func(t string) {
		if !validInput(t) {
			return
		}
		want, ok := specBody(t, topSet)
		if !ok {
			res.Dist("O1:has-expression(skipped)")
			return
		}
		res.OracleChecks++
		res.Eval("O1:"+t, exsx.Special(t))
		got, hasErr, p := templateReal(t, vals)
		if p != "" || hasErr || got != want {
			f := "plain"
			switch {
			case strings.Contains(t, "@@"):
				f = "at-at"
			case strings.HasSuffix(t, "@"):
				f = "at-eof"
			case strings.Contains(t, "@"):
				f = "at-literal"
			}
			res.Fail("body-passthrough:"+f, t, fmt.Sprintf("Template(%q) = %q err=%v panic=%q, statement prescribes %q", t, got, hasErr, p, want))
		}
	}
	// O1 on the scanner API (VisitTemplate), also with a nil allowed list (= every name is allowed): text without
	// expression start must come back as BODY tokens only, whose concatenation is the prescribed text
	o1scan := func(t string, tops []string) {
		if !validInput(t) {
			return
		}
		var set map[string]bool
		allowAll := tops == nil
		if !allowAll {
			set = map[string]bool{}
			for _, k := range tops {
				set[k] = true
			}
		}
		want, ok := specBodyTops(t, set, allowAll)
		if !ok {
			return
		}
		res.OracleChecks++
		var sb strings.Builder
		nonBody := false
		func() {
			defer func() {
				if r := recover(); r != nil {
					nonBody = true
				}
			}()
			excellent.VisitTemplate(t, tops, true, func(tt excellent.XTokenType, tok string) error {
				if tt != excellent.BODY {
					nonBody = true
				}
				sb.WriteString(tok)
				return nil
			})
		}()
		if nonBody || sb.String() != want {
			f := "plain"
			switch {
			case strings.Contains(t, "@@"):
				f = "at-at"
			case strings.HasSuffix(t, "@"):
				f = "at-eof"
			case strings.Contains(t, "@"):
				f = "at-literal"
			}
			res.Fail("body-passthrough-scan:"+f, map[string]any{"template": t, "tops": tops},
				fmt.Sprintf("VisitTemplate(%q, %v) gave non-body=%v text=%q, statement prescribes body text %q", t, tops, nonBody, sb.String(), want))
		}
	}
	for _, c := range corpus {
		o1(c)
		o1scan(c, nil)
		o1scan(c, keys)
	}
	for i := 0; i < nOr; i++ {
		b := randBody(ro)
		o1(b)
		o1scan(b, nil)
		if i%3 == 0 {
			o1scan(b, hx.Pick(ro, topsChoices))
		}
	}

	// O2, O3
	o2 := func(s string) {
		if !validInput(s) {
			return
		}
		res.OracleChecks++
		tpl := "@(" + strconv.Quote(s) + ")"
		res.Eval("O2:"+s, exsx.Special(tpl))
		res.Dist("O2:value=" + feature(s))
		got, hasErr, p := templateReal(tpl, vals)
		if p != "" || hasErr || got != s {
			res.Fail("literal-alone:"+feature(s), map[string]any{"value": s, "template": tpl},
				fmt.Sprintf("Template(%q) = %q err=%v panic=%q, want %q", tpl, got, hasErr, p, s))
		}
	}
	o3 := func(b1, s, t, b2 string) {
		if !validInput(b1 + s + t + b2) {
			return
		}
		w1, ok1 := specBody(b1, topSet)
		w2, ok2 := specBody(b2, topSet)
		if !ok1 {
			b1, w1 = "", ""
		}
		if !ok2 {
			b2, w2 = "", ""
		}
		// b1 must not end in '@' (it would pair with the '@' of the expression: "@@(" is an escaped '@')
		if strings.HasSuffix(b1, "@") {
			b1, w1 = b1+" ", w1+" "
		}
		res.OracleChecks++
		tpl := b1 + "@(" + strconv.Quote(s) + " & " + strconv.Quote(t) + ")" + b2
		res.Eval("O3:"+tpl, exsx.Special(tpl))
		want := w1 + s + t + w2
		got, hasErr, p := templateReal(tpl, vals)
		if p != "" || hasErr || got != want {
			cls := "literal-neighbours:" + feature(s) + "+" + feature(t)
			if strings.HasSuffix(s, `\`) {
				cls = "literal-neighbours:left-ends-in-backslash-before-later-quote"
			}
			res.Fail(cls, map[string]any{"s": s, "t": t, "template": tpl}, fmt.Sprintf("Template(%q) = %q err=%v panic=%q, want %q", tpl, got, hasErr, p, want))
		}
	}
	// O2/O3 at the size limits of the evaluator (review 2, N1): a text literal is a value of its own length, so it is
	// written out whatever its length; a concatenation may refuse a result above types.MaxTextLength with an ERROR, but
	// a template never silently loses a value
	llClass := "literal-faithful:value-at-size-limit-lost"
	longLiteral := func(name string, parts []string, mayRefuse bool) {
		res.OracleChecks++
		quoted := make([]string, len(parts))
		for i, p := range parts {
			quoted[i] = strconv.Quote(p)
		}
		tpl := "x @(" + strings.Join(quoted, " & ") + ") y"
		want := "x " + strings.Join(parts, "") + " y"
		got, hasErr, p := templateReal(tpl, vals)
		if p == "" && got == want && !hasErr {
			return
		}
		if p == "" && hasErr && mayRefuse {
			res.Dist("O2:long-literal-refused-with-error")
			return
		}
		res.Fail(llClass, map[string]any{"case": name},
			fmt.Sprintf("%s: Template(`x @(...) y`) gave %d bytes (%q...) err=%v panic=%q, the statement prescribes the %d bytes of the literal(s) between `x ` and ` y`",
				name, len(got), ellipsis(got, 12), hasErr, p, len(want)))
	}
	{
		m := types.MaxTextLength
		a := func(n int) string { return strings.Repeat("a", n) }
		longLiteral(fmt.Sprintf("one literal of %d bytes", m-1), []string{a(m - 1)}, false)
		longLiteral(fmt.Sprintf("one literal of %d bytes", m), []string{a(m)}, false)
		longLiteral(fmt.Sprintf("one literal of %d bytes", m+1), []string{a(m + 1)}, false)
		longLiteral(fmt.Sprintf("one literal of %d two-byte runes", m/2), []string{strings.Repeat("é", m/2)}, false)
		longLiteral(fmt.Sprintf("two literals of %d bytes each", m/2), []string{a(m / 2), a(m / 2)}, false)
		longLiteral(fmt.Sprintf("two literals of %d bytes together", m-1), []string{a(m / 2), a(m/2 - 1)}, false)
		longLiteral(fmt.Sprintf("two literals of %d bytes together", m+1), []string{a(m / 2), a(m/2 + 1)}, true)
		// brackets INSIDE a literal are characters, not nesting: as many as the parser's nesting limit and more (seeded
		// wave 5: a pre-scan of the raw text counted them)
		d := excellent.MaxParseDepth
		llClass = "literal-faithful:brackets-in-literal-taken-for-nesting"
		for _, br := range []string{"(", "[", ")", "]", "([", "(\"", "\\("} {
			for _, n := range []int{d - 1, d, d + 1, 2*d + 7} {
				longLiteral(fmt.Sprintf("one literal of %d x %q", n, br), []string{strings.Repeat(br, n)}, false)
			}
		}
		longLiteral(fmt.Sprintf("literals with %d open brackets between them", d+1), []string{strings.Repeat("(", d/2+1), "x", strings.Repeat("[", d/2+1)}, false)
		longLiteral(fmt.Sprintf("a literal of %d x \"(\" next to one that closes them", d+1), []string{strings.Repeat("(", d+1), strings.Repeat(")", d+1)}, false)
	}
	for _, s := range []string{`\`, `a\`, `\\`, `"`, `\"`, `"\`, `)`, `(`, `@`, `@(`, `@foo`, "\n", "\x01", "😀", "", `a"b\c`, `\\\`, `")`, `\")`} {
		o2(s)
		o3("", s, "b", "")
		o3("x ", "a", s, " y")
	}
	for i := 0; i < nOr; i++ {
		o2(randValue(ro))
		if i%2 == 0 {
			o3(randBody(ro), randValue(ro), randValue(ro), randBody(ro))
		}
	}

	// O4 (first half): for e accepted by the real parser, the scanner cuts exactly e out of "@(" + e + ")" + rest
	o4 := func(e, rest string) {
		if !validInput(e + rest) {
			return
		}
		if _, err := excellent.Parse(e, nil); err != nil {
			res.Dist("O4:unparseable(skipped)")
			return
		}
		res.OracleChecks++
		tpl := "@(" + e + ")" + rest
		res.Eval("O4:"+tpl, exsx.Special(tpl))
		toks, p := scanReal(tpl, keys, true)
		if p || len(toks) == 0 || toks[0].T != int(excellent.EXPRESSION) || toks[0].S != e {
			cls := "scanner-parser-agree:expression-end"
			if hasTrailingBackslashLiteralBeforeQuote(e) {
				cls = "scanner-parser-agree:literal-ends-in-backslash-before-later-quote"
			}
			res.Fail(cls, map[string]any{"expression": e, "template": tpl}, fmt.Sprintf("parser accepts %q but the scanner's first token of %q is %v", e, tpl, toks))
		}
	}
	for _, e := range []string{`"a\\"`, `"\\"`, `"a\\" & "b"`, `"a\\" & "`, `")"`, `"(" & ")"`, `("a")`, `"\")"`, `"\\\\"`, `foo & "\\"`} {
		o4(e, "")
		o4(e, ` and "more" )`)
	}
	for i := 0; i < nOr/2; i++ {
		o4(randFragExpr(ro, 3, keys), randBody(ro))
	}

	// O5 (sentence 3 for identifiers): "@" + path, where path = allowed top level followed by ".segment"s, is cut
	// out exactly when what follows cannot continue a path (not a name character, and a '.' only when no name
	// character follows it)
	o5 := func(path, rest string) {
		if !validInput(path+rest) || !utf8.ValidString(path+rest) {
			return
		}
		if _, err := excellent.Parse(path, nil); err != nil {
			return
		}
		res.OracleChecks++
		tpl := "@" + path + rest
		res.Eval("O5:"+tpl, exsx.Special(tpl))
		toks, p := scanReal(tpl, keys, true)
		if p || len(toks) == 0 || toks[0].T != int(excellent.IDENTIFIER) || toks[0].S != path {
			res.Fail("scanner-parser-agree:identifier-end", map[string]any{"path": path, "template": tpl},
				fmt.Sprintf("the scanner's first token of %q is %v, expected IDENTIFIER %q", tpl, toks, path))
		}
	}
	// O6 (sentence 3 for identifiers, the other half): whatever the scanner hands over as an IDENTIFIER is an
	// expression for the parser — the two agree that the expression ends where the scanner ended it.  The class of
	// a disagreement is computed from the shape of the path.
	o6 := func(path, rest string) {
		if !validInput(path + rest) {
			return
		}
		tpl := "@" + path + rest
		toks, p := scanReal(tpl, keys, true)
		if p {
			return
		}
		for _, t := range toks {
			if t.T != int(excellent.IDENTIFIER) {
				continue
			}
			res.OracleChecks++
			if _, err := excellent.Parse(t.S, nil); err != nil {
				res.Fail(identifierClass(t.S), map[string]any{"template": tpl, "identifier": t.S},
					fmt.Sprintf("the scanner cuts %q out of %q as an identifier expression, the parser rejects it: %v", t.S, tpl, err))
			}
		}
	}
	segs := []string{"bar", "Bar_1", "x", "0", "12", "名前", "é", "_", "a²", "2factor", "1_a", "true", "NULL", "False", "x𝒳", "ꭰ", "𝒳", "٣x", "1", "truex", "_0"}
	rests := []string{"", ".", "..", ". x", ".!", ".@foo", "@", "@@", " ", "!", ".(", "(", ")", "-x", ".\n", ",", ".\"", "😀"}
	for _, c := range []string{"foo.2factor", "foo.1_a", "foo.rows.0.1", "foo.true", "foo.bar𝒳", "foo.ꭰ", "foo.x²", "foo.0", "foo.0.x.1", "x.null.y"} {
		o5(c, "")
		o6(c, " and more")
	}
	for i := 0; i < nOr/3; i++ {
		path := hx.Pick(ro, []string{"foo", "FOO", "Foo", "x", "名前"})
		for j := ro.Intn(3); j > 0; j-- {
			path += "." + hx.Pick(ro, segs)
		}
		rest := hx.Pick(ro, rests)
		o5(path, rest)
		o6(path, rest)
	}

	// O1c (sentence 1 after an "@(" that never becomes an expression): in  b1 @( rest  where the parenthesis opened by
	// "@(" is never closed (neverCloses: parentheses inside text literals do not count), there is no expression, so
	// everything is text outside expressions: "@@" yields "@" in rest as well, and nothing in rest is evaluated
	// (theorem c12_body_after_unterminated)
	o1c := func(b1, rest string) {
		if !validInput(b1+rest) || !neverCloses(rest) {
			return
		}
		w1, ok1 := specBody(b1, topSet)
		if !ok1 {
			return
		}
		if strings.HasSuffix(b1, "@") {
			b1, w1 = b1+" ", w1+" "
		}
		res.OracleChecks++
		tpl := b1 + "@(" + rest
		res.Eval("O1c:"+tpl, exsx.Special(tpl))
		want := w1 + "@(" + strings.ReplaceAll(rest, "@@", "@")
		got, hasErr, pn := templateReal(tpl, vals)
		if pn != "" || hasErr || got != want {
			res.Fail("body-passthrough:after-unterminated-expression", map[string]any{"template": tpl},
				fmt.Sprintf("Template(%q) = %q err=%v panic=%q, statement prescribes %q", tpl, got, hasErr, pn, want))
		}
	}
	for _, c := range [][2]string{{"Sad :", " write to help@@example.com"}, {"", "@@"}, {"x ", "1 + 2 @@ 3"}, {"", "\"a@@b"}, {"a@@b ", "no at"}, {"", " @@@ "},
		{"a@@b ", "1 + (2) @@ @foo.x"}, {"", "@foo @(1) @@"}, {"", "\"q) @@ \\\" ) @@"}, {"hi ", "((x) @@ (y)"}} {
		o1c(c[0], c[1])
	}
	for i := 0; i < nOr/6; i++ {
		o1c(randBody(ro), randBody(ro))
		o1c(randBody(ro), randBody(ro)+hx.Pick(ro, []string{"(", "\"", "(("})+randBody(ro)+randBody(ro))
	}

	// the table facts the theorems assume, over every code point (review 2)
	res.OracleChecks++
	for _, f := range exsx.TableFacts() {
		res.Fail("table-fact-assumed-by-theorems-does-not-hold", map[string]any{"fact": f}, f)
	}
	b, _ := json.Marshal(res.Distribution)
	_ = b
	res.Write(o)
}

// neverCloses: the parenthesis opened by "@(" in front of rest is still open at the end of rest. Written from the
// scanner's contract: a text literal runs from a quote to the next quote not protected by a backslash (a backslash
// protects the next rune), parentheses inside a literal do not count
func neverCloses(rest string) bool {
	depth, inLit, esc := 1, false, false
	for _, c := range rest {
		if inLit {
			if c == '"' && !esc {
				inLit = false
			}
			esc = c == '\\' && !esc
			continue
		}
		switch c {
		case '"':
			inLit, esc = true, false
		case '(':
			depth++
		case ')':
			depth--
			if depth == 0 {
				return false
			}
		}
	}
	return true
}

// identifierClass: why the parser cannot take an identifier path the scanner delimited — from the path's shape
func identifierClass(path string) string {
	segs := strings.Split(path, ".")
	allDigits := func(x string) bool {
		for _, c := range x {
			if c < '0' || c > '9' {
				return false
			}
		}
		return x != ""
	}
	for i, sg := range segs {
		if i > 0 && (strings.EqualFold(sg, "true") || strings.EqualFold(sg, "false") || strings.EqualFold(sg, "null")) {
			return "scanner-parser-agree:identifier-keyword-segment"
		}
	}
	for i := 1; i+1 < len(segs); i++ {
		if allDigits(segs[i]) && allDigits(segs[i+1]) {
			return "scanner-parser-agree:identifier-consecutive-numeric-segments"
		}
	}
	for i, sg := range segs {
		if i > 0 && sg != "" && !allDigits(sg) {
			if first := []rune(sg)[0]; unicode.IsDigit(first) {
				return "scanner-parser-agree:identifier-segment-digit-led"
			}
		}
	}
	for _, c := range path {
		if c != '.' && isNameRune(c) {
			lt := lexReal("a" + string(c))
			if !(len(lt) == 1 && lt[0].Kind == "NAME") {
				return "scanner-parser-agree:identifier-rune-outside-grammar-letters"
			}
		}
	}
	return "scanner-parser-agree:identifier-rejected"
}

// does e contain a text literal (as the LEXER reads it from its opening quote) ... approximated
// syntactically from the input: a backslash-quote pair `\"` preceded by an odd... we use the simple,
// stable criterion: e contains the two-rune sequence backslash backslash quote (an escaped backslash at
// the end of a literal) followed somewhere later by another quote.
func hasTrailingBackslashLiteralBeforeQuote(e string) bool {
	i := strings.Index(e, `\\"`)
	for i >= 0 {
		if strings.Contains(e[i+3:], `"`) {
			return true
		}
		j := strings.Index(e[i+1:], `\\"`)
		if j < 0 {
			break
		}
		i = i + 1 + j
	}
	return false
}

func ellipsis(s string, n int) string {
	rs := []rune(s)
	if len(rs) <= n {
		return s
	}
	return string(rs[:n]) + "..."
}
