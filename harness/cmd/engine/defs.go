package main

// Definition stream (direct oracle only; NOT part of the Coq model or of the correspondence).
//
// Two families of inputs that the modelled fragment cannot express, both about "every engine call returns normally -
// no hang, no panic" (C05) and "never with a Go error or panic" for resumes against a changed asset store (C10):
//
//  1. the TYPE of the waiting run's flow, or of an ancestor's flow, changed between sprints (messaging <-> voice <->
//     messaging_background, same UUIDs), with actions of the new type (say_msg, play_audio) after the wait;
//  2. reference lists of actions (groups, labels, contacts, urns, legacy_vars, addresses, attachments, quick_replies)
//     containing null, empty, malformed or duplicate elements.
//
// A definition the loader rejects is skipped (a rejection is an error value, not a violation).  For what is accepted
// the oracle states no more than the sentences: no call panics or hangs; a Resume returns neither a Go error nor a
// panic; a rejected Resume leaves the marshalled session unchanged.

import (
	"bytes"
	"encoding/json"
	"fmt"
	"os"
	"sort"
	"strings"
	"time"

	"github.com/nyaruka/gocommon/urns"
	"github.com/nyaruka/gocommon/uuids"
	"github.com/nyaruka/goflow/assets"
	"github.com/nyaruka/goflow/assets/static"
	"github.com/nyaruka/goflow/flows"
	"github.com/nyaruka/goflow/flows/engine"
	"github.com/nyaruka/goflow/flows/resumes"
	"github.com/nyaruka/goflow/flows/triggers"
	gftest "github.com/nyaruka/goflow/test"

	"verifharness/pkg/hx"
)

type DefOp struct {
	Kind      string          `json:"kind"` // msg | dial | timeout | expiration
	Text      string          `json:"text,omitempty"`
	NewAssets json.RawMessage `json:"new_assets,omitempty"` // the asset store changed before this resume
	Change    string          `json:"change,omitempty"`
}

type DefCase struct {
	Kind     string          `json:"kind"` // "definition"
	Scenario string          `json:"scenario"`
	Assets   json.RawMessage `json:"assets"`
	Flow     string          `json:"flow"`    // UUID of the trigger's flow
	Trigger  string          `json:"trigger"` // manual | manual+call | msg
	Ops      []DefOp         `json:"ops"`
	Opts     *DefOpts        `json:"options,omitempty"` // nil: the engine's defaults
	Note     string          `json:"note,omitempty"`
}

// DefOpts: engine options of the feedback family (small step limits: the growth it looks for is exponential in the
// number of steps, so it must be looked for far below the default 100 steps - there the call cannot return at all)
type DefOpts struct {
	MaxSteps, MaxTemplateChars, MaxFieldChars, MaxResultChars int
}

const (
	defGroupUUID   = "b7cf0d83-f1c9-411c-96fd-c511a4cfa86d"
	defLabelUUID   = "3f65d88a-95dc-4140-9451-943e94e06fea"
	defContactUUID = "820f5923-3369-41c6-b3cd-af577c0bd4b8"
)

func defAssets(flowsJSON []any) json.RawMessage {
	b, err := json.Marshal(map[string]any{
		"flows":    flowsJSON,
		"groups":   []any{map[string]any{"uuid": defGroupUUID, "name": "Testers"}},
		"labels":   []any{map[string]any{"uuid": defLabelUUID, "name": "Spam"}},
		"channels": []any{map[string]any{"uuid": channelUUID, "name": "Twilio", "address": "235326346", "schemes": []string{"tel"}, "roles": []string{"send", "receive", "call", "answer"}}},
	})
	if err != nil {
		panic(err)
	}
	return b
}

func defFlow(id int, typ string, nodes []any) map[string]any {
	return map[string]any{"uuid": uuidOf(kFlow, id), "name": fmt.Sprintf("F%d", id), "spec_version": "13.6.1", "language": "eng", "type": typ, "nodes": nodes}
}

func defWaitNode(id, dest int) map[string]any {
	ex := map[string]any{"uuid": uuidOf(kExit, id*10+1)}
	if dest != 0 {
		ex["destination_uuid"] = uuidOf(kNode, dest)
	}
	return map[string]any{"uuid": uuidOf(kNode, id),
		"router": map[string]any{"type": "switch", "operand": `@(default(input.text, ""))`, "cases": []any{},
			"categories":            []any{map[string]any{"uuid": uuidOf(kCat, id*10), "name": "All", "exit_uuid": uuidOf(kExit, id*10+1)}},
			"default_category_uuid": uuidOf(kCat, id*10), "wait": map[string]any{"type": "msg"}},
		"exits": []any{ex}}
}

func defActionNode(id, dest int, actions ...map[string]any) map[string]any {
	ex := map[string]any{"uuid": uuidOf(kExit, id*10+1)}
	if dest != 0 {
		ex["destination_uuid"] = uuidOf(kNode, dest)
	}
	acts := []any{}
	for k, a := range actions {
		a["uuid"] = uuidOf(kAct, id*10+k)
		acts = append(acts, a)
	}
	return map[string]any{"uuid": uuidOf(kNode, id), "actions": acts, "exits": []any{ex}}
}

func actionOfType(typ string) map[string]any {
	switch typ {
	case "say_msg":
		return map[string]any{"type": "say_msg", "text": "hello there"}
	case "play_audio":
		return map[string]any{"type": "play_audio", "audio_url": "http://uploads.temba.io/2353262.m4a"}
	}
	return map[string]any{"type": "send_msg", "text": "hello there"}
}

// ---- 1. the type of a flow changes between sprints ------------------------------------------------------------

func genTypeChange(r *hx.Rand) *DefCase {
	types := []string{"messaging", "voice", "messaging_background"}
	from := hx.Pick(r, []string{"messaging", "messaging", "voice"})
	to := hx.Pick(r, types)
	for to == from {
		to = hx.Pick(r, types)
	}
	withParent := r.Bool()
	changeParent := withParent && r.Bool()
	after := "send_msg"
	if to == "voice" {
		after = hx.Pick(r, []string{"say_msg", "play_audio", "send_msg"})
	}
	build := func(typ1, typ2, act string) []any {
		// flow 1 (optional parent): enters flow 2, then acts; flow 2: waits, then acts
		child := defFlow(2, typ2, []any{defWaitNode(201, 202), defActionNode(202, 0, actionOfType(act))})
		if !withParent {
			return []any{child}
		}
		parent := defFlow(1, typ1, []any{
			defActionNode(101, 102, map[string]any{"type": "enter_flow", "flow": map[string]any{"uuid": uuidOf(kFlow, 2), "name": "F2"}}),
			defActionNode(102, 0, actionOfType(act))})
		return []any{parent, child}
	}
	c := &DefCase{Kind: "definition", Assets: defAssets(build(from, from, "send_msg")), Trigger: "manual"}
	if from == "voice" {
		c.Trigger = "manual+call"
	}
	c.Flow = uuidOf(kFlow, 2)
	if withParent {
		c.Flow = uuidOf(kFlow, 1)
	}
	t1, t2 := from, to
	which := "waiting-run-flow"
	if changeParent {
		t1, t2 = to, from
		which = "parent-flow"
	} else if withParent && r.Bool() {
		t1 = to
		which = "both-flows"
	}
	actAfter := after
	if t2 != "voice" && !changeParent { // the child stays non-voice: its action must stay a messaging one
		actAfter = "send_msg"
	}
	if changeParent && to != "voice" {
		actAfter = "send_msg"
	}
	// (a voice action in a flow that is not voice makes the definition invalid: the loader rejects it, fine)
	c.Scenario = fmt.Sprintf("flow-type-changed:%s:%s->%s:%s", which, from, to, actAfter)
	c.Ops = []DefOp{{Kind: "msg", Text: "a", NewAssets: defAssets(build(t1, t2, actAfter)), Change: c.Scenario}, {Kind: "msg", Text: "b"}}
	return c
}

// ---- 2. reference lists with null / empty / malformed / duplicate elements --------------------------------------

func genListCase(r *hx.Rand) *DefCase {
	groupRef := map[string]any{"uuid": defGroupUUID, "name": "Testers"}
	labelRef := map[string]any{"uuid": defLabelUUID, "name": "Spam"}
	contactRef := map[string]any{"uuid": defContactUUID, "name": "Bob"}
	odd := func(valid any, str bool) []any {
		var pool []any
		if str {
			pool = []any{valid, valid, "", " ", nil, "@(1 / 0)", "@contact.xxx"}
		} else {
			pool = []any{valid, valid, nil, map[string]any{}, map[string]any{"name_match": "@contact.xxx"}, map[string]any{"uuid": "", "name": ""}}
		}
		n := r.Range(1, 3)
		out := make([]any, 0, n)
		for i := 0; i < n; i++ {
			out = append(out, pool[r.Intn(len(pool))])
		}
		if r.Chance(1, 2) { // make sure one odd element is there
			out[r.Intn(len(out))] = pool[2+r.Intn(len(pool)-2)]
		}
		return out
	}
	type spec struct {
		action, field string
		build         func() map[string]any
	}
	specs := []spec{
		{"add_contact_groups", "groups", func() map[string]any {
			return map[string]any{"type": "add_contact_groups", "groups": odd(groupRef, false)}
		}},
		{"remove_contact_groups", "groups", func() map[string]any {
			return map[string]any{"type": "remove_contact_groups", "groups": odd(groupRef, false)}
		}},
		{"add_input_labels", "labels", func() map[string]any {
			return map[string]any{"type": "add_input_labels", "labels": odd(labelRef, false)}
		}},
		{"send_broadcast", "groups", func() map[string]any {
			return map[string]any{"type": "send_broadcast", "text": "hi", "groups": odd(groupRef, false)}
		}},
		{"send_broadcast", "contacts", func() map[string]any {
			return map[string]any{"type": "send_broadcast", "text": "hi", "contacts": odd(contactRef, false)}
		}},
		{"send_broadcast", "urns", func() map[string]any {
			return map[string]any{"type": "send_broadcast", "text": "hi", "urns": odd("tel:+12065551212", true)}
		}},
		{"send_broadcast", "legacy_vars", func() map[string]any {
			return map[string]any{"type": "send_broadcast", "text": "hi", "legacy_vars": odd("@contact.uuid", true)}
		}},
		{"start_session", "groups", func() map[string]any {
			return map[string]any{"type": "start_session", "flow": map[string]any{"uuid": uuidOf(kFlow, 1), "name": "F1"}, "groups": odd(groupRef, false)}
		}},
		{"start_session", "contacts", func() map[string]any {
			return map[string]any{"type": "start_session", "flow": map[string]any{"uuid": uuidOf(kFlow, 1), "name": "F1"}, "contacts": odd(contactRef, false)}
		}},
		{"start_session", "legacy_vars", func() map[string]any {
			return map[string]any{"type": "start_session", "flow": map[string]any{"uuid": uuidOf(kFlow, 1), "name": "F1"}, "legacy_vars": odd("@contact.uuid", true)}
		}},
		{"send_email", "addresses", func() map[string]any {
			return map[string]any{"type": "send_email", "subject": "s", "body": "b", "addresses": odd("bob@nyaruka.com", true)}
		}},
		{"send_msg", "attachments", func() map[string]any {
			return map[string]any{"type": "send_msg", "text": "hi", "attachments": odd("image/jpeg:http://s3.amazon.com/bucket/test.jpg", true)}
		}},
		{"send_msg", "quick_replies", func() map[string]any {
			return map[string]any{"type": "send_msg", "text": "hi", "quick_replies": odd("Yes", true)}
		}},
	}
	if r.Chance(1, 8) {
		// lists of the definition itself: actions of a node, cases and categories of a router
		cat := map[string]any{"uuid": uuidOf(kCat, 1010), "name": "All", "exit_uuid": uuidOf(kExit, 1011)}
		kase := map[string]any{"uuid": uuidOf(kAct, 1015), "type": "has_any_word", "arguments": []any{"hi"}, "category_uuid": uuidOf(kCat, 1010)}
		node := defWaitNode(101, 0)
		delete(node["router"].(map[string]any), "wait")
		field := hx.Pick(r, []string{"node.actions", "router.cases", "router.categories", "case.arguments"})
		var l []any
		switch field {
		case "node.actions":
			l = odd(map[string]any{"type": "send_msg", "text": "hi", "uuid": uuidOf(kAct, 1016)}, false)
			node["actions"] = l
		case "router.cases":
			l = odd(kase, false)
			node["router"].(map[string]any)["cases"] = l
		case "router.categories":
			l = append([]any{cat}, odd(cat, false)...)
			node["router"].(map[string]any)["categories"] = l
		default:
			l = odd("hi", true)
			kase["arguments"] = l
			node["router"].(map[string]any)["cases"] = []any{kase}
		}
		listJSON, _ := json.Marshal(l)
		return &DefCase{Kind: "definition", Scenario: fmt.Sprintf("odd-list:%s:%s", field, listShape(listJSON)),
			Assets: defAssets([]any{defFlow(1, "messaging", []any{node})}), Flow: uuidOf(kFlow, 1), Trigger: "msg"}
	}
	sp := specs[r.Intn(len(specs))]
	act := sp.build()
	listJSON, _ := json.Marshal(act[sp.field])
	c := &DefCase{Kind: "definition", Scenario: fmt.Sprintf("odd-list:%s.%s:%s", sp.action, sp.field, listShape(listJSON)),
		Assets: defAssets([]any{defFlow(1, "messaging", []any{defActionNode(101, 0, act)})}), Flow: uuidOf(kFlow, 1), Trigger: "msg"}
	return c
}

// listShape names what kinds of odd elements a JSON list has (for the class of a failure)
func listShape(b []byte) string {
	var l []any
	json.Unmarshal(b, &l)
	var fs []string
	has := map[string]bool{}
	seen := map[string]bool{}
	for _, x := range l {
		k, _ := json.Marshal(x)
		if seen[string(k)] {
			has["duplicate"] = true
		}
		seen[string(k)] = true
		switch v := x.(type) {
		case nil:
			has["null"] = true
		case string:
			if strings.TrimSpace(v) == "" {
				has["empty"] = true
			} else if strings.HasPrefix(v, "@") {
				has["expression"] = true
			}
		case map[string]any:
			if len(v) == 0 || v["uuid"] == "" {
				has["empty"] = true
			}
		}
	}
	for _, k := range []string{"null", "empty", "duplicate", "expression"} {
		if has[k] {
			fs = append(fs, k)
		}
	}
	if len(fs) == 0 {
		return "plain"
	}
	return strings.Join(fs, "+")
}

// ---- 3. flows that read back what they stored (growth per step) --------------------------------------------------

// The step limit makes a sprint finite only if one step costs a bounded amount of work and memory.  A node that is
// visited again and again and whose router/actions read back what the previous visit stored (a member of a result,
// the results as JSON, a contact field, the contact's name) must not make any stored or emitted string grow beyond
// EVERY configured limit and every input: if one does (it then at least doubles per step), the same flow under the
// default 100 steps cannot return.  The oracle: after the call no string anywhere in the marshalled session or in
// the sprint's events is longer than `ceiling` = the largest of the configured limits, the 10000 bytes the engine
// allows for extra, and the size of the definition itself.
func genFeedback(r *hx.Rand) *DefCase {
	o := &DefOpts{MaxSteps: r.Range(18, 22), MaxTemplateChars: hx.Pick(r, []int{64, 640, 10000}), MaxFieldChars: hx.Pick(r, []int{64, 640}),
		MaxResultChars: hx.Pick(r, []int{64, 640})}
	member := hx.Pick(r, []string{"input", "input", "value", "category", "category_localized", "name", "extra", "extra", "json(results)", "json(run)", "results", "json(contact)", "fields", "contact.name", "legacy_extra"})
	read := map[string]string{
		"input": "results.r.input", "value": "results.r.value", "category": "results.r.category", "category_localized": "results.r.category_localized",
		"name": "results.r.name", "extra": `results.r.extra["0"]`, "json(results)": "json(results)", "json(run)": "json(run)", "results": "results",
		"json(contact)": "json(contact)", "fields": "fields.x", "contact.name": "contact.name", "legacy_extra": "json(legacy_extra)",
	}[member]
	times := r.Range(2, 3)
	parts := []string{}
	for i := 0; i < times; i++ {
		parts = append(parts, read)
	}
	parts = append(parts, `"x"`)
	expr := "@(" + strings.Join(parts, " & ") + ")"
	cat := map[string]any{"uuid": uuidOf(kCat, 1010), "name": "All", "exit_uuid": uuidOf(kExit, 1011)}
	other := map[string]any{"uuid": uuidOf(kCat, 1012), "name": "Matched", "exit_uuid": uuidOf(kExit, 1011)}
	cases := []any{}
	caseKind := hx.Pick(r, []string{"none", "none", "has_pattern", "has_pattern", "has_text", "has_phrase", "has_any_word"})
	switch caseKind {
	case "has_pattern":
		cases = append(cases, map[string]any{"uuid": uuidOf(kAct, 1015), "type": "has_pattern", "arguments": []any{hx.Pick(r, []string{".*", "(.*)", "(.+)x"})}, "category_uuid": uuidOf(kCat, 1012)})
	case "has_text":
		cases = append(cases, map[string]any{"uuid": uuidOf(kAct, 1015), "type": "has_text", "arguments": []any{}, "category_uuid": uuidOf(kCat, 1012)})
	case "has_phrase":
		cases = append(cases, map[string]any{"uuid": uuidOf(kAct, 1015), "type": "has_phrase", "arguments": []any{"x"}, "category_uuid": uuidOf(kCat, 1012)})
	case "has_any_word":
		cases = append(cases, map[string]any{"uuid": uuidOf(kAct, 1015), "type": "has_any_word", "arguments": []any{"x xx"}, "category_uuid": uuidOf(kCat, 1012)})
	}
	router := map[string]any{"type": "switch", "operand": expr, "result_name": "r", "cases": cases,
		"categories": []any{cat, other}, "default_category_uuid": uuidOf(kCat, 1010)}
	where := "router-operand"
	node := map[string]any{"uuid": uuidOf(kNode, 101), "router": router,
		"exits": []any{map[string]any{"uuid": uuidOf(kExit, 1011), "destination_uuid": uuidOf(kNode, 101)}}}
	acts := []any{}
	if r.Chance(1, 3) {
		// the feedback goes through an action instead (the router still stores what it is given)
		where = hx.Pick(r, []string{"set_run_result", "set_contact_field", "set_contact_name", "send_msg"})
		switch where {
		case "set_run_result":
			acts = append(acts, map[string]any{"uuid": uuidOf(kAct, 1016), "type": "set_run_result", "name": "r", "value": expr, "category": expr})
		case "set_contact_field":
			acts = append(acts, map[string]any{"uuid": uuidOf(kAct, 1016), "type": "set_contact_field", "field": map[string]any{"key": "x", "name": "X"}, "value": expr})
		case "set_contact_name":
			acts = append(acts, map[string]any{"uuid": uuidOf(kAct, 1016), "type": "set_contact_name", "name": expr})
		case "send_msg":
			acts = append(acts, map[string]any{"uuid": uuidOf(kAct, 1016), "type": "send_msg", "text": expr, "quick_replies": []any{expr}})
		}
		if r.Bool() {
			router["operand"] = "@(" + read + ")"
		}
	}
	node["actions"] = acts
	c := &DefCase{Kind: "definition", Scenario: fmt.Sprintf("feedback:%s:%s:x%d:%s", where, member, times, caseKind), Flow: uuidOf(kFlow, 1), Trigger: "manual", Opts: o}
	c.Assets = defAssetsWith([]any{defFlow(1, "messaging", []any{node})}, map[string]any{"fields": []any{map[string]any{"uuid": uuidOf(kAct, 1099), "key": "x", "name": "X", "type": "text"}}})
	return c
}

func feedbackCorpus() []*DefCase {
	mk := func(sc, operand string, cases []any) *DefCase {
		cat := map[string]any{"uuid": uuidOf(kCat, 1010), "name": "All", "exit_uuid": uuidOf(kExit, 1011)}
		other := map[string]any{"uuid": uuidOf(kCat, 1012), "name": "Matched", "exit_uuid": uuidOf(kExit, 1011)}
		node := map[string]any{"uuid": uuidOf(kNode, 101), "actions": []any{},
			"router": map[string]any{"type": "switch", "operand": operand, "result_name": "r", "cases": cases, "categories": []any{cat, other}, "default_category_uuid": uuidOf(kCat, 1010)},
			"exits":  []any{map[string]any{"uuid": uuidOf(kExit, 1011), "destination_uuid": uuidOf(kNode, 101)}}}
		return &DefCase{Kind: "definition", Scenario: sc, Flow: uuidOf(kFlow, 1), Trigger: "manual",
			Opts:   &DefOpts{MaxSteps: 20, MaxTemplateChars: 10000, MaxFieldChars: 640, MaxResultChars: 640},
			Assets: defAssetsWith([]any{defFlow(1, "messaging", []any{node})}, nil)}
	}
	return []*DefCase{
		mk("feedback:router-operand:input:x2:none", `@(results.r.input & results.r.input & "x")`, []any{}),
		mk("feedback:router-operand:extra:x2:has_pattern", `@(results.r.extra["0"] & results.r.extra["0"] & "x")`,
			[]any{map[string]any{"uuid": uuidOf(kAct, 1015), "type": "has_pattern", "arguments": []any{".*"}, "category_uuid": uuidOf(kCat, 1012)}}),
	}
}

// longestString: the longest string leaf (in runes) of a JSON document and the path to it
func longestString(raw []byte) (int, string) {
	var v any
	if json.Unmarshal(raw, &v) != nil {
		return 0, ""
	}
	best, bestPath := 0, ""
	var walk func(x any, path string)
	walk = func(x any, path string) {
		switch t := x.(type) {
		case string:
			if n := len([]rune(t)); n > best {
				best, bestPath = n, path
			}
		case []any:
			for _, e := range t {
				walk(e, path+"[]")
			}
		case map[string]any:
			for k, e := range t {
				if len(k) > 40 {
					k = "<key>"
				}
				walk(e, path+"."+k)
			}
		}
	}
	walk(v, "")
	return best, bestPath
}

func defAssetsWith(flowsJSON []any, more map[string]any) json.RawMessage {
	var m map[string]any
	json.Unmarshal(defAssets(flowsJSON), &m)
	for k, v := range more {
		m[k] = v
	}
	b, _ := json.Marshal(m)
	return b
}

// ---- 4. a session without a contact ------------------------------------------------------------------------------

// triggers.NewBuilder(env, flow, nil): the trigger's contact is optional (goflow's own TestTriggerSessionInitialization
// builds such a trigger: "contact, environment and params are optional"), so a session without a contact is an input
// the engine accepts; every action must then return normally (an error event, a skipped action - not a panic)
const (
	defTopicUUID = "472a7a73-96cb-4736-b567-056d987cc5b4"
	defOptinUUID = "248be71d-78e9-4d71-a6c4-9981d369e5cb"
)

func noContactActions() map[string]map[string]any {
	grp := map[string]any{"uuid": defGroupUUID, "name": "Testers"}
	return map[string]map[string]any{
		"send_msg":              {"type": "send_msg", "text": "hi @contact.name"},
		"send_email":            {"type": "send_email", "addresses": []any{"bob@nyaruka.com"}, "subject": "s", "body": "hi @contact.name"},
		"send_broadcast":        {"type": "send_broadcast", "text": "hi", "urns": []any{"tel:+12065551212"}},
		"start_session":         {"type": "start_session", "flow": map[string]any{"uuid": uuidOf(kFlow, 1), "name": "F1"}, "groups": []any{grp}},
		"set_contact_name":      {"type": "set_contact_name", "name": "Bob"},
		"set_contact_language":  {"type": "set_contact_language", "language": "eng"},
		"set_contact_field":     {"type": "set_contact_field", "field": map[string]any{"key": "x", "name": "X"}, "value": "M"},
		"set_contact_status":    {"type": "set_contact_status", "status": "blocked"},
		"set_contact_timezone":  {"type": "set_contact_timezone", "timezone": "Africa/Kigali"},
		"set_contact_channel":   {"type": "set_contact_channel", "channel": map[string]any{"uuid": channelUUID, "name": "Twilio"}},
		"add_contact_groups":    {"type": "add_contact_groups", "groups": []any{grp}},
		"remove_contact_groups": {"type": "remove_contact_groups", "groups": []any{}, "all_groups": true},
		"add_contact_urn":       {"type": "add_contact_urn", "scheme": "tel", "path": "+12065551212"},
		"add_input_labels":      {"type": "add_input_labels", "labels": []any{map[string]any{"uuid": defLabelUUID, "name": "Spam"}}},
		"set_run_result":        {"type": "set_run_result", "name": "R", "value": "@contact.name @fields.x @urns.tel"},
		"enter_flow":            {"type": "enter_flow", "flow": map[string]any{"uuid": uuidOf(kFlow, 2), "name": "F2"}},
		"open_ticket":           {"type": "open_ticket", "topic": map[string]any{"uuid": defTopicUUID, "name": "Weather"}, "body": "help", "result_name": "Ticket"},
		"request_optin":         {"type": "request_optin", "optin": map[string]any{"uuid": defOptinUUID, "name": "Jokes"}},
		"transfer_airtime":      {"type": "transfer_airtime", "amounts": map[string]any{"RWF": 500}, "result_name": "Reward"},
	}
}

func noContactCases() []*DefCase {
	var out []*DefCase
	acts := noContactActions()
	names := make([]string, 0, len(acts))
	for k := range acts {
		names = append(names, k)
	}
	sort.Strings(names)
	for _, name := range names {
		child := defFlow(2, "messaging", []any{defWaitNode(201, 202), defActionNode(202, 0, actionOfType("send_msg"))})
		fl := defFlow(1, "messaging", []any{defActionNode(101, 102, acts[name]), defWaitNode(102, 103), defActionNode(103, 0, map[string]any{"type": "set_run_result", "name": "Done", "value": "@contact"})})
		site := "contact-modifier" // the class names the place that needs the contact, the note the action
		switch name {
		case "send_msg", "enter_flow":
			site = "send_msg"
		case "request_optin", "transfer_airtime", "send_email", "send_broadcast", "start_session", "add_input_labels", "set_run_result":
			site = name
		}
		out = append(out, &DefCase{Kind: "definition", Scenario: "no-contact:" + site, Note: "first action: " + name, Flow: uuidOf(kFlow, 1), Trigger: "manual-no-contact",
			Ops: []DefOp{{Kind: "msg", Text: "a"}, {Kind: "msg", Text: "b"}},
			Assets: defAssetsWith([]any{fl, child}, map[string]any{
				"fields": []any{map[string]any{"uuid": uuidOf(kAct, 1099), "key": "x", "name": "X", "type": "text"}},
				"topics": []any{map[string]any{"uuid": defTopicUUID, "name": "Weather"}},
				"optins": []any{map[string]any{"uuid": defOptinUUID, "name": "Jokes", "channel": map[string]any{"uuid": channelUUID, "name": "Twilio"}}},
			})})
	}
	return out
}

// ---- 5. the contact's groups are stale with respect to the assets the session is resumed against -----------------------

// While the session waited a query-based group was added / its query edited / it was removed (or the stored contact is
// blocked and still in a static group).  C10: a resume the wait REJECTS must leave the session exactly as it was - no
// group re-evaluation, no contact_groups_changed event, no modified_on; an accepted resume may (and does) re-evaluate.
const defQueryGroupUUID = "1e1ce1e1-9288-4504-869e-022d1003c72a"

func staleGroupAssets(query string) json.RawMessage {
	fl := defFlow(2, "messaging", []any{defWaitNode(201, 202), defWaitNode(202, 203), defActionNode(203, 0, actionOfType("send_msg"))})
	groups := []any{map[string]any{"uuid": defGroupUUID, "name": "Testers"}}
	if query != "" {
		groups = append(groups, map[string]any{"uuid": defQueryGroupUUID, "name": "Bobs", "query": query})
	}
	return defAssetsWith([]any{fl}, map[string]any{"groups": groups})
}

func staleGroupCase(change string, rejected string) *DefCase {
	before, after := "", ""
	switch change {
	case "query-group-added":
		before, after = "", `name = "Bob"`
	case "query-group-edited":
		before, after = `name = "Jim"`, `name = "Bob"`
	case "query-group-edited-out":
		before, after = `name = "Bob"`, `name = "Jim"`
	case "query-group-removed":
		before, after = `name = "Bob"`, ""
	}
	c := &DefCase{Kind: "definition", Scenario: "stale-groups:" + change + ":" + rejected, Assets: staleGroupAssets(before), Flow: uuidOf(kFlow, 2), Trigger: "manual"}
	if change == "blocked-contact-in-static-group" {
		c.Trigger = "manual-blocked-in-group"
		after = ""
	}
	na := staleGroupAssets(after)
	c.Ops = []DefOp{{Kind: rejected, NewAssets: na, Change: change}, {Kind: rejected}, {Kind: "msg", Text: "a"}, {Kind: rejected, NewAssets: na, Change: "stored and read back"}, {Kind: "msg", Text: "b"}}
	return c
}

var staleGroupChanges = []string{"query-group-added", "query-group-edited", "query-group-edited-out", "query-group-removed", "blocked-contact-in-static-group"}

func staleGroupCorpus() []*DefCase {
	var out []*DefCase
	for _, ch := range staleGroupChanges {
		for _, rej := range []string{"dial", "timeout"} { // neither is accepted by a msg wait without timeout
			out = append(out, staleGroupCase(ch, rej))
		}
	}
	return out
}

// defCorpus: the hand-written cases of the hunt findings
func defCorpus() []*DefCase {
	var out []*DefCase
	for _, act := range []string{"say_msg", "play_audio"} {
		before := []any{defFlow(2, "messaging", []any{defWaitNode(201, 202), defActionNode(202, 0, actionOfType("send_msg"))})}
		after := []any{defFlow(2, "voice", []any{defWaitNode(201, 202), defActionNode(202, 0, actionOfType(act))})}
		sc := "flow-type-changed:waiting-run-flow:messaging->voice:" + act
		out = append(out, &DefCase{Kind: "definition", Scenario: sc, Assets: defAssets(before), Flow: uuidOf(kFlow, 2), Trigger: "manual",
			Ops: []DefOp{{Kind: "msg", Text: "a", NewAssets: defAssets(after), Change: sc}}})
		enter := func() map[string]any {
			return map[string]any{"type": "enter_flow", "flow": map[string]any{"uuid": uuidOf(kFlow, 2), "name": "F2"}}
		}
		child := func() map[string]any {
			return defFlow(2, "messaging", []any{defWaitNode(201, 0)})
		}
		pbefore := []any{defFlow(1, "messaging", []any{defActionNode(101, 102, enter()), defActionNode(102, 0, actionOfType("send_msg"))}), child()}
		pafter := []any{defFlow(1, "voice", []any{defActionNode(101, 102, enter()), defActionNode(102, 0, actionOfType(act))}), child()}
		sc2 := "flow-type-changed:parent-flow:messaging->voice:" + act
		out = append(out, &DefCase{Kind: "definition", Scenario: sc2, Assets: defAssets(pbefore), Flow: uuidOf(kFlow, 1), Trigger: "manual",
			Ops: []DefOp{{Kind: "msg", Text: "a", NewAssets: defAssets(pafter), Change: sc2}}})
	}
	for _, a := range []map[string]any{
		{"type": "add_contact_groups", "groups": []any{nil}},
		{"type": "remove_contact_groups", "groups": []any{nil}},
		{"type": "send_broadcast", "text": "hi", "groups": []any{nil}},
		{"type": "send_broadcast", "text": "hi", "contacts": []any{nil}},
		{"type": "add_input_labels", "labels": []any{nil}},
		{"type": "start_session", "flow": map[string]any{"uuid": uuidOf(kFlow, 1), "name": "F1"}, "groups": []any{nil}},
	} {
		field := "groups"
		for _, f := range []string{"contacts", "labels"} {
			if _, ok := a[f]; ok {
				field = f
			}
		}
		out = append(out, &DefCase{Kind: "definition", Scenario: fmt.Sprintf("odd-list:%s.%s:null", a["type"], field),
			Assets: defAssets([]any{defFlow(1, "messaging", []any{defActionNode(101, 0, a)})}), Flow: uuidOf(kFlow, 1), Trigger: "msg"})
	}
	return out
}

// ---- runner and oracle --------------------------------------------------------------------------------------------

func runDefCase(prop string, c *DefCase, res *hx.Result) {
	input := map[string]any{"kind": "definition", "scenario": c.Scenario, "assets": c.Assets, "flow": c.Flow, "trigger": c.Trigger, "ops": c.Ops}
	if c.Opts != nil {
		input["options"] = c.Opts
	}
	if c.Note != "" {
		input["note"] = c.Note
	}
	defFailed = false
	fail := func(class, detail string) { defFailed = true; res.Fail(prop+":"+class+":"+c.Scenario, input, detail) }
	key, _ := json.Marshal(input)
	load := func(raw json.RawMessage) (flows.SessionAssets, bool) {
		src, err := static.NewSource(raw)
		if err != nil {
			return nil, false
		}
		sa, err := engine.NewSessionAssets(env0, src, nil)
		if err != nil {
			return nil, false
		}
		return sa, true
	}
	sa, ok := load(c.Assets)
	if !ok {
		res.Dist("definition:assets-rejected")
		return
	}
	var lerr error
	if p, h := guarded(func() { _, lerr = sa.Flows().Get(assets.FlowUUID(c.Flow)) }); p != nil || h {
		fail("panic-while-loading-definition", fmt.Sprint("reading the flow definition panicked or hung: ", p))
		return
	}
	if lerr != nil {
		res.Dist("definition:rejected-at-load:" + strings.SplitN(c.Scenario, ":", 2)[0])
		res.Eval(string(key), false)
		return
	}
	eng := engine.NewBuilder().Build()
	ceiling := 0
	if c.Opts != nil {
		eng = engine.NewBuilder().WithMaxStepsPerSprint(c.Opts.MaxSteps).WithMaxTemplateChars(c.Opts.MaxTemplateChars).
			WithMaxFieldChars(c.Opts.MaxFieldChars).WithMaxResultChars(c.Opts.MaxResultChars).Build()
		ceiling = max(c.Opts.MaxTemplateChars, c.Opts.MaxFieldChars, c.Opts.MaxResultChars, 10000, len(c.Assets))
	}
	// growth: no string of the session or of the sprint's events is longer than every limit and every input
	grew := func(s flows.Session, sp flows.Sprint) bool {
		if ceiling == 0 {
			return false
		}
		res.OracleChecks++
		evs, _ := json.Marshal(map[string]any{"events": sp.Events()})
		for _, doc := range [][]byte{mustJSON(s), evs} {
			if n, path := longestString(doc); n > ceiling {
				parts := strings.SplitN(c.Scenario, ":", 3)
				defFailed = true
				res.Fail(fmt.Sprintf("%s:unbounded-growth:%s:%s", prop, strings.Join(parts[:2], ":"), path), input,
					fmt.Sprintf("after a sprint of at most %d steps the string at %s has %d characters; the largest configured limit / input is %d: what a step stores grows with every visit, so the step limit does not bound the call", c.Opts.MaxSteps, path, n, ceiling))
				return true
			}
		}
		return false
	}
	contact, err := flows.NewContact(sa, flows.ContactUUID(uuids.NewV4()), flows.ContactID(7), "Bob", "eng",
		flows.ContactStatusActive, nil, time.Date(2019, 1, 1, 0, 0, 0, 0, time.UTC), nil, nil, nil, nil, nil, assets.PanicOnMissing)
	if c.Trigger == "manual-blocked-in-group" {
		// a stored contact that is blocked but (still) in a static group: its groups are stale from the start
		contact, err = flows.NewContact(sa, flows.ContactUUID(uuids.NewV4()), flows.ContactID(7), "Bob", "eng",
			flows.ContactStatusBlocked, nil, time.Date(2019, 1, 1, 0, 0, 0, 0, time.UTC), nil, nil,
			[]*assets.GroupReference{assets.NewGroupReference(assets.GroupUUID(defGroupUUID), "Testers")}, nil, nil, assets.PanicOnMissing)
	}
	if err != nil {
		res.Fail("harness:definition-contact", input, err.Error())
		return
	}
	if c.Trigger == "manual-no-contact" {
		contact = nil
		if c.Opts == nil {
			eng = gftest.NewEngine() // with email / airtime / classification services, so that those actions get past "no service"
		}
	}
	tb := triggers.NewBuilder(env0, assets.NewFlowReference(assets.FlowUUID(c.Flow), "F"), contact)
	var trig flows.Trigger
	switch c.Trigger {
	case "msg":
		trig = tb.Msg(flows.NewMsgIn(flows.MsgUUID(uuids.NewV4()), urns.NilURN, nil, "hi", nil)).Build()
	case "manual+call":
		trig = tb.Manual().WithCall(assets.NewChannelReference(assets.ChannelUUID(channelUUID), "Twilio"), urns.URN("tel:+12065551212")).Build()
	default:
		trig = tb.Manual().Build()
	}
	var s flows.Session
	var sp flows.Sprint
	p, h := guarded(func() { s, sp, err = eng.NewSession(sa, trig) })
	res.OracleChecks++
	switch {
	case h:
		hung = true
		fail("hang", "NewSession did not return")
		return
	case p != nil:
		fail("panic", fmt.Sprint("NewSession panicked: ", p))
		return
	case err != nil:
		res.Dist("definition:start-error") // an error value from a start is not judged here (e.g. voice flow without call)
		res.Eval(string(key), false)
		return
	}
	res.Dist("definition:ran:" + strings.SplitN(c.Scenario, ":", 2)[0])
	if grew(s, sp) {
		return
	}
	for i := range c.Ops {
		op := &c.Ops[i]
		if s.Status() != flows.SessionStatusWaiting {
			break
		}
		if len(op.NewAssets) > 0 {
			sa2, ok := load(op.NewAssets)
			if !ok {
				break
			}
			var rerr error
			var s2 flows.Session
			if p, h := guarded(func() { s2, rerr = eng.ReadSession(sa2, mustJSON(s), assets.IgnoreMissing) }); p != nil || h {
				fail("panic-in-read-session", fmt.Sprint("ReadSession against the changed assets panicked or hung: ", p))
				return
			}
			if rerr != nil {
				if bytes.Equal(op.NewAssets, c.Assets) {
					// nothing changed: a session the engine itself wrote must read back against the same assets
					fail("stored-session-not-readable", fmt.Sprintf("the session marshalled after call %d does not read back against unchanged assets: %v", i, rerr))
					return
				}
				res.Dist("definition:read-session-error")
				break
			}
			s = s2
		}
		before := mustJSON(s)
		var r flows.Resume
		switch op.Kind {
		case "dial":
			r = resumes.NewDial(nil, nil, flows.NewDial(flows.DialStatusAnswered, 10))
		case "timeout":
			r = resumes.NewWaitTimeout(nil, nil)
		case "expiration":
			r = resumes.NewRunExpiration(nil, nil)
		default:
			r = resumes.NewMsg(nil, nil, flows.NewMsgIn(flows.MsgUUID(uuids.NewV4()), urns.NilURN, nil, op.Text, nil))
		}
		var rerr error
		p, h := guarded(func() { sp, rerr = s.Resume(r) })
		res.OracleChecks++
		switch {
		case h:
			hung = true
			fail("hang", "Resume did not return")
			return
		case p != nil:
			fail("panic", fmt.Sprintf("Resume (resume %d, %s) panicked: %v", i+1, op.Change, p))
			return
		case rerr != nil:
			if _, isEngineError := rerr.(*engine.Error); !isEngineError {
				fail("go-error", fmt.Sprintf("Resume (resume %d, %s) returned a Go error: %v", i+1, op.Change, rerr))
				return
			}
			if string(before) != string(mustJSON(s)) {
				fail("rejected-session-changed", "session JSON differs after a rejected resume")
				return
			}
		default:
			if grew(s, sp) {
				return
			}
		}
	}
	res.Eval(string(key), true)
}

// runFeedback runs a feedback case with growing step limits (2, 3, .. 8, 10, 12, ... up to the case's own) and stops at the first
// failure: what it looks for grows exponentially with the number of steps, so it is caught while it is still small
// (the failing input records the step limit at which it was caught)
var defFailed bool // the last runDefCase reported a failure

func runFeedback(prop string, c *DefCase, res *hx.Result) {
	top := c.Opts.MaxSteps
	for st := 2; st <= top && !hung; st++ {
		if st > 8 && st%2 == 1 {
			continue
		}
		c.Opts.MaxSteps = st
		if runDefCase(prop, c, res); defFailed {
			return
		}
	}
}

func defStream(prop string, r *hx.Rand, n int, res *hx.Result) {
	corpus := defCorpus()
	if prop == "C05" {
		corpus = append(corpus, feedbackCorpus()...)
		corpus = append(corpus, noContactCases()...)
	}
	if prop == "C10" {
		corpus = append(corpus, staleGroupCorpus()...)
	}
	if prop == "C10" {
		// sessions without a contact, stored and read back before every resume ("sessions restored"): they must read back,
		// and a rejected resume (the second op is one the msg wait rejects) must leave them untouched
		for _, c := range noContactCases() {
			c.Scenario = "restored-" + c.Scenario
			c.Ops = []DefOp{{Kind: "dial", NewAssets: c.Assets, Change: "stored and read back"}, {Kind: "msg", Text: "a", NewAssets: c.Assets, Change: "stored and read back"},
				{Kind: "msg", Text: "b", NewAssets: c.Assets, Change: "stored and read back"}}
			corpus = append(corpus, c)
		}
	}
	for i, c := range corpus {
		if prop == "C10" && strings.HasPrefix(c.Scenario, "odd-list") {
			continue
		}
		resetSources(int64(9000 + i))
		if c.Opts != nil {
			runFeedback(prop, c, res)
		} else {
			runDefCase(prop, c, res)
		}
		if hung {
			return
		}
	}
	for i := 0; i < n && !hung; i++ {
		rr := r.Fork(fmt.Sprintf("def%d", i))
		resetSources(int64(950000 + i))
		switch {
		case prop == "C10" && i%3 == 1:
			runDefCase(prop, staleGroupCase(hx.Pick(rr, staleGroupChanges), hx.Pick(rr, []string{"dial", "timeout", "dial", "expiration"})), res)
		case prop == "C10" || i%3 == 0:
			runDefCase(prop, genTypeChange(rr), res)
		case i%3 == 1:
			runDefCase(prop, genListCase(rr), res)
		default:
			runFeedback(prop, genFeedback(rr), res)
		}
	}
}

// replayDef re-runs a recorded definition case; false when the replay file holds no such input
func replayDef(prop, path string, res *hx.Result) bool {
	raw, err := os.ReadFile(path)
	if err != nil {
		return false
	}
	var rj struct {
		FailingInput struct {
			Input json.RawMessage `json:"input"`
		} `json:"failing_input"`
	}
	if json.Unmarshal(raw, &rj) != nil || len(rj.FailingInput.Input) == 0 {
		return false
	}
	var c DefCase
	if json.Unmarshal(rj.FailingInput.Input, &c) != nil || c.Kind != "definition" {
		return false
	}
	resetSources(1)
	runDefCase(prop, &c, res)
	return true
}
