package main

// Direct oracles: the sentences of C01, C05 and C10 evaluated on the REAL session, sprint and JSON.
// They are written from the property statements and do not use the Coq model.

import (
	"bytes"
	"encoding/json"
	"fmt"
	"strings"
	"unicode/utf8"

	"github.com/nyaruka/goflow/flows"
	"github.com/nyaruka/goflow/flows/events"

	"verifharness/pkg/hx"
)

func hasFault(h *History) bool {
	for _, op := range h.Ops {
		if op.Assets != nil || op.Kind == "tamper" {
			return true
		}
	}
	return false
}

// classify records the branch distribution and says whether the history is non-trivial for prop
func classify(prop string, h *History, calls []*CallObs, res *hx.Result) bool {
	sprints, maxRuns := 0, 0
	special := false
	nearLimit, cut, rejected, failed := false, false, false, false
	for _, c := range calls {
		switch c.Kind {
		case 1:
			rejected = true
			res.Dist(fmt.Sprintf("rejected:%d", c.Code))
		case 2:
			res.Dist("go-error")
		case 3:
			res.Dist("panic")
		case 5:
			res.Dist("hang")
		}
		if c.Kind != 0 {
			continue
		}
		sprints++
		if len(c.Session.Runs()) > maxRuns {
			maxRuns = len(c.Session.Runs())
		}
		res.Dist("status:" + c.StatusAfter)
		if c.StatusAfter == string(flows.SessionStatusFailed) {
			failed = true
		}
		newSteps := 0
		for _, ev := range c.Sprint.Events() {
			if txt, ok := failureText(ev); ok {
				special = true
				res.Dist(fmt.Sprintf("failure:%d", failCode(txt)))
				if failCode(txt) < 0 {
					// projected as the wildcard: say which texts (first words) so that the evidence shows what the tie did not compare
					w := strings.Fields(txt)
					if len(w) > 6 {
						w = w[:6]
					}
					res.Dist("failure-text-not-recognised:" + strings.Join(w, " "))
				}
				if failCode(txt) == 0 || failCode(txt) == 4 {
					nearLimit = true
				}
			}
			switch t := ev.(type) {
			case *events.RunExpiredEvent:
				special = true
				res.Dist("expired")
			case *events.FlowEnteredEvent:
				if t.Terminal {
					special = true
					res.Dist("terminal-enter")
				}
			case *events.MsgCreatedEvent:
				if len([]rune(t.Msg.Text())) >= c.Assets.Opts.MaxTemplateChars-2 {
					cut = true
				}
			case *events.RunResultChangedEvent:
				if len([]rune(t.Value)) >= c.Assets.Opts.MaxResultChars-2 {
					cut = true
				}
			}
		}
		newSteps = len(c.Sprint.Segments())
		if newSteps+3 >= c.Assets.Opts.MaxSteps {
			nearLimit = true
		}
	}
	res.Dist(fmt.Sprintf("sprints=%d", min(sprints, 5)))
	res.Dist(fmt.Sprintf("runs=%d", min(maxRuns, 5)))
	res.Dist("trigger:" + h.Trigger.Kind)
	for _, op := range h.Ops {
		res.Dist("op:" + op.Kind)
		if op.Fault != "" {
			res.Dist("fault")
		}
	}
	switch prop {
	case "C05":
		return nearLimit || cut
	case "C10":
		return rejected || failed
	}
	return (sprints >= 2 && maxRuns >= 2) || special
}

// ---- C01 ------------------------------------------------------------------------------------------------

func oracleC01(h *History, ci int, c *CallObs, res *hx.Result) {
	if hasFault(h) {
		return // C01 quantifies over histories on fixed, loadable definitions
	}
	{
		if c.Kind != 0 {
			return
		}
		s := c.Session
		fail := func(class, detail string) {
			res.Fail("C01:"+class, historyJSON(h), fmt.Sprintf("after call %d: %s", ci, detail))
		}
		res.OracleChecks += 5
		// 1. waiting, completed or failed — never still active
		st := s.Status()
		if st != flows.SessionStatusWaiting && st != flows.SessionStatusCompleted && st != flows.SessionStatusFailed {
			fail("session-status", "session status is "+string(st))
		}
		// 2. waiting exactly when exactly one run is waiting, on a node whose router has a wait, every
		//    still-active run being one of its ancestors; otherwise no run active or waiting
		var waiting []flows.Run
		var active []flows.Run
		for _, r := range s.Runs() {
			switch r.Status() {
			case flows.RunStatusWaiting:
				waiting = append(waiting, r)
			case flows.RunStatusActive:
				active = append(active, r)
			}
		}
		if (st == flows.SessionStatusWaiting) != (len(waiting) == 1) {
			fail("waiting-iff-one-waiting-run", fmt.Sprintf("session %s with %d waiting runs", st, len(waiting)))
		}
		if st == flows.SessionStatusWaiting && len(waiting) == 1 {
			wr := waiting[0]
			ok := false
			if len(wr.Path()) > 0 && wr.Flow() != nil {
				n := wr.Flow().GetNode(wr.Path()[len(wr.Path())-1].NodeUUID())
				ok = n != nil && n.Router() != nil && n.Router().Wait() != nil
			}
			if !ok {
				fail("waiting-run-not-on-wait-node", "the waiting run's last step is not on a node whose router has a wait")
			}
			anc := map[flows.Run]bool{}
			for p := wr.ParentInSession(); p != nil; p = p.ParentInSession() {
				anc[p] = true
			}
			for _, r := range active {
				if !anc[r] {
					fail("active-run-not-ancestor", "an active run is not an ancestor of the waiting run")
				}
			}
		} else if st != flows.SessionStatusWaiting && (len(active) > 0 || len(waiting) > 0) {
			fail("active-run-in-finished-session", fmt.Sprintf("session %s has %d active and %d waiting runs", st, len(active), len(waiting)))
		}
		// 3. each path is a walk in the flow graph; 4. exited_on exactly for completed/failed/expired
		for ri, r := range s.Runs() {
			exitedStatus := r.Status() == flows.RunStatusCompleted || r.Status() == flows.RunStatusFailed || r.Status() == flows.RunStatusExpired
			if (r.ExitedOn() != nil) != exitedStatus {
				fail("exited-on", fmt.Sprintf("run %d has status %s and exited_on set=%v", ri, r.Status(), r.ExitedOn() != nil))
			}
			if r.Flow() == nil {
				continue
			}
			path := r.Path()
			for k, stp := range path {
				last := k == len(path)-1
				n := r.Flow().GetNode(stp.NodeUUID())
				if n == nil {
					fail("path-node-unknown", fmt.Sprintf("run %d step %d is on a node that is not in its flow", ri, k))
					continue
				}
				if stp.ExitUUID() == "" {
					if !last {
						fail("path-step-without-exit", fmt.Sprintf("run %d step %d (not the last) has no exit", ri, k))
					}
					continue
				}
				var ex flows.Exit
				for _, e := range n.Exits() {
					if e.UUID() == stp.ExitUUID() {
						ex = e
					}
				}
				if ex == nil {
					fail("path-exit-not-of-node", fmt.Sprintf("run %d step %d left by an exit that does not belong to its node", ri, k))
					continue
				}
				if !last && ex.DestinationUUID() != path[k+1].NodeUUID() {
					fail("path-not-a-walk", fmt.Sprintf("run %d step %d: exit leads to %s, next step is on %s", ri, k, ex.DestinationUUID(), path[k+1].NodeUUID()))
				}
			}
		}
		// 5. events recorded by a run during the sprint name a step of that run and appear, in the same
		//    relative order, in the sprint's event list
		pos := map[flows.Event]int{}
		for i, ev := range c.Sprint.Events() {
			pos[ev] = i
		}
		for ri, r := range s.Runs() {
			from := 0
			if c.PrevLens != nil && ri < len(c.PrevLens) {
				from = c.PrevLens[ri]
			}
			lastPos := -1
			for _, ev := range r.Events()[from:] {
				if ev.StepUUID() != "" {
					found := false
					for _, stp := range r.Path() {
						if stp.UUID() == ev.StepUUID() {
							found = true
						}
					}
					if !found {
						fail("event-step-not-in-run", fmt.Sprintf("run %d recorded a %s event naming a step that is not in its path", ri, ev.Type()))
					}
				}
				p, ok := pos[ev]
				if !ok {
					fail("run-event-not-in-sprint", fmt.Sprintf("run %d recorded a %s event that is not in the sprint's events", ri, ev.Type()))
					continue
				}
				if p < lastPos {
					fail("run-events-out-of-order", fmt.Sprintf("run %d's events appear in another order in the sprint", ri))
				}
				lastPos = p
			}
		}
	}
}

// ---- C05 ------------------------------------------------------------------------------------------------

func countSteps(s flows.Session) int {
	n := 0
	for _, r := range s.Runs() {
		n += len(r.Path())
	}
	return n
}

type c05state struct{ prevSteps, resumed int }

func oracleC05(h *History, ci int, c *CallObs, res *hx.Result, st5 *c05state) {
	{
		o := c.Assets.Opts
		fail := func(class, detail string) {
			res.Fail("C05:"+class, historyJSON(h), fmt.Sprintf("call %d: %s", ci, detail))
		}
		res.OracleChecks++
		switch c.Kind {
		case 3:
			// the class is computed from the input (the option values), not from the panic message
			class := "panic"
			switch {
			case o.MaxTemplateChars < 3:
				class = "panic:truncate:max-template-chars-below-3"
			case o.MaxResultChars < 0:
				class = "panic:truncate:negative-max-result-chars"
			}
			fail(class, "engine call panicked: "+c.Err)
			return
		case 5:
			fail("hang", "engine call did not return within the watchdog")
			return
		case 2:
			fail("go-error", "engine call returned a Go error: "+c.Err)
			return
		case 1:
			return
		}
		s := c.Session
		// steps visited in this sprint, across runs
		total := countSteps(s)
		newSteps := total - st5.prevSteps
		st5.prevSteps = total
		limit := o.MaxSteps
		if limit < 0 {
			limit = 0
		}
		if newSteps > limit {
			fail("step-limit-exceeded", fmt.Sprintf("sprint visited %d steps, limit %d", newSteps, o.MaxSteps))
		}
		// "hitting the limit ends the session as failed with a failure event": whether the limit was hit is not
		// observable from outside except through the failure event's text, and texts are not part of the
		// property: nothing is decided from wording.  Only when a failure event carries exactly the step-limit
		// phrase of the pinned source does the oracle know the limit was hit, and then requires the session to be
		// failed (a reworded text merely switches this one check off; the step bound above, the Go-error / panic /
		// hang checks and the Coq theorems about FStepLimit do not depend on it).
		for _, ev := range c.Sprint.Events() {
			if txt, ok := failureText(ev); ok && failCode(txt) == 0 && s.Status() != flows.SessionStatusFailed {
				fail("step-limit-not-failed", "the step limit was hit but the session is "+string(s.Status()))
			}
		}
		// resumes: a resume "went through" when the call returned a session that is not failed afterwards (a
		// session failed for having reached the limit - or for any other reason - was not resumed in the sense of
		// the sentence, and cannot be resumed again).  Decided from the status only.
		if ci > 0 {
			if s.Status() != flows.SessionStatusFailed {
				st5.resumed++
			}
			lim := o.MaxResumes
			if lim < 0 {
				lim = 0
			}
			if st5.resumed > lim {
				fail("resume-limit-exceeded", fmt.Sprintf("session resumed %d times without failing, limit %d", st5.resumed, o.MaxResumes))
			}
		}
		// lengths
		for _, ev := range c.Sprint.Events() {
			switch t := ev.(type) {
			case *events.MsgCreatedEvent:
				if t.Msg.Templating() == nil && utf8.RuneCountInString(t.Msg.Text()) > o.MaxTemplateChars {
					fail("msg-text-too-long", fmt.Sprintf("message text has %d characters, limit %d", utf8.RuneCountInString(t.Msg.Text()), o.MaxTemplateChars))
				}
				for _, q := range t.Msg.QuickReplies() {
					if utf8.RuneCountInString(q) > flows.MaxQuickReplyLength {
						fail("quick-reply-too-long", "quick reply longer than the limit")
					}
				}
				for _, a := range t.Msg.Attachments() {
					if len(a) > flows.MaxAttachmentLength {
						fail("attachment-too-long", "attachment longer than the limit")
					}
				}
			case *events.RunResultChangedEvent:
				if utf8.RuneCountInString(t.Value) > max(o.MaxResultChars, 0) {
					fail("result-value-too-long", fmt.Sprintf("result value has %d characters, limit %d", utf8.RuneCountInString(t.Value), o.MaxResultChars))
				}
			}
		}
	}
}

// ---- C10 ------------------------------------------------------------------------------------------------

// what the session JSON says before the call (read with encoding/json only, no goflow types)
type beforeSession struct {
	Status  string `json:"status"`
	Trigger struct {
		Call json.RawMessage `json:"call"`
	} `json:"trigger"`
	Runs   []struct {
		Status string `json:"status"`
		Flow   struct {
			UUID string `json:"uuid"`
		} `json:"flow"`
		Path []struct {
			NodeUUID string `json:"node_uuid"`
		} `json:"path"`
		Events []struct {
			Type string `json:"type"`
		} `json:"events"`
	} `json:"runs"`
}

// expectation for a resume, from the sentences of C10:
//
//	"rejected with an engine error - the session is not waiting [101], has no waiting run [102], or the
//	 wait does not accept that type of resume [103]"
//	"conditions that make resumption impossible (missing flow, vanished node, node without wait, resume
//	 limit reached) instead end the session as failed"
//
// reject != 0: must be rejected with that code; impossible: must end as failed; both (the limit is
// reached AND the wait would not accept): the sentences overlap, either outcome is allowed.
type c10expect struct {
	reject     int
	impossible string
}

func expectC10(before []byte, a *Assets, op *Op) (c10expect, bool) {
	var b beforeSession
	if err := json.Unmarshal(before, &b); err != nil {
		return c10expect{}, false
	}
	if b.Status != "waiting" {
		return c10expect{reject: 101}, true
	}
	wi := -1
	for i, r := range b.Runs {
		if r.Status == "waiting" {
			wi = i
			break
		}
	}
	if wi < 0 {
		return c10expect{reject: 102}, true
	}
	var ex c10expect
	waits := 0
	for _, r := range b.Runs {
		for _, e := range r.Events {
			if strings.HasSuffix(e.Type, "_wait") {
				waits++
			}
		}
	}
	if waits >= a.Opts.MaxResumes {
		ex.impossible = "resume limit reached"
	}
	wr := b.Runs[wi]
	f := a.flow(idOf(wr.Flow.UUID))
	if f == nil {
		return c10expect{impossible: "missing flow"}, true
	}
	if f.Type == 2 && (len(b.Trigger.Call) == 0 || string(b.Trigger.Call) == "null") {
		// the flow was re-saved as a voice flow and the session has no call to speak into: one more way in which the
		// flow the run is in can no longer be used (the sentence's list is "(missing flow, vanished node, ...)")
		return c10expect{impossible: "voice flow without call"}, true
	}
	if len(wr.Path) == 0 {
		return c10expect{impossible: "vanished node"}, true
	}
	n := f.node(idOf(wr.Path[len(wr.Path)-1].NodeUUID))
	if n == nil {
		return c10expect{impossible: "vanished node"}, true
	}
	if n.Router == nil || n.Router.Wait == nil {
		return c10expect{impossible: "node without wait"}, true
	}
	// the accept table: a msg wait accepts msg and run_expiration, and wait_timeout iff it has a timeout; a dial
	// wait accepts only dial
	accepted := false
	if n.Router.Wait.Dial {
		accepted = op.Kind == "dial"
		if !accepted {
			ex.reject = 103
		}
		return ex, true
	}
	switch op.Kind {
	case "msg", "tamper", "expiration":
		accepted = true
	case "timeout":
		accepted = n.Router.Wait.HasTimeout
	case "dial":
		accepted = false
	}
	if !accepted {
		ex.reject = 103
	}
	return ex, true
}

// firstDiffWindow: the part of a around the first place where it differs from b
func firstDiffWindow(a, b string) string {
	i := 0
	for i < len(a) && i < len(b) && a[i] == b[i] {
		i++
	}
	lo, hi := max(0, i-60), min(len(a), i+120)
	return a[lo:hi]
}

func oracleC10(h *History, ci int, c *CallObs, res *hx.Result) {
	{
		if ci == 0 {
			return
		}
		fail := func(class, detail string) {
			res.Fail("C10:"+class, historyJSON(h), fmt.Sprintf("call %d (%s %s): %s", ci, c.Op.Kind, c.Op.Fault, detail))
		}
		res.OracleChecks++
		ex, ok := expectC10(c.Before, c.Assets, c.Op)
		if !ok {
			fail("harness:before-json", "cannot read the session JSON before the call")
			return
		}
		switch c.Kind {
		case 3:
			fail("panic", "Resume panicked: "+c.Err)
		case 5:
			fail("hang", "Resume did not return")
		case 2:
			fail("go-error", "Resume returned a Go error instead of failing the session: "+c.Err)
		case 1:
			// rejected: the session must be exactly as it was, no events
			if !bytes.Equal(c.Before, c.After) {
				fail(fmt.Sprintf("rejected-%d-session-changed", ex.reject), "session JSON differs after a rejected resume")
			}
			// "left exactly as it was": also what the session shows through its API (the expression context of the
			// current run, the parent run) - a host that retries with another resume must find the same session
			if after := renderContext(c.Session); c.CtxBefore != "" && after != c.CtxBefore {
				fail(fmt.Sprintf("rejected-%d-context-changed", ex.reject), fmt.Sprintf("the session's JSON is unchanged but what it shows through CurrentContext()/ParentRun() differs after a rejected resume: before %.300s / after %.300s", firstDiffWindow(c.CtxBefore, after), firstDiffWindow(after, c.CtxBefore)))
			}
			if c.Sprint != nil && (len(c.Sprint.Events()) > 0 || len(c.Sprint.Segments()) > 0 || len(c.Sprint.Modifiers()) > 0) {
				fail(fmt.Sprintf("rejected-%d-produced-events", ex.reject), "a rejected resume produced events")
			}
			// ... and it must be one of the three situations (the error's code and wording are not compared: the
			// sentence names situations, not codes)
			switch {
			case ex.reject == 0 && ex.impossible == "":
				fail("acceptable-resume-rejected", "the session was waiting on a wait that accepts this resume, yet it was rejected: "+c.Err)
			case ex.reject == 0 && ex.impossible != "":
				fail("impossible-resume-rejected:"+strings.ReplaceAll(ex.impossible, " ", "-"), "resumption was impossible ("+ex.impossible+") but the resume was rejected instead of failing the session: "+c.Err)
			}
		case 0:
			if ex.reject != 0 && ex.impossible == "" {
				fail(fmt.Sprintf("resume-not-rejected-%d", ex.reject), "the resume had to be rejected but the call went through")
			}
			// conditions that make resumption impossible end the session as failed with a failure event
			failureEvents := 0
			for _, ev := range c.Sprint.Events() {
				if _, ok := failureText(ev); ok {
					failureEvents++
				}
			}
			if ex.impossible != "" && ex.reject == 0 {
				cl := strings.ReplaceAll(ex.impossible, " ", "-")
				if c.Session.Status() != flows.SessionStatusFailed {
					fail("impossible-resume-not-failed:"+cl, "resumption was impossible ("+ex.impossible+") but the session is "+string(c.Session.Status()))
				}
				if failureEvents == 0 {
					fail("impossible-resume-without-failure-event:"+cl, "resumption was impossible ("+ex.impossible+") but the sprint has no failure event")
				}
				for ri, r := range c.Session.Runs() {
					if r.Status() == flows.RunStatusActive || r.Status() == flows.RunStatusWaiting {
						fail("impossible-resume-leaves-live-run:"+cl, fmt.Sprintf("run %d is still %s", ri, r.Status()))
					}
				}
			}
		}
	}
}
