package main

// Execution of a history on the REAL engine and projection of what it did into the token stream that
// coq/model/EngineCorr.v produces from the model (see enc_* there; the two must stay in step).

import (
	"encoding/json"
	"fmt"
	"sort"
	"strings"
	"time"

	"github.com/nyaruka/gocommon/dates"
	"github.com/nyaruka/gocommon/jsonx"
	"github.com/nyaruka/gocommon/urns"
	"github.com/nyaruka/gocommon/uuids"
	"github.com/nyaruka/goflow/assets"
	"github.com/nyaruka/goflow/assets/static"
	"github.com/nyaruka/goflow/envs"
	"github.com/nyaruka/goflow/flows"
	"github.com/nyaruka/goflow/flows/engine"
	"github.com/nyaruka/goflow/flows/events"
	"github.com/nyaruka/goflow/flows/resumes"
	"github.com/nyaruka/goflow/flows/triggers"
)

type Trigger struct {
	Kind string // manual | msg | flow_action
	Text string
	Flow int
}

type Op struct {
	Kind    string  // msg | timeout | expiration | dial | fault | restart | tamper
	Text    string  // msg text
	Fault   string  // description of the fault
	Assets  *Assets // assets after the fault
	Restart bool    // marshal + ReadSession before this resume (C02)
}

type History struct {
	Assets  *Assets
	Trigger Trigger
	Ops     []Op
}

// what one engine call did
type CallObs struct {
	Kind     int // 0 ok, 1 rejected, 2 go error, 3 panic, 5 hang
	Code     int
	Err      string
	Tokens   []int
	Session  flows.Session
	Sprint   flows.Sprint
	Before   []byte // session JSON before the call (resumes)
	CtxBefore string // what the session shows through its API before the call (CurrentContext, ParentRun)
	After    []byte // session JSON after the call
	PrevLens []int  // number of events per run before the call
	Assets   *Assets
	Op       *Op
	Millis   int64
	// captured when the call returned (the session object is mutated by later calls)
	StatusAfter    string
	RunsAfter      int
	EventsInSprint int
}

type world struct {
	env     envs.Environment
	eng     flows.Engine
	sa      flows.SessionAssets
	a       *Assets
	contact *flows.Contact
}

var env0 = envs.NewBuilder().WithAllowedLanguages("eng").WithDefaultCountry("US").Build()

func loadAssets(a *Assets) (flows.SessionAssets, error) {
	src, err := static.NewSource(a.JSON())
	if err != nil {
		return nil, err
	}
	return engine.NewSessionAssets(env0, src, nil)
}

func newEngine(o Options) flows.Engine {
	return engine.NewBuilder().WithMaxStepsPerSprint(o.MaxSteps).WithMaxResumesPerSession(o.MaxResumes).
		WithMaxTemplateChars(o.MaxTemplateChars).WithMaxResultChars(o.MaxResultChars).Build()
}

const parentRunSummary = `{"uuid":"4213ac47-93fd-48c4-af12-7da8218ef09d","flow":{"uuid":"00000001-0000-4000-8000-000000000099","name":"Parent"},
"contact":{"uuid":"c59b0033-e748-4240-9d4c-e85eb6800151","name":"Bob","created_on":"2018-01-01T12:00:00.000000Z"},"status":"active","results":{}}`

func resetSources(seed int64) {
	uuids.SetGenerator(uuids.NewSeededGenerator(seed, time.Now))
	dates.SetNowFunc(dates.NewSequentialNow(time.Date(2020, 1, 1, 0, 0, 0, 0, time.UTC), time.Second))
}

// guarded runs f under recover and a watchdog
func guarded(f func()) (panicked any, hung bool) {
	done := make(chan any, 1)
	go func() {
		defer func() { done <- recover() }()
		f()
	}()
	select {
	case p := <-done:
		return p, false
	case <-time.After(10 * time.Second):
		return nil, true
	}
}

// wildcard: the token the model-side comparison accepts against ANY model token (coq/model/EngineCorr.v).  It is
// emitted where the implementation says something the projection does not recognise - a failure text that matches
// none of the known phrases, an engine error code other than 101/102/103: texts and new codes are not part of any
// property, so a reworded message must not break the tie.  The position, the owning run and the step reference of
// the event, and the fact that it IS a failure event, are still compared.
const wildcard = 4000000007

// failCode maps the text of a failure event to the model's failure kind when (and only when) it is one of the
// phrases of the pinned source; -1 = not recognised (projected as the wildcard).  No oracle decides anything from
// this: it serves the correspondence and the statistics only.
func failCode(text string) int {
	switch {
	case strings.HasPrefix(text, "reached maximum number of steps per sprint ("):
		return 0
	case strings.HasPrefix(text, "router on node[uuid=") && strings.HasSuffix(text, "] failed to pick a category"):
		return 1
	case strings.HasPrefix(text, "child run for flow '") && strings.HasSuffix(text, "' ended in error, ending execution"):
		return 2
	case text == "can't resume run with missing flow asset":
		return 3
	case strings.HasPrefix(text, "reached maximum number of resumes per session ("):
		return 4
	case strings.HasPrefix(text, "unable to find resume location: "):
		return 5
	case text == "can't resume from node without a router or wait":
		return 6
	case strings.HasPrefix(text, "unable to resolve router exit: "):
		return 7
	case strings.HasPrefix(text, "can't resume run as node no longer exists: "):
		return 8
	case strings.HasPrefix(text, "no such flow with UUID '"):
		return 10
	case strings.HasPrefix(text, "can't enter ") && strings.Contains(text, " of type "):
		return 11
	case text == "can't resume run in voice flow without call":
		return 12
	}
	return -1
}

func failToken(text string) int {
	if c := failCode(text); c >= 0 {
		return c
	}
	return wildcard
}

var runStatusCode = map[flows.RunStatus]int{flows.RunStatusActive: 0, flows.RunStatusWaiting: 1, flows.RunStatusCompleted: 2,
	flows.RunStatusFailed: 3, flows.RunStatusExpired: 4}
var sessionStatusCode = map[flows.SessionStatus]int{flows.SessionStatusActive: 0, flows.SessionStatusWaiting: 1,
	flows.SessionStatusCompleted: 2, flows.SessionStatusFailed: 3}

type enc struct{ t []int }

func (e *enc) n(xs ...int) { e.t = append(e.t, xs...) }
func (e *enc) text(s string) {
	rs := []rune(s)
	e.n(len(rs))
	for _, c := range rs {
		e.n(int(c))
	}
}
func (e *enc) opt(present bool, xs ...int) {
	if !present {
		e.n(0)
	} else {
		e.n(1)
		e.n(xs...)
	}
}

// canonical value of results produced by a timeout route: the implementation saves the time of the timeout
// (an ISO timestamp of the sequential test clock, which starts at 2020-01-01, possibly cut by
// MaxResultChars), the model saves "T" (cut likewise).  No generated text starts like a timestamp.
func canonValue(value, category string) string {
	const ref = "2020-01-01T"
	if value == "" {
		return value
	}
	for i := 0; i < len(value) && i < len(ref); i++ {
		if value[i] != ref[i] {
			return value
		}
	}
	return "T"
}

func (e *enc) event(s flows.Session, ev flows.Event) {
	// step reference
	if ev.StepUUID() == "" {
		e.n(0)
	} else {
		ri, pos := findStep(s, ev.StepUUID())
		e.n(1, ri, pos)
	}
	switch t := ev.(type) {
	case *events.MsgReceivedEvent:
		e.n(1)
		e.text(t.Msg.Text())
	case *events.MsgCreatedEvent:
		e.n(2)
		e.text(t.Msg.Text())
	case *events.RunResultChangedEvent:
		e.n(3)
		e.text(t.Name)
		e.text(canonValue(t.Value, t.Category))
		e.text(t.Category)
	case *events.FlowEnteredEvent:
		e.n(4, idOf(string(t.Flow.UUID)), b2i(t.Terminal))
	case *events.MsgWaitEvent:
		e.n(5)
		if t.TimeoutSeconds == nil {
			e.n(0)
		} else {
			e.n(1, *t.TimeoutSeconds)
		}
	case *events.WaitTimedOutEvent:
		e.n(6)
	case *events.RunExpiredEvent:
		e.n(7)
	case *events.DialEndedEvent:
		e.n(8)
	case *events.DialWaitEvent:
		e.n(10)
	default:
		if txt, ok := failureText(ev); ok {
			e.n(9, failToken(txt))
		} else {
			e.n(98)
			e.text(ev.Type())
		}
	}
}

// failureText recognises failure events by their type name: a failure event that was read back from
// session JSON is an *events.ErrorEvent in Go (events/failure.go registers that constructor), with the
// same JSON.
func failureText(ev flows.Event) (string, bool) {
	if ev.Type() != events.TypeFailure {
		return "", false
	}
	switch t := ev.(type) {
	case *events.FailureEvent:
		return t.Text, true
	case *events.ErrorEvent:
		return t.Text, true
	}
	var m struct {
		Text string `json:"text"`
	}
	b, _ := json.Marshal(ev)
	json.Unmarshal(b, &m)
	return m.Text, true
}

func b2i(b bool) int {
	if b {
		return 1
	}
	return 0
}

func findStep(s flows.Session, u flows.StepUUID) (int, int) {
	for ri, r := range s.Runs() {
		for pos, st := range r.Path() {
			if st.UUID() == u {
				return ri, pos
			}
		}
	}
	return 999, 999
}

func runIndex(s flows.Session, r flows.Run) int {
	for i, x := range s.Runs() {
		if x == r {
			return i
		}
	}
	return -1
}

func (e *enc) session(s flows.Session) {
	e.n(sessionStatusCode[s.Status()])
	e.n(len(s.Runs()))
	for _, r := range s.Runs() {
		e.n(idOf(string(r.FlowReference().UUID)))
		if p := r.ParentInSession(); p != nil {
			e.n(1, runIndex(s, p))
		} else {
			e.n(0)
		}
		sc, ok := runStatusCode[r.Status()]
		if !ok {
			sc = 9
		}
		e.n(sc, b2i(r.ExitedOn() != nil))
		e.n(len(r.Path()))
		for _, st := range r.Path() {
			e.n(idOf(string(st.NodeUUID())))
			if st.ExitUUID() == "" {
				e.n(0)
			} else {
				e.n(1, idOf(string(st.ExitUUID())))
			}
		}
		e.n(len(r.Events()))
		for _, ev := range r.Events() {
			e.event(s, ev)
		}
		keys := make([]string, 0)
		for k := range r.Results() {
			keys = append(keys, k)
		}
		sort.Strings(keys)
		e.n(len(keys))
		for _, k := range keys {
			res := r.Results()[k]
			e.text(res.Name)
			e.text(canonValue(res.Value, res.Category))
			e.text(res.Category)
			e.n(idOf(string(res.NodeUUID)))
			e.text(res.Input)
		}
	}
	if in := s.Input(); in != nil {
		e.n(1)
		var m struct {
			Text string `json:"text"`
		}
		b, _ := json.Marshal(in)
		json.Unmarshal(b, &m)
		e.text(m.Text)
	} else {
		e.n(0)
	}
}

func (e *enc) sprint(s flows.Session, sp flows.Sprint) {
	// which run logged each sprint event (pointer identity with the run's own event list)
	owner := map[flows.Event]int{}
	for ri, r := range s.Runs() {
		for _, ev := range r.Events() {
			owner[ev] = ri
		}
	}
	e.n(len(sp.Events()))
	for _, ev := range sp.Events() {
		if ri, ok := owner[ev]; ok {
			e.n(1, ri)
		} else {
			e.n(0)
		}
		e.event(s, ev)
	}
	e.n(len(sp.Segments()))
	for _, sg := range sp.Segments() {
		e.n(idOf(string(sg.Flow().UUID())), idOf(string(sg.Node().UUID())), idOf(string(sg.Exit().UUID())))
		e.text(sg.Operand())
		e.n(idOf(string(sg.Destination().UUID())))
	}
}

func eventLens(s flows.Session) []int {
	out := make([]int, len(s.Runs()))
	for i, r := range s.Runs() {
		out[i] = len(r.Events())
	}
	return out
}

func mustJSON(s flows.Session) []byte {
	b, err := json.Marshal(s)
	if err != nil {
		return []byte("marshal error: " + err.Error())
	}
	return b
}

// start runs the trigger; w is updated with the engine/assets
func (w *world) start(h *History) *CallObs {
	var err error
	w.a = h.Assets
	w.sa, err = loadAssets(h.Assets)
	if err != nil {
		return &CallObs{Kind: 9, Err: "assets not loadable: " + err.Error()}
	}
	w.eng = newEngine(h.Assets.Opts)
	w.contact, err = flows.NewContact(w.sa, flows.ContactUUID(uuids.NewV4()), flows.ContactID(7), "Bob", "eng",
		flows.ContactStatusActive, nil, time.Date(2019, 1, 1, 0, 0, 0, 0, time.UTC), nil, nil, nil, nil, nil, assets.PanicOnMissing)
	if err != nil {
		return &CallObs{Kind: 9, Err: err.Error()}
	}
	flowRef := assets.NewFlowReference(assets.FlowUUID(uuidOf(kFlow, h.Trigger.Flow)), fmt.Sprintf("F%d", h.Trigger.Flow))
	tb := triggers.NewBuilder(env0, flowRef, w.contact)
	var trig flows.Trigger
	switch h.Trigger.Kind {
	case "msg":
		trig = tb.Msg(flows.NewMsgIn(flows.MsgUUID(uuids.NewV4()), urns.NilURN, nil, h.Trigger.Text, nil)).Build()
	case "flow_action":
		trig = tb.FlowAction(&flows.SessionHistory{ParentUUID: "8a1a6a3c-2b1c-4f5d-9a3e-1c2d3e4f5a6b", Ancestors: 1, AncestorsSinceInput: 1}, json.RawMessage(parentRunSummary)).Build()
	default:
		if tf := h.Assets.flow(h.Trigger.Flow); tf != nil && tf.Type == 2 {
			// a voice flow can only be started with a call
			trig = tb.Manual().WithCall(assets.NewChannelReference(assets.ChannelUUID(channelUUID), "Twilio"), urns.URN("tel:+12065551212")).Build()
		} else {
			trig = tb.Manual().Build()
		}
	}
	obs := &CallObs{Assets: h.Assets}
	var s flows.Session
	var sp flows.Sprint
	t0 := time.Now()
	p, hung := guarded(func() { s, sp, err = w.eng.NewSession(w.sa, trig) })
	obs.Millis = time.Since(t0).Milliseconds()
	finish(obs, s, sp, err, p, hung)
	return obs
}

func finish(obs *CallObs, s flows.Session, sp flows.Sprint, err error, p any, hung bool) {
	e := &enc{}
	switch {
	case hung:
		obs.Kind = 5
		e.n(5)
	case p != nil:
		obs.Kind = 3
		obs.Err = fmt.Sprint(p)
		e.n(3)
	case err != nil:
		if ee, ok := err.(*engine.Error); ok {
			obs.Kind = 1
			obs.Code = ee.Code()
			if code := ee.Code(); code == 101 || code == 102 || code == 103 {
				e.n(1, code)
			} else {
				e.n(1, wildcard) // an engine error the model does not know: compared as "rejected" only
			}
			if s != nil {
				e.session(s) // the session after a rejected resume (the model says: as it was)
				if sp != nil {
					e.sprint(s, sp) // ... and what the call produced (the model says: nothing)
				} else {
					e.n(0, 0)
				}
			}
		} else {
			obs.Kind = 2
			e.n(2)
		}
		obs.Err = err.Error()
		obs.Session, obs.Sprint = s, sp
	default:
		obs.Kind = 0
		obs.Session, obs.Sprint = s, sp
		obs.StatusAfter, obs.RunsAfter, obs.EventsInSprint = string(s.Status()), len(s.Runs()), len(sp.Events())
		e.n(0)
		e.session(s)
		e.sprint(s, sp)
	}
	if s != nil && !hung && p == nil {
		obs.After = mustJSON(s)
	}
	obs.Tokens = e.t
}

// resume applies one op to session s (restoring it first when asked or when the assets changed)
func (w *world) resume(s flows.Session, op *Op) (*CallObs, flows.Session) {
	obs := &CallObs{Op: op, Assets: w.a}
	var err error
	if op.Assets != nil {
		w.a = op.Assets
		obs.Assets = op.Assets
		if w.sa, err = loadAssets(op.Assets); err != nil {
			obs.Kind = 9
			obs.Err = "faulted assets not loadable: " + err.Error()
			return obs, s
		}
		w.eng = newEngine(op.Assets.Opts) // the options are part of the faulted configuration
	}
	if op.Assets != nil || op.Restart {
		b := mustJSON(s)
		if op.Kind == "tamper" {
			// a waiting session none of whose runs is waiting (not reachable through the engine; C10's 102)
			b = []byte(strings.Replace(string(b), `"status":"waiting","parent_uuid"`, `"status":"active","parent_uuid"`, -1))
			b = tamperRuns(b)
		}
		s2, rerr := w.eng.ReadSession(w.sa, b, assets.IgnoreMissing)
		if rerr != nil {
			obs.Kind = 9
			obs.Err = "ReadSession: " + rerr.Error()
			return obs, s
		}
		s = s2
	}
	obs.Before = mustJSON(s)
	obs.CtxBefore = renderContext(s)
	obs.PrevLens = eventLens(s)
	var res flows.Resume
	switch op.Kind {
	case "msg", "tamper":
		res = resumes.NewMsg(nil, nil, flows.NewMsgIn(flows.MsgUUID(uuids.NewV4()), urns.NilURN, nil, op.Text, nil))
	case "timeout":
		res = resumes.NewWaitTimeout(nil, nil)
	case "expiration":
		res = resumes.NewRunExpiration(nil, nil)
	case "dial":
		status := flows.DialStatusAnswered
		switch op.Text {
		case "busy":
			status = flows.DialStatusBusy
		case "no_answer":
			status = flows.DialStatusNoAnswer
		case "failed":
			status = flows.DialStatusFailed
		}
		res = resumes.NewDial(nil, nil, flows.NewDial(status, 10))
	}
	var sp flows.Sprint
	t0 := time.Now()
	p, hung := guarded(func() { sp, err = s.Resume(res) })
	obs.Millis = time.Since(t0).Milliseconds()
	finish(obs, s, sp, err, p, hung)
	return obs, s
}

// renderContext: what a host sees of the session through the API besides its JSON - the expression context of the
// current run (what templates evaluate against) and whether the session shows a parent run
func renderContext(s flows.Session) (out string) {
	defer func() {
		if r := recover(); r != nil {
			out = fmt.Sprint("panic: ", r)
		}
	}()
	var ctx []byte
	if c := s.CurrentContext(); c != nil {
		ctx, _ = jsonx.Marshal(c)
	}
	return fmt.Sprintf("parent_run_loaded=%v context=%s", s.ParentRun() != nil, ctx)
}

// tamperRuns sets every run's status "waiting" to "active" in a session JSON
func tamperRuns(b []byte) []byte {
	var m map[string]any
	if err := json.Unmarshal(b, &m); err != nil {
		return b
	}
	if runs, ok := m["runs"].([]any); ok {
		for _, r := range runs {
			if rm, ok := r.(map[string]any); ok && rm["status"] == "waiting" {
				rm["status"] = "active"
			}
		}
	}
	out, _ := json.Marshal(m)
	return out
}
