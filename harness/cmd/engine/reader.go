package main

// Reader stream (direct oracle only, C05: "Every engine call returns normally - no hang, no panic").
//
// Engine.ReadSession is an engine call on JSON the host supplies (a stored session), and the trigger / resume / contact /
// modifier a host passes to NewSession / Resume come from JSON through ReadTrigger / ReadResume / ReadContact /
// ReadModifier.  The stream takes documents the engine itself marshalled (sessions in several states, their contact
// and trigger) and hand-written resumes and modifiers, applies one structure-aware mutation (a member or an
// element becomes null, is removed, gets a value of another type, an array gets a null / duplicate element, an
// object or array is emptied) and reads them back.  The oracle: the reader returns - a value or an error, never a
// panic or a hang; a session that reads back and is waiting takes a msg resume without a panic.

import (
	"encoding/json"
	"fmt"
	"os"
	"regexp"
	"runtime/debug"
	"sort"
	"strings"
	"time"

	"github.com/nyaruka/gocommon/urns"
	"github.com/nyaruka/gocommon/uuids"
	"github.com/nyaruka/goflow/assets"
	"github.com/nyaruka/goflow/assets/static"
	"github.com/nyaruka/goflow/envs"
	"github.com/nyaruka/goflow/flows"
	"github.com/nyaruka/goflow/flows/engine"
	"github.com/nyaruka/goflow/flows/modifiers"
	"github.com/nyaruka/goflow/flows/resumes"
	"github.com/nyaruka/goflow/flows/triggers"
	"github.com/nyaruka/goflow/utils"

	"verifharness/pkg/hx"
)

type ReaderCase struct {
	Kind     string          `json:"kind"`   // "reader"
	Reader   string          `json:"reader"` // session | contact | trigger | resume | modifier
	Seed     string          `json:"seed_document"`
	Mutation string          `json:"mutation"` // what was done, where
	Document json.RawMessage `json:"document"`
}

const readerContact = `{"uuid":"5d76d86b-3bb9-4d5a-b822-c9d86f5d8e4f","id":7,"name":"Bob","language":"eng","status":"active","timezone":"America/Guayaquil",
"created_on":"2018-06-20T11:40:30.123456789Z","last_seen_on":"2019-01-01T10:00:00Z","urns":["tel:+12065551212?channel=a78930fe-6a40-4aa8-99c3-e61b02f45ca1","twitterid:54784326227#nyaruka"],
"groups":[{"uuid":"b7cf0d83-f1c9-411c-96fd-c511a4cfa86d","name":"Testers"}],
"fields":{"gender":{"text":"Male"},"age":{"text":"21","number":21},"joined":{"text":"2018-03-27T10:30:00Z","datetime":"2018-03-27T10:30:00.000000Z"}},
"ticket":{"uuid":"78d1fe0d-7e39-461e-81c3-a6a25f15ed69","topic":{"uuid":"472a7a73-96cb-4736-b567-056d987cc5b4","name":"Weather"},"assignee":null}}`

const readerRunSummary = `{"uuid":"4213ac47-93fd-48c4-af12-7da8218ef09d","flow":{"uuid":"00000001-0000-4000-8000-000000000099","name":"Parent"},
"contact":{"uuid":"c59b0033-e748-4240-9d4c-e85eb6800151","name":"Bob","created_on":"2018-01-01T12:00:00.000000Z","fields":{"gender":{"text":"M"}},"groups":[{"uuid":"b7cf0d83-f1c9-411c-96fd-c511a4cfa86d","name":"Testers"}]},"status":"active",
"results":{"age":{"name":"Age","value":"33","category":"Adult","node_uuid":"00000002-0000-4000-8000-000000000101","created_on":"2018-01-01T12:00:00.000000Z","input":"33"}}}`

const readerEnv = `{"date_format":"DD-MM-YYYY","time_format":"tt:mm","timezone":"America/Guayaquil","allowed_languages":["eng","fra"],"default_country":"US","redaction_policy":"none"}`

func readerAssets() json.RawMessage {
	child := defFlow(2, "messaging", []any{defActionNode(201, 202, map[string]any{"type": "set_run_result", "name": "Mood", "value": "good", "category": "Positive"}),
		defWaitNode(202, 203), defActionNode(203, 0, actionOfType("send_msg"))})
	wn := defWaitNode(102, 103)
	wn["router"].(map[string]any)["result_name"] = "Name"
	wn["router"].(map[string]any)["wait"] = map[string]any{"type": "msg", "timeout": map[string]any{"seconds": 600, "category_uuid": uuidOf(kCat, 1020)}}
	parent := defFlow(1, "messaging", []any{
		defActionNode(101, 102, map[string]any{"type": "send_msg", "text": "hi @contact.name", "quick_replies": []any{"yes", "no"}},
			map[string]any{"type": "set_contact_field", "field": map[string]any{"key": "gender", "name": "Gender"}, "value": "F"},
			map[string]any{"type": "add_contact_groups", "groups": []any{map[string]any{"uuid": defGroupUUID, "name": "Testers"}}}),
		wn,
		defActionNode(103, 0, map[string]any{"type": "enter_flow", "flow": map[string]any{"uuid": uuidOf(kFlow, 2), "name": "F2"}})})
	voice := defFlow(3, "voice", []any{defActionNode(301, 302, map[string]any{"type": "say_msg", "text": "hello"}),
		map[string]any{"uuid": uuidOf(kNode, 302), "router": map[string]any{"type": "switch", "operand": "@(default(resume.dial.status, \"\"))", "cases": []any{},
			"categories": []any{map[string]any{"uuid": uuidOf(kCat, 3020), "name": "All", "exit_uuid": uuidOf(kExit, 3021)}}, "default_category_uuid": uuidOf(kCat, 3020),
			"wait": map[string]any{"type": "dial", "phone": "+12065551213"}}, "exits": []any{map[string]any{"uuid": uuidOf(kExit, 3021)}}}})
	return defAssetsWith([]any{parent, child, voice}, map[string]any{
		"fields": []any{map[string]any{"uuid": uuidOf(kAct, 9001), "key": "gender", "name": "Gender", "type": "text"},
			map[string]any{"uuid": uuidOf(kAct, 9002), "key": "age", "name": "Age", "type": "number"},
			map[string]any{"uuid": uuidOf(kAct, 9003), "key": "joined", "name": "Joined", "type": "datetime"}},
		"topics": []any{map[string]any{"uuid": defTopicUUID, "name": "Weather"}},
	})
}

// guardedSite runs f under recover and a watchdog; for a panic it also returns the innermost goflow function on the
// panicking goroutine's stack (the place that needs the repair: the class of the failure)
func guardedSite(f func()) (panicked any, site string, hung bool) {
	type out struct {
		p    any
		site string
	}
	done := make(chan out, 1)
	go func() {
		defer func() {
			p := recover()
			site := ""
			if p != nil {
				site = panicSite(string(debug.Stack()))
			}
			done <- out{p, site}
		}()
		f()
	}()
	select {
	case o := <-done:
		return o.p, o.site, false
	case <-time.After(10 * time.Second):
		return nil, "", true
	}
}

var stackFunc = regexp.MustCompile(`^github\.com/nyaruka/goflow/([^\s(]+(?:\([^)]*\))?[^\s(]*)\(`)

func panicSite(stack string) string {
	seenPanic := false
	for _, line := range strings.Split(stack, "\n") {
		if strings.HasPrefix(line, "panic(") {
			seenPanic = true
			continue
		}
		if !seenPanic {
			continue
		}
		if m := stackFunc.FindStringSubmatch(line); m != nil {
			return strings.NewReplacer("(*", "", ")", "", "...", "").Replace(m[1])
		}
	}
	return "unknown"
}

type readerSeed struct{ reader, name, doc string }

// readerSeeds builds the documents that are mutated: everything a session holds, in several states
func readerSeeds(sa flows.SessionAssets) ([]readerSeed, error) {
	var out []readerSeed
	add := func(reader, name string, v any) error {
		b, err := json.Marshal(v)
		if err != nil {
			return err
		}
		out = append(out, readerSeed{reader, name, string(b)})
		return nil
	}
	eng := engine.NewBuilder().Build()
	env, err := envs.ReadEnvironment([]byte(readerEnv))
	if err != nil {
		return nil, err
	}
	contact, err := flows.ReadContact(sa, []byte(readerContact), assets.PanicOnMissing)
	if err != nil {
		return nil, err
	}
	add("contact", "contact", contact)
	flow := func(id int) *assets.FlowReference {
		return assets.NewFlowReference(assets.FlowUUID(uuidOf(kFlow, id)), fmt.Sprintf("F%d", id))
	}
	msgIn := func(text string) *flows.MsgIn {
		return flows.NewMsgIn(flows.MsgUUID(uuids.NewV4()), urns.URN("tel:+12065551212"), assets.NewChannelReference(assets.ChannelUUID(channelUUID), "Twilio"), text, []utils.Attachment{"image/jpeg:http://s3.amazon.com/bucket/test.jpg"})
	}
	trigs := map[string]flows.Trigger{
		"manual":      triggers.NewBuilder(env, flow(1), contact).Manual().WithParams(nil).Build(),
		"msg":         triggers.NewBuilder(env, flow(1), contact).Msg(msgIn("hello")).Build(),
		"flow_action": triggers.NewBuilder(env, flow(2), contact).FlowAction(&flows.SessionHistory{ParentUUID: "8a1a6a3c-2b1c-4f5d-9a3e-1c2d3e4f5a6b", Ancestors: 1, AncestorsSinceInput: 1}, json.RawMessage(readerRunSummary)).Build(),
		"voice":       triggers.NewBuilder(env, flow(3), contact).Manual().WithCall(assets.NewChannelReference(assets.ChannelUUID(channelUUID), "Twilio"), urns.URN("tel:+12065551212")).Build(),
	}
	names := make([]string, 0, len(trigs))
	for k := range trigs {
		names = append(names, k)
	}
	sort.Strings(names)
	for _, name := range names {
		t := trigs[name]
		add("trigger", "trigger:"+name, t)
		s, _, err := eng.NewSession(sa, t)
		if err != nil {
			return nil, fmt.Errorf("seed session %s: %w", name, err)
		}
		add("session", "session:"+name+":after-start", s)
		if s.Status() == flows.SessionStatusWaiting && name != "voice" {
			if _, err := s.Resume(resumes.NewMsg(env, contact, msgIn("Bob"))); err == nil {
				add("session", "session:"+name+":after-resume", s)
				if s.Status() == flows.SessionStatusWaiting {
					if _, err := s.Resume(resumes.NewMsg(nil, nil, msgIn("done"))); err == nil {
						add("session", "session:"+name+":ended", s)
					}
				}
			}
		}
	}
	add("resume", "resume:msg", resumes.NewMsg(env, contact, msgIn("hi")))
	add("resume", "resume:dial", resumes.NewDial(env, contact, flows.NewDial(flows.DialStatusAnswered, 10)))
	add("resume", "resume:wait_timeout", resumes.NewWaitTimeout(env, contact))
	add("resume", "resume:run_expiration", resumes.NewRunExpiration(nil, nil))
	for _, m := range []string{
		`{"type":"name","name":"Bob"}`, `{"type":"language","language":"fra"}`, `{"type":"status","status":"blocked"}`, `{"type":"timezone","timezone":"Africa/Kigali"}`,
		`{"type":"field","field":{"key":"gender","name":"Gender"},"value":"F"}`, `{"type":"channel","channel":{"uuid":"` + channelUUID + `","name":"Twilio"}}`,
		`{"type":"groups","groups":[{"uuid":"` + defGroupUUID + `","name":"Testers"}],"modification":"add"}`,
		`{"type":"urns","urns":["tel:+12065551213"],"modification":"append"}`,
		`{"type":"ticket","topic":{"uuid":"` + defTopicUUID + `","name":"Weather"},"body":"help","assignee":null}`,
	} {
		var v struct {
			Type string `json:"type"`
		}
		json.Unmarshal([]byte(m), &v)
		out = append(out, readerSeed{"modifier", "modifier:" + v.Type, m})
	}
	return out, nil
}

var uuidLike = regexp.MustCompile(`^[0-9a-f]{8}-[0-9a-f]{4}-`)

// mutateJSON applies one mutation at a random place of the document; returns the description (kind, generalised path)
func mutateJSON(r *hx.Rand, doc any) (any, string) {
	type loc struct {
		parent any // map[string]any or []any
		key    string
		idx    int
		path   string
	}
	var locs []loc
	var walk func(x any, path string)
	walk = func(x any, path string) {
		switch t := x.(type) {
		case map[string]any:
			keys := make([]string, 0, len(t))
			for k := range t {
				keys = append(keys, k)
			}
			sort.Strings(keys)
			for _, k := range keys {
				pk := k
				if uuidLike.MatchString(k) {
					pk = "<uuid>"
				}
				locs = append(locs, loc{parent: t, key: k, path: path + "." + pk})
				walk(t[k], path+"."+pk)
			}
		case []any:
			for i := range t {
				locs = append(locs, loc{parent: t, idx: i, path: path + "[]"})
				walk(t[i], path+"[]")
			}
		}
	}
	root := map[string]any{"$": doc}
	walk(doc, "")
	if len(locs) == 0 {
		return doc, "none"
	}
	l := locs[r.Intn(len(locs))]
	get := func() any {
		if m, ok := l.parent.(map[string]any); ok {
			return m[l.key]
		}
		return l.parent.([]any)[l.idx]
	}
	set := func(v any) {
		if m, ok := l.parent.(map[string]any); ok {
			m[l.key] = v
		} else {
			l.parent.([]any)[l.idx] = v
		}
	}
	cur := get()
	kinds := []string{"null", "null", "wrong-type", "remove"}
	switch cur.(type) {
	case []any:
		kinds = append(kinds, "null-element", "null-element", "null-element", "empty", "duplicate-element")
	case map[string]any:
		kinds = append(kinds, "empty", "empty")
	case string:
		kinds = append(kinds, "empty-string")
	}
	kind := kinds[r.Intn(len(kinds))]
	switch kind {
	case "null":
		set(nil)
	case "remove":
		if m, ok := l.parent.(map[string]any); ok {
			delete(m, l.key)
		} else {
			set(nil)
			kind = "null"
		}
	case "wrong-type":
		switch cur.(type) {
		case string:
			set(hx.Pick(r, []any{float64(7), true, map[string]any{}, []any{}}))
		case float64, bool:
			set(hx.Pick(r, []any{"x", map[string]any{}, []any{}}))
		case map[string]any:
			set(hx.Pick(r, []any{"x", float64(1), []any{}, []any{nil}}))
		case []any:
			set(hx.Pick(r, []any{"x", float64(1), map[string]any{}}))
		default:
			set("x")
		}
	case "null-element":
		a := cur.([]any)
		set(append(append([]any{}, a...), nil))
		if len(a) > 0 && r.Bool() {
			set([]any{nil})
		}
	case "duplicate-element":
		a := cur.([]any)
		if len(a) > 0 {
			set(append(append([]any{}, a...), a[0]))
		}
	case "empty":
		if _, ok := cur.([]any); ok {
			set([]any{})
		} else {
			set(map[string]any{})
		}
	case "empty-string":
		set("")
	}
	_ = root
	return doc, kind + ":" + l.path
}

func genReaderCase(r *hx.Rand, seeds []readerSeed) *ReaderCase {
	sd := seeds[r.Intn(len(seeds))]
	var doc any
	json.Unmarshal([]byte(sd.doc), &doc)
	var descs []string
	for k := 1; k > 0; k-- {
		var d string
		doc, d = mutateJSON(r, doc)
		descs = append(descs, d)
	}
	b, _ := json.Marshal(doc)
	return &ReaderCase{Kind: "reader", Reader: sd.reader, Seed: sd.name, Mutation: strings.Join(descs, " + "), Document: b}
}

// readerCorpus: the documents of the findings
func readerCorpus() []*ReaderCase {
	with := func(member, value string) json.RawMessage {
		var m map[string]any
		json.Unmarshal([]byte(readerContact), &m)
		var v any
		json.Unmarshal([]byte(value), &v)
		m[member] = v
		b, _ := json.Marshal(m)
		return b
	}
	return []*ReaderCase{
		{Kind: "reader", Reader: "contact", Seed: "contact", Mutation: "null-element:.groups", Document: with("groups", `[null]`)},
		{Kind: "reader", Reader: "contact", Seed: "contact", Mutation: "empty:.fields.gender", Document: with("fields", `{"gender": {}}`)},
		{Kind: "reader", Reader: "contact", Seed: "contact", Mutation: "remove:.fields.age.text", Document: with("fields", `{"age": {"number": 21}}`)},
		{Kind: "reader", Reader: "contact", Seed: "contact", Mutation: "null:.fields.gender", Document: with("fields", `{"gender": null}`)},
		{Kind: "reader", Reader: "modifier", Seed: "modifier:groups", Mutation: "null-element:.groups", Document: json.RawMessage(`{"type":"groups","groups":[null],"modification":"add"}`)},
	}
}

func runReaderCase(c *ReaderCase, sa flows.SessionAssets, res *hx.Result) {
	input := map[string]any{"kind": "reader", "reader": c.Reader, "seed_document": c.Seed, "mutation": c.Mutation, "document": c.Document}
	// the class names the reader and the first mutation (kind and generalised place)
	first := strings.SplitN(c.Mutation, " + ", 2)[0]
	_ = first
	site := ""
	fail := func(what, detail string) {
		res.Fail(fmt.Sprintf("C05:reader-%s:%s:%s", what, c.Reader, site), input, detail)
	}
	eng := engine.NewBuilder().Build()
	var err error
	var s flows.Session
	var trig flows.Trigger
	res.OracleChecks++
	p, site, h := guardedSite(func() {
		switch c.Reader {
		case "session":
			s, err = eng.ReadSession(sa, c.Document, assets.IgnoreMissing)
		case "contact":
			_, err = flows.ReadContact(sa, c.Document, assets.IgnoreMissing)
		case "trigger":
			trig, err = triggers.ReadTrigger(sa, c.Document, assets.IgnoreMissing)
		case "resume":
			_, err = resumes.ReadResume(sa, c.Document, assets.IgnoreMissing)
		case "modifier":
			_, err = modifiers.ReadModifier(sa, c.Document, assets.IgnoreMissing)
		}
	})
	if h {
		hung = true
		fail("hang", "the reader did not return")
		return
	}
	if p != nil {
		fail("panic", fmt.Sprintf("reading the %s (%s, mutation %s) panicked: %v", c.Reader, c.Seed, c.Mutation, p))
		return
	}
	if err != nil {
		res.Dist("reader:" + c.Reader + ":rejected")
		res.Eval(c.Reader+"|"+c.Mutation+"|"+c.Seed, false)
		return
	}
	res.Dist("reader:" + c.Reader + ":accepted")
	if s != nil && s.Status() == flows.SessionStatusWaiting {
		res.OracleChecks++
		r := resumes.NewMsg(nil, nil, flows.NewMsgIn(flows.MsgUUID(uuids.NewV4()), urns.NilURN, nil, "hi", nil))
		var p any
		if p, site, h = guardedSite(func() { _, err = s.Resume(r) }); p != nil || h {
			fail("resume-panic", fmt.Sprintf("the session read back (%s, mutation %s); Resume on it panicked or hung: %v", c.Seed, c.Mutation, p))
			return
		}
	}
	if trig != nil {
		// a trigger that reads back starts a session without a panic (an error value is fine)
		res.OracleChecks++
		var p any
		if p, site, h = guardedSite(func() { _, _, err = eng.NewSession(sa, trig) }); p != nil || h {
			fail("start-panic", fmt.Sprintf("the trigger read back (%s, mutation %s); NewSession with it panicked or hung: %v", c.Seed, c.Mutation, p))
			return
		}
	}
	res.Eval(c.Reader+"|"+c.Mutation+"|"+c.Seed, true)
}

func readerStream(r *hx.Rand, n int, res *hx.Result) {
	resetSources(9700)
	src, err := static.NewSource(readerAssets())
	if err != nil {
		res.Fail("harness:reader-assets", nil, err.Error())
		return
	}
	sa, err := engine.NewSessionAssets(env0, src, nil)
	if err != nil {
		res.Fail("harness:reader-assets", nil, err.Error())
		return
	}
	seeds, err := readerSeeds(sa)
	if err != nil {
		res.Fail("harness:reader-seeds", nil, err.Error())
		return
	}
	// the unmutated documents read back
	for _, sd := range seeds {
		c := &ReaderCase{Kind: "reader", Reader: sd.reader, Seed: sd.name, Mutation: "none", Document: json.RawMessage(sd.doc)}
		var rerr error
		guarded(func() {
			switch sd.reader {
			case "session":
				_, rerr = engine.NewBuilder().Build().ReadSession(sa, c.Document, assets.IgnoreMissing)
			case "contact":
				_, rerr = flows.ReadContact(sa, c.Document, assets.IgnoreMissing)
			case "trigger":
				_, rerr = triggers.ReadTrigger(sa, c.Document, assets.IgnoreMissing)
			case "resume":
				_, rerr = resumes.ReadResume(sa, c.Document, assets.IgnoreMissing)
			case "modifier":
				_, rerr = modifiers.ReadModifier(sa, c.Document, assets.IgnoreMissing)
			}
		})
		if rerr != nil {
			res.Dist("reader:seed-not-readable:" + sd.name)
		}
	}
	for _, c := range readerCorpus() {
		runReaderCase(c, sa, res)
	}
	// corpus entries that need a marshalled session: a null step in a stored run's path
	for _, sd := range seeds {
		if sd.name != "session:manual:after-start" {
			continue
		}
		var doc map[string]any
		json.Unmarshal([]byte(sd.doc), &doc)
		if runs, ok := doc["runs"].([]any); ok && len(runs) > 0 {
			run := runs[0].(map[string]any)
			if path, ok := run["path"].([]any); ok {
				run["path"] = append(path, nil)
				b, _ := json.Marshal(doc)
				runReaderCase(&ReaderCase{Kind: "reader", Reader: "session", Seed: sd.name, Mutation: "null-element:.runs[].path", Document: b}, sa, res)
			}
		}
	}
	for i := 0; i < n && !hung; i++ {
		runReaderCase(genReaderCase(r.Fork(fmt.Sprintf("reader%d", i)), seeds), sa, res)
	}
}

func replayReader(path string, res *hx.Result) bool {
	raw, err := os.ReadFile(path)
	if err != nil {
		return false
	}
	var rj struct {
		FailingInput struct {
			Input json.RawMessage `json:"input"`
		} `json:"failing_input"`
	}
	if json.Unmarshal(raw, &rj) != nil || len(rj.FailingInput.Input) == 0 {
		return false
	}
	var c ReaderCase
	if json.Unmarshal(rj.FailingInput.Input, &c) != nil || c.Kind != "reader" {
		return false
	}
	resetSources(9700)
	src, err := static.NewSource(readerAssets())
	if err != nil {
		return false
	}
	sa, err := engine.NewSessionAssets(env0, src, nil)
	if err != nil {
		return false
	}
	runReaderCase(&c, sa, res)
	return true
}

