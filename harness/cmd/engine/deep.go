package main

// Deep-expression probe (direct oracle only, C05: "every engine call returns normally").
//
// The expression parser and evaluator recurse once per level of nesting (and once per operand of a chain); beyond some
// depth the goroutine stack is exhausted, which in Go is a FATAL error: no recover(), the process dies.  The probe
// therefore runs in a child process (this binary re-executed with ENG_DEEP_CHILD set), under a lowered stack ceiling
// (debug.SetMaxStack) so that it needs neither a megabyte-sized definition nor a gigabyte of memory to tell bounded
// from unbounded recursion: if the depth of recursion is bounded by the engine, the child returns for any nesting.

import (
	"context"
	"fmt"
	"os"
	"os/exec"
	"runtime/debug"
	"strconv"
	"strings"
	"time"

	"github.com/nyaruka/gocommon/uuids"
	"github.com/nyaruka/goflow/assets"
	"github.com/nyaruka/goflow/assets/static"
	"github.com/nyaruka/goflow/flows"
	"github.com/nyaruka/goflow/flows/engine"
	"github.com/nyaruka/goflow/flows/triggers"

	"verifharness/pkg/hx"
)

const deepStackCeiling = 48 << 20 // bytes of goroutine stack allowed to the child

var deepKinds = []string{"parentheses", "unary-minus", "function-calls", "operand-chain"}

func deepExpression(kind string, depth int) string {
	switch kind {
	case "parentheses":
		return "@(" + strings.Repeat("(", depth) + "1" + strings.Repeat(")", depth) + ")"
	case "unary-minus":
		return "@(" + strings.Repeat("-", depth) + "1)"
	case "function-calls":
		return "@(" + strings.Repeat("abs(", depth) + "1" + strings.Repeat(")", depth) + ")"
	default:
		return "@(1" + strings.Repeat(" & 1", depth) + ")"
	}
}

// deepChild is the child process: one engine call on a flow whose send_msg text is the deep expression
func deepChild(spec string) {
	parts := strings.SplitN(spec, ",", 2)
	depth, _ := strconv.Atoi(parts[1])
	debug.SetMaxStack(deepStackCeiling)
	raw := defAssets([]any{defFlow(1, "messaging", []any{defActionNode(101, 0, map[string]any{"type": "send_msg", "text": deepExpression(parts[0], depth)})})})
	src, err := static.NewSource(raw)
	if err != nil {
		fmt.Println("returned: assets rejected:", err)
		return
	}
	sa, err := engine.NewSessionAssets(env0, src, nil)
	if err != nil {
		fmt.Println("returned: assets rejected:", err)
		return
	}
	if _, err := sa.Flows().Get(assets.FlowUUID(uuidOf(kFlow, 1))); err != nil {
		fmt.Println("returned: definition rejected at load")
		return
	}
	contact, _ := flows.NewContact(sa, flows.ContactUUID(uuids.NewV4()), flows.ContactID(7), "Bob", "eng", flows.ContactStatusActive, nil,
		time.Date(2019, 1, 1, 0, 0, 0, 0, time.UTC), nil, nil, nil, nil, nil, assets.PanicOnMissing)
	trig := triggers.NewBuilder(env0, assets.NewFlowReference(assets.FlowUUID(uuidOf(kFlow, 1)), "F"), contact).Manual().Build()
	s, _, err := engine.NewBuilder().Build().NewSession(sa, trig)
	if err != nil {
		fmt.Println("returned: error value:", err)
		return
	}
	fmt.Println("returned: session", s.Status())
}

func deepProbe(prop string, res *hx.Result) {
	exe, err := os.Executable()
	if err != nil {
		return
	}
	for _, kind := range deepKinds {
		depth := 40000
		if kind == "operand-chain" {
			depth = 400000
		}
		ctx, cancel := context.WithTimeout(context.Background(), 60*time.Second)
		cmd := exec.CommandContext(ctx, exe)
		cmd.Env = append(os.Environ(), "ENG_DEEP_CHILD="+kind+","+strconv.Itoa(depth), "GOMEMLIMIT=1GiB")
		out, err := cmd.CombinedOutput()
		timedOut := ctx.Err() != nil
		cancel()
		res.OracleChecks++
		res.Dist("deep-expression:" + kind)
		text := string(out)
		if err == nil && strings.Contains(text, "returned:") {
			continue
		}
		first := text
		if len(first) > 300 {
			first = first[:300]
		}
		how := "died"
		switch {
		case timedOut:
			how = "hang"
		case strings.Contains(text, "stack overflow") || strings.Contains(text, "stack exceeds"):
			how = "stack-overflow"
		case strings.Contains(text, "out of memory"):
			how = "out-of-memory"
		}
		res.Fail(fmt.Sprintf("%s:fatal:deep-expression:%s:%s", prop, kind, how),
			map[string]any{"kind": "deep-expression", "nesting": kind, "depth": depth, "template": fmt.Sprintf("%.40s... (%d levels)", deepExpression(kind, 8), depth), "stack_ceiling_bytes": deepStackCeiling},
			fmt.Sprintf("NewSession on a flow whose send_msg text is an expression with %d levels of %s did not return: the process ended with a fatal error (%v): %s", depth, kind, err, strings.ReplaceAll(first, "\n", " | ")))
	}
}
