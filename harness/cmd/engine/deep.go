package main

// Deep-expression probe (direct oracle only, C05: "every engine call returns normally").
//
// The expression parser and evaluator recurse once per level of nesting (and once per operand of a chain); beyond some
// depth the goroutine stack is exhausted, which in Go is a FATAL error: no recover(), the process dies.  The probe
// therefore runs in a child process (this binary re-executed with ENG_DEEP_CHILD set), under a lowered stack ceiling
// (debug.SetMaxStack) so that it needs neither a megabyte-sized definition nor a gigabyte of memory to tell bounded
// from unbounded recursion: if the depth of recursion is bounded by the engine, the child returns for any nesting.

import (
	"context"
	"fmt"
	"os"
	"os/exec"
	"runtime/debug"
	"strconv"
	"strings"
	"syscall"
	"time"

	"github.com/nyaruka/gocommon/uuids"
	"github.com/nyaruka/goflow/assets"
	"github.com/nyaruka/goflow/assets/static"
	"github.com/nyaruka/goflow/flows"
	"github.com/nyaruka/goflow/flows/engine"
	"github.com/nyaruka/goflow/flows/triggers"

	"verifharness/pkg/hx"
)

const deepStackCeiling = 48 << 20 // bytes of goroutine stack allowed to the child

var deepKinds = []string{"parentheses", "unary-minus", "function-calls", "operand-chain"}

func deepExpression(kind string, depth int) string {
	switch kind {
	case "parentheses":
		return "@(" + strings.Repeat("(", depth) + "1" + strings.Repeat(")", depth) + ")"
	case "unary-minus":
		return "@(" + strings.Repeat("-", depth) + "1)"
	case "function-calls":
		return "@(" + strings.Repeat("abs(", depth) + "1" + strings.Repeat(")", depth) + ")"
	default:
		return "@(1" + strings.Repeat(" & 1", depth) + ")"
	}
}

// deepChild is the child process: one engine call on a flow whose send_msg text is the deep expression
func deepChild(spec string) {
	parts := strings.SplitN(spec, ",", 2)
	depth, _ := strconv.Atoi(parts[1])
	debug.SetMaxStack(deepStackCeiling)
	node := defActionNode(101, 0, map[string]any{"type": "send_msg", "text": deepExpression(parts[0], depth)})
	if strings.HasPrefix(parts[0], "amplify:") {
		// one evaluation that builds a text of gigabytes: the child caps its own address space, so that it dies (or,
		// with a bounded evaluator, returns) quickly and cannot hurt the machine
		lim := uint64(amplifyAddressSpace)
		syscall.Setrlimit(syscall.RLIMIT_AS, &syscall.Rlimit{Cur: lim, Max: lim})
		node = amplifyNode(parts[0], parts[1])
	}
	raw := defAssetsWith([]any{defFlow(1, "messaging", []any{node})}, map[string]any{"fields": []any{map[string]any{"uuid": uuidOf(kAct, 1099), "key": "x", "name": "X", "type": "text"}}})
	src, err := static.NewSource(raw)
	if err != nil {
		fmt.Println("returned: assets rejected:", err)
		return
	}
	sa, err := engine.NewSessionAssets(env0, src, nil)
	if err != nil {
		fmt.Println("returned: assets rejected:", err)
		return
	}
	if _, err := sa.Flows().Get(assets.FlowUUID(uuidOf(kFlow, 1))); err != nil {
		fmt.Println("returned: definition rejected at load")
		return
	}
	contact, _ := flows.NewContact(sa, flows.ContactUUID(uuids.NewV4()), flows.ContactID(7), "Bob", "eng", flows.ContactStatusActive, nil,
		time.Date(2019, 1, 1, 0, 0, 0, 0, time.UTC), nil, nil, nil, nil, nil, assets.PanicOnMissing)
	trig := triggers.NewBuilder(env0, assets.NewFlowReference(assets.FlowUUID(uuidOf(kFlow, 1)), "F"), contact).Manual().Build()
	s, _, err := engine.NewBuilder().Build().NewSession(sa, trig)
	if err != nil {
		fmt.Println("returned: error value:", err)
		return
	}
	fmt.Println("returned: session", s.Status())
}

const amplifyAddressSpace = 3 << 30 // bytes of address space allowed to the child of the amplification probe

// templates of a few dozen characters whose ONE evaluation builds gigabytes (every operand stays within repeat's own cap)
var amplifyTemplates = map[string]string{
	"replace":              `@(replace(repeat("a", 100000), "a", repeat("b", 100000)))`,
	"replace-empty-needle": `@(replace(repeat("a", 100000), "", repeat("b", 100000)))`,
	"join":                 `@(join(split(repeat("a ", 50000), " "), repeat("b", 100000)))`,
	"foreach":              `@(count(foreach(split(repeat("a ", 50000), " "), (x) => repeat("b", 100000))))`,
	"concatenate":          `@(((d) => ` + strings.Repeat("d(", 36) + `"x"` + strings.Repeat(")", 36) + `)((x) => x & x))`,
}

// the evaluated member the template sits in
var amplifyMembers = []string{"send_msg.text", "set_run_result.value", "set_contact_field.value", "router.operand", "send_msg.quick_replies", "set_contact_name.name"}

func amplifyNode(kind, member string) map[string]any {
	t := amplifyTemplates[strings.TrimPrefix(kind, "amplify:")]
	switch member {
	case "set_run_result.value":
		return defActionNode(101, 0, map[string]any{"type": "set_run_result", "name": "r", "value": t})
	case "set_contact_field.value":
		return defActionNode(101, 0, map[string]any{"type": "set_contact_field", "field": map[string]any{"key": "x", "name": "X"}, "value": t})
	case "set_contact_name.name":
		return defActionNode(101, 0, map[string]any{"type": "set_contact_name", "name": t})
	case "send_msg.quick_replies":
		return defActionNode(101, 0, map[string]any{"type": "send_msg", "text": "hi", "quick_replies": []any{t}})
	case "router.operand":
		n := defWaitNode(101, 0)
		rt := n["router"].(map[string]any)
		delete(rt, "wait")
		rt["operand"] = t
		rt["result_name"] = "r"
		return n
	}
	return defActionNode(101, 0, map[string]any{"type": "send_msg", "text": t})
}

// amplifyProbe: every template in one member (rotating), each in a child process with a capped address space
func amplifyProbe(prop string, seed uint64, res *hx.Result) {
	exe, err := os.Executable()
	if err != nil {
		return
	}
	names := []string{"concatenate", "foreach", "join", "replace", "replace-empty-needle"}
	for i, name := range names {
		member := amplifyMembers[(int(seed%uint64(len(amplifyMembers)))+i)%len(amplifyMembers)]
		ctx, cancel := context.WithTimeout(context.Background(), 90*time.Second)
		cmd := exec.CommandContext(ctx, exe)
		cmd.Env = append(os.Environ(), "ENG_DEEP_CHILD=amplify:"+name+","+member)
		out, err := cmd.CombinedOutput()
		timedOut := ctx.Err() != nil
		cancel()
		res.OracleChecks++
		res.Dist("amplify:" + name)
		text := string(out)
		if err == nil && strings.Contains(text, "returned:") {
			continue
		}
		first := text
		if len(first) > 300 {
			first = first[:300]
		}
		how := "died"
		switch {
		case timedOut:
			how = "hang"
		case strings.Contains(text, "out of memory") || strings.Contains(text, "cannot allocate"):
			how = "out-of-memory"
		case strings.Contains(text, "stack overflow"):
			how = "stack-overflow"
		}
		res.Fail(fmt.Sprintf("%s:fatal:amplifying-template:%s:%s", prop, name, how),
			map[string]any{"kind": "amplifying-template", "template": amplifyTemplates[name], "member": member, "address_space_bytes": amplifyAddressSpace},
			fmt.Sprintf("NewSession on a flow whose %s is %s did not return: the child process (address space capped at 3 GiB) ended with %v: %s", member, amplifyTemplates[name], err, strings.ReplaceAll(first, "\n", " | ")))
	}
}

func deepProbe(prop string, res *hx.Result) {
	exe, err := os.Executable()
	if err != nil {
		return
	}
	for _, kind := range deepKinds {
		depth := 40000
		if kind == "operand-chain" {
			depth = 400000
		}
		ctx, cancel := context.WithTimeout(context.Background(), 60*time.Second)
		cmd := exec.CommandContext(ctx, exe)
		cmd.Env = append(os.Environ(), "ENG_DEEP_CHILD="+kind+","+strconv.Itoa(depth), "GOMEMLIMIT=1GiB")
		out, err := cmd.CombinedOutput()
		timedOut := ctx.Err() != nil
		cancel()
		res.OracleChecks++
		res.Dist("deep-expression:" + kind)
		text := string(out)
		if err == nil && strings.Contains(text, "returned:") {
			continue
		}
		first := text
		if len(first) > 300 {
			first = first[:300]
		}
		how := "died"
		switch {
		case timedOut:
			how = "hang"
		case strings.Contains(text, "stack overflow") || strings.Contains(text, "stack exceeds"):
			how = "stack-overflow"
		case strings.Contains(text, "out of memory"):
			how = "out-of-memory"
		}
		res.Fail(fmt.Sprintf("%s:fatal:deep-expression:%s:%s", prop, kind, how),
			map[string]any{"kind": "deep-expression", "nesting": kind, "depth": depth, "template": fmt.Sprintf("%.40s... (%d levels)", deepExpression(kind, 8), depth), "stack_ceiling_bytes": deepStackCeiling},
			fmt.Sprintf("NewSession on a flow whose send_msg text is an expression with %d levels of %s did not return: the process ended with a fatal error (%v): %s", depth, kind, err, strings.ReplaceAll(first, "\n", " | ")))
	}
}
