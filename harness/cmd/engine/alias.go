package main

// Alias stream (direct oracle only, C01; NOT part of the Coq model or of the correspondence).
//
// A flow asset whose asset UUID (the UUID the source knows it by and the host looks it up by) differs from the `uuid`
// inside its definition, the inner UUID being that of ANOTHER asset of the same source - a copy / an older revision
// whose embedded uuid was not rewritten (static.NewFlow(uuid, name, definition) from a host source), or a legacy export
// with a top level `uuid` and a different `metadata.uuid`.  Both assets load.  The sentences checked, after every engine
// call and after every marshal -> ReadSession round trip between calls:
//
//	"Each run's path is a walk in its flow's graph (a step's exit belongs to the step's node and leads to the next
//	 step's node, only the last step may lack an exit)"
//	"it is waiting exactly when exactly one run is waiting, that run sits on a node whose router has a wait"
//
// where a run's flow is the asset that the session's own JSON names for it (runs[i].flow.uuid, looked up the way a
// host looks an asset up: by asset UUID), and - for the run started by the trigger - the flow the trigger names.

import (
	"encoding/json"
	"fmt"
	"os"
	"strings"
	"time"

	"github.com/nyaruka/gocommon/urns"
	"github.com/nyaruka/gocommon/uuids"
	"github.com/nyaruka/goflow/assets"
	"github.com/nyaruka/goflow/assets/static"
	"github.com/nyaruka/goflow/flows"
	"github.com/nyaruka/goflow/flows/engine"
	"github.com/nyaruka/goflow/flows/resumes"
	"github.com/nyaruka/goflow/flows/triggers"

	"verifharness/pkg/hx"
)

type AliasFlow struct {
	AssetUUID  string          `json:"asset_uuid"`
	Name       string          `json:"name"`
	Definition json.RawMessage `json:"definition"` // its "uuid" member is the inner UUID
}

type AliasCase struct {
	Kind     string          `json:"kind"` // "alias"
	Scenario string          `json:"scenario"`
	Flows    []AliasFlow     `json:"flows,omitempty"`         // host source: static.NewFlow(asset_uuid, name, definition)
	Static   json.RawMessage `json:"static_assets,omitempty"` // or: a static source as JSON (legacy export with metadata.uuid)
	Start    string          `json:"start"`                   // asset UUID of the trigger's flow
	Ops      []string        `json:"ops"`                     // "reread" | "msg:<text>"
}

// a host source: flows are served by asset UUID, everything else comes from an (empty) static source
type aliasSource struct {
	*static.StaticSource
	flows []AliasFlow
}

func (s *aliasSource) FlowByUUID(uuid assets.FlowUUID) (assets.Flow, error) {
	for _, f := range s.flows {
		if f.AssetUUID == string(uuid) {
			return static.NewFlow(uuid, f.Name, f.Definition), nil
		}
	}
	return s.StaticSource.FlowByUUID(uuid)
}

func (s *aliasSource) FlowByName(name string) (assets.Flow, error) {
	for _, f := range s.flows {
		if f.Name == name {
			return static.NewFlow(assets.FlowUUID(f.AssetUUID), f.Name, f.Definition), nil
		}
	}
	return s.StaticSource.FlowByName(name)
}

// aliasDefinition: [enter child] -> ask -> wait -> thanks.  nodeBase separates the node UUIDs of different graphs.
func aliasDefinition(innerID int, name string, nodeBase int, texts string, enter int) json.RawMessage {
	first := []map[string]any{{"type": "send_msg", "text": texts + ": what is your name?"}}
	if enter != 0 {
		first = append(first, map[string]any{"type": "enter_flow", "flow": map[string]any{"uuid": uuidOf(kFlow, enter), "name": fmt.Sprintf("A%d", enter)}})
	}
	nodes := []any{
		defActionNode(nodeBase+1, nodeBase+2, first...),
		defWaitNode(nodeBase+2, nodeBase+3),
		defActionNode(nodeBase+3, 0, map[string]any{"type": "send_msg", "text": texts + ": thanks"}),
	}
	fl := defFlow(innerID, "messaging", nodes)
	fl["name"] = name
	b, _ := json.Marshal(fl)
	return b
}

func genAliasCase(r *hx.Rand) *AliasCase {
	// asset 1 "Copy" carries the inner uuid of asset 2 "Real"; optionally asset 3 "Parent" enters one of them
	sameGraph := r.Chance(1, 3)
	copyBase, realBase := 100, 200
	if sameGraph {
		copyBase = realBase // a copy with the same node UUIDs and other texts
	}
	c := &AliasCase{Kind: "alias"}
	c.Flows = []AliasFlow{
		{AssetUUID: uuidOf(kFlow, 1), Name: "Copy", Definition: aliasDefinition(2, "Copy", copyBase, "copy", 0)},
		{AssetUUID: uuidOf(kFlow, 2), Name: "Real", Definition: aliasDefinition(2, "Real", realBase, "real", 0)},
	}
	if r.Chance(1, 4) { // the inner uuid names no asset at all (no collision: must be harmless either way)
		c.Flows[0].Definition = aliasDefinition(9, "Copy", copyBase, "copy", 0)
	}
	start := 1
	via := "trigger"
	if r.Chance(1, 3) {
		target := r.Range(1, 2)
		c.Flows = append(c.Flows, AliasFlow{AssetUUID: uuidOf(kFlow, 3), Name: "Parent", Definition: aliasDefinition(3, "Parent", 300, "parent", target)})
		start = 3
		via = fmt.Sprintf("enter_flow-%d", target)
	} else if r.Chance(1, 4) {
		start = 2 // control: the session runs the real one
	}
	c.Start = uuidOf(kFlow, start)
	graph := "other-graph"
	if sameGraph {
		graph = "same-graph"
	}
	c.Scenario = fmt.Sprintf("host-source:%s:start-%d:%s", graph, start, via)
	for i, n := 0, r.Range(1, 3); i < n; i++ {
		if r.Chance(2, 3) {
			c.Ops = append(c.Ops, "reread")
		}
		c.Ops = append(c.Ops, "msg:"+hx.Pick(r, words))
	}
	return c
}

// legacy export, static source (JSON only): top level uuid 1 / metadata.uuid 2, asset 2 an ordinary 13.x flow
func aliasLegacyStatic() json.RawMessage {
	legacy := map[string]any{
		"uuid": uuidOf(kFlow, 1), "name": "Copy", "version": "11.12", "flow_type": "M", "base_language": "eng",
		"metadata": map[string]any{"uuid": uuidOf(kFlow, 2), "name": "Copy", "revision": 1, "expires": 60},
		"entry":    uuidOf(kNode, 101),
		"action_sets": []any{
			map[string]any{"uuid": uuidOf(kNode, 101), "x": 0, "y": 0, "destination": uuidOf(kNode, 102), "destination_type": "R", "exit_uuid": uuidOf(kExit, 1011),
				"actions": []any{map[string]any{"type": "reply", "uuid": uuidOf(kAct, 1010), "msg": map[string]any{"eng": "copy: what is your name?"}}}},
			map[string]any{"uuid": uuidOf(kNode, 103), "x": 0, "y": 200, "destination": nil, "exit_uuid": uuidOf(kExit, 1031),
				"actions": []any{map[string]any{"type": "reply", "uuid": uuidOf(kAct, 1030), "msg": map[string]any{"eng": "copy: thanks"}}}},
		},
		"rule_sets": []any{
			map[string]any{"uuid": uuidOf(kNode, 102), "x": 0, "y": 100, "label": "Name", "ruleset_type": "wait_message", "operand": "@step.value", "finished_key": nil, "config": map[string]any{},
				"rules": []any{map[string]any{"uuid": uuidOf(kExit, 1021), "category": map[string]any{"eng": "All Responses"}, "test": map[string]any{"type": "true"},
					"destination": uuidOf(kNode, 103), "destination_type": "A"}}},
		},
	}
	var realDef map[string]any
	json.Unmarshal(aliasDefinition(2, "Real", 200, "real", 0), &realDef)
	b, _ := json.Marshal(map[string]any{"flows": []any{legacy, realDef}})
	return b
}

func aliasCorpus() []*AliasCase {
	mk := func(sc string, copyBase int, ops ...string) *AliasCase {
		return &AliasCase{Kind: "alias", Scenario: sc, Start: uuidOf(kFlow, 1), Ops: ops, Flows: []AliasFlow{
			{AssetUUID: uuidOf(kFlow, 1), Name: "Copy", Definition: aliasDefinition(2, "Copy", copyBase, "copy", 0)},
			{AssetUUID: uuidOf(kFlow, 2), Name: "Real", Definition: aliasDefinition(2, "Real", 200, "real", 0)}}}
	}
	return []*AliasCase{
		mk("host-source:other-graph:start-1:trigger", 100, "reread", "msg:Bob"),
		mk("host-source:same-graph:start-1:trigger", 200, "reread", "msg:Bob"),
		{Kind: "alias", Scenario: "static-legacy-export:other-graph:start-1:trigger", Static: aliasLegacyStatic(), Start: uuidOf(kFlow, 1), Ops: []string{"reread", "msg:Bob"}},
	}
}

// walkProblem: the path clause for one run against the flow the host finds under the run's own flow reference
func walkProblem(sa flows.SessionAssets, run flows.Run) string {
	fl, err := sa.Flows().Get(run.FlowReference().UUID)
	if err != nil || fl == nil {
		return fmt.Sprintf("the run's flow reference %s names no asset", run.FlowReference().UUID)
	}
	path := run.Path()
	for i, step := range path {
		node := fl.GetNode(step.NodeUUID())
		if node == nil {
			return fmt.Sprintf("step %d is on node %s, which is not a node of the run's flow %s '%s'", i, step.NodeUUID(), run.FlowReference().UUID, fl.Name())
		}
		if step.ExitUUID() == "" {
			if i < len(path)-1 {
				return fmt.Sprintf("step %d is not the last and has no exit", i)
			}
			continue
		}
		var exit flows.Exit
		for _, e := range node.Exits() {
			if e.UUID() == step.ExitUUID() {
				exit = e
			}
		}
		if exit == nil {
			return fmt.Sprintf("the exit of step %d is not an exit of its node", i)
		}
		if i < len(path)-1 && exit.DestinationUUID() != path[i+1].NodeUUID() {
			return fmt.Sprintf("the exit of step %d does not lead to the node of step %d", i, i+1)
		}
	}
	return ""
}

func runAliasCase(c *AliasCase, res *hx.Result) {
	input := map[string]any{"kind": "alias", "scenario": c.Scenario, "flows": c.Flows, "start": c.Start, "ops": c.Ops}
	if len(c.Static) > 0 {
		input["static_assets"] = c.Static
	}
	failed := false
	fail := func(class, detail string) {
		failed = true
		res.Fail("C01:alias:"+class+":"+strings.SplitN(c.Scenario, ":", 2)[0], input, detail)
	}
	var src assets.Source
	if len(c.Static) > 0 {
		s, err := static.NewSource(c.Static)
		if err != nil {
			res.Dist("alias:assets-rejected")
			return
		}
		src = s
	} else {
		src = &aliasSource{StaticSource: static.NewEmptySource(), flows: c.Flows}
	}
	sa, err := engine.NewSessionAssets(env0, src, nil)
	if err != nil {
		res.Dist("alias:assets-rejected")
		return
	}
	// the quantifier: loadable definitions.  An asset the engine refuses to load is outside it (a refusal is one way to repair)
	for _, f := range c.Flows {
		if _, err := sa.Flows().Get(assets.FlowUUID(f.AssetUUID)); err != nil {
			res.Dist("alias:definition-rejected-at-load")
			return
		}
	}
	if _, err := sa.Flows().Get(assets.FlowUUID(c.Start)); err != nil {
		res.Dist("alias:definition-rejected-at-load")
		return
	}
	eng := engine.NewBuilder().Build()
	contact, err := flows.NewContact(sa, flows.ContactUUID(uuids.NewV4()), flows.ContactID(7), "Bob", "eng",
		flows.ContactStatusActive, nil, time.Date(2019, 1, 1, 0, 0, 0, 0, time.UTC), nil, nil, nil, nil, nil, assets.PanicOnMissing)
	if err != nil {
		res.Fail("harness:alias-contact", input, err.Error())
		return
	}
	trig := triggers.NewBuilder(env0, assets.NewFlowReference(assets.FlowUUID(c.Start), "F"), contact).Manual().Build()

	check := func(when string, s flows.Session) {
		res.OracleChecks++
		runs := s.Runs()
		if len(runs) > 0 && string(runs[0].FlowReference().UUID) != c.Start {
			fail("run-bound-to-other-flow", fmt.Sprintf("%s: the run started by the trigger names flow %s as its flow, the trigger's flow is %s", when, runs[0].FlowReference().UUID, c.Start))
		}
		for i, run := range runs {
			if p := walkProblem(sa, run); p != "" {
				fail("path-not-a-walk", fmt.Sprintf("%s: run %d: %s", when, i, p))
				return
			}
		}
		if s.Status() == flows.SessionStatusWaiting {
			n := 0
			for i, run := range runs {
				if run.Status() != flows.RunStatusWaiting {
					continue
				}
				n++
				fl, _ := sa.Flows().Get(run.FlowReference().UUID)
				path := run.Path()
				if fl == nil || len(path) == 0 {
					fail("waiting-run-without-location", fmt.Sprintf("%s: waiting run %d has no location in its flow", when, i))
					return
				}
				node := fl.GetNode(path[len(path)-1].NodeUUID())
				if node == nil || node.Router() == nil || node.Router().Wait() == nil {
					fail("waiting-run-not-on-a-wait", fmt.Sprintf("%s: waiting run %d does not sit on a node of its flow whose router has a wait", when, i))
					return
				}
				if _, _, err := run.PathLocation(); err != nil {
					fail("waiting-run-without-location", fmt.Sprintf("%s: waiting run %d: %v", when, i, err))
					return
				}
			}
			if n != 1 {
				fail("waiting-session-without-one-waiting-run", fmt.Sprintf("%s: %d waiting runs", when, n))
			}
		}
	}

	var s flows.Session
	p, h := guarded(func() { s, _, err = eng.NewSession(sa, trig) })
	if h {
		hung = true
		fail("hang", "NewSession did not return")
		return
	}
	if p != nil {
		fail("panic", fmt.Sprint("NewSession panicked: ", p))
		return
	}
	if err != nil {
		res.Dist("alias:start-error")
		return
	}
	res.Dist("alias:ran:" + strings.SplitN(c.Scenario, ":", 2)[0])
	check("after NewSession", s)
	for i, op := range c.Ops {
		if failed {
			break
		}
		if op == "reread" {
			var s2 flows.Session
			var rerr error
			if p, h := guarded(func() { s2, rerr = eng.ReadSession(sa, mustJSON(s), assets.IgnoreMissing) }); p != nil || h {
				fail("panic", fmt.Sprint("ReadSession panicked or hung: ", p))
				return
			}
			if rerr != nil {
				res.Dist("alias:read-session-error")
				break
			}
			s = s2
			check(fmt.Sprintf("after the session was marshalled and read back (before op %d)", i+1), s)
			continue
		}
		if s.Status() != flows.SessionStatusWaiting {
			break
		}
		var rerr error
		r := resumes.NewMsg(nil, nil, flows.NewMsgIn(flows.MsgUUID(uuids.NewV4()), urns.NilURN, nil, strings.TrimPrefix(op, "msg:"), nil))
		p, h := guarded(func() { _, rerr = s.Resume(r) })
		if h {
			hung = true
			fail("hang", "Resume did not return")
			return
		}
		if p != nil {
			fail("panic", fmt.Sprint("Resume panicked: ", p))
			return
		}
		if rerr != nil {
			break
		}
		check(fmt.Sprintf("after Resume (op %d)", i+1), s)
	}
	key, _ := json.Marshal(input)
	res.Eval(string(key), strings.Contains(c.Scenario, "start-1") || strings.Contains(c.Scenario, "enter_flow-1"))
}

func aliasStream(r *hx.Rand, n int, res *hx.Result) {
	for i, c := range aliasCorpus() {
		resetSources(int64(9500 + i))
		runAliasCase(c, res)
		if hung {
			return
		}
	}
	for i := 0; i < n && !hung; i++ {
		resetSources(int64(960000 + i))
		runAliasCase(genAliasCase(r.Fork(fmt.Sprintf("alias%d", i))), res)
	}
}

func replayAlias(path string, res *hx.Result) bool {
	raw, err := os.ReadFile(path)
	if err != nil {
		return false
	}
	var rj struct {
		FailingInput struct {
			Input json.RawMessage `json:"input"`
		} `json:"failing_input"`
	}
	if json.Unmarshal(raw, &rj) != nil || len(rj.FailingInput.Input) == 0 {
		return false
	}
	var c AliasCase
	if json.Unmarshal(rj.FailingInput.Input, &c) != nil || c.Kind != "alias" {
		return false
	}
	resetSources(1)
	runAliasCase(&c, res)
	return true
}
