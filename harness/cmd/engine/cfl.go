package main

// Core flow language (CFL): the fragment of goflow flow definitions that coq/model/Engine.v models.
// This file holds the Go mirror of the model's asset types, the random generator, the JSON builder
// (what the real engine loads) and the Coq printer (what the model is given).

import (
	"encoding/json"
	"fmt"
	"strings"

	"verifharness/pkg/hx"
)

type Exit struct {
	ID   int
	Dest int // 0 = none
}

type Action struct {
	Kind     string // send_msg | set_run_result | enter_flow
	Text     string // send_msg text / result value
	Name     string // result name
	Category string
	Flow     int
	Terminal bool
}

type Category struct {
	Name string
	Exit int
}

type Case struct {
	Arg string
	Cat int // index
}

type Wait struct {
	Dial       bool // a dial wait (voice flows only); otherwise a msg wait
	HasTimeout bool
	Seconds    int
	TimeoutCat int
}

type Router struct {
	Wait    *Wait
	Result  string // "" = none
	Cats    []Category
	Cases   []Case
	Default int // -1 = none
}

type Node struct {
	ID      int
	Actions []Action
	Router  *Router
	Exits   []Exit
}

type Flow struct {
	ID    int
	Type  int // 0 messaging, 1 messaging_background, 2 voice
	Nodes []*Node
	// Corrupt != "": the definition handed to the real loader violates exactly one load-time rule (see
	// corruptKinds) at node CorruptNode.  The loader rejects such a flow, so for the engine it is as good as
	// missing: the model is given the asset store WITHOUT it (Coq() omits it, flow() does not find it).
	Corrupt     string
	CorruptNode int
}

// nearly valid definitions: each violates exactly one rule of flow / node / router / wait validation
var corruptKinds = []string{
	"dangling-destination",          // an exit leads to a node that does not exist
	"duplicate-node-uuid",           // two nodes share a UUID
	"category-exit-not-on-node",     // a category names an exit the node does not have
	"timeout-category-foreign-exit", // the timeout category names ANOTHER node's exit
	"unknown-default-category",      // the router's default category does not exist
	"unknown-case-category",         // a case names a category that does not exist
	"unknown-timeout-category",      // the wait's timeout names a category that does not exist
}

type Options struct {
	MaxSteps, MaxResumes, MaxTemplateChars, MaxResultChars int
}

type Assets struct {
	Flows []*Flow
	Opts  Options
}

var flowTypes = []string{"messaging", "messaging_background", "voice"}

const channelUUID = "a78930fe-6a40-4aa8-99c3-e61b02f45ca1"

func uuidOf(kind, id int) string { return fmt.Sprintf("%08d-0000-4000-8000-%012d", kind, id) }

const (
	kFlow = 1
	kNode = 2
	kExit = 3
	kAct  = 4
	kCat  = 5
	kCase = 6
)

func idOf(uuid string) int {
	var kind, id int
	if _, err := fmt.Sscanf(uuid, "%08d-0000-4000-8000-%012d", &kind, &id); err != nil {
		return -1
	}
	return id
}

// ---- generator ------------------------------------------------------------------------------------

var words = []string{"a", "b", "c", "zz"}
var resultNames = []string{"r0", "r1", "r2"}

func genText(r *hx.Rand) string {
	switch r.Intn(8) {
	case 0:
		return "hello world, this is long" // longer than the small limits
	case 1:
		return "héllo wörld ☺ long"
	case 2:
		return "abc"
	case 3:
		return "ab"
	default:
		return hx.Pick(r, words)
	}
}

type GenCfg struct {
	Adversarial bool // loops, self-enters, default-to-self routers (C05)
	SmallLimits bool // small option values
}

func genAssets(r *hx.Rand, cfg GenCfg) *Assets {
	if r.Chance(1, 4) {
		a := genChain(r, cfg)
		a.Opts = genOptions(r, cfg)
		return a
	}
	a := &Assets{}
	nflows := r.Range(1, 4)
	sizes := make([]int, nflows)
	for i := range sizes {
		sizes[i] = r.Range(0, 6)
		if i == 0 && r.Chance(9, 10) && sizes[i] == 0 {
			sizes[i] = r.Range(1, 5)
		}
	}
	for i := 0; i < nflows; i++ {
		f := &Flow{ID: i + 1}
		if nflows > 1 && i == nflows-1 && r.Chance(1, 6) {
			f.Type = 1
		}
		for j := 0; j < sizes[i]; j++ {
			f.Nodes = append(f.Nodes, &Node{ID: (i+1)*100 + j + 1})
		}
		a.Flows = append(a.Flows, f)
	}
	for _, f := range a.Flows {
		for _, n := range f.Nodes {
			genNode(r, cfg, a, f, n)
		}
	}
	a.Opts = genOptions(r, cfg)
	return a
}

// genChain builds deep run hierarchies: 3-6 flows, each entering the next from a small node (so that
// steps are reached through enter_flow rather than through exits), terminal or not, and a last flow
// that waits, fails, enters itself, closes a cycle or simply ends.  Parents continue after the child
// on a second node (a wait, a message or nothing).
func genChain(r *hx.Rand, cfg GenCfg) *Assets {
	a := &Assets{}
	depth := r.Range(3, 6)
	for i := 1; i <= depth; i++ {
		a.Flows = append(a.Flows, &Flow{ID: i})
	}
	waitRouter := func(n *Node, timeout bool, dest int) {
		n.Exits = []Exit{{ID: n.ID*10 + 1, Dest: dest}, {ID: n.ID*10 + 2, Dest: 0}}
		rt := &Router{Default: 0, Cats: []Category{{Name: "C0", Exit: n.ID*10 + 1}, {Name: "C1", Exit: n.ID*10 + 2}},
			Cases: []Case{{Arg: "zz", Cat: 1}}, Wait: &Wait{}}
		if timeout {
			rt.Cats = append(rt.Cats, Category{Name: "Timeout", Exit: n.ID*10 + 2})
			rt.Wait.HasTimeout, rt.Wait.Seconds, rt.Wait.TimeoutCat = true, 60, 2
		}
		if r.Bool() {
			rt.Result = hx.Pick(r, resultNames)
		}
		n.Router = rt
	}
	for i, f := range a.Flows {
		first := &Node{ID: f.ID*100 + 1}
		f.Nodes = append(f.Nodes, first)
		if r.Chance(1, 4) {
			first.Actions = append(first.Actions, Action{Kind: "send_msg", Text: genText(r)})
		}
		last := i == len(a.Flows)-1
		if !last {
			first.Actions = append(first.Actions, Action{Kind: "enter_flow", Flow: f.ID + 1, Terminal: r.Chance(1, 5)})
			// what the parent does when the child returns
			switch r.Intn(5) {
			case 0: // nothing: the run completes
				first.Exits = []Exit{{ID: first.ID*10 + 1}}
			case 1: // a second node that waits
				second := &Node{ID: f.ID*100 + 2}
				waitRouter(second, r.Bool(), 0)
				f.Nodes = append(f.Nodes, second)
				first.Exits = []Exit{{ID: first.ID*10 + 1, Dest: second.ID}}
			case 2: // a second node that sends a message and saves a result
				second := &Node{ID: f.ID*100 + 2, Actions: []Action{{Kind: "send_msg", Text: genText(r)},
					{Kind: "set_run_result", Name: hx.Pick(r, resultNames), Text: genText(r)}}}
				second.Exits = []Exit{{ID: second.ID*10 + 1}}
				f.Nodes = append(f.Nodes, second)
				first.Exits = []Exit{{ID: first.ID*10 + 1, Dest: second.ID}}
			case 3: // back to itself: the child is entered again and again (until a limit or a wait)
				first.Exits = []Exit{{ID: first.ID*10 + 1, Dest: first.ID}}
			default: // a router on the entering node itself (routes when the child returns)
				first.Exits = []Exit{{ID: first.ID*10 + 1}, {ID: first.ID*10 + 2}}
				first.Router = &Router{Default: hx.Pick(r, []int{-1, 0, 0}), Cats: []Category{{Name: "C0", Exit: first.ID*10 + 1}, {Name: "C1", Exit: first.ID*10 + 2}},
					Cases: []Case{{Arg: hx.Pick(r, words), Cat: 1}}}
			}
			continue
		}
		// the deepest flow
		switch r.Intn(8) {
		case 0, 1: // waits
			waitRouter(first, r.Bool(), 0)
		case 2: // waits, then loops on itself
			waitRouter(first, r.Bool(), first.ID)
		case 3: // fails: enters a flow that does not exist
			first.Actions = append(first.Actions, Action{Kind: "enter_flow", Flow: 9})
			first.Exits = []Exit{{ID: first.ID*10 + 1}}
		case 4: // fails: the router has no default and no case matches
			first.Exits = []Exit{{ID: first.ID*10 + 1}}
			first.Router = &Router{Default: -1, Cats: []Category{{Name: "C0", Exit: first.ID*10 + 1}}, Cases: []Case{{Arg: "nomatch", Cat: 0}}}
		case 5: // enters itself
			first.Actions = append(first.Actions, Action{Kind: "enter_flow", Flow: f.ID, Terminal: r.Chance(1, 3)})
			first.Exits = []Exit{{ID: first.ID*10 + 1}}
		case 6: // closes the cycle
			first.Actions = append(first.Actions, Action{Kind: "enter_flow", Flow: 1, Terminal: r.Chance(1, 3)})
			first.Exits = []Exit{{ID: first.ID*10 + 1}}
		default: // ends; optionally a wait first on a second node
			first.Exits = []Exit{{ID: first.ID*10 + 1}}
			if r.Bool() {
				second := &Node{ID: f.ID*100 + 2}
				waitRouter(second, r.Bool(), 0)
				f.Nodes = append(f.Nodes, second)
				first.Exits[0].Dest = second.ID
			}
		}
	}
	return a
}

// genVoice builds voice flows: dial waits (and some msg waits) on nodes whose exits lead back to waits, so that a
// session keeps coming back to a wait sprint after sprint; sub-flows of the same type; small resume limits
func genVoice(r *hx.Rand) *Assets {
	a := &Assets{Opts: Options{MaxSteps: 100, MaxResumes: hx.Pick(r, []int{0, 1, 2, 3, 4, 500}), MaxTemplateChars: 10000, MaxResultChars: 640}}
	nflows := r.Range(1, 2)
	for i := 1; i <= nflows; i++ {
		f := &Flow{ID: i, Type: 2}
		nn := r.Range(1, 3)
		for j := 1; j <= nn; j++ {
			f.Nodes = append(f.Nodes, &Node{ID: i*100 + j})
		}
		a.Flows = append(a.Flows, f)
	}
	for _, f := range a.Flows {
		for _, n := range f.Nodes {
			if r.Chance(1, 3) {
				n.Actions = append(n.Actions, Action{Kind: "set_run_result", Name: hx.Pick(r, resultNames), Text: genText(r)})
			}
			if f.ID == 1 && len(a.Flows) > 1 && r.Chance(1, 3) {
				n.Actions = append(n.Actions, Action{Kind: "enter_flow", Flow: 2, Terminal: r.Chance(1, 6)})
			}
			dest := func() int {
				if r.Chance(1, 8) {
					return 0
				}
				return f.Nodes[r.Intn(len(f.Nodes))].ID
			}
			n.Exits = []Exit{{ID: n.ID*10 + 1, Dest: dest()}, {ID: n.ID*10 + 2, Dest: dest()}}
			rt := &Router{Default: 1, Cats: []Category{{Name: "Success", Exit: n.ID*10 + 1}, {Name: "Failure", Exit: n.ID*10 + 2}},
				Cases: []Case{{Arg: hx.Pick(r, words), Cat: 0}}, Wait: &Wait{Dial: r.Chance(3, 4)}}
			if !rt.Wait.Dial && r.Bool() {
				rt.Cats = append(rt.Cats, Category{Name: "Timeout", Exit: n.ID*10 + 2})
				rt.Wait.HasTimeout, rt.Wait.Seconds, rt.Wait.TimeoutCat = true, 60, 2
			}
			if r.Bool() {
				rt.Result = hx.Pick(r, resultNames)
			}
			n.Router = rt
		}
	}
	return a
}

func genOptions(r *hx.Rand, cfg GenCfg) Options {
	o := Options{MaxSteps: 100, MaxResumes: 500, MaxTemplateChars: 10000, MaxResultChars: 640}
	if cfg.SmallLimits || r.Chance(1, 3) {
		o.MaxSteps = hx.Pick(r, []int{0, 1, 2, 3, 4, 5, 7, 10, 20, 100})
		o.MaxResumes = hx.Pick(r, []int{0, 1, 2, 3, 5, 500})
	}
	if cfg.SmallLimits && r.Chance(1, 2) {
		o.MaxTemplateChars = hx.Pick(r, []int{3, 4, 5, 8, 10, 10000, 10000})
		o.MaxResultChars = hx.Pick(r, []int{0, 1, 2, 3, 5, 640, 640})
		if r.Chance(1, 12) {
			// values on which the unchanged code panics (DESIGN F5): kept rare, reported as known findings
			if r.Bool() {
				o.MaxTemplateChars = hx.Pick(r, []int{0, 1, 2})
			} else {
				o.MaxResultChars = hx.Pick(r, []int{-1, -5})
			}
		}
	}
	return o
}

func pickDest(r *hx.Rand, cfg GenCfg, f *Flow, self *Node) int {
	if len(f.Nodes) == 0 {
		return 0
	}
	p := 3
	if cfg.Adversarial {
		p = 6
	}
	if r.Chance(1, p) {
		return 0
	}
	if cfg.Adversarial && r.Chance(1, 4) {
		return self.ID
	}
	if !cfg.Adversarial && r.Chance(2, 3) {
		// mostly forward edges, so that histories live longer than one sprint
		var later []int
		for _, n := range f.Nodes {
			if n.ID > self.ID {
				later = append(later, n.ID)
			}
		}
		if len(later) > 0 {
			return later[r.Intn(len(later))]
		}
	}
	return f.Nodes[r.Intn(len(f.Nodes))].ID
}

func genNode(r *hx.Rand, cfg GenCfg, a *Assets, f *Flow, n *Node) {
	nact := r.Intn(3)
	if r.Chance(1, 8) {
		nact = 3
	}
	for k := 0; k < nact; k++ {
		switch {
		case r.Chance(2, 6):
			n.Actions = append(n.Actions, Action{Kind: "send_msg", Text: genText(r)})
		case r.Chance(2, 4):
			act := Action{Kind: "set_run_result", Name: hx.Pick(r, resultNames), Text: genText(r)}
			if r.Bool() {
				act.Category = hx.Pick(r, []string{"Cat", "Dog"})
			}
			n.Actions = append(n.Actions, act)
		default:
			fl := a.Flows[r.Intn(len(a.Flows))].ID
			if r.Chance(1, 12) {
				fl = 9 // a flow that does not exist in the assets
			}
			n.Actions = append(n.Actions, Action{Kind: "enter_flow", Flow: fl, Terminal: r.Chance(1, 5)})
		}
	}
	hasRouter := r.Chance(7, 10)
	if hasRouter {
		rt := &Router{Default: -1}
		ncat := r.Range(1, 3)
		nexit := r.Range(1, ncat)
		for k := 0; k < nexit; k++ {
			n.Exits = append(n.Exits, Exit{ID: n.ID*10 + k + 1, Dest: pickDest(r, cfg, f, n)})
		}
		for k := 0; k < ncat; k++ {
			ex := n.Exits[k%nexit].ID
			if r.Chance(1, 4) {
				ex = n.Exits[r.Intn(nexit)].ID
			}
			rt.Cats = append(rt.Cats, Category{Name: fmt.Sprintf("C%d", k), Exit: ex})
		}
		// an optional msg wait (not in background flows), optionally with a timeout on its own category
		if f.Type == 0 && r.Chance(2, 3) {
			w := &Wait{}
			if r.Chance(1, 2) {
				w.HasTimeout = true
				w.Seconds = hx.Pick(r, []int{60, 600})
				rt.Cats = append(rt.Cats, Category{Name: "Timeout", Exit: n.Exits[r.Intn(nexit)].ID})
				w.TimeoutCat = len(rt.Cats) - 1
			}
			rt.Wait = w
		}
		ncase := r.Intn(4)
		for k := 0; k < ncase; k++ {
			rt.Cases = append(rt.Cases, Case{Arg: hx.Pick(r, words), Cat: r.Intn(ncat)})
		}
		if r.Chance(3, 4) {
			rt.Default = r.Intn(ncat)
		}
		if r.Chance(1, 2) {
			rt.Result = hx.Pick(r, resultNames)
		}
		n.Router = rt
	} else {
		nexit := r.Range(1, 2)
		for k := 0; k < nexit; k++ {
			n.Exits = append(n.Exits, Exit{ID: n.ID*10 + k + 1, Dest: pickDest(r, cfg, f, n)})
		}
	}
}

// ---- faults: changes to the asset store between sprints (C10) -------------------------------------

func cloneAssets(a *Assets) *Assets {
	b, _ := json.Marshal(a)
	c := &Assets{}
	if err := json.Unmarshal(b, c); err != nil {
		panic(err)
	}
	return c
}

// flow finds a loadable flow (a corrupt one is rejected by the loader: as good as missing)
func (a *Assets) flow(id int) *Flow {
	for _, f := range a.Flows {
		if f.ID == id && f.Corrupt == "" {
			return f
		}
	}
	return nil
}

// corrupt makes flow f violate one load-time rule, at node nodeID when it has what the rule needs; reports
// whether it could
func (f *Flow) corrupt(r *hx.Rand, nodeID int) bool {
	n := f.node(nodeID)
	if n == nil {
		if len(f.Nodes) == 0 {
			return false
		}
		n = f.Nodes[r.Intn(len(f.Nodes))]
	}
	var kinds []string
	if len(n.Exits) > 0 {
		kinds = append(kinds, "dangling-destination", "dangling-destination")
	}
	kinds = append(kinds, "duplicate-node-uuid")
	if n.Router != nil {
		kinds = append(kinds, "category-exit-not-on-node", "unknown-default-category")
		if len(n.Router.Cases) > 0 {
			kinds = append(kinds, "unknown-case-category")
		}
		if n.Router.Wait != nil && n.Router.Wait.HasTimeout {
			kinds = append(kinds, "unknown-timeout-category")
			if len(f.Nodes) > 1 {
				kinds = append(kinds, "timeout-category-foreign-exit", "timeout-category-foreign-exit")
			}
		}
	}
	f.Corrupt, f.CorruptNode = kinds[r.Intn(len(kinds))], n.ID
	return true
}

// applyCorruption edits the JSON of the flow's nodes
func (f *Flow) applyCorruption(nodes []any) []any {
	if f.Corrupt == "" {
		return nodes
	}
	var nm map[string]any
	var other map[string]any
	for i, n := range f.Nodes {
		if n.ID == f.CorruptNode {
			nm = nodes[i].(map[string]any)
		} else if other == nil && len(n.Exits) > 0 {
			other = nodes[i].(map[string]any)
		}
	}
	if nm == nil {
		return nodes
	}
	rm, _ := nm["router"].(map[string]any)
	switch f.Corrupt {
	case "dangling-destination":
		if exits := nm["exits"].([]any); len(exits) > 0 {
			exits[0].(map[string]any)["destination_uuid"] = uuidOf(kNode, 99999)
		}
	case "duplicate-node-uuid":
		cp := map[string]any{"uuid": nm["uuid"], "exits": []any{map[string]any{"uuid": uuidOf(kExit, 999991)}}}
		nodes = append(nodes, cp)
	case "category-exit-not-on-node":
		if rm != nil {
			rm["categories"].([]any)[0].(map[string]any)["exit_uuid"] = uuidOf(kExit, 999992)
		}
	case "timeout-category-foreign-exit":
		if rm != nil && other != nil {
			w := rm["wait"].(map[string]any)["timeout"].(map[string]any)
			foreign := other["exits"].([]any)[0].(map[string]any)["uuid"]
			for _, c := range rm["categories"].([]any) {
				if cm := c.(map[string]any); cm["uuid"] == w["category_uuid"] {
					cm["exit_uuid"] = foreign
				}
			}
		}
	case "unknown-default-category":
		if rm != nil {
			rm["default_category_uuid"] = uuidOf(kCat, 999993)
		}
	case "unknown-case-category":
		if rm != nil {
			if cases := rm["cases"].([]any); len(cases) > 0 {
				cases[0].(map[string]any)["category_uuid"] = uuidOf(kCat, 999994)
			}
		}
	case "unknown-timeout-category":
		if rm != nil {
			if w, ok := rm["wait"].(map[string]any); ok {
				if t, ok := w["timeout"].(map[string]any); ok {
					t["category_uuid"] = uuidOf(kCat, 999995)
				}
			}
		}
	}
	return nodes
}

func (f *Flow) node(id int) *Node {
	for _, n := range f.Nodes {
		if n.ID == id {
			return n
		}
	}
	return nil
}

// removeNode deletes a node and clears the destinations that pointed to it (a loadable definition
// cannot have dangling destinations)
func (f *Flow) removeNode(id int) {
	var out []*Node
	for _, n := range f.Nodes {
		if n.ID != id {
			out = append(out, n)
		}
	}
	f.Nodes = out
	for _, n := range f.Nodes {
		for k := range n.Exits {
			if n.Exits[k].Dest == id {
				n.Exits[k].Dest = 0
			}
		}
	}
}

// ---- JSON ---------------------------------------------------------------------------------------------

func exitJSON(e Exit) map[string]any {
	m := map[string]any{"uuid": uuidOf(kExit, e.ID)}
	if e.Dest != 0 {
		m["destination_uuid"] = uuidOf(kNode, e.Dest)
	}
	return m
}

func (a *Assets) flowJSON(f *Flow) map[string]any {
	nodes := []any{}
	for _, n := range f.Nodes {
		nm := map[string]any{"uuid": uuidOf(kNode, n.ID)}
		acts := []any{}
		for k, act := range n.Actions {
			am := map[string]any{"uuid": uuidOf(kAct, n.ID*10+k), "type": act.Kind}
			switch act.Kind {
			case "send_msg":
				am["text"] = act.Text
			case "set_run_result":
				am["name"] = act.Name
				am["value"] = act.Text
				if act.Category != "" {
					am["category"] = act.Category
				}
			case "enter_flow":
				am["flow"] = map[string]any{"uuid": uuidOf(kFlow, act.Flow), "name": fmt.Sprintf("F%d", act.Flow)}
				if act.Terminal {
					am["terminal"] = true
				}
			}
			acts = append(acts, am)
		}
		if len(acts) > 0 {
			nm["actions"] = acts
		}
		if rt := n.Router; rt != nil {
			rm := map[string]any{"type": "switch", "operand": `@(default(input.text, ""))`}
			cats := []any{}
			for k, c := range rt.Cats {
				cats = append(cats, map[string]any{"uuid": uuidOf(kCat, n.ID*10+k), "name": c.Name, "exit_uuid": uuidOf(kExit, c.Exit)})
			}
			rm["categories"] = cats
			cases := []any{}
			for k, c := range rt.Cases {
				cases = append(cases, map[string]any{"uuid": uuidOf(kCase, n.ID*10+k), "type": "has_only_text",
					"arguments": []string{c.Arg}, "category_uuid": uuidOf(kCat, n.ID*10+c.Cat)})
			}
			rm["cases"] = cases
			if rt.Default >= 0 {
				rm["default_category_uuid"] = uuidOf(kCat, n.ID*10+rt.Default)
			}
			if rt.Result != "" {
				rm["result_name"] = rt.Result
			}
			if rt.Wait != nil && rt.Wait.Dial {
				rm["wait"] = map[string]any{"type": "dial", "phone": "1(206)5551212"}
			} else if rt.Wait != nil {
				wm := map[string]any{"type": "msg"}
				if rt.Wait.HasTimeout {
					wm["timeout"] = map[string]any{"seconds": rt.Wait.Seconds, "category_uuid": uuidOf(kCat, n.ID*10+rt.Wait.TimeoutCat)}
				}
				rm["wait"] = wm
			}
			nm["router"] = rm
		}
		exits := []any{}
		for _, e := range n.Exits {
			exits = append(exits, exitJSON(e))
		}
		nm["exits"] = exits
		nodes = append(nodes, nm)
	}
	nodes = f.applyCorruption(nodes)
	return map[string]any{
		"uuid": uuidOf(kFlow, f.ID), "name": fmt.Sprintf("F%d", f.ID), "spec_version": "13.6.1", "language": "eng",
		"type": flowTypes[f.Type], "nodes": nodes,
	}
}

func (a *Assets) JSON() []byte {
	fl := []any{}
	for _, f := range a.Flows {
		fl = append(fl, a.flowJSON(f))
	}
	channels := []any{map[string]any{"uuid": channelUUID, "name": "Twilio", "address": "235326346", "schemes": []string{"tel"}, "roles": []string{"call", "answer"}}}
	b, err := json.Marshal(map[string]any{"flows": fl, "channels": channels})
	if err != nil {
		panic(err)
	}
	return b
}

// ---- Coq ------------------------------------------------------------------------------------------------

func optN(i int, none int) string {
	if i == none {
		return "None"
	}
	return fmt.Sprintf("(Some %s)", hx.N(i))
}

func optNat(i int, none int) string {
	if i == none {
		return "None"
	}
	return fmt.Sprintf("(Some %d%%nat)", i)
}

func (a *Assets) Coq() string {
	var sb strings.Builder
	sb.WriteString("{| a_flows := [")
	first := true
	for _, f := range a.Flows {
		if f.Corrupt != "" {
			continue // rejected by the loader: not in the store the engine sees
		}
		if !first {
			sb.WriteString(";\n ")
		}
		first = false
		fmt.Fprintf(&sb, "{| f_id := %s; f_type := %s; f_nodes := [", hx.N(f.ID), hx.N(f.Type))
		for j, n := range f.Nodes {
			if j > 0 {
				sb.WriteString(";\n   ")
			}
			fmt.Fprintf(&sb, "{| n_id := %s; n_actions := %s; n_router := %s; n_exits := %s |}", hx.N(n.ID),
				hx.List(n.Actions, func(x Action) string {
					switch x.Kind {
					case "send_msg":
						return "ASendMsg " + hx.Str(x.Text)
					case "set_run_result":
						return fmt.Sprintf("ASetResult %s %s %s", hx.Str(x.Name), hx.Str(x.Text), hx.Str(x.Category))
					default:
						return fmt.Sprintf("AEnterFlow %s %s", hx.N(x.Flow), hx.Bool(x.Terminal))
					}
				}),
				routerCoq(n.Router),
				hx.List(n.Exits, func(e Exit) string {
					return fmt.Sprintf("{| e_id := %s; e_dest := %s |}", hx.N(e.ID), optN(e.Dest, 0))
				}))
		}
		sb.WriteString("] |}")
	}
	fmt.Fprintf(&sb, "];\n a_opts := {| max_steps := %s; max_resumes := %s; max_template_chars := %s; max_result_chars := %s |} |}",
		hx.Z(int64(a.Opts.MaxSteps)), hx.Z(int64(a.Opts.MaxResumes)), hx.Z(int64(a.Opts.MaxTemplateChars)), hx.Z(int64(a.Opts.MaxResultChars)))
	return sb.String()
}

func routerCoq(rt *Router) string {
	if rt == nil {
		return "None"
	}
	w := "None"
	if rt.Wait != nil {
		t := "None"
		if rt.Wait.HasTimeout {
			t = fmt.Sprintf("(Some (%s, %d%%nat))", hx.N(rt.Wait.Seconds), rt.Wait.TimeoutCat)
		}
		wt := "WMsg"
		if rt.Wait.Dial {
			wt = "WDial"
		}
		w = fmt.Sprintf("(Some {| w_type := %s; w_timeout := %s |})", wt, t)
	}
	res := "None"
	if rt.Result != "" {
		res = "(Some " + hx.Str(rt.Result) + ")"
	}
	return fmt.Sprintf("(Some {| rt_wait := %s; rt_result := %s; rt_cats := %s; rt_cases := %s; rt_default := %s |})",
		w, res,
		hx.List(rt.Cats, func(c Category) string {
			return fmt.Sprintf("{| cat_name := %s; cat_exit := %s |}", hx.Str(c.Name), hx.N(c.Exit))
		}),
		hx.List(rt.Cases, func(c Case) string { return fmt.Sprintf("(%s, %d%%nat)", hx.Str(c.Arg), c.Cat) }),
		optNat(rt.Default, -1))
}
