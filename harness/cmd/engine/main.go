// Driver for the flow-engine properties C01, C05, C10 (shared model coq/model/Engine.v).
//
// Generates random CFL assets and histories (trigger + resumes, optionally faults in the asset store
// between sprints), runs them on the REAL engine, evaluates the sentences of the selected property on
// the real session / sprint (direct oracle, oracles.go) and writes cases_<prop>_*.v in which the
// model is run on the same history and its token stream compared with the implementation's.
package main

import (
	"encoding/json"
	"fmt"
	"os"
	"strings"

	"verifharness/pkg/hx"
)

func genTrigger(r *hx.Rand, a *Assets) Trigger {
	t := Trigger{Kind: "manual", Flow: a.Flows[0].ID}
	switch r.Intn(5) {
	case 0, 1:
		t.Kind = "msg"
		t.Text = hx.Pick(r, words)
	case 2:
		t.Kind = "flow_action"
	}
	if r.Chance(1, 10) {
		t.Flow = a.Flows[r.Intn(len(a.Flows))].ID
	}
	return t
}

func genOp(r *hx.Rand, prop string) Op {
	if prop == "C10" {
		// every resume type against every wait: many rejections, also after accepted msg resumes
		switch r.Intn(20) {
		case 0, 1, 2:
			return Op{Kind: "dial"}
		case 3, 4, 5:
			return Op{Kind: "timeout"}
		case 6:
			return Op{Kind: "expiration"}
		default:
			return Op{Kind: "msg", Text: hx.Pick(r, words)}
		}
	}
	switch r.Intn(12) {
	case 0:
		return Op{Kind: "timeout"}
	case 1:
		return Op{Kind: "expiration"}
	case 2:
		return Op{Kind: "dial"}
	default:
		return Op{Kind: "msg", Text: hx.Pick(r, words)}
	}
}

// genFault derives faulted assets from the current ones, aiming at where the session currently is
func genFault(r *hx.Rand, a *Assets, where []location) (*Assets, string) {
	b := cloneAssets(a)
	if len(where) == 0 {
		return nil, ""
	}
	loc := where[r.Intn(len(where))]
	f := b.flow(loc.Flow)
	if f == nil {
		return nil, ""
	}
	switch r.Intn(10) {
	case 8, 9: // the flow was re-saved with another type (messaging <-> messaging_background <-> voice)
		nt := (f.Type + 1 + r.Intn(2)) % 3
		was := f.Type
		f.Type = nt
		for _, n := range f.Nodes {
			if n.Router != nil && n.Router.Wait != nil && (nt == 1 || (nt == 0 && n.Router.Wait.Dial)) {
				// a wait of a kind the new type does not allow: the definition no longer validates (the loader rejects it)
				f.Corrupt, f.CorruptNode = "wait-not-allowed-in-flow-type", n.ID
				break
			}
		}
		return b, fmt.Sprintf("flow %d changed type %s -> %s", loc.Flow, flowTypes[was], flowTypes[nt])
	case 6, 7: // the flow is still there but was edited so that it no longer validates (the loader rejects it)
		if f.corrupt(r, loc.Node) {
			return b, fmt.Sprintf("flow %d edited, no longer valid (%s at node %d)", loc.Flow, f.Corrupt, f.CorruptNode)
		}
	case 0: // the flow is deleted
		var out []*Flow
		for _, x := range b.Flows {
			if x.ID != loc.Flow {
				out = append(out, x)
			}
		}
		b.Flows = out
		return b, fmt.Sprintf("flow %d deleted", loc.Flow)
	case 1: // the node the run is at is deleted
		f.removeNode(loc.Node)
		return b, fmt.Sprintf("node %d deleted", loc.Node)
	case 2: // the node loses its router
		if n := f.node(loc.Node); n != nil && n.Router != nil {
			n.Router = nil
			return b, fmt.Sprintf("node %d lost its router", loc.Node)
		}
	case 3: // the node loses its wait
		if n := f.node(loc.Node); n != nil && n.Router != nil && n.Router.Wait != nil {
			n.Router.Wait = nil
			return b, fmt.Sprintf("node %d lost its wait", loc.Node)
		}
	case 4: // the wait loses / gains its timeout
		if n := f.node(loc.Node); n != nil && n.Router != nil && n.Router.Wait != nil {
			if n.Router.Wait.HasTimeout {
				n.Router.Wait.HasTimeout = false
				return b, fmt.Sprintf("wait on node %d lost its timeout", loc.Node)
			}
			n.Router.Wait.HasTimeout = true
			n.Router.Wait.Seconds = 60
			n.Router.Wait.TimeoutCat = 0
			return b, fmt.Sprintf("wait on node %d gained a timeout", loc.Node)
		}
	case 5: // the options change (limits lowered)
		b.Opts.MaxResumes = hx.Pick(r, []int{0, 1, 2})
		return b, "max resumes lowered"
	}
	return nil, ""
}

type location struct{ Flow, Node int }

// set when an engine call did not return: the goroutine that runs it cannot be stopped, so the driver
// records the failure, writes its results and exits instead of going on next to a runaway computation
var hung bool

// runHistory continues a started history: either with generated ops (fixed == nil) or with the given ones
func runHistory(prop string, r *hx.Rand, h *History, w *world, first *CallObs, a *Assets, res *hx.Result, fixed []Op) []*CallObs {
	var calls []*CallObs
	if first.Kind == 9 {
		res.Fail("harness:assets-not-loadable", h.Assets.JSON(), first.Err)
		return nil
	}
	calls = append(calls, first)
	st5 := &c05state{}
	runOracle := func(ci int, c *CallObs) {
		switch prop {
		case "C01":
			oracleC01(h, ci, c, res)
		case "C05":
			oracleC05(h, ci, c, res, st5)
		case "C10":
			oracleC10(h, ci, c, res)
		}
	}
	runOracle(0, first)
	if first.Kind == 5 {
		hung = true
		if prop != "C05" {
			res.Fail(prop+":hang", historyJSON(h), "engine call did not return within the watchdog")
		}
		return calls
	}
	s := first.Session
	cur := a
	alive := first.Kind == 0 || first.Kind == 1
	if fixed != nil {
		for k := 0; k < len(fixed) && alive; k++ {
			op := fixed[k]
			obs, s2 := w.resume(s, &op)
			h.Ops = append(h.Ops, op)
			if obs.Kind == 9 {
				res.Fail("harness:"+strings.SplitN(obs.Err, ":", 2)[0], historyJSON(h), obs.Err)
				break
			}
			s = s2
			calls = append(calls, obs)
			runOracle(len(calls)-1, obs)
			if obs.Kind == 5 {
				hung = true
			}
			if obs.Kind != 0 && obs.Kind != 1 {
				alive = false
			}
		}
		return calls
	}
	nops := r.Intn(9)
	if prop == "C10" {
		nops = r.Range(1, 8)
	}
	extra := r.Chance(1, 3)
	for k := 0; k < nops && alive; k++ {
		if s != nil && s.Status() != "waiting" {
			// the session is over: at most one more resume (it must be rejected with 101)
			if !extra {
				break
			}
			extra = false
		}
		op := genOp(r, prop)
		if prop == "C10" && s != nil {
			if r.Chance(1, 4) {
				var where []location
				for _, run := range s.Runs() {
					if len(run.Path()) > 0 {
						st := run.Path()[len(run.Path())-1]
						where = append(where, location{idOf(string(run.FlowReference().UUID)), idOf(string(st.NodeUUID()))})
					}
				}
				if fa, desc := genFault(r, cur, where); fa != nil {
					op.Assets, op.Fault = fa, desc
					cur = fa
				}
			} else if r.Chance(1, 25) && op.Kind == "msg" {
				op.Kind = "tamper"
				op.Restart = true
			} else if r.Chance(1, 5) {
				op.Restart = true // the host stored the session and reads it back before this resume
			}
		}
		obs, s2 := w.resume(s, &op)
		h.Ops = append(h.Ops, op)
		if obs.Kind == 9 {
			res.Fail("harness:"+strings.SplitN(obs.Err, ":", 2)[0], historyJSON(h), obs.Err)
			break
		}
		s = s2
		calls = append(calls, obs)
		runOracle(len(calls)-1, obs)
		if obs.Kind == 5 {
			hung = true
			if prop == "C01" {
				res.Fail("C01:hang", historyJSON(h), "engine call did not return within the watchdog")
			}
		}
		if obs.Kind != 0 && obs.Kind != 1 {
			alive = false
		}
	}
	return calls
}

// rawFlow finds a flow of the store whether or not it is loadable
func (a *Assets) rawFlow(id int) *Flow {
	for _, f := range a.Flows {
		if f.ID == id {
			return f
		}
	}
	return nil
}

// nearlyValidStart handles a history whose TRIGGER flow violates a load-time rule.  The loader must reject it:
// NewSession returns a Go error (that is the API for an invalid definition, not a violation) and the history ends
// there, outside the model.  A panic or a hang is a failure.  If the definition is ACCEPTED (a weakened validation),
// the history is run with the direct oracles only - the model has no such flow - so that whatever the clauses of
// the property rely on validation for shows up as a failing input.  Reports whether the history was handled here.
func nearlyValidStart(prop string, r *hx.Rand, h *History, w *world, first *CallObs, res *hx.Result) bool {
	return nearlyValidStartFixed(prop, h, w, first, res, nil)
}

func nearlyValidStartFixed(prop string, h *History, w *world, first *CallObs, res *hx.Result, fixed []Op) bool {
	tf := h.Assets.rawFlow(h.Trigger.Flow)
	if tf == nil || tf.Corrupt == "" {
		return false
	}
	key, _ := json.Marshal(historyJSON(h))
	switch first.Kind {
	case 2:
		res.Dist("nearly-valid-trigger-flow:rejected:" + tf.Corrupt)
		res.Eval(string(key), false)
	case 3, 5:
		res.Fail(prop+":invalid-definition-not-rejected-cleanly:"+tf.Corrupt, historyJSON(h), "loading a definition that violates a validation rule panicked or hung: "+first.Err)
		if first.Kind == 5 {
			hung = true
		}
	default:
		// accepted: run it with the oracles (not emitted for the model)
		res.Dist("nearly-valid-trigger-flow:ACCEPTED:" + tf.Corrupt)
		ops := fixed
		if ops == nil {
			ops = []Op{{Kind: "timeout"}, {Kind: "msg", Text: "a"}, {Kind: "timeout"}, {Kind: "msg", Text: "zz"}, {Kind: "expiration"}}
		}
		runHistory(prop, nil, h, w, first, h.Assets, res, ops)
		res.Eval(string(key), true)
	}
	return true
}

// replayInput rebuilds a history from the "input" of a replay file (failing_input or first_mismatching_case)
func replayInput(path string) (*History, []Op, error) {
	raw, err := os.ReadFile(path)
	if err != nil {
		return nil, nil, err
	}
	var rj struct {
		FailingInput struct {
			Input json.RawMessage `json:"input"`
		} `json:"failing_input"`
		FirstMismatch struct {
			Input json.RawMessage `json:"input"`
		} `json:"first_mismatching_case"`
	}
	if err := json.Unmarshal(raw, &rj); err != nil {
		return nil, nil, err
	}
	in := rj.FailingInput.Input
	if len(in) == 0 {
		in = rj.FirstMismatch.Input
	}
	if len(in) == 0 {
		return nil, nil, fmt.Errorf("no input in replay file")
	}
	var hin struct {
		CFL     *Assets `json:"cfl"`
		Trigger Trigger `json:"trigger"`
		Ops     []struct {
			Kind     string  `json:"kind"`
			Text     string  `json:"text"`
			Fault    string  `json:"fault"`
			Restart  bool    `json:"restart"`
			CFLAfter *Assets `json:"cfl_after"`
		} `json:"ops"`
	}
	if err := json.Unmarshal(in, &hin); err != nil {
		return nil, nil, err
	}
	if hin.CFL == nil {
		return nil, nil, fmt.Errorf("replay input has no cfl member")
	}
	h := &History{Assets: hin.CFL, Trigger: hin.Trigger}
	ops := []Op{}
	for _, o := range hin.Ops {
		op := Op{Kind: o.Kind, Text: o.Text, Fault: o.Fault, Assets: o.CFLAfter}
		if o.Kind == "tamper" || o.Restart {
			op.Restart = true
		}
		ops = append(ops, op)
	}
	return h, ops, nil
}

func main() {
	if spec := os.Getenv("ENG_DEEP_CHILD"); spec != "" {
		deepChild(spec) // child process of the deep-expression probe (deep.go)
		return
	}
	o := hx.ParseOpts()
	prop := o.Prop
	if prop == "" {
		prop = "C01"
	}
	rules := map[string]string{
		"C01": "fixed corpus of minimal histories of the repaired defects first; then random CFL assets (3/4: 1-4 flows, 0-6 nodes, cycles, self/mutual/terminal enters, empty flows, waits with/without timeout; 1/4: enter_flow chains 3-6 levels deep whose deepest flow waits, fails, enters itself or closes the cycle) x trigger (manual/msg/flow_action) x 0-8 resumes (msg/timeout/expiration/dial); a history whose first sprint does not wait is redrawn once; non-trivial = the history has >=2 sprints and >=2 runs, or took a failure/expiry/terminal/limit branch; distinct = distinct canonical history JSON; plus the alias stream (direct oracle only): flow assets whose asset uuid differs from the uuid inside the definition (host source / legacy export), marshal -> ReadSession between resumes",
		"C05": "(a) as C01 with adversarial graphs (self-loops, default-to-self routers, A enters B enters A, terminal loops) and small option values; non-trivial = some sprint came within 2 of the step limit or hit it, or a text was cut at a length limit, or the resume limit was reached; (b) payload stream, direct oracle only (outside the Coq model): fixed corpus + flows with send_msg (text, quick replies, attachments around 2048 bytes), set_contact_name, set_contact_field (text/number/datetime fields) and set_run_result whose values have limit+1, limit, limit-1 or many more characters, built from ASCII, multi-byte text, dates, numbers and URLs, under small random MaxFieldChars/MaxResultChars/MaxTemplateChars and the defaults; every event payload and the resulting contact and run results are checked (1 case in 7 is a voice flow with play_audio / say_msg: the message on ivr_created gets the checks of msg_created); non-trivial = some value exceeds its limit or the message has quick replies/attachments; (c) definition stream, direct oracle only: fixed corpus + flows whose type changes between sprints, reference lists with null/empty/malformed/duplicate elements, self-returning routers and actions that read back what the previous visit stored (run under growing step limits; no string of the session or the events longer than every limit), sessions without a contact x 19 first actions; (d) expressions nested 40,000 deep run in a child process under a 48 MB stack ceiling; (e) 5 templates whose one evaluation builds gigabytes, each in one evaluated member, in a child process under a 3 GiB address-space cap; (f) reader stream: documents the engine marshalled (sessions, triggers, contact, resumes, modifiers) with one structure-aware mutation, read back (and resumed / started when they read)",
		"C10": "as C01 (first sprint redrawn up to 5 times until it waits; 15% dial, 15% wait_timeout, 5% run_expiration resumes) plus faults in the asset store between sprints (flow deleted, flow re-saved with another type, flow edited so that it no longer validates, waiting node deleted / without router / without wait, timeout removed/added, resume limit lowered), resumes of every type against every wait, resumes of finished sessions, tampered sessions without a waiting run; plus the definition stream (direct oracle only): flows whose type changes between sprints with say_msg / play_audio / send_msg after the wait; non-trivial = at least one resume was rejected with an engine error or ended in a failed session",
	}
	res := hx.NewResult(o, rules[prop])
	rnd := hx.NewRand(o.Seed)
	// ENG_CORPUS_ONLY=1: only the hand-written corpus entries of every stream (used to confirm that every seeded change and
	// every repaired defect has a deterministic input of the needed shape, independent of generator probabilities)
	corpusOnly := os.Getenv("ENG_CORPUS_ONLY") != ""
	count := func(q, t int) int {
		if corpusOnly {
			return 0
		}
		return o.Count(q, t)
	}
	n := count(400, 12000)
	cfg := GenCfg{}
	if prop == "C05" {
		cfg = GenCfg{Adversarial: true, SmallLimits: true}
	}

	var file *hx.CoqFile
	nfile := 0
	const shard = 100
	flush := func() {
		if file != nil {
			file.Add("].\nDefinition M := Eval vm_compute in mismatches cases.\nPrint M.")
			file.Save(o, res)
			file = nil
		}
	}
	header := "From Coq Require Import List NArith ZArith Bool.\nFrom Verif Require Import model.Lang model.Engine model.EngineCorr.\nImport ListNotations.\nOpen Scope N_scope.\nDefinition cases : list hcase := ["

	emit := func(i int, h *History, calls []*CallObs) {
		key, _ := json.Marshal(historyJSON(h))
		nontrivial := classify(prop, h, calls, res)
		res.Eval(string(key), nontrivial)
		if i%97 == 0 {
			res.Sample(map[string]any{"history": historyJSON(h), "calls": summarize(calls)})
		}
		// correspondence case
		if file == nil {
			file = hx.NewCoqFile(fmt.Sprintf("cases_%s_%03d.v", prop, nfile), header)
			nfile++
		}
		sep := ";"
		if file.N == 0 {
			sep = " "
		}
		file.Add(sep + " " + caseCoq(h, calls))
		res.Cases = append(res.Cases, hx.Case{File: file.Name, Index: file.N, Input: historyJSON(h), Impl: summarize(calls)})
		file.N++
		if file.N >= shard {
			flush()
		}
	}

	emitVoice := emit // voice flows are part of the model (dial waits begin, dial_wait events count as waits)
	if o.Replay != "" && prop == "C05" && replayPayload(o.Replay, res) {
		res.Write(o)
		return
	}
	if o.Replay != "" && prop == "C05" && replayReader(o.Replay, res) {
		res.Write(o)
		return
	}
	if o.Replay != "" && prop == "C01" && replayAlias(o.Replay, res) {
		res.Write(o)
		return
	}
	if o.Replay != "" && (prop == "C05" || prop == "C10") && replayDef(prop, o.Replay, res) {
		res.Write(o)
		return
	}
	if o.Replay != "" {
		// re-run exactly the recorded history (a replay file without an input, e.g. for a broken proof,
		// falls through to the normal run of the recorded seed)
		if h, ops, err := replayInput(o.Replay); err == nil {
			resetSources(1)
			w := &world{}
			first := w.start(h)
			if calls := runHistory(prop, nil, h, w, first, h.Assets, res, ops); calls != nil {
				emit(0, h, calls)
			}
			flush()
			res.Write(o)
			return
		}
	}

	// corpus first: the minimal histories of the defects found with this check (they are repaired in /repo:
	// `fixed:` lines of KNOWN_FINDINGS.txt; if a defect returns these report it in every run, whatever the seed)
	for ci, ch := range corpus(prop) {
		resetSources(int64(7000 + ci))
		h := &History{Assets: ch.Assets, Trigger: ch.Trigger}
		w := &world{}
		first := w.start(h)
		if nearlyValidStartFixed(prop, h, w, first, res, ch.Ops) {
			res.Dist("corpus")
			continue
		}
		if calls := runHistory(prop, nil, h, w, first, h.Assets, res, ch.Ops); calls != nil {
			emit(1+ci, h, calls)
		}
		res.Dist("corpus")
		if hung {
			break
		}
	}

	for i := 0; i < n && !hung; i++ {
		r := rnd.Fork(fmt.Sprintf("case%d", i))
		resetSources(int64(o.Seed)*100003 + int64(i))
		if i%8 == 5 {
			// voice flows: dial waits (and msg waits) the session keeps coming back to, dial resumes of every status,
			// other resume types in between, small resume limits
			a := genVoice(r)
			h := &History{Assets: a, Trigger: Trigger{Kind: "manual", Flow: 1}}
			w := &world{}
			first := w.start(h)
			lim := a.Opts.MaxResumes
			if lim > 4 {
				lim = 4
			}
			var ops []Op
			for k := r.Range(lim+1, 2*lim+4); k > 0; k-- {
				switch r.Intn(10) {
				case 0:
					ops = append(ops, Op{Kind: "msg", Text: hx.Pick(r, words)})
				case 1:
					ops = append(ops, Op{Kind: hx.Pick(r, []string{"timeout", "expiration"})})
				default:
					ops = append(ops, Op{Kind: "dial", Text: hx.Pick(r, []string{"answered", "busy", "no_answer", "failed"})})
				}
			}
			res.Dist("voice")
			if calls := runHistory(prop, nil, h, w, first, a, res, ops); calls != nil {
				emitVoice(i, h, calls)
			}
			continue
		}
		// histories that end in their first sprint say little about resumes: C10 (and, less strongly,
		// C01) draw again a few times when the session is not waiting after the trigger
		tries := map[string]int{"C10": 6, "C01": 2}[prop]
		var a *Assets
		var h *History
		var w *world
		var first *CallObs
		for t := 0; ; t++ {
			a = genAssets(r, cfg)
			h = &History{Assets: a, Trigger: genTrigger(r, a)}
			if r.Chance(1, 10) {
				// a nearly valid definition: one flow violates exactly one load-time rule
				fl := a.Flows[r.Intn(len(a.Flows))]
				if len(fl.Nodes) > 0 {
					fl.corrupt(r, fl.Nodes[r.Intn(len(fl.Nodes))].ID)
				}
			}
			w = &world{}
			first = w.start(h)
			if t+1 >= tries || first.Kind != 0 || first.Session.Status() == "waiting" || r.Chance(1, 5) {
				break
			}
		}
		if nearlyValidStart(prop, r, h, w, first, res) {
			continue
		}
		if calls := runHistory(prop, r, h, w, first, a, res, nil); calls != nil {
			emit(i, h, calls)
		}
		if hung {
			break
		}
	}
	flush()
	if prop == "C05" && !hung {
		// the payload-length clause on action types outside the modelled fragment (direct oracle only)
		payloadStream(rnd.Fork("payload"), count(300, 6000), res)
	}
	if prop == "C01" && !hung {
		// flow assets whose asset UUID differs from the uuid inside their definition (direct oracle only)
		aliasStream(rnd.Fork("alias"), count(120, 2500), res)
	}
	if prop == "C05" && !hung && o.Replay == "" {
		deepProbe(prop, res)
		amplifyProbe(prop, uint64(o.Seed), res)
	}
	if prop == "C05" && !hung {
		// documents the host hands to Engine.ReadSession / ReadContact / ReadTrigger / ReadResume / ReadModifier, mutated
		readerStream(rnd.Fork("reader"), count(2500, 40000), res)
	}
	if (prop == "C05" || prop == "C10") && !hung {
		// definitions outside the modelled fragment: flow types changed between sprints, odd reference lists
		defStream(prop, rnd.Fork("definitions"), count(150, 3000), res)
	}
	res.Write(o)
}

func historyJSON(h *History) map[string]any {
	ops := []any{}
	for _, op := range h.Ops {
		m := map[string]any{"kind": op.Kind}
		if op.Text != "" {
			m["text"] = op.Text
		}
		if op.Restart {
			m["restart"] = true
		}
		if op.Fault != "" {
			m["fault"] = op.Fault
			m["assets_after"] = json.RawMessage(op.Assets.JSON())
			m["cfl_after"] = op.Assets
		}
		ops = append(ops, m)
	}
	return map[string]any{"assets": json.RawMessage(h.Assets.JSON()), "options": h.Assets.Opts, "trigger": h.Trigger, "ops": ops, "cfl": h.Assets}
}

func summarize(calls []*CallObs) []any {
	out := []any{}
	for _, c := range calls {
		m := map[string]any{"kind": []string{"ok", "rejected", "go-error", "panic", "", "hang"}[c.Kind]}
		if c.Kind == 1 {
			m["code"] = c.Code
		}
		if c.Err != "" {
			m["error"] = c.Err
		}
		if c.Kind == 0 {
			m["status"], m["runs"], m["events"] = c.StatusAfter, c.RunsAfter, c.EventsInSprint
		}
		out = append(out, m)
	}
	return out
}

func resumeCoq(op *Op) string {
	switch op.Kind {
	case "timeout":
		return "RTimeout"
	case "expiration":
		return "RExpiration"
	case "dial":
		return "RDial"
	}
	return "(RMsg " + hx.Str(op.Text) + ")"
}

func caseCoq(h *History, calls []*CallObs) string {
	var trig string
	switch h.Trigger.Kind {
	case "msg":
		trig = "(TMsg " + hx.Str(h.Trigger.Text) + ")"
	case "flow_action":
		trig = "TFlowAction"
	default:
		trig = "TManual"
	}
	ops := make([]string, 0, len(h.Ops))
	for i := range h.Ops {
		op := &h.Ops[i]
		switch {
		case op.Kind == "tamper":
			ops = append(ops, "OTamper "+resumeCoq(op))
		case op.Assets != nil:
			ops = append(ops, "OFault ("+op.Assets.Coq()+") "+resumeCoq(op))
		default:
			ops = append(ops, "OResume "+resumeCoq(op))
		}
	}
	obs := make([]string, 0, len(calls))
	for _, c := range calls {
		obs = append(obs, hx.List(c.Tokens, func(i int) string { return fmt.Sprint(i) }))
	}
	return fmt.Sprintf("{| hc_assets := %s;\n  hc_trigger := %s; hc_flow := %s;\n  hc_ops := [%s];\n  hc_obs := [%s]%%N |}",
		h.Assets.Coq(), trig, hx.N(h.Trigger.Flow), strings.Join(ops, ";\n    "), strings.Join(obs, ";\n    "))
}

// corpus: hand-written minimal histories (DESIGN.md F1, F5 and the pushed-flow defect found in round 2)
type corpusCase struct {
	Assets  *Assets
	Trigger Trigger
	Ops     []Op
}

func corpus(prop string) []corpusCase {
	std := Options{MaxSteps: 100, MaxResumes: 500, MaxTemplateChars: 10000, MaxResultChars: 640}
	enter := func(fl int, terminal bool) Action { return Action{Kind: "enter_flow", Flow: fl, Terminal: terminal} }
	plain := func(id int, acts ...Action) *Node {
		return &Node{ID: id, Actions: acts, Exits: []Exit{{ID: id*10 + 1}}}
	}
	waitNode := func(id int) *Node {
		return &Node{ID: id, Exits: []Exit{{ID: id*10 + 1}},
			Router: &Router{Default: 0, Cats: []Category{{Name: "C0", Exit: id*10 + 1}}, Wait: &Wait{}, Result: "r0"}}
	}
	var out []corpusCase
	// F1: the step limit is hit on the first node of a freshly pushed run (MaxSteps = 1)
	o1 := std
	o1.MaxSteps = 1
	out = append(out, corpusCase{Assets: &Assets{Opts: o1, Flows: []*Flow{
		{ID: 1, Nodes: []*Node{plain(101, enter(2, false))}},
		{ID: 2, Nodes: []*Node{plain(201, Action{Kind: "send_msg", Text: "a"})}}}},
		Trigger: Trigger{Kind: "manual", Flow: 1}, Ops: []Op{}})
	// F1b: ... and on the parent's next node after the child returned (MaxSteps = 2)
	o2 := std
	o2.MaxSteps = 2
	p := plain(101, enter(2, false))
	p.Exits[0].Dest = 102
	out = append(out, corpusCase{Assets: &Assets{Opts: o2, Flows: []*Flow{
		{ID: 1, Nodes: []*Node{p, plain(102, Action{Kind: "send_msg", Text: "b"})}},
		{ID: 2, Nodes: []*Node{plain(201, Action{Kind: "send_msg", Text: "a"})}}}},
		Trigger: Trigger{Kind: "manual", Flow: 1}, Ops: []Op{}})
	// pushed flow survives a failed action: P enters C; C's node = [enter_flow D, enter_flow <missing>]; D waits
	out = append(out, corpusCase{Assets: &Assets{Opts: std, Flows: []*Flow{
		{ID: 1, Nodes: []*Node{plain(101, enter(2, false))}},
		{ID: 2, Nodes: []*Node{plain(201, enter(3, false), enter(9, false))}},
		{ID: 3, Nodes: []*Node{waitNode(301)}}}},
		Trigger: Trigger{Kind: "manual", Flow: 1}, Ops: []Op{{Kind: "msg", Text: "a"}, {Kind: "msg", Text: "b"}}})
	// ... and the same with a child that ends at once
	out = append(out, corpusCase{Assets: &Assets{Opts: std, Flows: []*Flow{
		{ID: 1, Nodes: []*Node{plain(101, enter(2, false))}},
		{ID: 2, Nodes: []*Node{plain(201, enter(3, false), enter(9, false))}},
		{ID: 3, Nodes: []*Node{plain(301, Action{Kind: "send_msg", Text: "a"})}}}},
		Trigger: Trigger{Kind: "manual", Flow: 1}, Ops: []Op{}})
	// nearly valid definitions (wave-3 seeded mutants): the timeout category of a wait names ANOTHER node's exit -
	// the loader must reject the flow; if a weakened validation accepts it, the wait_timeout resume leaves the
	// step through an exit that is not on its node
	{
		wn := waitNode(101)
		wn.Router.Wait.HasTimeout, wn.Router.Wait.Seconds, wn.Router.Wait.TimeoutCat = true, 60, 1
		wn.Router.Cats = append(wn.Router.Cats, Category{Name: "Timeout", Exit: 1011})
		other := plain(102, Action{Kind: "send_msg", Text: "b"})
		out = append(out, corpusCase{Assets: &Assets{Opts: std, Flows: []*Flow{
			{ID: 1, Nodes: []*Node{wn, other}, Corrupt: "timeout-category-foreign-exit", CorruptNode: 101}}},
			Trigger: Trigger{Kind: "manual", Flow: 1}, Ops: []Op{{Kind: "timeout"}, {Kind: "msg", Text: "a"}}})
	}
	if prop == "C10" || prop == "C01" {
		// the waiting run's flow, or its parent's flow, is still present between sprints but no longer validates
		for _, which := range []int{2, 1} {
			mk := func(corrupt bool) *Assets {
				p := plain(101, enter(2, false))
				p.Exits[0].Dest = 102
				wn := waitNode(201)
				wn.Exits[0].Dest = 202
				a := &Assets{Opts: std, Flows: []*Flow{
					{ID: 1, Nodes: []*Node{p, plain(102, Action{Kind: "send_msg", Text: "b"})}},
					{ID: 2, Nodes: []*Node{wn, plain(202, Action{Kind: "send_msg", Text: "c"})}}}}
				if corrupt {
					f := a.rawFlow(which)
					f.Corrupt, f.CorruptNode = "dangling-destination", f.Nodes[0].ID
				}
				return a
			}
			out = append(out, corpusCase{Assets: mk(false), Trigger: Trigger{Kind: "manual", Flow: 1},
				Ops: []Op{{Kind: "msg", Text: "a", Assets: mk(true), Fault: fmt.Sprintf("flow %d edited, no longer valid (dangling-destination)", which)}, {Kind: "msg", Text: "b"}}})
		}
	}
	// --- one deterministic input for every seeded change / repaired defect that needs a particular shape ---
	// three nested runs, the deepest fails (enters a missing flow): the failure bubbles through every ancestor
	// (seeded C01_nested_failure_not_bubbled)
	{
		mid := plain(201, enter(3, false))
		mid.Exits[0].Dest = 202
		top := plain(101, enter(2, false))
		top.Exits[0].Dest = 102
		out = append(out, corpusCase{Assets: &Assets{Opts: std, Flows: []*Flow{
			{ID: 1, Nodes: []*Node{top, plain(102, Action{Kind: "send_msg", Text: "t"})}},
			{ID: 2, Nodes: []*Node{mid, plain(202, Action{Kind: "send_msg", Text: "m"})}},
			{ID: 3, Nodes: []*Node{plain(301, enter(9, false))}}}},
			Trigger: Trigger{Kind: "manual", Flow: 1}, Ops: []Op{}})
	}
	// a TERMINAL enter_flow inside a sub-flow: Top enters Middle, Middle terminal-enters Bottom, Bottom waits, then ends
	// (seeded C01_terminal_enter_leaves_grandparent_active_with_exited_on)
	{
		top := plain(101, enter(2, false))
		top.Exits[0].Dest = 102
		bottom := waitNode(301)
		out = append(out, corpusCase{Assets: &Assets{Opts: std, Flows: []*Flow{
			{ID: 1, Nodes: []*Node{top, plain(102, Action{Kind: "send_msg", Text: "t"})}},
			{ID: 2, Nodes: []*Node{plain(201, enter(3, true))}},
			{ID: 3, Nodes: []*Node{bottom}}}},
			Trigger: Trigger{Kind: "manual", Flow: 1}, Ops: []Op{{Kind: "msg", Text: "a"}, {Kind: "msg", Text: "b"}}})
	}
	// steps reached through enter_flow rather than through exits (seeded C05_steps_counted_by_segments): a node that
	// enters a child and loops back to itself under a step limit of 6, and a chain of six single-node flows that only
	// enter each other under a step limit of 3
	{
		o := std
		o.MaxSteps = 6
		loop := plain(101, enter(2, false))
		loop.Exits[0].Dest = 101
		out = append(out, corpusCase{Assets: &Assets{Opts: o, Flows: []*Flow{
			{ID: 1, Nodes: []*Node{loop}},
			{ID: 2, Nodes: []*Node{plain(201, Action{Kind: "send_msg", Text: "c"})}}}},
			Trigger: Trigger{Kind: "manual", Flow: 1}, Ops: []Op{}})
		o3 := std
		o3.MaxSteps = 3
		var chain []*Flow
		for fl := 1; fl <= 6; fl++ {
			if fl < 6 {
				chain = append(chain, &Flow{ID: fl, Nodes: []*Node{plain(fl*100+1, enter(fl+1, fl%2 == 0))}})
			} else {
				chain = append(chain, &Flow{ID: fl, Nodes: []*Node{plain(fl*100+1, Action{Kind: "send_msg", Text: "end"})}})
			}
		}
		out = append(out, corpusCase{Assets: &Assets{Opts: o3, Flows: chain}, Trigger: Trigger{Kind: "manual", Flow: 1}, Ops: []Op{}})
	}
	if prop == "C10" || prop == "C05" {
		// a voice flow whose dial wait leads back to itself, resume limit 2, four dial resumes (seeded
		// C10_dial_waits_not_counted_for_resume_limit): dial waits count against MaxResumesPerSession
		o := std
		o.MaxResumes = 2
		dw := waitNode(101)
		dw.Router.Wait.Dial = true
		dw.Exits[0].Dest = 101
		out = append(out, corpusCase{Assets: &Assets{Opts: o, Flows: []*Flow{{ID: 1, Type: 2, Nodes: []*Node{dw}}}},
			Trigger: Trigger{Kind: "manual", Flow: 1},
			Ops:     []Op{{Kind: "dial", Text: "answered"}, {Kind: "dial", Text: "busy"}, {Kind: "dial", Text: "answered"}, {Kind: "dial", Text: "no_answer"}}})
	}
	if prop == "C10" || prop == "C01" {
		// a session paused inside a sub-flow; between sprints the node the PARENT run is located at (its enter_flow node)
		// is deleted / loses nothing else; the child's wait accepts the resume, the child completes and the engine
		// tries to continue the parent: the parent run fails ("node no longer exists"), the failure bubbles up, the
		// session ends failed - and Resume returns no Go error (seeded change C10_bare_return_leaks_go_error).
		// Second entry: the grandparent's node vanished (the failure bubbles through two levels).
		for _, depth := range []int{2, 3} {
			mk := func(gone bool) *Assets {
				a := &Assets{Opts: std}
				for fl := 1; fl < depth; fl++ {
					p := plain(fl*100+1, enter(fl+1, false))
					p.Exits[0].Dest = fl*100 + 2
					a.Flows = append(a.Flows, &Flow{ID: fl, Nodes: []*Node{p, plain(fl*100+2, Action{Kind: "send_msg", Text: "b"})}})
				}
				wn := waitNode(depth*100 + 1)
				a.Flows = append(a.Flows, &Flow{ID: depth, Nodes: []*Node{wn}})
				if gone {
					a.rawFlow(1).removeNode(101)
				}
				return a
			}
			out = append(out, corpusCase{Assets: mk(false), Trigger: Trigger{Kind: "manual", Flow: 1},
				Ops: []Op{{Kind: "msg", Text: "a", Assets: mk(true), Fault: "node 101 deleted (the node an ancestor run is located at)"}, {Kind: "msg", Text: "b"}}})
		}
	}
	if prop == "C05" {
		// F5: limits below the length of the ellipsis / below zero
		for _, lim := range []int{0, 1, 2} {
			o := std
			o.MaxTemplateChars = lim
			out = append(out, corpusCase{Assets: &Assets{Opts: o, Flows: []*Flow{
				{ID: 1, Nodes: []*Node{plain(101, Action{Kind: "send_msg", Text: "hello"}, Action{Kind: "set_run_result", Name: "r0", Text: "héllo wörld"})}}}},
				Trigger: Trigger{Kind: "manual", Flow: 1}, Ops: []Op{}})
		}
		o := std
		o.MaxResultChars = -1
		out = append(out, corpusCase{Assets: &Assets{Opts: o, Flows: []*Flow{
			{ID: 1, Nodes: []*Node{plain(101, Action{Kind: "set_run_result", Name: "r0", Text: "abc"}), waitNode(102)}}}},
			Trigger: Trigger{Kind: "manual", Flow: 1}, Ops: []Op{{Kind: "msg", Text: "zz"}}})
	}
	if prop == "C10" {
		// a session started by a flow_action trigger (it has a parent run summary) is stored and read back; the first call
		// on the restored session is a resume its wait rejects: nothing the session shows may change (hunt2 C10 f2)
		out = append(out, corpusCase{Assets: &Assets{Opts: std, Flows: []*Flow{
			{ID: 1, Nodes: []*Node{plain(100, Action{Kind: "send_msg", Text: "a"}), waitNode(101)}}}},
			Trigger: Trigger{Kind: "flow_action", Flow: 1},
			Ops:     []Op{{Kind: "dial", Restart: true}, {Kind: "msg", Text: "a"}}})
	}
	if prop == "C10" {
		// a rejected resume on a session that carries an input (msg trigger, then an accepted msg resume)
		n1 := waitNode(101)
		n1.Exits[0].Dest = 102
		out = append(out, corpusCase{Assets: &Assets{Opts: std, Flows: []*Flow{
			{ID: 1, Nodes: []*Node{plain(100, Action{Kind: "send_msg", Text: "a"}), n1, waitNode(102)}}}},
			Trigger: Trigger{Kind: "msg", Text: "b", Flow: 1},
			Ops:     []Op{{Kind: "dial"}, {Kind: "msg", Text: "a"}, {Kind: "timeout"}, {Kind: "dial"}, {Kind: "msg", Text: "c"}, {Kind: "msg", Text: "c"}}})
	}
	return out
}
