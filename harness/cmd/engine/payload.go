package main

// Payload-length stream of C05 (direct oracle only; NOT part of the Coq model or of the correspondence).
//
// Sentence: "evaluated message text (of messages not built from a channel template), quick replies and
// attachments, contact name and field values, and run result values never exceed their configured maximum
// lengths ... for all engine option values ... and all inputs including text far longer than the limits and
// multi-byte characters at the cut".
//
// Flows with send_msg (text, quick replies, attachments), set_contact_name, set_contact_field (text, number
// and datetime fields) and set_run_result whose values exceed the respective limit by one, by a lot, or not at
// all, built from multi-byte text, dates, numbers and URLs, are run on the REAL engine with small random
// limits as well as the defaults; every event of the sprint and the resulting contact and run (read from the
// marshalled JSON, no goflow types) are checked against the limits.

import (
	"encoding/json"
	"fmt"
	"os"
	"sort"
	"strings"
	"time"
	"unicode/utf8"

	"github.com/nyaruka/gocommon/i18n"
	"github.com/nyaruka/gocommon/urns"
	"github.com/nyaruka/gocommon/uuids"
	"github.com/nyaruka/goflow/assets"
	"github.com/nyaruka/goflow/assets/static"
	"github.com/nyaruka/goflow/envs"
	"github.com/nyaruka/goflow/flows"
	"github.com/nyaruka/goflow/flows/engine"
	"github.com/nyaruka/goflow/flows/triggers"

	"verifharness/pkg/hx"
)

type PayloadOpts struct {
	MaxTemplateChars, MaxFieldChars, MaxResultChars int
}

type PayloadAction struct {
	Kind        string   `json:"kind"` // send_msg | set_contact_name | set_contact_field | set_run_result | play_audio | say_msg (voice flow)
	Text        string   `json:"text"`
	Field       string   `json:"field,omitempty"` // notes (text) | age (number) | joined (datetime)
	Name        string   `json:"name,omitempty"`  // result name
	QuickReps   []string `json:"quick_replies,omitempty"`
	Attachments []string `json:"attachments,omitempty"`
	// translations into "fra" (the flow's localization); when any action has one the contact's language is fra, so the
	// engine takes these instead of the base values: text, quick replies, attachments (say_msg: [audio_url])
	Loc *PayloadLoc `json:"localization,omitempty"`
}

type PayloadLoc struct {
	Text        string   `json:"text,omitempty"`
	QuickReps   []string `json:"quick_replies,omitempty"`
	Attachments []string `json:"attachments,omitempty"`
}

type PayloadCase struct {
	Kind    string          `json:"kind"` // "payload"
	Opts    PayloadOpts     `json:"options"`
	Actions []PayloadAction `json:"actions"`
}

var payloadPieces = map[string][]string{
	"ascii":     {"hello world ", "lorem ipsum dolor sit amet ", "x", "ab "},
	"multibyte": {"héllo wörld ", "日本語のテキスト ", "☺☻♥ ", "😀😃😄 ", "ñandú çà "},
	"date":      {"I was born on 1987-03-24. ", "2024-05-06T07:08:09Z ", "24-03-1987 ", "on 03/24/1987 at 10:30 "},
	"number":    {"12345.678 ", "I am 30 years old ", "-0.5 ", "1e3 "},
	"url":       {"https://example.com/a/b?x=1&y=2 ", "http://例え.jp/パス "},
}

var payloadKinds = []string{"ascii", "multibyte", "date", "number", "url"}

// expressions that fail at evaluation (the rest of the template is still output) and one that is long when evaluated
var failingExprs = []string{"@(1 / 0)", "@contact.xxx", "@(upper())", "@(format_date(\"x\"))", "@fields.nope.deeper"}

// withExpressions turns a literal text into a template: a failing expression at the start, in the middle or at the
// end, and optionally a repeat() whose value is long (so that the EVALUATED text exceeds even the default limit)
func withExpressions(r *hx.Rand, lit string, long int) string {
	rs := []rune(lit)
	at := 0
	switch r.Intn(3) {
	case 1:
		at = len(rs) / 2
	case 2:
		at = len(rs)
	}
	out := string(rs[:at]) + " " + hx.Pick(r, failingExprs) + " " + string(rs[at:])
	if long > 0 {
		rep := fmt.Sprintf(`@(repeat("%s", %d))`, hx.Pick(r, []string{"x", "é", "日", "ab "}), long)
		if r.Bool() {
			out = rep + out
		} else {
			out += rep
		}
	}
	return out
}

// genValue builds a text of exactly n characters (runes) from pieces of the given kinds, the first kind first
func genValue(r *hx.Rand, n int, kinds []string) string {
	if n <= 0 {
		return ""
	}
	var sb strings.Builder
	count := 0
	for i := 0; count < n; i++ {
		k := kinds[i%len(kinds)]
		if i >= len(kinds) && r.Chance(1, 2) {
			k = hx.Pick(r, kinds)
		}
		p := hx.Pick(r, payloadPieces[k])
		sb.WriteString(p)
		count += utf8.RuneCountInString(p)
	}
	rs := []rune(sb.String())
	return string(rs[:n])
}

func valueFeatures(s string) string {
	var fs []string
	for _, k := range []string{"date", "number", "url"} {
		for _, p := range payloadPieces[k] {
			if strings.Contains(s, strings.TrimSpace(p)) {
				fs = append(fs, k)
				break
			}
		}
	}
	if len(s) != utf8.RuneCountInString(s) {
		fs = append(fs, "multibyte")
	}
	for _, x := range failingExprs {
		if strings.Contains(s, x) {
			fs = append(fs, "failing-expression")
			break
		}
	}
	if len(fs) == 0 {
		return "plain"
	}
	return strings.Join(fs, "+")
}

// a length around a limit: one over, far over, at, one under, or small
func genLen(r *hx.Rand, limit int) int {
	if limit < 0 {
		limit = 0
	}
	switch r.Intn(6) {
	case 0, 1:
		return limit + 1
	case 2:
		return limit*3 + 7 + r.Intn(50)
	case 3:
		return limit
	case 4:
		if limit > 0 {
			return limit - 1
		}
		return 1
	default:
		return limit + 2 + r.Intn(200)
	}
}

func genKinds(r *hx.Rand) []string {
	n := r.Range(1, 3)
	ks := make([]string, 0, n)
	for i := 0; i < n; i++ {
		ks = append(ks, hx.Pick(r, payloadKinds))
	}
	return ks
}

func genPayloadCase(r *hx.Rand) *PayloadCase {
	c := &PayloadCase{Kind: "payload", Opts: PayloadOpts{MaxTemplateChars: 10000, MaxFieldChars: 640, MaxResultChars: 640}}
	if r.Chance(2, 3) {
		c.Opts.MaxFieldChars = hx.Pick(r, []int{0, 1, 2, 3, 5, 8, 13, 30, 100, 640})
		c.Opts.MaxResultChars = hx.Pick(r, []int{0, 1, 2, 3, 5, 8, 13, 30, 100, 640})
		c.Opts.MaxTemplateChars = hx.Pick(r, []int{3, 4, 5, 8, 20, 50, 300, 10000, 10000, 10000})
		if r.Chance(1, 15) {
			c.Opts.MaxFieldChars = -1
		}
	}
	nact := r.Range(1, 4)
	if r.Chance(1, 7) {
		// a voice flow: the audio URL of play_audio (a template) and of say_msg (a text of the definition) becomes the
		// attachment of the message on ivr_created
		for i := 0; i < nact; i++ {
			path := strings.ReplaceAll(genValue(r, hx.Pick(r, []int{10, 600, 2010, 2020, 2030, 2100, 4000}), hx.Pick(r, [][]string{{"ascii"}, {"multibyte"}, {"ascii", "multibyte"}})), " ", "_")
			url := "https://example.com/" + path + ".mp3"
			if r.Bool() {
				c.Actions = append(c.Actions, PayloadAction{Kind: "play_audio", Text: url})
			} else {
				c.Actions = append(c.Actions, PayloadAction{Kind: "say_msg", Text: genValue(r, genLen(r, min(c.Opts.MaxTemplateChars, 700)), genKinds(r)), Attachments: []string{url}})
			}
		}
		if r.Chance(1, 2) {
			// the flow has a French localization and the contact speaks French: the translated audio URL / text is what is sent
			for i := range c.Actions {
				if c.Actions[i].Kind != "say_msg" {
					continue
				}
				path := strings.ReplaceAll(genValue(r, hx.Pick(r, []int{10, 2010, 2030, 2100, 4000}), hx.Pick(r, [][]string{{"ascii"}, {"multibyte"}})), " ", "_")
				c.Actions[i].Loc = &PayloadLoc{Text: genValue(r, genLen(r, min(c.Opts.MaxTemplateChars, 700)), genKinds(r)), Attachments: []string{"https://example.com/fr/" + path + ".mp3"}}
				if r.Bool() {
					c.Actions[i].Attachments = []string{"https://example.com/short.mp3"} // base value within the limit, translation not
				}
			}
		}
		if r.Chance(1, 3) {
			for i := range c.Actions {
				if c.Actions[i].Kind == "play_audio" {
					c.Actions[i].Text = "https://example.com/@(repeat(\"a\", " + fmt.Sprint(hx.Pick(r, []int{100, 2020, 2040, 3000})) + ")).mp3"
				}
			}
		}
		return c
	}
	defer func() {
		// 1 case in 3: the values are TEMPLATES with an expression that fails (and sometimes a long repeat())
		if !r.Chance(1, 3) {
			return
		}
		for i := range c.Actions {
			a := &c.Actions[i]
			long := 0
			if r.Chance(1, 2) {
				long = hx.Pick(r, []int{50, 700, 10050})
			}
			a.Text = withExpressions(r, a.Text, long)
			for k := range a.QuickReps {
				if r.Bool() {
					a.QuickReps[k] = withExpressions(r, a.QuickReps[k], hx.Pick(r, []int{0, 70}))
				}
			}
		}
	}()
	for i := 0; i < nact; i++ {
		switch r.Intn(5) {
		case 0:
			a := PayloadAction{Kind: "send_msg", Text: genValue(r, genLen(r, min(c.Opts.MaxTemplateChars, 700)), genKinds(r))}
			for k := r.Intn(3); k > 0; k-- {
				a.QuickReps = append(a.QuickReps, genValue(r, genLen(r, 64), genKinds(r)))
			}
			for k := r.Intn(3); k > 0; k-- {
				// content-type:url, around the 2048 byte limit (bytes, so multi-byte paths matter)
				path := genValue(r, hx.Pick(r, []int{10, 600, 1000, 2010, 2020, 2030, 2100, 4000}), hx.Pick(r, [][]string{{"ascii"}, {"multibyte"}, {"ascii", "multibyte"}}))
				path = strings.ReplaceAll(path, " ", "_")
				a.Attachments = append(a.Attachments, "image/jpeg:https://example.com/"+path+".jpg")
			}
			if r.Chance(1, 4) {
				// French translations of the text, the quick replies and the attachments, around / over the limits
				a.Loc = &PayloadLoc{Text: genValue(r, genLen(r, min(c.Opts.MaxTemplateChars, 700)), genKinds(r)),
					QuickReps:   []string{genValue(r, genLen(r, 64), genKinds(r))},
					Attachments: []string{"image/jpeg:https://example.com/fr/" + strings.ReplaceAll(genValue(r, hx.Pick(r, []int{10, 2010, 2030, 2100, 4000}), []string{"ascii"}), " ", "_") + ".jpg"}}
			}
			c.Actions = append(c.Actions, a)
		case 1:
			c.Actions = append(c.Actions, PayloadAction{Kind: "set_contact_name", Text: genValue(r, genLen(r, c.Opts.MaxFieldChars), genKinds(r))})
		case 2, 3:
			c.Actions = append(c.Actions, PayloadAction{Kind: "set_contact_field", Field: hx.Pick(r, []string{"notes", "notes", "age", "joined"}),
				Text: genValue(r, genLen(r, c.Opts.MaxFieldChars), genKinds(r))})
		default:
			c.Actions = append(c.Actions, PayloadAction{Kind: "set_run_result", Name: hx.Pick(r, resultNames),
				Text: genValue(r, genLen(r, c.Opts.MaxResultChars), genKinds(r))})
		}
	}
	return c
}

// payloadCorpus: hand-written cases (the seeded mutant of the field modifier: a long value with a date in it)
func payloadCorpus() []*PayloadCase {
	long := "I was born on 1987-03-24. " + strings.Repeat("lorem ipsum dolor sit amet ", 30)
	def := PayloadOpts{MaxTemplateChars: 10000, MaxFieldChars: 640, MaxResultChars: 640}
	small := PayloadOpts{MaxTemplateChars: 10000, MaxFieldChars: 5, MaxResultChars: 5}
	var out []*PayloadCase
	for _, o := range []PayloadOpts{def, small} {
		for _, f := range []string{"notes", "age", "joined"} {
			out = append(out, &PayloadCase{Kind: "payload", Opts: o, Actions: []PayloadAction{{Kind: "set_contact_field", Field: f, Text: long}}})
			out = append(out, &PayloadCase{Kind: "payload", Opts: o, Actions: []PayloadAction{{Kind: "set_contact_field", Field: f, Text: "héllo wörld ☺ 30 " + long}}})
		}
		out = append(out, &PayloadCase{Kind: "payload", Opts: o, Actions: []PayloadAction{
			{Kind: "set_contact_name", Text: "Ñandú 😀 " + long},
			{Kind: "set_run_result", Name: "r0", Text: "2024-05-06T07:08:09Z " + long},
			{Kind: "send_msg", Text: long, QuickReps: []string{long, "日本語のテキスト " + long}, Attachments: []string{"image/jpeg:https://example.com/" + strings.Repeat("パ", 700) + ".jpg"}}}})
	}
	// a message template with a failing expression whose evaluated text is longer than MaxTemplateChars
	for _, o := range []PayloadOpts{def, {MaxTemplateChars: 20, MaxFieldChars: 640, MaxResultChars: 640}} {
		out = append(out, &PayloadCase{Kind: "payload", Opts: o, Actions: []PayloadAction{
			{Kind: "send_msg", Text: `@(1 / 0) @(repeat("ab", 5010)) tail`, QuickReps: []string{`@contact.xxx ` + long}},
			{Kind: "send_msg", Text: long + long + ` @contact.xxx @(repeat("é", 10001))`},
			{Kind: "set_run_result", Name: "r1", Text: `@(1 / 0) ` + long},
			{Kind: "set_contact_name", Text: `@(upper()) ` + long},
			{Kind: "set_contact_field", Field: "notes", Text: `@contact.xxx ` + long}}})
	}
	// voice: an audio URL longer than the attachment limit (evaluated for play_audio, a text of the definition for say_msg)
	out = append(out, &PayloadCase{Kind: "payload", Opts: def, Actions: []PayloadAction{{Kind: "play_audio", Text: `https://example.com/@(repeat("a", 3000)).mp3`}}})
	out = append(out, &PayloadCase{Kind: "payload", Opts: def, Actions: []PayloadAction{{Kind: "say_msg", Text: "hello", Attachments: []string{"https://example.com/" + strings.Repeat("a", 3000) + ".mp3"}}}})
	// the base audio URL is short, its French translation is over the limit and the contact speaks French (seeded wave 5:
	// the length check applied before localization); the same for the attachments / quick replies / text of a send_msg
	out = append(out, &PayloadCase{Kind: "payload", Opts: def, Actions: []PayloadAction{{Kind: "say_msg", Text: "hello", Attachments: []string{"https://example.com/short.mp3"},
		Loc: &PayloadLoc{Text: "bonjour", Attachments: []string{"https://example.com/fr/" + strings.Repeat("a", 3000) + ".mp3"}}}}})
	out = append(out, &PayloadCase{Kind: "payload", Opts: def, Actions: []PayloadAction{{Kind: "send_msg", Text: "hello", QuickReps: []string{"yes"}, Attachments: []string{"image/jpeg:https://example.com/short.jpg"},
		Loc: &PayloadLoc{Text: strings.Repeat("très long ", 1500), QuickReps: []string{strings.Repeat("oui ", 40)}, Attachments: []string{"image/jpeg:https://example.com/fr/" + strings.Repeat("a", 3000) + ".jpg"}}}}})
	return out
}

func (c *PayloadCase) localized() bool {
	for _, a := range c.Actions {
		if a.Loc != nil {
			return true
		}
	}
	return false
}

var envFra = envs.NewBuilder().WithAllowedLanguages("eng", "fra").WithDefaultCountry("US").Build()

func (c *PayloadCase) voice() bool {
	for _, a := range c.Actions {
		if a.Kind == "play_audio" || a.Kind == "say_msg" {
			return true
		}
	}
	return false
}

func (c *PayloadCase) assetsJSON() []byte {
	acts := []any{}
	for k, a := range c.Actions {
		am := map[string]any{"uuid": uuidOf(kAct, 9000+k), "type": a.Kind}
		switch a.Kind {
		case "send_msg":
			am["text"] = a.Text
			if len(a.QuickReps) > 0 {
				am["quick_replies"] = a.QuickReps
			}
			if len(a.Attachments) > 0 {
				am["attachments"] = a.Attachments
			}
		case "play_audio":
			am["audio_url"] = a.Text
		case "say_msg":
			am["text"] = a.Text
			if len(a.Attachments) > 0 {
				am["audio_url"] = a.Attachments[0]
			}
		case "set_contact_name":
			am["name"] = a.Text
		case "set_contact_field":
			am["field"] = map[string]any{"key": a.Field, "name": strings.ToUpper(a.Field[:1]) + a.Field[1:]}
			am["value"] = a.Text
		case "set_run_result":
			am["name"] = a.Name
			am["value"] = a.Text
		}
		acts = append(acts, am)
	}
	flow := map[string]any{
		"uuid": uuidOf(kFlow, 1), "name": "F1", "spec_version": "13.6.1", "language": "eng", "type": "messaging",
		"nodes": []any{map[string]any{"uuid": uuidOf(kNode, 101), "actions": acts, "exits": []any{map[string]any{"uuid": uuidOf(kExit, 1011)}}}},
	}
	fields := []any{
		map[string]any{"uuid": "d66a7823-eada-40e5-9a3a-57239d4690bf", "key": "notes", "name": "Notes", "type": "text"},
		map[string]any{"uuid": "f1b5aea6-6586-41c7-9020-1a6326cc6565", "key": "age", "name": "Age", "type": "number"},
		map[string]any{"uuid": "6c86d5ab-3fd9-4a5c-a5b6-48168b016747", "key": "joined", "name": "Joined", "type": "datetime"},
	}
	if c.voice() {
		flow["type"] = "voice"
	}
	if c.localized() {
		fra := map[string]any{}
		for k, a := range c.Actions {
			if a.Loc == nil {
				continue
			}
			m := map[string]any{}
			if a.Loc.Text != "" {
				m["text"] = []string{a.Loc.Text}
			}
			if len(a.Loc.QuickReps) > 0 {
				m["quick_replies"] = a.Loc.QuickReps
			}
			if len(a.Loc.Attachments) > 0 {
				if a.Kind == "say_msg" || a.Kind == "play_audio" {
					m["audio_url"] = a.Loc.Attachments[:1]
				} else {
					m["attachments"] = a.Loc.Attachments
				}
			}
			fra[uuidOf(kAct, 9000+k)] = m
		}
		flow["localization"] = map[string]any{"fra": fra}
	}
	b, err := json.Marshal(map[string]any{"flows": []any{flow}, "fields": fields,
		"channels": []any{map[string]any{"uuid": channelUUID, "name": "Twilio", "address": "235326346", "schemes": []string{"tel"}, "roles": []string{"send", "receive", "call", "answer"}}}})
	if err != nil {
		panic(err)
	}
	return b
}

// what the JSON of an event / the session says (no goflow types)
type payloadEvent struct {
	Type string `json:"type"`
	Name string `json:"name"`
	Msg  *struct {
		Text         string          `json:"text"`
		QuickReplies []string        `json:"quick_replies"`
		Attachments  []string        `json:"attachments"`
		Templating   json.RawMessage `json:"templating"`
	} `json:"msg"`
	Value json.RawMessage `json:"value"`
	Field *struct {
		Key string `json:"key"`
	} `json:"field"`
}

type payloadSession struct {
	Contact struct {
		Name   string `json:"name"`
		Fields map[string]struct {
			Text string `json:"text"`
		} `json:"fields"`
	} `json:"contact"`
	Runs []struct {
		Results map[string]struct {
			Value string `json:"value"`
		} `json:"results"`
	} `json:"runs"`
}

func runes(s string) int { return utf8.RuneCountInString(s) }

func runPayloadCase(c *PayloadCase, res *hx.Result) {
	input := map[string]any{"kind": "payload", "options": c.Opts, "actions": c.Actions}
	featOf := func(kind, field string) string {
		for _, a := range c.Actions {
			if a.Kind == kind && (field == "" || a.Field == field) && a.Text != "" {
				return valueFeatures(a.Text)
			}
		}
		return "plain"
	}
	fail := func(class, detail string) { res.Fail("C05:payload:"+class, input, detail) }

	src, err := static.NewSource(c.assetsJSON())
	if err != nil {
		res.Fail("harness:payload-assets", input, err.Error())
		return
	}
	env := env0
	lang := "eng"
	if c.localized() {
		env, lang = envFra, "fra"
	}
	sa, err := engine.NewSessionAssets(env, src, nil)
	if err != nil {
		res.Fail("harness:payload-assets", input, err.Error())
		return
	}
	eng := engine.NewBuilder().WithMaxTemplateChars(c.Opts.MaxTemplateChars).WithMaxFieldChars(c.Opts.MaxFieldChars).
		WithMaxResultChars(c.Opts.MaxResultChars).Build()
	contact, err := flows.NewContact(sa, flows.ContactUUID(uuids.NewV4()), flows.ContactID(7), "Bob", i18n.Language(lang),
		flows.ContactStatusActive, nil, time.Date(2019, 1, 1, 0, 0, 0, 0, time.UTC), nil, nil, nil, nil, nil, assets.PanicOnMissing)
	if err != nil {
		res.Fail("harness:payload-contact", input, err.Error())
		return
	}
	flowRef := assets.NewFlowReference(assets.FlowUUID(uuidOf(kFlow, 1)), "F1")
	trig := triggers.NewBuilder(env, flowRef, contact).Manual().Build()
	if c.voice() {
		trig = triggers.NewBuilder(env, flowRef, contact).Manual().WithCall(assets.NewChannelReference(assets.ChannelUUID(channelUUID), "Twilio"), urns.URN("tel:+12065551212")).Build()
	}
	var s flows.Session
	var sp flows.Sprint
	p, hungNow := guarded(func() { s, sp, err = eng.NewSession(sa, trig) })
	res.OracleChecks++
	switch {
	case hungNow:
		hung = true
		fail("hang", "engine call did not return within the watchdog")
		return
	case p != nil:
		fail("panic", fmt.Sprint("engine call panicked: ", p))
		return
	case err != nil:
		fail("go-error", "engine call returned an error: "+err.Error())
		return
	}
	lim := func(x int) int { return max(x, 0) }
	// every event of the sprint
	for _, ev := range sp.Events() {
		b, _ := json.Marshal(ev)
		var pe payloadEvent
		if json.Unmarshal(b, &pe) != nil {
			continue
		}
		res.OracleChecks++
		res.Dist("payload-event:" + pe.Type)
		switch pe.Type {
		case "msg_created", "ivr_created":
			if pe.Msg == nil {
				continue
			}
			if pe.Type == "ivr_created" {
				for _, a := range pe.Msg.Attachments {
					if len(a) > flows.MaxAttachmentLength {
						fail("ivr-attachment-too-long:"+valueFeatures(a), fmt.Sprintf("the message on ivr_created has an attachment of %d bytes, limit %d", len(a), flows.MaxAttachmentLength))
					}
				}
				if runes(pe.Msg.Text) > lim(c.Opts.MaxTemplateChars) {
					fail("ivr-text-too-long", fmt.Sprintf("ivr_created text has %d characters, MaxTemplateChars %d", runes(pe.Msg.Text), c.Opts.MaxTemplateChars))
				}
				continue
			}
			if len(pe.Msg.Templating) == 0 && runes(pe.Msg.Text) > lim(c.Opts.MaxTemplateChars) {
				fail("msg-text-too-long:"+featOf("send_msg", ""), fmt.Sprintf("msg_created text has %d characters, MaxTemplateChars %d", runes(pe.Msg.Text), c.Opts.MaxTemplateChars))
			}
			for _, q := range pe.Msg.QuickReplies {
				if runes(q) > flows.MaxQuickReplyLength {
					fail("quick-reply-too-long:"+valueFeatures(q), fmt.Sprintf("quick reply has %d characters, limit %d", runes(q), flows.MaxQuickReplyLength))
				}
			}
			for _, a := range pe.Msg.Attachments {
				if len(a) > flows.MaxAttachmentLength {
					fail("attachment-too-long:"+valueFeatures(a), fmt.Sprintf("attachment has %d bytes, limit %d", len(a), flows.MaxAttachmentLength))
				}
			}
		case "contact_name_changed":
			if runes(pe.Name) > lim(c.Opts.MaxFieldChars) {
				fail("contact-name-too-long:event:"+featOf("set_contact_name", ""), fmt.Sprintf("contact_name_changed name has %d characters, MaxFieldChars %d", runes(pe.Name), c.Opts.MaxFieldChars))
			}
		case "contact_field_changed":
			var v struct {
				Text string `json:"text"`
			}
			if len(pe.Value) > 0 && json.Unmarshal(pe.Value, &v) == nil && pe.Field != nil && runes(v.Text) > lim(c.Opts.MaxFieldChars) {
				fail("contact-field-too-long:event:"+pe.Field.Key+":"+featOf("set_contact_field", pe.Field.Key), fmt.Sprintf("contact_field_changed %s text has %d characters, MaxFieldChars %d", pe.Field.Key, runes(v.Text), c.Opts.MaxFieldChars))
			}
		case "run_result_changed":
			var v string
			if json.Unmarshal(pe.Value, &v) == nil && runes(v) > lim(c.Opts.MaxResultChars) {
				fail("result-value-too-long:event:"+featOf("set_run_result", ""), fmt.Sprintf("run_result_changed value has %d characters, MaxResultChars %d", runes(v), c.Opts.MaxResultChars))
			}
		}
	}
	// the resulting contact and run
	var ps payloadSession
	if json.Unmarshal(mustJSON(s), &ps) == nil {
		res.OracleChecks++
		if runes(ps.Contact.Name) > lim(c.Opts.MaxFieldChars) && ps.Contact.Name != "Bob" {
			fail("contact-name-too-long:contact:"+featOf("set_contact_name", ""), fmt.Sprintf("the contact's name has %d characters, MaxFieldChars %d", runes(ps.Contact.Name), c.Opts.MaxFieldChars))
		}
		keys := make([]string, 0, len(ps.Contact.Fields))
		for k := range ps.Contact.Fields {
			keys = append(keys, k)
		}
		sort.Strings(keys)
		for _, k := range keys {
			if t := ps.Contact.Fields[k].Text; runes(t) > lim(c.Opts.MaxFieldChars) {
				fail("contact-field-too-long:contact:"+k+":"+featOf("set_contact_field", k), fmt.Sprintf("the contact's field %s has %d characters, MaxFieldChars %d", k, runes(t), c.Opts.MaxFieldChars))
			}
		}
		for _, run := range ps.Runs {
			names := make([]string, 0, len(run.Results))
			for k := range run.Results {
				names = append(names, k)
			}
			sort.Strings(names)
			for _, k := range names {
				if v := run.Results[k].Value; runes(v) > lim(c.Opts.MaxResultChars) {
					fail("result-value-too-long:run:"+featOf("set_run_result", ""), fmt.Sprintf("result %s has %d characters, MaxResultChars %d", k, runes(v), c.Opts.MaxResultChars))
				}
			}
		}
	}
	// statistics
	key, _ := json.Marshal(input)
	over := false
	for _, a := range c.Actions {
		res.Dist("payload:" + a.Kind)
		res.Dist("payload-value:" + valueFeatures(a.Text))
		switch a.Kind {
		case "set_contact_name", "set_contact_field":
			over = over || runes(a.Text) > lim(c.Opts.MaxFieldChars)
		case "set_run_result":
			over = over || runes(a.Text) > lim(c.Opts.MaxResultChars)
		case "send_msg", "say_msg", "play_audio":
			over = over || runes(a.Text) > lim(c.Opts.MaxTemplateChars) || len(a.QuickReps) > 0 || len(a.Attachments) > 0 || len(a.Text) > 2000
		}
	}
	res.Eval(string(key), over)
}

// payloadStream runs the corpus and n generated cases
func payloadStream(r *hx.Rand, n int, res *hx.Result) {
	for i, c := range payloadCorpus() {
		resetSources(int64(8000 + i))
		runPayloadCase(c, res)
		if hung {
			return
		}
	}
	for i := 0; i < n && !hung; i++ {
		rr := r.Fork(fmt.Sprintf("payload%d", i))
		resetSources(int64(900000 + i))
		runPayloadCase(genPayloadCase(rr), res)
	}
}

// replayPayload re-runs a recorded payload case; false when the replay file holds no such input
func replayPayload(path string, res *hx.Result) bool {
	raw, err := os.ReadFile(path)
	if err != nil {
		return false
	}
	var rj struct {
		FailingInput struct {
			Input json.RawMessage `json:"input"`
		} `json:"failing_input"`
	}
	if json.Unmarshal(raw, &rj) != nil || len(rj.FailingInput.Input) == 0 {
		return false
	}
	var c PayloadCase
	if json.Unmarshal(rj.FailingInput.Input, &c) != nil || c.Kind != "payload" {
		return false
	}
	resetSources(1)
	runPayloadCase(&c, res)
	return true
}
