package main

import (
	"encoding/json"
	"fmt"
	"strings"

	"github.com/nyaruka/goflow/assets"
	"github.com/nyaruka/goflow/assets/static"
	"github.com/nyaruka/goflow/flows/definition"
	"github.com/nyaruka/goflow/flows/definition/migrations"

	"verifharness/pkg/hx"
)

// Correspondence of model/FlowCache.v (get / find over a source) with flowAssets over the static source: PRNG-built
// sources with clashing names (case variants, equal names), legacy exports whose inner uuid / name differ from the
// asset's, sometimes two assets with ONE uuid; a PRNG sequence of Get / FindByName on one flowAssets; the last look-up is
// the observation.  What came back is identified by the revision (= position in the source + 1).
func lookupCases(r *hx.Rand, n int, cf *hx.CoqFile, res *hx.Result) []string {
	lu := func(k int) string { return fmt.Sprintf("c0900002-0000-4000-8000-%012d", k) }
	nameVariants := [][]string{{"Survey", "survey", "SURVEY"}, {"Registration", "registration"}, {"Other"}, {"Poll", "poll"}}
	var names []string
	for i := 0; i < n; i++ {
		nFlows := r.Range(2, 6)
		witness := i == 0 // the input of c09_duplicate_asset_uuid_refuted: two assets with ONE uuid, FindByName(second) then Get(uuid)
		if witness {
			nFlows = 2
		}
		type asset struct{ uuid, name, innerUUID, innerName int }
		src := make([]asset, nFlows)
		var defs []any
		dup := false
		for p := range src {
			a := asset{uuid: p, name: r.Intn(len(nameVariants))}
			if p > 0 && r.Chance(1, 6) {
				a.uuid = r.Intn(p) // duplicate asset uuid
			}
			if witness {
				a.uuid, a.name = 0, p
			}
			if a.uuid != p {
				dup = true
			}
			variant := hx.Pick(r, nameVariants[a.name])
			a.innerUUID, a.innerName = a.uuid, a.name
			if r.Chance(1, 2) && !witness {
				// legacy export: top level uuid / name are the asset's, metadata carries the definition's own
				a.innerUUID, a.innerName = r.Intn(nFlows+1), r.Intn(len(nameVariants))
				defs = append(defs, obj{"uuid": lu(a.uuid), "name": variant, "version": "11.12", "flow_type": "M", "base_language": "eng",
					"metadata": obj{"uuid": lu(a.innerUUID), "name": nameVariants[a.innerName][0], "revision": p + 1},
					"entry":    lu(5000 + p),
					"action_sets": []obj{{"uuid": lu(5000 + p), "x": 0, "y": 0, "destination": nil, "exit_uuid": lu(6000 + p),
						"actions": []obj{{"type": "reply", "uuid": lu(7000 + p), "msg": obj{"eng": fmt.Sprintf("legacy %d", p)}}}}},
					"rule_sets": []obj{}})
			} else {
				defs = append(defs, obj{"uuid": lu(a.uuid), "name": variant, "spec_version": "13.6.0", "language": "eng", "type": "messaging", "revision": p + 1,
					"expire_after_minutes": 0, "localization": obj{},
					"nodes": []obj{{"uuid": lu(5000 + p), "actions": []obj{{"uuid": lu(7000 + p), "type": "send_msg", "text": fmt.Sprintf("flow %d", p)}},
						"exits": []obj{{"uuid": lu(6000 + p)}}}}})
			}
			src[p] = a
		}
		raw, _ := json.Marshal(obj{"flows": defs})
		source, err := static.NewSource(raw)
		if err != nil {
			res.Fail("harness:lookup-source", map[string]any{"case": i}, err.Error())
			continue
		}
		fa := definition.NewFlowAssets(source, migrations.DefaultConfig)
		type op struct {
			byName bool
			arg    int
		}
		nOps := r.Range(0, 6)
		ops := make([]op, nOps+1)
		do := func(o op) int {
			var f interface{ Revision() int }
			var err error
			if o.byName {
				ff, e := fa.FindByName(hx.Pick(r, nameVariants[o.arg]))
				f, err = ff, e
				if e != nil || ff == nil {
					return 0
				}
			} else {
				ff, e := fa.Get(assets.FlowUUID(lu(o.arg)))
				f, err = ff, e
				if e != nil || ff == nil {
					return 0
				}
			}
			_ = err
			return f.Revision()
		}
		coqOp := func(o op) string {
			if o.byName {
				return fmt.Sprintf("FlowCache.LFind %d", o.arg)
			}
			return fmt.Sprintf("FlowCache.LGet %d", o.arg)
		}
		var coqOps []string
		impl := 0
		if witness {
			nOps = 1
			ops = make([]op, 2)
		}
		for k := range ops {
			ops[k] = op{byName: r.Bool(), arg: r.Intn(nFlows + 1)}
			if ops[k].byName {
				ops[k].arg = r.Intn(len(nameVariants))
			}
			if witness {
				ops[k] = []op{{byName: true, arg: 1}, {byName: false, arg: 0}}[k]
			}
			got := do(ops[k])
			if k < nOps {
				coqOps = append(coqOps, coqOp(ops[k]))
			} else {
				impl = got
			}
		}
		// the property's own oracle (no model): what the look-up answers after the others' look-ups is what it answers
		// from a cold cache ("the same result it produces when run alone")
		fa = definition.NewFlowAssets(source, migrations.DefaultConfig)
		if cold := do(ops[nOps]); cold != impl {
			cls := "cache-transparency:lookup-after-lookups"
			if dup {
				cls = "cache-transparency:duplicate-asset-uuid" // known: two assets of the source carry one uuid
			}
			res.Fail(cls, map[string]any{"case": i, "source": src, "ops": coqOps, "op": coqOp(ops[nOps])},
				fmt.Sprintf("after the look-ups %v, %s answers the definition at position %d of the source; from a cold cache it answers position %d (0 = error, p+1 = position p)",
					coqOps, coqOp(ops[nOps]), impl, cold))
		}
		res.OracleChecks++
		var coqSrc []string
		for p, a := range src {
			coqSrc = append(coqSrc, fmt.Sprintf("{| FlowCache.a_uuid := %d; FlowCache.a_name := %d; FlowCache.a_def := {| FlowCache.d_uuid := %d; FlowCache.d_name := %d; FlowCache.d_body := %d |} |}",
				a.uuid, a.name, a.innerUUID, a.innerName, p))
		}
		nm := fmt.Sprintf("lk%d", i)
		cf.Add(fmt.Sprintf("Definition %s : lookup_case := {| lc_src := [%s]%%nat; lc_ops := [%s]%%nat; lc_op := (%s)%%nat; lc_impl := %d |}.",
			nm, strings.Join(coqSrc, "; "), strings.Join(coqOps, "; "), coqOp(ops[nOps]), impl))
		names = append(names, nm)
		res.Cases = append(res.Cases, hx.Case{File: cf.Name, Index: 1000 + i, Input: map[string]any{"kind": "lookup", "source": src, "ops": coqOps, "op": coqOp(ops[nOps])}, Impl: impl})
		res.Dist("lookup-case")
	}
	return names
}
