// Driver for C09 (sessions can run concurrently over shared assets).  MUST be built with `go build -race`
// (checks/C09.json: "race": true); it refuses to run otherwise.
//
// Parent mode (what bin/check starts): chooses scenarios from the PRNG, then re-executes itself as CHILD
// processes (each child = one cold process: package-level state of goflow is untouched) with
// GORACE="halt_on_error=0 log_path=<out>/race_<i>".  Afterwards it
//   - parses the race detector's reports and classifies each by the top goflow frame of the writing access
//     (e.g. race:types.(*XObject).ensureInitialized) - clause "without data races" of the statement;
//   - collects the children's solo comparisons - clause "each produces the same result it produces when
//     run alone";
//   - writes cases_C09_*.v: per round, which flow object every goroutine obtained for every flow UUID, to be
//     compared with the model's locked cache (one load per UUID, everybody sees the same object).
//
// Child mode (-child): for every round: ONE cold SessionAssets (fresh static source, empty flow cache),
// N goroutines released together by a start barrier; goroutine g drives its own session through script
// g mod #scripts of the scenario:  read trigger -> NewSession -> (marshal -> ReadSession -> read resume ->
// Resume)* -> marshal/ReadSession/marshal -> CurrentContext JSON -> for every flow of the assets:
// Flows().Get, FindByName, Inspect, ExtractTemplates, ExtractLocalizables, ChangeLanguage(every language)
// -> evaluate the flows' templates and a fixed list of expressions on the session's last run.
// There is NO synchronisation between the worker goroutines other than what goflow does itself (the harness
// must not add happens-before edges that would hide a race): every goroutine writes only to its own slot.
// Then the same scripts are run ALONE, each on its own cold SessionAssets, twice with different seeds of the
// shared random generator (a script whose two solo outputs differ uses randomness and is excluded from the
// solo comparison, counted in the evidence); canonical outputs (generated UUIDs renamed by first
// appearance, clock fixed) of every goroutine must equal the solo output, stage by stage.
//
// Scenarios: goflow's own runner test data ($VERIF_REPO/test/testdata/runner: 13.0/13.1 definitions that are
// migrated lazily at first use, legacy 11.x definitions, query based groups, all router tests, all
// actions, sub-flows) plus an embedded scenario (embedded.go) that does not depend on the test data.
package main

import (
	"bytes"
	"encoding/json"
	"errors"
	"flag"
	"fmt"
	"net/http"
	"os"
	"os/exec"
	"path/filepath"
	"regexp"
	"runtime"
	"sort"
	"strings"
	"sync"
	"time"
	"unsafe"

	"github.com/nyaruka/gocommon/dates"
	"github.com/nyaruka/gocommon/httpx"
	"github.com/nyaruka/gocommon/i18n"
	"github.com/nyaruka/gocommon/jsonx"
	"github.com/nyaruka/gocommon/random"
	"github.com/nyaruka/gocommon/urns"
	"github.com/nyaruka/gocommon/uuids"
	"github.com/nyaruka/goflow/assets"
	"github.com/nyaruka/goflow/assets/static"
	"github.com/nyaruka/goflow/contactql"
	"github.com/nyaruka/goflow/envs"
	"github.com/nyaruka/goflow/excellent/types"
	"github.com/nyaruka/goflow/flows"
	"github.com/nyaruka/goflow/flows/definition/migrations"
	"github.com/nyaruka/goflow/flows/engine"
	"github.com/nyaruka/goflow/flows/resumes"
	"github.com/nyaruka/goflow/flows/routers/cases"
	"github.com/nyaruka/goflow/flows/triggers"
	"github.com/nyaruka/goflow/services/webhooks"
	"github.com/shopspring/decimal"

	"verifharness/pkg/hx"
)

// ---------------------------------------------------------------------------------------------
// scenarios

type script struct {
	Name    string            `json:"name"`
	Trigger json.RawMessage   `json:"trigger"`
	Resumes []json.RawMessage `json:"resumes"`
}

type scenario struct {
	Name    string   `json:"name"`
	Assets  []byte   `json:"-"`
	Scripts []script `json:"scripts"`
	// derived from the assets JSON
	flowUUIDs []assets.FlowUUID
	flowNames []string
	versions  []string
}

var testFilePattern = regexp.MustCompile(`^(\w+)\.(\w+)\.json$`)

func repoDir() string {
	if d := os.Getenv("VERIF_REPO"); d != "" {
		return d
	}
	return "/repo"
}

func (s *scenario) derive() error {
	var a struct {
		Flows []map[string]json.RawMessage `json:"flows"`
	}
	if err := json.Unmarshal(s.Assets, &a); err != nil {
		return err
	}
	for _, f := range a.Flows {
		var uuid, name, ver string
		if raw, ok := f["uuid"]; ok {
			json.Unmarshal(raw, &uuid)
			json.Unmarshal(f["name"], &name)
			json.Unmarshal(f["spec_version"], &ver)
		} else if raw, ok := f["metadata"]; ok { // legacy definition
			var md struct {
				UUID string `json:"uuid"`
				Name string `json:"name"`
			}
			json.Unmarshal(raw, &md)
			uuid, name = md.UUID, md.Name
			var v any
			json.Unmarshal(f["version"], &v)
			ver = fmt.Sprintf("legacy-%v", v)
		}
		if uuid == "" {
			return fmt.Errorf("scenario %s: flow without uuid", s.Name)
		}
		s.flowUUIDs = append(s.flowUUIDs, assets.FlowUUID(uuid))
		s.flowNames = append(s.flowNames, name)
		s.versions = append(s.versions, ver)
	}
	return nil
}

// loadScenarios reads goflow's runner test data and appends the embedded scenario.
func loadScenarios() ([]*scenario, error) {
	dir := filepath.Join(repoDir(), "test", "testdata", "runner")
	entries, err := os.ReadDir(dir)
	if err != nil {
		return nil, err
	}
	byName := map[string]*scenario{}
	var order []string
	for _, e := range entries {
		m := testFilePattern.FindStringSubmatch(e.Name())
		if m == nil {
			continue
		}
		raw, err := os.ReadFile(filepath.Join(dir, e.Name()))
		if err != nil {
			return nil, err
		}
		var t struct {
			Trigger json.RawMessage   `json:"trigger"`
			Resumes []json.RawMessage `json:"resumes"`
		}
		if err := json.Unmarshal(raw, &t); err != nil || len(t.Trigger) == 0 {
			return nil, fmt.Errorf("unexpected shape of runner test %s: %v", e.Name(), err)
		}
		sc := byName[m[1]]
		if sc == nil {
			a, err := os.ReadFile(filepath.Join(dir, m[1]+".json"))
			if err != nil {
				return nil, err
			}
			sc = &scenario{Name: m[1], Assets: a}
			if err := sc.derive(); err != nil {
				return nil, err
			}
			byName[m[1]] = sc
			order = append(order, m[1])
		}
		sc.Scripts = append(sc.Scripts, script{Name: m[2], Trigger: t.Trigger, Resumes: t.Resumes})
	}
	if len(order) < 20 {
		return nil, fmt.Errorf("only %d runner scenarios found under %s", len(order), dir)
	}
	sort.Strings(order)
	out := []*scenario{embeddedScenario(), recipientsScenario(), cacheKeysScenario(), locationsScenario()}
	for _, n := range order {
		out = append(out, byName[n])
	}
	return out, nil
}

// ---------------------------------------------------------------------------------------------
// engine with stateless (hence goroutine-safe and deterministic) services

type cannedRequestor struct{}

func (cannedRequestor) Do(_ *http.Client, request *http.Request) (*http.Response, error) {
	body := `{"ok":"true","results":[{"state":"WA"},{"state":"IN"}],"exists":"valid","count":3}`
	if strings.Contains(request.URL.Path, "fail") {
		return httpx.NewMockResponse(503, nil, []byte(`{"errors":["service unavailable"]}`)).Make(request), nil
	}
	return httpx.NewMockResponse(200, map[string]string{"Content-Type": "application/json"}, []byte(body)).Make(request), nil
}

type emailService struct{}

func (emailService) Send(addresses []string, subject, body string) error { return nil }

type classificationService struct{ classifier *flows.Classifier }

func (s classificationService) Classify(env envs.Environment, input string, logHTTP flows.HTTPLogCallback) (*flows.Classification, error) {
	names := s.classifier.Intents()
	intents := make([]flows.ExtractedIntent, len(names))
	conf := decimal.RequireFromString("0.5")
	for i := range names {
		intents[i] = flows.ExtractedIntent{Name: names[i], Confidence: conf}
		conf = conf.Div(decimal.RequireFromString("2"))
	}
	return &flows.Classification{Intents: intents, Entities: map[string][]flows.ExtractedEntity{
		"location": {{Value: "Quito", Confidence: decimal.RequireFromString("1.0")}}}}, nil
}

type airtimeService struct{}

func (airtimeService) Transfer(sender urns.URN, recipient urns.URN, amounts map[string]decimal.Decimal, logHTTP flows.HTTPLogCallback) (*flows.AirtimeTransfer, error) {
	amount, ok := amounts["RWF"]
	if !ok {
		return nil, errors.New("no amount configured for transfers in RWF")
	}
	return &flows.AirtimeTransfer{UUID: flows.AirtimeTransferUUID(uuids.NewV4()), Sender: sender, Recipient: recipient, Currency: "RWF", Amount: amount}, nil
}

func newEngine() flows.Engine {
	return engine.NewBuilder().
		WithMaxFieldChars(256).
		WithEmailServiceFactory(func(flows.SessionAssets) (flows.EmailService, error) { return emailService{}, nil }).
		WithWebhookServiceFactory(webhooks.NewServiceFactory(http.DefaultClient, nil, nil, map[string]string{"User-Agent": "goflow-testing"}, 10000)).
		WithClassificationServiceFactory(func(c *flows.Classifier) (flows.ClassificationService, error) {
			return classificationService{c}, nil
		}).
		WithAirtimeServiceFactory(func(flows.SessionAssets) (flows.AirtimeService, error) { return airtimeService{}, nil }).
		Build()
}

func coldAssets(sc *scenario) (flows.SessionAssets, error) {
	src, err := static.NewSource(sc.Assets)
	if err != nil {
		return nil, err
	}
	return engine.NewSessionAssets(envs.NewBuilder().Build(), src, &migrations.Config{BaseMediaURL: "http://temba.io/"})
}

// ---------------------------------------------------------------------------------------------
// canonical outputs

type stageOut struct {
	Stage string `json:"stage"`
	Text  string `json:"text"`
}

var uuidRe = regexp.MustCompile(`[0-9a-f]{8}-[0-9a-f]{4}-[0-9a-f]{4}-[0-9a-f]{4}-[0-9a-f]{12}`)
var elapsedRe = regexp.MustCompile(`"elapsed_ms": ?\d+`)
var truncatedRe = regexp.MustCompile(`[0-9a-f-]{1,36}\.\.\.`)

// canon renames every generated UUID (one that does not occur in the assets) by order of first appearance.
type canon struct {
	assets string
	seen   map[string]string
}

func (c *canon) text(s string) string {
	s = uuidRe.ReplaceAllStringFunc(s, func(u string) string {
		if strings.Contains(c.assets, u) {
			return u
		}
		n, ok := c.seen[u]
		if !ok {
			n = fmt.Sprintf("U%d", len(c.seen))
			c.seen[u] = n
		}
		return n
	})
	s = truncatedRe.ReplaceAllString(s, "~...") // a UUID cut off by the evaluator's length limit
	return elapsedRe.ReplaceAllString(s, `"elapsed_ms":0`)
}

// maskedJSON renders JSON canonically for the stages that dump flow definitions and inspection results:
// generated UUIDs (those that do not occur in the assets: legacy and 13.1 migrations generate node, action and
// templating UUIDs at load time) are masked, object members are ordered AFTER masking (localization maps are keyed
// by such UUIDs), and arrays are ordered by the rendering of their elements (the element order of inspection
// results is not a function of the input on every tree - that is C08's subject, not C09's).
func maskedJSON(raw []byte, assetsText string) string {
	var v any
	if err := json.Unmarshal(raw, &v); err != nil {
		return string(raw)
	}
	mask := func(s string) string {
		return uuidRe.ReplaceAllStringFunc(s, func(u string) string {
			if strings.Contains(assetsText, u) {
				return u
			}
			return "U"
		})
	}
	var render func(any) string
	render = func(x any) string {
		switch t := x.(type) {
		case []any:
			enc := make([]string, len(t))
			for i := range t {
				enc[i] = render(t[i])
			}
			sort.Strings(enc)
			return "[" + strings.Join(enc, ",") + "]"
		case map[string]any:
			enc := make([]string, 0, len(t))
			for k, e := range t {
				kb, _ := json.Marshal(mask(k))
				enc = append(enc, string(kb)+":"+render(e))
			}
			sort.Strings(enc)
			return "{" + strings.Join(enc, ",") + "}"
		case string:
			b, _ := json.Marshal(mask(t))
			return string(b)
		}
		b, _ := json.Marshal(x)
		return string(b)
	}
	return render(v)
}

// fixed expressions evaluated on every session: router tests that fail (the shared false result), conversions
// of nil to object/array (the shared empty values), parsing, formatting, object functions.
var fixedTemplates = []string{
	`@(has_text(""))`, `@(has_text("").match)`, `@(has_group(contact.groups, "00000000-0000-0000-0000-000000000000").match)`,
	`@(has_any_word("the quick brown fox", "zebra"))`, `@(has_number_between("x", 1, 2).match)`, `@(has_pattern("abc", "a(.)c").extra)`,
	`@(has_pattern("abc", "x(.)z"))`, `@(has_phone("0788123123", "RW"))`, `@(has_phone("nope").match)`, `@(has_email("x"))`,
	`@(has_date("the date is 1/2/2030").match)`, `@(has_time("no time"))`, `@(has_state("nowhere"))`, `@(has_district("Gasabo", "Kigali"))`,
	`@(has_intent(null, "x", 0.5))`, `@(has_top_intent(null, "x", 0.5))`, `@(has_category(results, "Yes"))`, `@(has_webhook_status(null, "success"))`,
	`@(count(object()))`, `@(json(object("a", 1, "b", array(1, 2))))`, `@(foreach(array("a", "b"), upper))`, `@(foreach_value(object("a", 1), (x) => x + 1))`,
	`@(extract_object(contact, "name", "language"))`, `@(extract(contact, "name"))`, `@(parse_json("{\"a\":{\"b\":[1,2,{}]}}").a.b[2])`,
	`@(count(parse_json("{}")))`, `@(json(trigger.params))`, `@(json(webhook))`, `@webhook.headers`, `@(json(contact.groups))`, `@(json(contact.fields))`,
	`@(json(contact.urns))`, `@(json(globals))`, `@(json(results))`, `@(json(run))`, `@(json(parent))`, `@(json(child))`, `@(json(input))`, `@(json(node))`,
	`@(json(ticket))`, `@(json(resume))`, `@(json(trigger))`, `@(json(legacy_extra))`, `@(format_urn(urns.tel))`, `@(urn_parts("tel:+593979012345").path)`,
	`@(attachment_parts("image/jpeg:https://example.com/test.jpg"))`, `@(format_number(1234.5678, 2))`, `@(format_datetime("2030-01-02T03:04:05Z", "YYYY-MM-DD"))`,
	`@(datetime("1/2/2030"))`, `@(date("2030-01-02"))`, `@(time("10:30"))`, `@(datetime_diff("2030-01-01", "2030-02-01", "D"))`,
	`@(title("hello world") & " " & upper(contact.name))`, `@(word_slice("a b c d", 1, 3))`, `@(remove_first_word(contact.name))`, `@(regex_match("sda34dfddg67", "\d+"))`,
	`@(url_encode("two & words"))`, `@(html_decode("&lt;a&gt;"))`, `@(char(65) & code("A"))`, `@(round(2.567, 1) + abs(-3) * max(1, 2, 3))`, `@(1 / 0)`, `@(default(missing.thing, "dflt"))`,
	`@(if(is_error(1 / 0), "err", "ok"))`, `@(legacy_add("2030-01-01", 2))`, `@(format_location("Rwanda > Kigali"))`, `@(clean("a\u0000b"))`, `@fields`, `@urns`, `@contact`, `@run`, `@results`,
}

// ---------------------------------------------------------------------------------------------
// one goroutine's work: drives ONE session over the given (shared or private) session assets

type runOut struct {
	Stages  []stageOut
	FlowPtr []string  // for every flow of the scenario: identity of the object Flows().Get returned ("" = error)
	T0      time.Time // released by the barrier
	T1      time.Time // first engine call (NewSession: loads the cold flow) done
	T2      time.Time // done
}

func runScript(sa flows.SessionAssets, eng flows.Engine, sc *scenario, scr *script, assetsText string, gi int) (out *runOut) {
	out = &runOut{T0: time.Now()}
	cn := &canon{assets: assetsText, seen: map[string]string{}}
	add := func(stage, text string) { out.Stages = append(out.Stages, stageOut{stage, cn.text(text)}) }
	defer func() {
		if r := recover(); r != nil {
			buf := make([]byte, 4096)
			buf = buf[:runtime.Stack(buf, false)]
			add("panic", fmt.Sprintf("%v\n%s", r, panicSite(string(buf))))
		}
		if out.T1.IsZero() {
			out.T1 = time.Now()
		}
		out.T2 = time.Now()
	}()
	errText := func(err error) string { return "ERR: " + err.Error() }
	sprintText := func(session flows.Session, sprint flows.Sprint) string {
		sj, err := jsonx.Marshal(session)
		if err != nil {
			return errText(err)
		}
		evs := make([]json.RawMessage, len(sprint.Events()))
		for i, e := range sprint.Events() {
			evs[i] = jsonx.MustMarshal(e)
		}
		return string(sj) + "\n" + string(jsonx.MustMarshal(evs)) + "\n" + string(jsonx.MustMarshal(sprint.Segments()))
	}

	// resolve every flow of the assets BY NAME (flowAssets.FindByName through SessionAssets.ResolveFlow, as parsing the
	// contact query `flow = "<name>"` does; and FindByName directly).  Odd goroutines do it first thing, from the cold
	// cache, while the even ones start their sessions by UUID; the even ones do it after their first sprint.  The
	// stage text is the same either way and is reported at the same position.
	byName := func() string {
		var sb strings.Builder
		resolver, _ := sa.(contactql.Resolver)
		for j, name := range sc.flowNames {
			if (j+gi)%2 == 0 {
				f, err := sa.Flows().FindByName(name)
				fmt.Fprintf(&sb, "find %q -> %s %v\n", name, foundFlow(f), err != nil)
			}
			if resolver != nil && name != "" {
				q, err := contactql.ParseQuery(envs.NewBuilder().Build(), fmt.Sprintf("flow = %q", name), resolver)
				if err != nil {
					fmt.Fprintf(&sb, "query %q -> ERR\n", name)
				} else {
					fmt.Fprintf(&sb, "query %q -> %s\n", name, q.String())
				}
			}
			if (j+gi)%2 == 1 {
				f, err := sa.Flows().FindByName(name)
				fmt.Fprintf(&sb, "find %q -> %s %v\n", name, foundFlow(f), err != nil)
			}
		}
		return sb.String()
	}
	byNameText := ""
	if gi%2 == 1 {
		byNameText = sortLines(byName())
	}

	// start
	trigger, err := triggers.ReadTrigger(sa, scr.Trigger, assets.IgnoreMissing)
	if err != nil {
		out.T1 = time.Now()
		add("start", errText(err))
		return
	}
	session, sprint, err := eng.NewSession(sa, trigger)
	out.T1 = time.Now()
	if err != nil {
		add("start", errText(err))
		return
	}
	add("start", sprintText(session, sprint))
	if gi%2 == 0 {
		byNameText = sortLines(byName())
	}
	add("byname", byNameText)

	// marshal -> read -> resume, for every resume of the script
	for i, rawResume := range scr.Resumes {
		sj, err := jsonx.Marshal(session)
		if err != nil {
			add(fmt.Sprintf("marshal%d", i), errText(err))
			break
		}
		s2, err := eng.ReadSession(sa, sj, assets.IgnoreMissing)
		if err != nil {
			add(fmt.Sprintf("read%d", i), errText(err))
			break
		}
		session = s2
		if session.Status() != flows.SessionStatusWaiting {
			add(fmt.Sprintf("resume%d", i), "not waiting: "+string(session.Status()))
			break
		}
		resume, err := resumes.ReadResume(sa, rawResume, assets.IgnoreMissing)
		if err != nil {
			add(fmt.Sprintf("resume%d", i), errText(err))
			break
		}
		sprint, err = session.Resume(resume)
		if err != nil {
			add(fmt.Sprintf("resume%d", i), errText(err))
			break
		}
		add(fmt.Sprintf("resume%d", i), sprintText(session, sprint))
	}

	// read: marshal -> ReadSession -> marshal is the identity on the stored form
	if sj, err := jsonx.Marshal(session); err == nil {
		if s2, err := eng.ReadSession(sa, sj, assets.IgnoreMissing); err != nil {
			add("reread", errText(err))
		} else {
			sj2, _ := jsonx.Marshal(s2)
			add("reread", string(sj2))
			session = s2
		}
	}
	if ctx := session.CurrentContext(); ctx != nil {
		b, err := jsonx.Marshal(ctx)
		if err != nil {
			add("context", errText(err))
		} else {
			add("context", string(b))
		}
	} else {
		add("context", "nil")
	}

	// inspect every flow of the shared assets
	var templates []string
	out.FlowPtr = make([]string, len(sc.flowUUIDs))
	for j, fu := range sc.flowUUIDs {
		st := fmt.Sprintf("inspect:%d", j)
		flow, err := sa.Flows().Get(fu)
		if err != nil {
			add(st, errText(err))
			continue
		}
		out.FlowPtr[j] = fmt.Sprintf("%p", flow)
		byName, _ := sa.Flows().FindByName(sc.flowNames[j])
		sameByName := byName != nil && byName.UUID() == flow.UUID()
		insp := flow.Inspect(sa)
		tpls := flow.ExtractTemplates()
		locs := flow.ExtractLocalizables()
		templates = append(templates, tpls...)
		def, _ := jsonx.Marshal(flow)
		add(st, fmt.Sprintf("byname=%v\n%s\ntemplates=%q\nlocalizables=%q\ndef=%s", sameByName, maskedJSON(jsonx.MustMarshal(insp), assetsText), tpls, locs, maskedJSON(def, assetsText)))
		langs := flow.Localization().Languages()
		sort.Slice(langs, func(a, b int) bool { return langs[a] < langs[b] })
		for _, l := range append(langs, i18n.Language("zzz")) {
			cp, err := flow.ChangeLanguage(l)
			if err != nil {
				add(st+":lang:"+string(l), errText(err))
				continue
			}
			b, _ := jsonx.Marshal(cp)
			add(st+":lang:"+string(l), maskedJSON(b, assetsText))
		}
	}

	// evaluate
	runs := session.Runs()
	if len(runs) > 0 && len(runs[len(runs)-1].Path()) > 0 { // (a run of an empty flow has no step: its context cannot be built)
		run := runs[len(runs)-1]
		if len(templates) > 60 {
			templates = templates[:60]
		}
		var sb strings.Builder
		for _, t := range append(templates, fixedTemplates...) {
			if strings.Contains(t, "rand") || strings.Contains(t, "now()") || strings.Contains(t, "today()") {
				continue
			}
			nerr := 0
			v, ok := run.EvaluateTemplate(t, func(flows.Event) { nerr++ })
			fmt.Fprintf(&sb, "%q -> %q %v %d\n", t, v, ok, nerr)
		}
		add("evaluate", sb.String())
	}
	return
}

func foundFlow(f flows.Flow) string {
	if f == nil {
		return "none"
	}
	return string(f.UUID()) + " " + f.Name()
}

func sortLines(s string) string {
	ls := strings.Split(strings.TrimSuffix(s, "\n"), "\n")
	sort.Strings(ls)
	return strings.Join(ls, "\n")
}

var frameRe = regexp.MustCompile(`(?m)^(\S+)\(.*\)\n\t(\S+):(\d+)`)

// panicSite: the first goflow frame of a goroutine stack (function only; line numbers are not compared)
func panicSite(stack string) string {
	for _, m := range frameRe.FindAllStringSubmatch(stack, -1) {
		if strings.Contains(m[1], "nyaruka/goflow") {
			return shortFunc(m[1])
		}
	}
	return "?"
}

// ---------------------------------------------------------------------------------------------
// child process

type childSpec struct {
	Mode      string   `json:"mode"` // "solo": ONE script alone in this process; "conc": rounds of N goroutines
	Index     int      `json:"index"`
	Seed      uint64   `json:"seed"`
	N         int      `json:"n"`
	Scenarios []string `json:"scenarios"` // conc: one round per entry; solo: exactly one
	Script    int      `json:"script"`    // solo: index of the script
	SoloDir   string   `json:"solo_dir"`  // where the solo outputs are (written by solo children, read by conc children)
	RaceLog   string   `json:"race_log"`  // log_path prefix given to the race detector
	Out       string   `json:"out"`
}

// soloResult is what a script produces when it runs ALONE: in a process of its own, on its own cold
// SessionAssets.  It runs twice with differently seeded random generators: a script whose two outputs differ
// uses randomness (random router, rand()) and has no single solo output to compare with.
type soloResult struct {
	Scenario string     `json:"scenario"`
	Script   string     `json:"script"`
	Stages   []stageOut `json:"stages"`
	Nondet   bool       `json:"nondet"`
	NondetAt string     `json:"nondet_at,omitempty"`
	Done     bool       `json:"done"`
}

func soloPath(dir, scenario string, k int) string {
	return filepath.Join(dir, fmt.Sprintf("solo_%s_%d.json", scenario, k))
}

type soloDiff struct {
	Round     int    `json:"round"`
	Scenario  string `json:"scenario"`
	Script    string `json:"script"`
	Goroutine int    `json:"goroutine"`
	Stage     string `json:"stage"`
	Solo      string `json:"solo"`
	Conc      string `json:"concurrent"`
}

type roundInfo struct {
	Round        int        `json:"round"`
	Scenario     string     `json:"scenario"`
	Versions     []string   `json:"versions"`
	Overlapped   int        `json:"overlapped"`     // goroutines whose whole run overlapped another's
	ColdOverlap  int        `json:"cold_overlap"`   // goroutines whose FIRST engine call overlapped another's first call
	Compared     int        `json:"compared"`       // goroutine outputs compared with a solo output
	Stages       int        `json:"stages"`         // stage outputs compared
	NondetSolo   []string   `json:"nondet_solo"`    // scripts whose two solo runs differ (randomness): not compared
	FlowPtrs     [][]string `json:"flow_ptrs"`      // [goroutine][flow] identity of the flow object obtained
	RaceLogBytes int64      `json:"race_log_bytes"` // size of the race log after this round (attribution)
	Panics       int        `json:"panics"`
}

type childResult struct {
	Index   int               `json:"index"`
	Rounds  []roundInfo       `json:"rounds"`
	Diffs   []soloDiff        `json:"diffs"`
	Globals map[string][2]int `json:"globals"` // name -> [address, size] of known package-level objects
	Done    bool              `json:"done"`
}

func raceLogSize(prefix string) int64 {
	var n int64
	ms, _ := filepath.Glob(prefix + ".*")
	for _, m := range ms {
		if st, err := os.Stat(m); err == nil {
			n += st.Size()
		}
	}
	return n
}

func overlapCounts(outs []*runOut) (whole, cold int) {
	inter := func(a0, a1, b0, b1 time.Time) bool { return a0.Before(b1) && b0.Before(a1) }
	for i, a := range outs {
		w, c := false, false
		for j, b := range outs {
			if i == j {
				continue
			}
			if inter(a.T0, a.T2, b.T0, b.T2) {
				w = true
			}
			if inter(a.T0, a.T1, b.T0, b.T1) {
				c = true
			}
		}
		if w {
			whole++
		}
		if c {
			cold++
		}
	}
	return
}

func writeJSON(path string, v any) {
	b, _ := json.Marshal(v)
	os.WriteFile(path+".tmp", b, 0o644)
	os.Rename(path+".tmp", path)
}

func childMain(specPath string) {
	if !raceEnabled {
		fmt.Fprintln(os.Stderr, "c09 driver: built without -race; refusing to run")
		os.Exit(3)
	}
	var spec childSpec
	raw, err := os.ReadFile(specPath)
	if err != nil {
		panic(err)
	}
	if err := json.Unmarshal(raw, &spec); err != nil {
		panic(err)
	}
	all, err := loadScenarios()
	if err != nil {
		panic(err)
	}
	byName := map[string]*scenario{}
	for _, s := range all {
		byName[s.Name] = s
	}

	// process-wide deterministic environment, set before any goroutine starts; both are read-only afterwards
	dates.SetNowFunc(dates.NewFixedNow(time.Date(2025, 5, 4, 12, 30, 45, 123456789, time.UTC)))
	httpx.SetRequestor(cannedRequestor{})

	if spec.Mode == "solo" {
		// every script that a goroutine of some round will drive, ALONE: one goroutine, its own cold SessionAssets
		for _, name := range spec.Scenarios {
			sc := byName[name]
			if sc == nil {
				panic("unknown scenario " + name)
			}
			for k := 0; k < len(sc.Scripts) && k < spec.N; k++ {
				var two [2]*runOut
				for rep := 0; rep < 2; rep++ {
					random.SetGenerator(random.NewSeededGenerator(int64(spec.Seed)*7 + int64(rep) + 1))
					sa, err := coldAssets(sc)
					if err != nil {
						panic(fmt.Sprintf("scenario %s: %v", sc.Name, err))
					}
					two[rep] = runScript(sa, newEngine(), sc, &sc.Scripts[k], string(sc.Assets), k)
				}
				sr := soloResult{Scenario: sc.Name, Script: sc.Scripts[k].Name, Stages: two[0].Stages, Done: true}
				if i := firstDiff(two[0].Stages, two[1].Stages); i >= 0 {
					sr.Nondet = true
					if i < len(two[0].Stages) {
						sr.NondetAt = two[0].Stages[i].Stage
					}
				}
				writeJSON(soloPath(spec.SoloDir, sc.Name, k), sr)
			}
		}
		writeJSON(spec.Out, map[string]any{"done": true})
		return
	}

	res := &childResult{Index: spec.Index, Globals: map[string][2]int{
		"cases.FalseResult":        {int(uintptr(unsafe.Pointer(cases.FalseResult))), int(unsafe.Sizeof(*cases.FalseResult))},
		"types.XObjectEmpty":       {int(uintptr(unsafe.Pointer(types.XObjectEmpty))), int(unsafe.Sizeof(*types.XObjectEmpty))},
		"types.XArrayEmpty":        {int(uintptr(unsafe.Pointer(types.XArrayEmpty))), int(unsafe.Sizeof(*types.XArrayEmpty))},
		"envs.DefaultNumberFormat": {int(uintptr(unsafe.Pointer(envs.DefaultNumberFormat))), int(unsafe.Sizeof(*envs.DefaultNumberFormat))},
	}}

	for round, name := range spec.Scenarios {
		sc := byName[name]
		if sc == nil {
			panic("unknown scenario " + name)
		}
		assetsText := string(sc.Assets)
		info := roundInfo{Round: round, Scenario: name, Versions: sc.versions}

		// ---- N goroutines over ONE cold SessionAssets (in round 0 the process itself is cold too)
		random.SetGenerator(random.NewSeededGenerator(int64(spec.Seed) + int64(round)*3))
		sa, err := coldAssets(sc)
		if err != nil {
			panic(fmt.Sprintf("scenario %s: %v", name, err))
		}
		eng := newEngine()
		outs := make([]*runOut, spec.N)
		barrier := make(chan struct{})
		var wg sync.WaitGroup
		for g := 0; g < spec.N; g++ {
			wg.Add(1)
			go func(g int) {
				defer wg.Done()
				scr := &sc.Scripts[g%len(sc.Scripts)]
				<-barrier
				outs[g] = runScript(sa, eng, sc, scr, assetsText, g)
			}(g)
		}
		time.Sleep(2 * time.Millisecond) // let every goroutine reach the barrier
		close(barrier)
		wg.Wait()
		info.Overlapped, info.ColdOverlap = overlapCounts(outs)
		for _, o := range outs {
			info.FlowPtrs = append(info.FlowPtrs, o.FlowPtr)
		}

		// ---- compare every goroutine's output with what its script produces alone
		solo := map[int]*soloResult{}
		for g, o := range outs {
			k := g % len(sc.Scripts)
			for _, st := range o.Stages {
				if st.Stage == "panic" {
					info.Panics++
				}
			}
			sr, ok := solo[k]
			if !ok {
				sr = &soloResult{}
				raw, err := os.ReadFile(soloPath(spec.SoloDir, name, k))
				if err != nil || json.Unmarshal(raw, sr) != nil || !sr.Done {
					panic(fmt.Sprintf("no solo output for %s script %d: %v", name, k, err))
				}
				solo[k] = sr
				if sr.Nondet {
					info.NondetSolo = append(info.NondetSolo, sr.Script+"@"+sr.NondetAt)
				}
			}
			if sr.Nondet {
				continue
			}
			info.Compared++
			so := sr.Stages
			for i := 0; i < len(so) || i < len(o.Stages); i++ {
				info.Stages++
				var a, b stageOut
				if i < len(so) {
					a = so[i]
				}
				if i < len(o.Stages) {
					b = o.Stages[i]
				}
				if a != b {
					stage := a.Stage
					if stage == "" {
						stage = b.Stage
					}
					if len(res.Diffs) < 20 {
						x, y := diffWindow(a.Text, b.Text)
						res.Diffs = append(res.Diffs, soloDiff{Round: round, Scenario: name, Script: sc.Scripts[k].Name, Goroutine: g,
							Stage: stage, Solo: x, Conc: y})
					}
					break // later stages depend on this one
				}
			}
		}
		info.RaceLogBytes = raceLogSize(spec.RaceLog)
		res.Rounds = append(res.Rounds, info)
		writeJSON(spec.Out, res)
	}
	res.Done = true
	writeJSON(spec.Out, res)
}

// firstDiff: index of the first differing stage, -1 if equal
func firstDiff(a, b []stageOut) int {
	for i := 0; i < len(a) || i < len(b); i++ {
		if i >= len(a) || i >= len(b) || a[i] != b[i] {
			return i
		}
	}
	return -1
}

// diffWindow returns the surroundings of the first difference of two texts
func diffWindow(a, b string) (string, string) {
	i := 0
	for i < len(a) && i < len(b) && a[i] == b[i] {
		i++
	}
	lo := i - 80
	if lo < 0 {
		lo = 0
	}
	cut := func(s string) string {
		hi := i + 160
		if hi > len(s) {
			hi = len(s)
		}
		if lo > len(s) {
			return ""
		}
		return s[lo:hi]
	}
	return cut(a), cut(b)
}

// ---------------------------------------------------------------------------------------------
// race reports

type access struct {
	Kind   string // read | write
	Addr   uint64
	Frames []string // function names, innermost first
}

type raceReport struct {
	Accesses []access
	Text     string
	Offset   int64
}

var accessRe = regexp.MustCompile(`^(Previous )?(atomic )?([Rr]ead|[Ww]rite) (?:of size \d+ )?at (0x[0-9a-f]+) by `)

func parseRaceLog(text string) []raceReport {
	var reps []raceReport
	var offset int64
	for _, block := range strings.Split(text, "==================\n") {
		start := offset
		offset += int64(len(block)) + int64(len("==================\n"))
		if !strings.Contains(block, "WARNING: DATA RACE") {
			continue
		}
		rep := raceReport{Text: block, Offset: start}
		var cur *access
		lines := strings.Split(block, "\n")
		for _, ln := range lines {
			if m := accessRe.FindStringSubmatch(ln); m != nil {
				var addr uint64
				fmt.Sscanf(m[4], "0x%x", &addr)
				rep.Accesses = append(rep.Accesses, access{Kind: strings.ToLower(m[3]), Addr: addr})
				cur = &rep.Accesses[len(rep.Accesses)-1]
				continue
			}
			if strings.HasPrefix(ln, "Goroutine ") || strings.TrimSpace(ln) == "" {
				cur = nil
				continue
			}
			if cur != nil && strings.HasPrefix(ln, "  ") && !strings.HasPrefix(ln, "      ") {
				fn := strings.TrimSpace(ln)
				if i := strings.LastIndex(fn, "("); i > 0 && strings.HasSuffix(fn, ")") {
					fn = fn[:i]
				}
				cur.Frames = append(cur.Frames, fn)
			}
		}
		reps = append(reps, rep)
	}
	return reps
}

// shortFunc: github.com/nyaruka/goflow/excellent/types.(*XObject).ensureInitialized -> types.(*XObject).ensureInitialized
func shortFunc(fn string) string {
	if i := strings.Index(fn, "["); i >= 0 { // generic instantiation: slices.SortFunc[go.shape...]
		fn = fn[:i]
	}
	if i := strings.LastIndex(fn, "/"); i >= 0 {
		fn = fn[i+1:]
	}
	return fn
}

// topFrame: the innermost frame inside goflow (the code under test); failing that the innermost frame outside
// the Go runtime / sync / reflect; the harness's own frames are marked so a harness bug cannot pass for goflow's
func topFrame(a access) string {
	for _, f := range a.Frames {
		if strings.Contains(f, "github.com/nyaruka/goflow/") {
			if strings.Contains(f, "github.com/nyaruka/goflow/utils.") || strings.Contains(f, "github.com/nyaruka/goflow/utils/") {
				continue // generic helpers (UnmarshalAndValidate, ...): the caller identifies the site
			}
			return shortFunc(f)
		}
		if strings.HasPrefix(f, "main.") || strings.Contains(f, "verifharness") {
			return "harness:" + shortFunc(f)
		}
	}
	for _, f := range a.Frames {
		if !strings.HasPrefix(f, "runtime.") && !strings.HasPrefix(f, "sync.") && !strings.HasPrefix(f, "sync/atomic.") &&
			!strings.HasPrefix(f, "internal/") && !strings.HasPrefix(f, "reflect.") {
			return shortFunc(f)
		}
	}
	return "?"
}

// raceClass: race:<top frame of the writing access>[@<known global>]; when both accesses write, the smaller name
func raceClass(r raceReport, globals map[string][2]int) string {
	var ws []string
	for _, a := range r.Accesses {
		if a.Kind == "write" {
			ws = append(ws, topFrame(a))
		}
	}
	if len(ws) == 0 {
		for _, a := range r.Accesses {
			ws = append(ws, topFrame(a))
		}
	}
	sort.Strings(ws)
	cls := "race:?"
	if len(ws) > 0 {
		cls = "race:" + ws[0]
	}
	names := hx.SortedKeys(globals)
	for _, a := range r.Accesses {
		for _, n := range names {
			g := globals[n]
			if a.Addr >= uint64(g[0]) && a.Addr < uint64(g[0]+g[1]) {
				return cls + "@" + n
			}
		}
	}
	return cls
}

// ---------------------------------------------------------------------------------------------
// parent

func main() {
	child := flag.String("child", "", "run as child process with this spec file")
	o := hx.ParseOpts()
	if *child != "" {
		childMain(*child)
		return
	}
	if !raceEnabled {
		fmt.Fprintln(os.Stderr, "c09 driver: built without -race (checks/C09.json must say \"race\": true); refusing to run")
		os.Exit(3)
	}
	res := hx.NewResult(o, "one evaluation = one goroutine driving its own session (start, marshal, read, resume, inspect, evaluate) "+
		"together with N-1 others over one cold SessionAssets; distinct = distinct (scenario, script, process cold/warm); "+
		"non-trivial = the goroutine's first engine call (which loads and migrates the cold flow) overlapped in time with another goroutine's first call in the same round")
	r := hx.NewRand(o.Seed)
	all, err := loadScenarios()
	if err != nil {
		fmt.Fprintln(os.Stderr, "c09 driver:", err)
		os.Exit(2)
	}
	names := make([]string, len(all))
	byName := map[string]*scenario{}
	for i, s := range all {
		names[i] = s.Name
		byName[s.Name] = s
	}

	// tier volumes: processes x rounds x goroutines
	nG, nProc, nRounds := 8, 6, 14
	switch o.Tier {
	case "thorough":
		nG, nProc, nRounds = 32, 12, 30
	case "search":
		nG, nProc, nRounds = 16, 8, 20
	}
	if o.N > 0 {
		nRounds = o.N
	}
	var only string
	if o.Replay != "" {
		only = replayScenario(o.Replay)
	}

	// every process starts (process-cold round) with a different scenario; the embedded one and those that
	// exercise lazily migrated / legacy flows, router tests and query groups come first
	first := []string{"embedded", "recipients", "cache_keys", "router_tests", "legacy_subflow", "smart_groups", "all_actions", "subflow", "legacy_registration", "expirations", "two_questions", "webhook_results"}
	rs := r.Fork("scenarios")
	specs := make([]childSpec, nProc)
	for p := 0; p < nProc; p++ {
		var list []string
		if only != "" {
			for i := 0; i < nRounds; i++ {
				list = append(list, only)
			}
		} else {
			f := first[p%len(first)]
			if p >= len(first) || byName[f] == nil {
				f = hx.Pick(rs, names)
			}
			list = append(list, f)
			// the two embedded scenarios run in every process (once on a warm process too)
			if f != "recipients" {
				list = append(list, "recipients")
			}
			if f != "embedded" {
				list = append(list, "embedded")
			}
			if f != "cache_keys" {
				list = append(list, "cache_keys")
			}
			if f != "locations" {
				list = append(list, "locations")
			}
			for len(list) < nRounds {
				list = append(list, hx.Pick(rs, names))
			}
		}
		specs[p] = childSpec{Mode: "conc", Index: p, Seed: o.Seed*1000 + uint64(p), N: nG, Scenarios: list, SoloDir: o.Out,
			RaceLog: filepath.Join(o.Out, fmt.Sprintf("race_%d", p)), Out: filepath.Join(o.Out, fmt.Sprintf("child_%d.json", p))}
	}
	// solo children: the distinct scenarios of all rounds, spread over a few processes
	usedSet := map[string]bool{}
	for _, sp := range specs {
		for _, n := range sp.Scenarios {
			usedSet[n] = true
		}
	}
	used := hx.SortedKeys(usedSet)
	nSolo := 4
	if len(used) < nSolo {
		nSolo = len(used)
	}
	soloSpecs := make([]childSpec, nSolo)
	for i := range soloSpecs {
		soloSpecs[i] = childSpec{Mode: "solo", Index: 1000 + i, Seed: o.Seed, N: nG, SoloDir: o.Out,
			RaceLog: filepath.Join(o.Out, fmt.Sprintf("solorace_%d", i)), Out: filepath.Join(o.Out, fmt.Sprintf("solo_child_%d.json", i))}
	}
	for i, n := range used {
		soloSpecs[i%nSolo].Scenarios = append(soloSpecs[i%nSolo].Scenarios, n)
	}

	exe, err := os.Executable()
	if err != nil {
		panic(err)
	}
	type childRun struct {
		spec     childSpec
		stderr   string
		err      error
		timedOut bool
	}
	perChild := time.Duration(60+nRounds*20) * time.Second
	sem := make(chan struct{}, 3) // at most 3 children at a time (8-32 goroutines each; 16 shared cores)
	var wg sync.WaitGroup
	// 1. solo runs (their outputs are read by the concurrent children)
	soloErrs := make([]string, nSolo)
	for i := range soloSpecs {
		wg.Add(1)
		go func(i int) {
			defer wg.Done()
			sem <- struct{}{}
			defer func() { <-sem }()
			sp := soloSpecs[i]
			specPath := filepath.Join(o.Out, fmt.Sprintf("solospec_%d.json", i))
			b, _ := json.Marshal(sp)
			os.WriteFile(specPath, b, 0o644)
			cmd := exec.Command(exe, "-child", specPath, "-out", o.Out, "-prop", o.Prop)
			cmd.Env = append(os.Environ(), "GORACE=halt_on_error=0 history_size=2 log_path="+sp.RaceLog)
			var eb bytes.Buffer
			cmd.Stderr, cmd.Stdout = &eb, &eb
			done := make(chan error, 1)
			if err := cmd.Start(); err != nil {
				soloErrs[i] = err.Error()
				return
			}
			go func() { done <- cmd.Wait() }()
			select {
			case err := <-done:
				if err != nil {
					soloErrs[i] = fmt.Sprintf("%v: %s", err, truncate(eb.String(), 2000))
				}
			case <-time.After(perChild * 2):
				cmd.Process.Kill()
				<-done
				soloErrs[i] = "timeout"
			}
		}(i)
	}
	wg.Wait()
	for i, e := range soloErrs {
		if e != "" {
			res.Fail("crash:solo-run:"+crashClass(e), map[string]any{"scenarios": soloSpecs[i].Scenarios}, "a script run ALONE crashed: "+e)
		}
	}
	// 2. concurrent rounds
	runs := make([]childRun, nProc)
	for p := range specs {
		wg.Add(1)
		go func(p int) {
			defer wg.Done()
			sem <- struct{}{}
			defer func() { <-sem }()
			sp := specs[p]
			specPath := filepath.Join(o.Out, fmt.Sprintf("spec_%d.json", p))
			b, _ := json.Marshal(sp)
			os.WriteFile(specPath, b, 0o644)
			cmd := exec.Command(exe, "-child", specPath, "-out", o.Out, "-prop", o.Prop)
			cmd.Env = append(os.Environ(), "GORACE=halt_on_error=0 history_size=5 log_path="+sp.RaceLog)
			var eb bytes.Buffer
			cmd.Stderr = &eb
			cmd.Stdout = &eb
			done := make(chan error, 1)
			if err := cmd.Start(); err != nil {
				runs[p] = childRun{spec: sp, err: err}
				return
			}
			go func() { done <- cmd.Wait() }()
			select {
			case err := <-done:
				runs[p] = childRun{spec: sp, stderr: eb.String(), err: err}
			case <-time.After(perChild):
				cmd.Process.Kill()
				<-done
				runs[p] = childRun{spec: sp, stderr: eb.String(), timedOut: true}
			}
		}(p)
	}
	wg.Wait()

	// ---- evaluate
	cf := hx.NewCoqFile(fmt.Sprintf("cases_C09_%d.v", o.Seed),
		"From Coq Require Import List NArith.\nFrom Verif Require Import model.Conc gen.SharedState model.ConcCorr.\nFrom Verif Require model.FlowCache.\nImport ListNotations.\nOpen Scope N_scope.\n")
	var caseNames []string
	totalRaces := 0
	raceClasses := map[string]int{}
	for p, cr := range runs {
		input := map[string]any{"process": p, "goroutines": cr.spec.N, "seed": cr.spec.Seed, "scenarios": cr.spec.Scenarios}
		var cres childResult
		if raw, err := os.ReadFile(cr.spec.Out); err == nil {
			json.Unmarshal(raw, &cres)
		}
		scenarioAt := func(off int64) string { // attribute a report to the round in which it was logged
			for _, ri := range cres.Rounds {
				if off < ri.RaceLogBytes {
					return ri.Scenario
				}
			}
			if len(cres.Rounds) < len(cr.spec.Scenarios) {
				return cr.spec.Scenarios[len(cres.Rounds)]
			}
			return "?"
		}
		// races
		logs, _ := filepath.Glob(cr.spec.RaceLog + ".*")
		for _, lp := range logs {
			raw, _ := os.ReadFile(lp)
			for _, rep := range parseRaceLog(string(raw)) {
				totalRaces++
				cls := raceClass(rep, cres.Globals)
				raceClasses[cls]++
				in := map[string]any{"process": p, "goroutines": cr.spec.N, "seed": cr.spec.Seed, "scenario": scenarioAt(rep.Offset)}
				res.Fail(cls, in, truncate(rep.Text, 3000))
			}
		}
		// crash / hang
		res.OracleChecks++
		switch {
		case cr.timedOut:
			res.Fail("hang:child-timeout", input, fmt.Sprintf("child %d did not finish within %s (deadlock?) after %d rounds; stderr: %s", p, perChild, len(cres.Rounds), truncate(cr.stderr, 1500)))
		case cres.Done && exitCode(cr.err) == 66 && len(logs) > 0:
			// the race detector's exit status after it reported something: the reports above are the failure
		case cr.err != nil || !cres.Done:
			cls := "crash:" + crashClass(cr.stderr)
			input["scenario"] = scenarioAt(1 << 62)
			res.Fail(cls, input, fmt.Sprintf("child %d: %v; stderr: %s", p, cr.err, truncate(cr.stderr, 3000)))
		}
		// solo comparison
		for _, d := range cres.Diffs {
			st := d.Stage
			if i := strings.Index(st, ":"); i > 0 {
				st = st[:i]
			}
			st = strings.TrimRight(st, "0123456789")
			cls := "solo-diff:" + st
			switch {
			case st == "byname":
				// what a flow NAME resolves to differs from the solo run: the cache is consulted before the source
				cls = "cache-transparency:find-by-name"
			case d.Scenario == "cache_keys" && (st == "start" || st == "resume"):
				// a session ran another definition than alone: the cache handed out a flow loaded under another key
				cls = "cache-transparency:get-by-uuid"
			case d.Scenario == "cache_keys":
				cls = "cache-transparency:" + st
			}
			res.Fail(cls, map[string]any{"process": p, "goroutines": cr.spec.N, "seed": cr.spec.Seed, "scenario": d.Scenario, "script": d.Script, "round": d.Round, "goroutine": d.Goroutine, "stage": d.Stage},
				fmt.Sprintf("solo: …%s…\nconcurrent: …%s…", d.Solo, d.Conc))
		}
		for _, ri := range cres.Rounds {
			sc := byName[ri.Scenario]
			cold := "warm"
			if ri.Round == 0 {
				cold = "cold"
			}
			for g := 0; g < cr.spec.N; g++ {
				k := g % len(sc.Scripts)
				res.Eval(fmt.Sprintf("%s/%s/%s-process", ri.Scenario, sc.Scripts[k].Name, cold), ri.ColdOverlap >= 2)
			}
			res.OracleChecks += ri.Stages + 1 // stage comparisons + this round's race-detector verdict
			res.Dist(fmt.Sprintf("round:overlapped_goroutines=%d/%d", ri.Overlapped, cr.spec.N))
			res.Dist(fmt.Sprintf("round:cold_overlap_goroutines=%d/%d", ri.ColdOverlap, cr.spec.N))
			res.Dist("round:scenario=" + ri.Scenario)
			for _, v := range ri.Versions {
				res.Dist("flow_loaded:spec=" + v)
			}
			res.Distribution["goroutine_sessions"] += cr.spec.N
			res.Distribution["goroutine_sessions_compared_with_solo"] += ri.Compared
			res.Distribution["stage_outputs_compared"] += ri.Stages
			res.Distribution["scripts_excluded_nondeterministic_solo"] += len(ri.NondetSolo)
			res.Distribution["panics_in_goroutines(same_in_solo_unless_reported)"] += ri.Panics
			// model case: identities of the flow objects obtained, per flow
			if len(caseNames) < 400 {
				nm := fmt.Sprintf("c%d", len(caseNames))
				cf.Add(fmt.Sprintf("Definition %s : cache_obs := %s.", nm, cacheObs(ri.FlowPtrs)))
				caseNames = append(caseNames, nm)
				res.Cases = append(res.Cases, hx.Case{File: cf.Name, Index: len(caseNames) - 1, Input: map[string]any{"process": p, "round": ri.Round, "scenario": ri.Scenario}, Impl: ri.FlowPtrs})
			}
		}
		if p == 0 && len(cres.Rounds) > 0 {
			res.Sample(map[string]any{"process": 0, "round0": cres.Rounds[0].Scenario, "goroutines": cr.spec.N, "overlapped": cres.Rounds[0].Overlapped,
				"cold_overlap": cres.Rounds[0].ColdOverlap, "stages_compared": cres.Rounds[0].Stages, "race_reports_in_process": len(logs)})
		}
	}
	res.Distribution["race_reports"] = totalRaces
	for c, n := range raceClasses {
		res.Distribution["race_class:"+c] = n
	}
	res.Notes = append(res.Notes, fmt.Sprintf("%d child processes x %d rounds x %d goroutines; GOMAXPROCS=%d; race detector on=%v", nProc, nRounds, nG, runtime.GOMAXPROCS(0), raceEnabled))

	nLookups := 120
	if o.Tier == "thorough" {
		nLookups = 1500
	}
	lookupNames := lookupCases(r.Fork("lookups"), nLookups, cf, res)
	cf.Add("Definition cases : list cache_obs := [" + strings.Join(caseNames, "; ") + "].")
	cf.Add("Definition lookups : list lookup_case := [" + strings.Join(lookupNames, "; ") + "].")
	cf.Add(fmt.Sprintf("Definition observed_races : N := %s.", hx.N(totalRaces)))
	cf.Add("Definition M := Eval vm_compute in (mismatches code_discipline observed_races cases ++ bad_lookups 0 lookups).\nPrint M.")
	cf.Save(o, res)
	res.Write(o)
}

// cacheObs renders [goroutine][flow] -> object identity as list (list N): identities numbered by first appearance
func cacheObs(ptrs [][]string) string {
	ids := map[string]int{"": 0}
	rows := make([]string, len(ptrs))
	for g, row := range ptrs {
		cells := make([]string, len(row))
		for j, p := range row {
			id, ok := ids[p]
			if !ok {
				id = len(ids)
				ids[p] = id
			}
			cells[j] = fmt.Sprintf("%d", id)
		}
		rows[g] = "[" + strings.Join(cells, ";") + "]"
	}
	return "[" + strings.Join(rows, "; ") + "]"
}

func exitCode(err error) int {
	var ee *exec.ExitError
	if errors.As(err, &ee) {
		return ee.ExitCode()
	}
	return 0
}

func truncate(s string, n int) string {
	if len(s) > n {
		return s[:n] + "…"
	}
	return s
}

var fatalRe = regexp.MustCompile(`(?m)^(fatal error|panic): (.*)$`)

func crashClass(stderr string) string {
	if m := fatalRe.FindStringSubmatch(stderr); m != nil {
		msg := m[2]
		if len(msg) > 60 {
			msg = msg[:60]
		}
		return strings.ReplaceAll(strings.TrimSpace(msg), " ", "-")
	}
	return "child-exit"
}

func replayScenario(path string) string {
	raw, err := os.ReadFile(path)
	if err != nil {
		return ""
	}
	var rj struct {
		FailingInput struct {
			Input struct {
				Scenario  string   `json:"scenario"`
				Scenarios []string `json:"scenarios"`
			} `json:"input"`
		} `json:"failing_input"`
	}
	json.Unmarshal(raw, &rj)
	if rj.FailingInput.Input.Scenario != "" && rj.FailingInput.Input.Scenario != "?" {
		return rj.FailingInput.Input.Scenario
	}
	if len(rj.FailingInput.Input.Scenarios) > 0 {
		return rj.FailingInput.Input.Scenarios[0]
	}
	return ""
}
