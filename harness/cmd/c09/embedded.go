package main

import (
	"encoding/json"
	"fmt"
)

// The embedded scenario: self-contained assets (independent of goflow's test data) with
//   - flow "C09 Main", spec 13.0.0 with language "base", a templating object, a @webhook reference and an
//     over-long result name: every 13.x migration rewrites something when the flow is first used;
//   - flow "C09 Child", spec 13.2.0, entered from Main; flow "C09 Current" at the current spec;
//   - query based groups over fields (re-evaluated by every session against the shared parsed queries);
//   - translations (spa, fra) for texts, case arguments and category names;
//   - switch routers whose first cases fail (shared false result), has_group tests, a webhook call.
// Three scripts: answers taking different exits.

type obj = map[string]any

func eu(n int) string { return fmt.Sprintf("c0900000-0000-4000-8000-%012d", n) }

func embeddedScenario() *scenario {
	groupTesters, groupAdults, groupKids, groupNamed := eu(1), eu(2), eu(3), eu(4)
	channel := eu(5)
	flowMain, flowChild, flowCurrent := eu(10), eu(11), eu(12)

	cat := func(id int, name string, exit int) obj {
		return obj{"uuid": eu(id), "name": name, "exit_uuid": eu(exit)}
	}
	cas := func(id int, typ string, args []string, cat int) obj {
		return obj{"uuid": eu(id), "type": typ, "arguments": args, "category_uuid": eu(cat)}
	}
	exit := func(id int, dest int) obj {
		if dest == 0 {
			return obj{"uuid": eu(id)}
		}
		return obj{"uuid": eu(id), "destination_uuid": eu(dest)}
	}

	longName := "Answer With A Name That Is Much Longer Than The Sixty Four Characters Allowed"

	mainFlow := obj{
		"uuid": flowMain, "name": "C09 Main", "spec_version": "13.0.0", "language": "base", "type": "messaging",
		"revision": 7, "expire_after_minutes": 60,
		"localization": obj{
			"spa": obj{
				eu(101): obj{"text": []string{"Hola @contact.name, edad @fields.age. Si o no?"}, "quick_replies": []string{"Si", "No"}},
				eu(131): obj{"arguments": []string{"si claro"}},
				eu(121): obj{"name": []string{"Si"}},
				eu(162): obj{"text": []string{"Adios @contact.name (@results.answer_with_a_name_that_is_much_longer_than_the_sixty_four_chara.category_localized)"}},
			},
			"fra": obj{
				eu(101): obj{"text": []string{"Salut @contact.name"}},
				eu(121): obj{"name": []string{"Oui"}},
			},
		},
		"nodes": []obj{
			{
				"uuid": eu(100),
				"actions": []obj{
					{"uuid": eu(101), "type": "send_msg", "text": "Hi @contact.name, age @fields.age, groups @(join(foreach(contact.groups, extract, \"name\"), \"|\")). Yes or no?",
						"quick_replies": []string{"Yes", "No"},
						"templating":    obj{"template": obj{"uuid": eu(6), "name": "affirmation"}, "variables": []string{"@contact.name", "boy"}}},
					{"uuid": eu(102), "type": "set_contact_field", "field": obj{"key": "age", "name": "Age"}, "value": "@(default(fields.age, 0) + 10)"},
					{"uuid": eu(103), "type": "add_contact_groups", "groups": []obj{{"uuid": groupTesters, "name": "Testers"}}},
					{"uuid": eu(104), "type": "call_webhook", "method": "GET", "url": "http://example.com/lookup?name=@(url_encode(contact.name))", "result_name": "Lookup"},
					{"uuid": eu(105), "type": "send_msg", "text": "Webhook said @webhook.count and @(webhook.results[0].state) status @results.lookup.category"},
				},
				"router": obj{
					"type": "switch", "operand": "@input.text", "result_name": longName,
					"wait":                  obj{"type": "msg", "timeout": obj{"seconds": 600, "category_uuid": eu(124)}},
					"default_category_uuid": eu(123),
					"categories":            []obj{cat(121, "Yes", 141), cat(122, "Number", 142), cat(123, "Other", 143), cat(124, "No Response", 144)},
					"cases": []obj{
						cas(130, "has_phone", []string{}, 122),
						cas(131, "has_any_word", []string{"yes yeah"}, 121),
						cas(132, "has_number_between", []string{"1", "100"}, 122),
						cas(133, "has_pattern", []string{"^n(o+)$"}, 123),
					},
				},
				"exits": []obj{exit(141, 150), exit(142, 155), exit(143, 160), exit(144, 0)},
			},
			{
				"uuid":    eu(150),
				"actions": []obj{{"uuid": eu(151), "type": "enter_flow", "flow": obj{"uuid": flowChild, "name": "C09 Child"}}},
				"router": obj{"type": "switch", "operand": "@child.run.status", "default_category_uuid": eu(153),
					"categories": []obj{cat(152, "Complete", 156), cat(153, "Expired", 157)},
					"cases":      []obj{cas(154, "has_only_text", []string{"completed"}, 152)}},
				"exits": []obj{exit(156, 160), exit(157, 160)},
			},
			{
				"uuid": eu(155),
				"router": obj{"type": "switch", "operand": "@contact.groups", "result_name": "Group Check", "default_category_uuid": eu(172),
					"categories": []obj{cat(170, "Kid", 173), cat(171, "Adult", 174), cat(172, "Neither", 175)},
					"cases": []obj{
						cas(176, "has_group", []string{groupKids, "Kids"}, 170),
						cas(177, "has_group", []string{groupAdults, "Adults"}, 171),
					}},
				"exits": []obj{exit(173, 160), exit(174, 160), exit(175, 160)},
			},
			{
				"uuid": eu(160),
				"actions": []obj{
					{"uuid": eu(163), "type": "set_run_result", "name": "Farewell", "value": "@(title(input.text))", "category": "Done"},
					{"uuid": eu(162), "type": "send_msg", "text": "Bye @(format_number(1234.5)) @contact.name (@results.answer_with_a_name_that_is_much_longer_than_the_sixty_four_chara.category_localized) @(json(results.group_check))"},
				},
				"exits": []obj{exit(161, 0)},
			},
		},
	}

	childFlow := obj{
		"uuid": flowChild, "name": "C09 Child", "spec_version": "13.2.0", "language": "eng", "type": "messaging",
		"revision": 2, "expire_after_minutes": 30,
		"localization": obj{"spa": obj{eu(201): obj{"text": []string{"Hijo: @parent.contact.name / @webhook"}}}},
		"nodes": []obj{
			{
				"uuid": eu(200),
				"actions": []obj{
					{"uuid": eu(201), "type": "send_msg", "text": "Child of @parent.run.flow.name: @parent.results.lookup.category / @webhook / @(webhook.count)"},
					{"uuid": eu(202), "type": "set_contact_name", "name": "@(upper(contact.name))"},
					{"uuid": eu(203), "type": "set_contact_field", "field": obj{"key": "gender", "name": "Gender"}, "value": "F"},
					{"uuid": eu(204), "type": "remove_contact_groups", "groups": []obj{{"uuid": groupTesters, "name": "Testers"}}},
				},
				"router": obj{"type": "switch", "operand": "@fields.age", "result_name": "Age Check", "default_category_uuid": eu(212),
					"categories": []obj{cat(211, "Old", 221), cat(212, "Other", 222)},
					"cases":      []obj{cas(213, "has_text", []string{}, 212), cas(214, "has_number_gt", []string{"40"}, 211)}},
				"exits": []obj{exit(221, 0), exit(222, 0)},
			},
		},
	}

	currentFlow := obj{
		"uuid": flowCurrent, "name": "C09 Current", "spec_version": "13.6.0", "language": "eng", "type": "messaging",
		"revision": 1, "expire_after_minutes": 0, "localization": obj{},
		"nodes": []obj{
			{
				"uuid":    eu(300),
				"actions": []obj{{"uuid": eu(301), "type": "send_msg", "text": "Current @(format_number(fields.age)) @(object(\"a\", 1))"}},
				"router": obj{"type": "switch", "operand": "@contact.language", "default_category_uuid": eu(312),
					"categories": []obj{cat(311, "Spanish", 321), cat(312, "Other", 322)},
					"cases":      []obj{cas(313, "has_only_text", []string{"spa"}, 311)}},
				"exits": []obj{exit(321, 0), exit(322, 0)},
			},
		},
	}

	assetsJSON := obj{
		"flows": []obj{mainFlow, childFlow, currentFlow},
		"fields": []obj{
			{"uuid": eu(20), "key": "age", "name": "Age", "type": "number"},
			{"uuid": eu(21), "key": "gender", "name": "Gender", "type": "text"},
		},
		"groups": []obj{
			{"uuid": groupTesters, "name": "Testers"},
			{"uuid": groupAdults, "name": "Adults", "query": "age >= 18"},
			{"uuid": groupKids, "name": "Kids", "query": "age < 18 AND gender != \"\""},
			{"uuid": groupNamed, "name": "Named", "query": "name ~ \"an\" OR tel ~ \"555\""},
		},
		"channels": []obj{{"uuid": channel, "name": "Android", "address": "+17036975131", "schemes": []string{"tel"}, "roles": []string{"send", "receive"}, "country": "US"}},
		"templates": []obj{{"uuid": eu(6), "name": "affirmation", "translations": []obj{
			{"channel": obj{"uuid": channel, "name": "Android"}, "locale": "eng-US", "components": []obj{
				{"name": "body", "type": "body/text", "content": "Hi {{1}}, are you still a {{2}}?", "variables": obj{"1": 0, "2": 1}}},
				"variables": []obj{{"type": "text"}, {"type": "text"}}},
		}}},
	}
	raw, err := json.MarshalIndent(assetsJSON, "", " ")
	if err != nil {
		panic(err)
	}

	contact := func(id int, name, lang string, age string, groups []obj) obj {
		c := obj{"uuid": eu(id), "id": id, "name": name, "language": lang, "status": "active", "timezone": "America/Guayaquil",
			"created_on": "2000-01-01T00:00:00.000000000-00:00", "urns": []string{"tel:+12065551212", "mailto:x@example.com"}, "groups": groups}
		if age != "" {
			c["fields"] = obj{"age": obj{"text": age, "number": json.Number(age)}}
		}
		return c
	}
	env := obj{"allowed_languages": []string{"eng", "spa", "fra"}, "date_format": "YYYY-MM-DD", "time_format": "hh:mm", "timezone": "America/Los_Angeles"}
	// one session uses its own number format: it must not leak into the others (nor into the process default)
	envComma := obj{"allowed_languages": []string{"fra", "eng"}, "date_format": "DD-MM-YYYY", "time_format": "tt:mm", "timezone": "Africa/Kigali",
		"number_format": obj{"decimal_symbol": ",", "digit_grouping_symbol": "."}}
	trigger := func(c obj, env obj) json.RawMessage {
		b, _ := json.Marshal(obj{"type": "manual", "flow": obj{"uuid": flowMain, "name": "C09 Main"}, "contact": c, "environment": env,
			"triggered_on": "2000-01-01T00:00:00.000000000-00:00", "params": obj{"source": "c09", "n": 3}})
		return b
	}
	msg := func(id int, text string) json.RawMessage {
		b, _ := json.Marshal(obj{"type": "msg", "resumed_on": "2000-01-01T00:00:00.000000000-00:00",
			"msg": obj{"uuid": eu(id), "text": text, "urn": "tel:+12065551212", "channel": obj{"uuid": channel, "name": "Android"}}})
		return b
	}
	timeout := func() json.RawMessage {
		b, _ := json.Marshal(obj{"type": "wait_timeout", "resumed_on": "2000-01-01T00:00:00.000000000-00:00"})
		return b
	}

	sc := &scenario{Name: "embedded", Assets: raw, Scripts: []script{
		{Name: "yes_subflow", Trigger: trigger(contact(901, "Ann Lee", "spa", "35", []obj{{"uuid": groupTesters, "name": "Testers"}}), env), Resumes: []json.RawMessage{msg(911, "yes"), msg(912, "unused")}},
		{Name: "number_groups", Trigger: trigger(contact(902, "Dan", "eng", "3", nil), env), Resumes: []json.RawMessage{msg(913, "it is 42")}},
		{Name: "other_then_timeout", Trigger: trigger(contact(903, "Bob", "fra", "", nil), envComma), Resumes: []json.RawMessage{msg(914, "nooo"), timeout()}},
	}}
	if err := sc.derive(); err != nil {
		panic(err)
	}
	return sc
}

// The recipients scenario: send_broadcast and start_session actions whose definition lists 3..9 FIXED contacts, URNs and
// groups (slices decoded from JSON with spare capacity) plus legacy_vars that evaluate to something different in every
// session (@contact.uuid, @urns.tel, a group name).  Eight scripts, one contact each: whatever an action appends for
// one session must never show up in the shared definition or in another session's broadcast_created /
// session_triggered events.
func recipientsScenario() *scenario {
	ru := func(n int) string { return fmt.Sprintf("c0900000-0000-4000-9000-%012d", n) }
	flowMain, flowOther := ru(10), ru(11)
	groupA, groupB, groupC := ru(1), ru(2), ru(3)
	channel := ru(5)
	contacts := func(n, base int) []obj {
		l := make([]obj, n)
		for i := range l {
			l[i] = obj{"uuid": ru(base + i), "name": fmt.Sprintf("Fixed %d", base+i)}
		}
		return l
	}
	urnsN := func(n, base int) []string {
		l := make([]string, n)
		for i := range l {
			l[i] = fmt.Sprintf("tel:+1202555%04d", base+i)
		}
		return l
	}
	groups := []obj{{"uuid": groupA, "name": "Alpha"}, {"uuid": groupB, "name": "Beta"}, {"uuid": groupC, "name": "Gamma"}}
	legacy := []string{"@contact.uuid", "@urns.tel", "Gamma", "@(\"tel:+1303555\" & text_slice(contact.uuid, 32))"}
	broadcast := func(id, nc, nu int) obj {
		return obj{"uuid": ru(id), "type": "send_broadcast", "text": "Hello from @contact.name", "groups": groups[:2],
			"contacts": contacts(nc, 1000+id*20), "urns": urnsN(nu, id*20), "legacy_vars": legacy}
	}
	start := func(id, nc, nu int) obj {
		return obj{"uuid": ru(id), "type": "start_session", "flow": obj{"uuid": flowOther, "name": "C09 Other"}, "groups": groups[:3],
			"contacts": contacts(nc, 2000+id*20), "urns": urnsN(nu, 500+id*20), "legacy_vars": legacy, "create_contact": false}
	}
	mainFlow := obj{
		"uuid": flowMain, "name": "C09 Recipients", "spec_version": "13.6.0", "language": "eng", "type": "messaging",
		"revision": 1, "expire_after_minutes": 60, "localization": obj{},
		"nodes": []obj{
			{
				"uuid":    ru(100),
				"actions": []obj{broadcast(101, 3, 3), start(102, 5, 6), broadcast(103, 7, 9), start(104, 9, 3), broadcast(105, 6, 5)},
				"router": obj{"type": "switch", "operand": "@input.text", "result_name": "Again",
					"wait":                  obj{"type": "msg"},
					"default_category_uuid": ru(121),
					"categories":            []obj{{"uuid": ru(121), "name": "All", "exit_uuid": ru(141)}},
					"cases":                 []obj{}},
				"exits": []obj{{"uuid": ru(141), "destination_uuid": ru(150)}},
			},
			{
				"uuid":    ru(150),
				"actions": []obj{start(151, 3, 7), broadcast(152, 5, 3), start(153, 6, 9), broadcast(154, 9, 6)},
				"exits":   []obj{{"uuid": ru(161)}},
			},
		},
	}
	otherFlow := obj{
		"uuid": flowOther, "name": "C09 Other", "spec_version": "13.6.0", "language": "eng", "type": "messaging",
		"revision": 1, "expire_after_minutes": 0, "localization": obj{},
		"nodes": []obj{{"uuid": ru(300), "actions": []obj{{"uuid": ru(301), "type": "send_msg", "text": "Other"}}, "exits": []obj{{"uuid": ru(321)}}}},
	}
	assetsJSON := obj{
		"flows":    []obj{mainFlow, otherFlow},
		"groups":   []obj{{"uuid": groupA, "name": "Alpha"}, {"uuid": groupB, "name": "Beta"}, {"uuid": groupC, "name": "Gamma"}},
		"channels": []obj{{"uuid": channel, "name": "Android", "address": "+17036975131", "schemes": []string{"tel"}, "roles": []string{"send", "receive"}, "country": "US"}},
	}
	raw, err := json.MarshalIndent(assetsJSON, "", " ")
	if err != nil {
		panic(err)
	}
	env := obj{"allowed_languages": []string{"eng"}, "date_format": "YYYY-MM-DD", "time_format": "hh:mm", "timezone": "America/Los_Angeles"}
	sc := &scenario{Name: "recipients", Assets: raw}
	for i := 0; i < 8; i++ {
		c := obj{"uuid": fmt.Sprintf("c09ec1%02d-0000-4000-a000-%012d", i, 7000+i), "id": 7000 + i, "name": fmt.Sprintf("Caller %d", i), "language": "eng", "status": "active",
			"created_on": "2000-01-01T00:00:00.000000000-00:00", "urns": []string{fmt.Sprintf("tel:+1206555%04d", 100+i)}}
		tb, _ := json.Marshal(obj{"type": "manual", "flow": obj{"uuid": flowMain, "name": "C09 Recipients"}, "contact": c, "environment": env,
			"triggered_on": "2000-01-01T00:00:00.000000000-00:00"})
		rb, _ := json.Marshal(obj{"type": "msg", "resumed_on": "2000-01-01T00:00:00.000000000-00:00",
			"msg": obj{"uuid": ru(900 + i), "text": fmt.Sprintf("go %d", i), "urn": fmt.Sprintf("tel:+1206555%04d", 100+i), "channel": obj{"uuid": channel, "name": "Android"}}})
		sc.Scripts = append(sc.Scripts, script{Name: fmt.Sprintf("caller_%d", i), Trigger: tb, Resumes: []json.RawMessage{rb}})
	}
	if err := sc.derive(); err != nil {
		panic(err)
	}
	return sc
}

// The cache_keys scenario: the flow cache must be a FUNCTION of the source ("each session produces the same result it
// produces when run alone" - flows are loaded lazily on first use into a cache shared by all sessions).
//   - asset 1111 "Copy": a legacy export with a top level uuid (the asset's uuid) whose metadata.uuid is 2222, the uuid of
//     the ordinary flow "Real": what a session started in 2222 runs must not depend on whether another session loaded 1111;
//   - flows "Registration" / "registration" (names differing in case only) and "Survey" / "Survey" (equal names): what a
//     name resolves to (flowAssets.FindByName, contact query `flow = "..."`) must not depend on what is cached.
//
// Eight scripts start sessions in the different flows, so that in every round the cold cache is filled in another order.
func cacheKeysScenario() *scenario {
	cu := func(n int) string { return fmt.Sprintf("c0900000-0000-4000-b000-%012d", n) }
	copyUUID, realUUID := cu(1111), cu(2222)
	simple := func(uuid, name, text string) obj {
		return obj{"uuid": uuid, "name": name, "spec_version": "13.6.0", "language": "eng", "type": "messaging", "revision": 1,
			"expire_after_minutes": 0, "localization": obj{},
			"nodes": []obj{{"uuid": uuid[:24] + "aaaaaaaaaaaa", "actions": []obj{{"uuid": uuid[:24] + "bbbbbbbbbbbb", "type": "send_msg", "text": text}},
				"exits": []obj{{"uuid": uuid[:24] + "cccccccccccc"}}}}}
	}
	legacyCopy := obj{
		"uuid": copyUUID, "name": "Copy", "version": "11.12", "flow_type": "M", "base_language": "eng",
		"metadata": obj{"uuid": realUUID, "name": "Copy", "revision": 1},
		"entry":    cu(5001),
		"action_sets": []obj{{"uuid": cu(5001), "x": 0, "y": 0, "destination": nil, "exit_uuid": cu(5002),
			"actions": []obj{{"type": "reply", "uuid": cu(5003), "msg": obj{"eng": "I am the copy"}}}}},
		"rule_sets": []obj{},
	}
	flowsL := []obj{legacyCopy, simple(realUUID, "Real", "I am the real one"),
		simple(cu(3001), "Registration", "Registration with a capital"), simple(cu(3002), "registration", "registration in lower case"),
		simple(cu(4001), "Survey", "first Survey"), simple(cu(4002), "Survey", "second Survey")}
	raw, err := json.MarshalIndent(obj{"flows": flowsL}, "", " ")
	if err != nil {
		panic(err)
	}
	env := obj{"allowed_languages": []string{"eng"}, "date_format": "YYYY-MM-DD", "time_format": "hh:mm", "timezone": "America/Los_Angeles"}
	sc := &scenario{Name: "cache_keys", Assets: raw}
	starts := []struct{ uuid, name string }{{realUUID, "Real"}, {copyUUID, "Copy"}, {cu(3002), "registration"}, {cu(3001), "Registration"},
		{cu(4002), "Survey"}, {cu(4001), "Survey"}, {realUUID, "Real"}, {copyUUID, "Copy"}}
	for i, st := range starts {
		c := obj{"uuid": fmt.Sprintf("c09cac%02d-0000-4000-a000-%012d", i, 8000+i), "id": 8000 + i, "name": fmt.Sprintf("Key %d", i), "language": "eng", "status": "active",
			"created_on": "2000-01-01T00:00:00.000000000-00:00", "urns": []string{fmt.Sprintf("tel:+1206555%04d", 200+i)}}
		tb, _ := json.Marshal(obj{"type": "manual", "flow": obj{"uuid": st.uuid, "name": st.name}, "contact": c, "environment": env,
			"triggered_on": "2000-01-01T00:00:00.000000000-00:00"})
		sc.Scripts = append(sc.Scripts, script{Name: fmt.Sprintf("start_%d_%s", i, st.name), Trigger: tb})
	}
	if err := sc.derive(); err != nil {
		panic(err)
	}
	return sc
}

// The locations scenario: a location hierarchy in which names are ambiguous - ward "Centre" exists in four districts and
// district "Gasabo" in two states - and eight scripts whose contacts live in the different districts.  Every session
// resolves its state, district and ward WITH the parent (set_contact_field on state/district/ward fields, has_district
// and has_ward router tests and expressions), first at the start and again on resume, i.e. after the other sessions of
// the round have done their lookups on the shared hierarchy.  A lookup is read only: what one session resolves must not
// depend on what another session looked up before it.
func locationsScenario() *scenario {
	lu := func(n int) string { return fmt.Sprintf("c0900001-0000-4000-8000-%012d", n) }
	flowMain := lu(10)
	channel := lu(5)
	loc := func(name string, aliases []string, children ...obj) obj {
		o := obj{"name": name, "children": children}
		if aliases != nil {
			o["aliases"] = aliases
		}
		return o
	}
	hierarchy := loc("Rwanda", []string{"Ruanda"},
		loc("Kigali City", []string{"Kigali", "Kigari"},
			loc("Gasabo", nil, loc("Centre", []string{"Downtown"}), loc("Gisozi", nil), loc("Ndera", nil)),
			loc("Nyarugenge", nil, loc("Centre", []string{"Downtown"}), loc("Gitega", nil))),
		loc("Eastern Province", []string{"East"},
			loc("Rwamagana", nil, loc("Kigabiro", nil), loc("Centre", nil)),
			loc("Gasabo", nil, loc("Remera", nil), loc("Centre", []string{"Downtown"}))))
	where := "@(has_ward(trigger.params.ward, trigger.params.district, trigger.params.state).match) / " +
		"@(has_district(trigger.params.district, trigger.params.state).match) / @(has_state(trigger.params.state).match)"
	mainFlow := obj{
		"uuid": flowMain, "name": "C09 Locations", "spec_version": "13.6.0", "language": "eng", "type": "messaging",
		"revision": 1, "expire_after_minutes": 60, "localization": obj{},
		"nodes": []obj{
			{
				"uuid": lu(100),
				"actions": []obj{
					{"uuid": lu(101), "type": "set_contact_field", "field": obj{"key": "state", "name": "State"}, "value": "@trigger.params.state"},
					{"uuid": lu(102), "type": "set_contact_field", "field": obj{"key": "district", "name": "District"}, "value": "@trigger.params.district"},
					{"uuid": lu(103), "type": "set_contact_field", "field": obj{"key": "ward", "name": "Ward"}, "value": "@trigger.params.ward"},
					{"uuid": lu(104), "type": "send_msg", "text": "You are in @fields.ward / @fields.district / @fields.state. " + where},
				},
				"router": obj{
					"type": "switch", "operand": "@input.text", "result_name": "Where",
					"wait":                  obj{"type": "msg"},
					"default_category_uuid": lu(123),
					"categories": []obj{{"uuid": lu(121), "name": "Ward", "exit_uuid": lu(141)}, {"uuid": lu(122), "name": "District", "exit_uuid": lu(142)},
						{"uuid": lu(123), "name": "Other", "exit_uuid": lu(143)}},
					"cases": []obj{
						{"uuid": lu(130), "type": "has_ward", "arguments": []string{"@trigger.params.district", "@trigger.params.state"}, "category_uuid": lu(121)},
						{"uuid": lu(131), "type": "has_district", "arguments": []string{"@trigger.params.state"}, "category_uuid": lu(122)},
					},
				},
				"exits": []obj{{"uuid": lu(141), "destination_uuid": lu(150)}, {"uuid": lu(142), "destination_uuid": lu(150)}, {"uuid": lu(143), "destination_uuid": lu(150)}},
			},
			{
				"uuid": lu(150),
				"actions": []obj{
					{"uuid": lu(151), "type": "set_contact_field", "field": obj{"key": "ward", "name": "Ward"}, "value": "@input.text"},
					{"uuid": lu(152), "type": "send_msg", "text": "Resolved @results.where.category: @results.where.value, now @fields.ward. " + where},
				},
				"exits": []obj{{"uuid": lu(161)}},
			},
		},
	}
	assetsJSON := obj{
		"flows": []obj{mainFlow},
		"fields": []obj{
			{"uuid": lu(20), "key": "state", "name": "State", "type": "state"},
			{"uuid": lu(21), "key": "district", "name": "District", "type": "district"},
			{"uuid": lu(22), "key": "ward", "name": "Ward", "type": "ward"},
		},
		"channels":  []obj{{"uuid": channel, "name": "Android", "address": "+17036975131", "schemes": []string{"tel"}, "roles": []string{"send", "receive"}, "country": "US"}},
		"locations": []obj{hierarchy},
	}
	raw, err := json.MarshalIndent(assetsJSON, "", " ")
	if err != nil {
		panic(err)
	}
	env := obj{"allowed_languages": []string{"eng"}, "date_format": "YYYY-MM-DD", "time_format": "hh:mm", "timezone": "Africa/Kigali"}
	places := []struct{ state, district, ward, answer string }{
		{"Kigali City", "Gasabo", "Centre", "centre"}, {"Kigali City", "Nyarugenge", "Centre", "downtown"},
		{"Eastern Province", "Gasabo", "Centre", "Downtown"}, {"Eastern Province", "Rwamagana", "Centre", "centre"},
		{"Kigali", "Gasabo", "Gisozi", "Centre"}, {"East", "Gasabo", "Remera", "centre"},
		{"Kigali City", "Nyarugenge", "Gitega", "Centre"}, {"Eastern Province", "Rwamagana", "centre", "Kigabiro"},
	}
	sc := &scenario{Name: "locations", Assets: raw}
	for i, pl := range places {
		c := obj{"uuid": fmt.Sprintf("c0910c%02d-0000-4000-a000-%012d", i, 9000+i), "id": 9000 + i, "name": fmt.Sprintf("Resident %d", i), "language": "eng", "status": "active",
			"created_on": "2000-01-01T00:00:00.000000000-00:00", "urns": []string{fmt.Sprintf("tel:+1206555%04d", 300+i)}}
		tb, _ := json.Marshal(obj{"type": "manual", "flow": obj{"uuid": flowMain, "name": "C09 Locations"}, "contact": c, "environment": env,
			"triggered_on": "2000-01-01T00:00:00.000000000-00:00", "params": obj{"state": pl.state, "district": pl.district, "ward": pl.ward}})
		rb, _ := json.Marshal(obj{"type": "msg", "resumed_on": "2000-01-01T00:00:00.000000000-00:00",
			"msg": obj{"uuid": lu(900 + i), "text": pl.answer, "urn": fmt.Sprintf("tel:+1206555%04d", 300+i), "channel": obj{"uuid": channel, "name": "Android"}}})
		sc.Scripts = append(sc.Scripts, script{Name: fmt.Sprintf("resident_%d_%s", i, pl.district), Trigger: tb, Resumes: []json.RawMessage{rb}})
	}
	if err := sc.derive(); err != nil {
		panic(err)
	}
	return sc
}
