//go:build !race

package main

// raceEnabled is false in a build without the race detector: the driver then refuses to run (a check of
// "no data races" without the detector would be vacuous).
const raceEnabled = false
