//go:build race

package main

// raceEnabled is true when the driver was built with `go build -race` (checks/C09.json: "race": true).
const raceEnabled = true
