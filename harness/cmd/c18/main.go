// Driver for C18 (localized text is chosen by the documented language fallback).
//
// Enumerates the configuration space exhaustively (contact language x allowed-language list x per-language
// translation state of the message text x which base properties are present), with the translation
// states of the other properties (attachments, quick replies, case arguments, category names) cycling
// through all 36 combinations, runs each through the REAL engine (a flow with a send_msg action, a
// set_run_result action with a localized category and a switch router with localized case arguments
// and a localized category name), and
//   - evaluates the property sentence directly on the observed events (direct oracle, spec in Go), and
//   - writes the observations to cases_C18_*.v so that the Coq model (model/Lang.v) is run on the same
//     configurations (correspondence).
package main

import (
	"sort"
	"encoding/json"
	"fmt"
	"strings"
	"time"

	"github.com/nyaruka/gocommon/i18n"
	"github.com/nyaruka/gocommon/urns"
	"github.com/nyaruka/gocommon/uuids"
	"github.com/nyaruka/goflow/assets"
	"github.com/nyaruka/goflow/assets/static"
	"github.com/nyaruka/goflow/envs"
	"github.com/nyaruka/goflow/flows"
	"github.com/nyaruka/goflow/flows/engine"
	"github.com/nyaruka/goflow/flows/events"
	"github.com/nyaruka/goflow/flows/triggers"

	"verifharness/pkg/hx"
)

// languages: index -> code; 0 is the nil language
var langCodes = []string{"", "eng", "fra", "spa", "kin"}

const baseLang = 1 // eng

// languages for which the localization may hold an entry; the last one is the flow's base language itself (a
// stale entry, e.g. left behind when the base language was switched) which must never win over the base text
var trLangs = []int{2, 3, 1}

// a URL that is one byte too long to be carried as the attachment "audio:<url>" (flows.MaxAttachmentLength = 2048)
func longURL(prefix string) string { return prefix + strings.Repeat("a", 2043-len(prefix)) }

// play_audio's base audio URL
func (c *config) playURL() string {
	if c.LongAudio == 1 {
		return longURL("http://x.io/play/")
	}
	return basePlayURL
}

// the attachment rule as the statement has it: a URL that doesn't fit into an attachment isn't sent
func keepAudio(u string) string {
	if len("audio:"+u) > 2048 {
		return ""
	}
	return u
}

func code(l int) i18n.Language { return i18n.Language(langCodes[l]) }

func langIndex(c string) int {
	for i, x := range langCodes {
		if x == c {
			return i
		}
	}
	return -1
}

var allowedLists = [][]int{{}, {1}, {2}, {2, 3}, {3, 2}, {1, 2}, {2, 1}, {3, 1, 2}, {4}, {4, 3}}
var contactLangs = []int{0, 1, 2, 3, 4}

// translation state of one property in one language
const (
	stAbsent = iota
	stEmptyArray
	stEmptyString
	stSame // translated, same length as base
	stDiff // translated, different length than base
	stDiffEmptyFirst // translated, different length, first element empty (the only way to a text-less message)
	nStates
)

// stored array for a property in language l (nil = absent)
func stored(state int, prop string, l int, baseLen int) ([]string, bool) {
	tag := prop[:1] + langCodes[l]
	if prop == "body" || prop == "say_text" {
		tag = prop[:2] + prop[len(prop)-1:] + langCodes[l]
	}
	mk := func(n int) []string {
		out := make([]string, n)
		for i := range out {
			switch prop {
			case "attachments":
				out[i] = fmt.Sprintf("image/jpeg:http://x.io/%s%d.jpg", tag, i)
			case "say_audio", "play_audio":
				out[i] = fmt.Sprintf("http://x.io/%s%s%d.mp3", prop[:1], tag, i)
			default:
				out[i] = fmt.Sprintf("%s%d", tag, i)
			}
		}
		return out
	}
	switch state {
	case stAbsent:
		return nil, false
	case stEmptyArray:
		return []string{}, true
	case stEmptyString:
		return []string{""}, true
	case stSame:
		n := baseLen
		if n == 0 {
			n = 1
		}
		return mk(n), true
	case stDiff:
		return mk(baseLen + 1), true
	default:
		out := mk(baseLen + 1)
		if singleText[prop] {
			// (entries of the other properties that evaluate to "" are dropped after the choice is made,
			// which is not what C18 is about)
			out[0] = ""
		}
		return out, true
	}
}

type config struct {
	ContactLang int                 `json:"contact_lang"`
	// >= 0: the flow first sends a message, then enters a child flow which sets the contact language to this one
	// (0 clears it) and completes; everything observed happens afterwards, in the parent run, in the same sprint
	ChildLang int `json:"child_lang"`
	Allowed     []int               `json:"allowed"`
	BaseText    string              `json:"text"`
	BaseAtts    []string            `json:"attachments"`
	BaseQRs     []string            `json:"quick_replies"`
	BaseArgs    []string            `json:"case_arguments"`
	BaseAudio   string              `json:"say_audio_url"` // say_msg's base audio URL ("" = none)
	// every non-empty text of the send_msg/send_broadcast action (base and translations) is replaced by an expression
	// that evaluates to "": the created message is text-less although its definition has a text
	EvalEmpty bool     `json:"text_evaluates_to_empty"`
	// 1: play_audio's base URL, 2: say_msg's base audio URL is too long to be an attachment ("audio:"+url > 2048 bytes)
	LongAudio int `json:"long_audio"`
	// some translated attachments are not attachments ("nope…") and some translated quick replies evaluate to "":
	// they are left out of the message after the choice is made, and the locale is decided on what is left
	Filter bool `json:"unsendable_parts"`
	// every non-empty text of say_msg (base and translations) is an expression that evaluates to a blank (" "): what
	// is spoken is the trimmed text, so the message is text-less and in the language of its audio URL
	SayBlank bool `json:"say_text_evaluates_to_blank"`
	BaseVars  []string `json:"template_variables"`
	Tr          map[string][][]string `json:"translations"` // prop -> per language index 2,3 and 1 (= the base language itself: a stale entry) -> stored (nil absent)
	States      map[string][3]int   `json:"states"`
}

const (
	flowUUID   = "11111111-1111-4111-8111-111111111111"
	nodeUUID   = "22222222-2222-4222-8222-222222222221"
	node2UUID  = "22222222-2222-4222-8222-222222222222"
	sendUUID   = "33333333-3333-4333-8333-333333333331"
	setresUUID = "33333333-3333-4333-8333-333333333332"
	bcastUUID  = "33333333-3333-4333-8333-333333333333"
	preUUID    = "33333333-3333-4333-8333-333333333334"
	enterUUID  = "33333333-3333-4333-8333-333333333335"
	setlangUUID = "33333333-3333-4333-8333-333333333336"
	childFlowUUID = "11111111-1111-4111-8111-111111111112"
	preNodeUUID = "22222222-2222-4222-8222-222222222220"
	childNodeUUID = "22222222-2222-4222-8222-222222222229"
	exitPreUUID = "66666666-6666-4666-8666-666666666669"
	exitChildUUID = "66666666-6666-4666-8666-666666666668"
	caseUUID   = "44444444-4444-4444-8444-444444444441"
	catBobUUID = "55555555-5555-4555-8555-555555555551"
	catOthUUID = "55555555-5555-4555-8555-555555555552"
	exit0UUID  = "66666666-6666-4666-8666-666666666660"
	exit1UUID  = "66666666-6666-4666-8666-666666666661"
	exit2UUID  = "66666666-6666-4666-8666-666666666662"
	emailUUID  = "33333333-3333-4333-8333-333333333337"
	sayUUID    = "33333333-3333-4333-8333-333333333338"
	playUUID   = "33333333-3333-4333-8333-333333333339"
	voiceFlowUUID = "11111111-1111-4111-8111-111111111113"
	voiceNodeUUID = "22222222-2222-4222-8222-222222222228"
	exitVoiceUUID = "66666666-6666-4666-8666-666666666667"
	basePlayURL = "http://x.io/play.mp3"
	tplFlowUUID = "11111111-1111-4111-8111-111111111114"
	tplNodeUUID = "22222222-2222-4222-8222-222222222227"
	exitTplUUID = "66666666-6666-4666-8666-666666666666"
	tplSendUUID = "33333333-3333-4333-8333-33333333333a"
	templateUUID = "88888888-8888-4888-8888-888888888881"
	channelUUID = "99999999-9999-4999-8999-999999999992"
	blankExpr   = `@(" ")`          // evaluates to one space: a text that is blank but not empty
	emptyExpr   = "@fields.caption" // a field the contact has no value for: evaluates to "" without an error
)

// name = key of config.Tr/States; item, prop = where the translation is stored in the localization; voice = the item
// lives in the voice flow
var props = []struct {
	name, item, prop string
	voice            bool
}{
	{"text", sendUUID, "text", false}, {"attachments", sendUUID, "attachments", false}, {"quick_replies", sendUUID, "quick_replies", false},
	{"arguments", caseUUID, "arguments", false}, {"name", catBobUUID, "name", false}, {"category", setresUUID, "category", false},
	{"subject", emailUUID, "subject", false}, {"body", emailUUID, "body", false},
	{"say_text", sayUUID, "text", true}, {"say_audio", sayUUID, "audio_url", true}, {"play_audio", playUUID, "audio_url", true},
	{"template_variables", tplSendUUID, "template_variables", true},
}

// single-text properties (read with GetText)
var singleText = map[string]bool{"text": true, "name": true, "category": true, "subject": true, "body": true,
	"say_text": true, "say_audio": true, "play_audio": true}

func buildAssets(c *config) []byte {
	loc := map[string]map[string]map[string][]string{}
	vloc := map[string]map[string]map[string][]string{}
	tloc := map[string]map[string]map[string][]string{}
	// with EvalEmpty every non-empty text of the message (base and translations) is an expression evaluating to ""
	ee := func(t string) string {
		if c.EvalEmpty && t != "" {
			return emptyExpr
		}
		return t
	}
	for _, p := range props {
		for li, l := range trLangs {
			arr := c.Tr[p.name][li]
			if arr == nil {
				continue
			}
			lc := langCodes[l]
			if p.item == tplSendUUID {
				if tloc[lc] == nil {
					tloc[lc] = map[string]map[string][]string{}
				}
				tloc[lc][p.item] = map[string][]string{p.prop: arr}
				continue
			}
			if p.name == "text" || p.name == "say_text" {
				arr2 := make([]string, len(arr))
				for i, t := range arr {
					arr2[i] = ee(t)
					if p.name == "say_text" && c.SayBlank && t != "" {
						arr2[i] = blankExpr
					}
				}
				arr = arr2
			}
			if p.voice {
				if vloc[lc] == nil {
					vloc[lc] = map[string]map[string][]string{}
				}
				if vloc[lc][p.item] == nil {
					vloc[lc][p.item] = map[string][]string{}
				}
				vloc[lc][p.item][p.prop] = arr
				continue
			}
			if loc[lc] == nil {
				loc[lc] = map[string]map[string][]string{}
			}
			if loc[lc][p.item] == nil {
				loc[lc][p.item] = map[string][]string{}
			}
			loc[lc][p.item][p.prop] = arr
			// the send_broadcast action carries the same three properties with the same translations
			if p.item == sendUUID {
				if loc[lc][bcastUUID] == nil {
					loc[lc][bcastUUID] = map[string][]string{}
				}
				loc[lc][bcastUUID][p.name] = arr
			}
		}
	}
	flow := map[string]any{
		"uuid": flowUUID, "name": "C18", "spec_version": "13.6.1", "language": langCodes[baseLang], "type": "messaging",
		"localization": loc,
		"nodes": []any{
			map[string]any{
				"uuid": nodeUUID,
				"actions": []any{
					map[string]any{"uuid": sendUUID, "type": "send_msg", "text": ee(c.BaseText), "attachments": c.BaseAtts, "quick_replies": c.BaseQRs},
					map[string]any{"uuid": setresUUID, "type": "set_run_result", "name": "sr", "value": "v", "category": "Cat"},
					map[string]any{"uuid": bcastUUID, "type": "send_broadcast", "text": ee(c.BaseText), "attachments": c.BaseAtts, "quick_replies": c.BaseQRs,
						"contacts": []any{map[string]any{"uuid": "77777777-7777-4777-8777-777777777771", "name": "Other"}}},
					map[string]any{"uuid": emailUUID, "type": "send_email", "addresses": []string{"a@x.io"}, "subject": "subj", "body": "body"},
				},
				"exits": []any{map[string]any{"uuid": exit0UUID, "destination_uuid": node2UUID}},
			},
			map[string]any{
				"uuid": node2UUID,
				"router": map[string]any{
					"type": "switch", "operand": "@contact.name", "result_name": "rr",
					"cases": []any{map[string]any{"uuid": caseUUID, "type": "has_number_between", "arguments": c.BaseArgs, "category_uuid": catBobUUID}},
					"categories": []any{
						map[string]any{"uuid": catBobUUID, "name": "Bob", "exit_uuid": exit1UUID},
						map[string]any{"uuid": catOthUUID, "name": "Other", "exit_uuid": exit2UUID},
					},
					"default_category_uuid": catOthUUID,
				},
				"exits": []any{map[string]any{"uuid": exit1UUID}, map[string]any{"uuid": exit2UUID}},
			},
		},
	}
	say := map[string]any{"uuid": sayUUID, "type": "say_msg", "text": ee("say")}
	if c.SayBlank {
		say["text"] = blankExpr
	}
	if c.BaseAudio != "" {
		say["audio_url"] = c.BaseAudio
	}
	voice := map[string]any{
		"uuid": voiceFlowUUID, "name": "C18 voice", "spec_version": "13.6.1", "language": langCodes[baseLang], "type": "voice",
		"localization": vloc,
		"nodes": []any{map[string]any{
			"uuid": voiceNodeUUID,
			"actions": []any{say, map[string]any{"uuid": playUUID, "type": "play_audio", "audio_url": c.playURL()}},
			"exits":   []any{map[string]any{"uuid": exitVoiceUUID}},
		}},
	}
	tpl := map[string]any{
		"uuid": tplFlowUUID, "name": "C18 template", "spec_version": "13.6.1", "language": langCodes[baseLang], "type": "messaging",
		"localization": tloc,
		"nodes": []any{map[string]any{
			"uuid": tplNodeUUID,
			"actions": []any{map[string]any{"uuid": tplSendUUID, "type": "send_msg", "text": "tpl",
				"template": map[string]any{"uuid": templateUUID, "name": "greet"}, "template_variables": c.BaseVars}},
			"exits": []any{map[string]any{"uuid": exitTplUUID}},
		}},
	}
	flowList := []any{flow, voice, tpl}
	if c.ChildLang >= 0 {
		// the parent localizes something first (a message), enters the child, and continues with the nodes above
		nodes := flow["nodes"].([]any)
		pre := map[string]any{
			"uuid": preNodeUUID,
			"actions": []any{
				map[string]any{"uuid": preUUID, "type": "send_msg", "text": "before"},
				map[string]any{"uuid": enterUUID, "type": "enter_flow", "flow": map[string]any{"uuid": childFlowUUID, "name": "Child"}},
			},
			"exits": []any{map[string]any{"uuid": exitPreUUID, "destination_uuid": nodeUUID}},
		}
		flow["nodes"] = append([]any{pre}, nodes...)
		child := map[string]any{
			"uuid": childFlowUUID, "name": "Child", "spec_version": "13.6.1", "language": langCodes[baseLang], "type": "messaging",
			"nodes": []any{map[string]any{
				"uuid":    childNodeUUID,
				"actions": []any{map[string]any{"uuid": setlangUUID, "type": "set_contact_language", "language": langCodes[c.ChildLang]}},
				"exits":   []any{map[string]any{"uuid": exitChildUUID}},
			}},
		}
		flowList = append(flowList, child)
	}
	chRef := map[string]any{"uuid": channelUUID, "name": "WA"}
	b, err := json.Marshal(map[string]any{"flows": flowList,
		"fields":   []any{map[string]any{"uuid": "aaaaaaaa-aaaa-4aaa-8aaa-aaaaaaaaaaa1", "key": "caption", "name": "Caption", "type": "text"}},
		"channels": []any{map[string]any{"uuid": channelUUID, "name": "WA", "address": "+12065550000", "schemes": []string{"tel"}, "roles": []string{"send", "receive"}}},
		"templates": []any{map[string]any{"uuid": templateUUID, "name": "greet", "translations": []any{map[string]any{
			"channel": chRef, "locale": "eng-US",
			"components": []any{map[string]any{"name": "body", "type": "body/text", "content": "Hi {{1}} and {{2}}", "variables": map[string]int{"1": 0, "2": 1}}},
			"variables":  []any{map[string]any{"type": "text"}, map[string]any{"type": "text"}},
		}}}},
	})
	if err != nil {
		panic(err)
	}
	return b
}

type observed struct {
	Text        string   `json:"text"`
	Atts        []string `json:"attachments"`
	QRs         []string `json:"quick_replies"`
	Lang        int      `json:"lang"`
	SetResCatL  string   `json:"set_run_result_category_localized"`
	RouterCat   string   `json:"router_category"`
	RouterCatL  string   `json:"router_category_localized"`
	Bcast       []bcastTr `json:"broadcast_translations"` // sorted by language index
	Email       *[2]string `json:"email"`      // subject, body of the email_sent event (nil = skipped)
	Say         *ivr       `json:"say_msg"`    // ivr_created of say_msg (nil = skipped)
	Play        *ivr       `json:"play_audio"` // ivr_created of play_audio (nil = skipped)
	Errors      int        `json:"error_events"`
	TplPanic    string     `json:"template_panic,omitempty"`
	TplVars     []string   `json:"template_variables"` // values of the templating variables of the templated message
	ForContact  []bcastTr  `json:"broadcast_for_contact"` // BroadcastTranslations.ForContact for a recipient of each language (Lang = recipient's language; the locale's language is in Locale)
	ForLocale   []int      `json:"broadcast_for_contact_locale"`
}

type ivr struct {
	Text  string `json:"text"`
	Audio string `json:"audio_url"`
	Lang  int    `json:"lang"`
}

type emailSvc struct{}

func (emailSvc) Send(addresses []string, subject, body string) error { return nil }

type bcastTr struct {
	Lang int      `json:"lang"`
	Text string   `json:"text"`
	Atts []string `json:"attachments"`
	QRs  []string `json:"quick_replies"`
}

func run(c *config) (*observed, error) {
	src, err := static.NewSource(buildAssets(c))
	if err != nil {
		return nil, err
	}
	eb := envs.NewBuilder().WithDefaultCountry("US")
	al := make([]i18n.Language, len(c.Allowed))
	for i, l := range c.Allowed {
		al[i] = code(l)
	}
	eb = eb.WithAllowedLanguages(al...)
	env := eb.Build()
	sa, err := engine.NewSessionAssets(env, src, nil)
	if err != nil {
		return nil, err
	}
	flow, err := sa.Flows().Get(flowUUID)
	if err != nil {
		return nil, err
	}
	contact, err := flows.NewContact(sa, flows.ContactUUID(uuids.NewV4()), flows.ContactID(7), "5", code(c.ContactLang),
		flows.ContactStatusActive, nil, time.Date(2020, 1, 1, 0, 0, 0, 0, time.UTC), nil, nil, nil, nil, nil, assets.PanicOnMissing)
	if err != nil {
		return nil, err
	}
	eng := engine.NewBuilder().WithEmailServiceFactory(func(flows.SessionAssets) (flows.EmailService, error) { return emailSvc{}, nil }).Build()
	trigger := triggers.NewBuilder(env, flow.Reference(false), contact).Manual().Build()
	session, sprint, err := eng.NewSession(sa, trigger)
	if err != nil {
		return nil, err
	}
	o := &observed{Lang: -1}
	results := session.Runs()[0].Results()
	if r := results.Get("sr"); r != nil {
		o.SetResCatL = r.CategoryLocalized
	}
	if r := results.Get("rr"); r != nil {
		o.RouterCat = r.Category
		o.RouterCatL = r.CategoryLocalized
	}
	nmsg := 0
	for _, e := range sprint.Events() {
		switch ev := e.(type) {
		case *events.MsgCreatedEvent:
			nmsg++
			o.Atts, o.QRs = nil, nil
			o.Text = ev.Msg.Text()
			for _, a := range ev.Msg.Attachments() {
				o.Atts = append(o.Atts, string(a))
			}
			o.QRs = append(o.QRs, ev.Msg.QuickReplies()...)
			lang, _ := ev.Msg.Locale().Split()
			o.Lang = langIndex(string(lang))
		case *events.BroadcastCreatedEvent:
			if langIndex(string(ev.BaseLanguage)) != baseLang {
				return nil, fmt.Errorf("broadcast base language %q", ev.BaseLanguage)
			}
			for l, tr := range ev.Translations {
				b := bcastTr{Lang: langIndex(string(l)), Text: tr.Text, Atts: []string{}, QRs: append([]string{}, tr.QuickReplies...)}
				for _, a := range tr.Attachments {
					b.Atts = append(b.Atts, string(a))
				}
				o.Bcast = append(o.Bcast, b)
			}
			sort.Slice(o.Bcast, func(i, j int) bool { return o.Bcast[i].Lang < o.Bcast[j].Lang })
			// what a host gets for a recipient of each language (the library's own helper)
			for _, rl := range contactLangs {
				rc, err := flows.NewContact(sa, flows.ContactUUID(uuids.NewV4()), flows.ContactID(9), "R", code(rl),
					flows.ContactStatusActive, nil, time.Date(2020, 1, 1, 0, 0, 0, 0, time.UTC), nil, nil, nil, nil, nil, assets.PanicOnMissing)
				if err != nil {
					return nil, err
				}
				content, locale := ev.Translations.ForContact(env, rc, ev.BaseLanguage)
				b := bcastTr{Lang: rl, Text: content.Text, Atts: []string{}, QRs: append([]string{}, content.QuickReplies...)}
				for _, a := range content.Attachments {
					b.Atts = append(b.Atts, string(a))
				}
				o.ForContact = append(o.ForContact, b)
				ll, _ := locale.Split()
				o.ForLocale = append(o.ForLocale, langIndex(string(ll)))
			}
		case *events.EmailSentEvent:
			if o.Email != nil {
				return nil, fmt.Errorf("two email_sent events")
			}
			o.Email = &[2]string{ev.Subject, ev.Body}
		case *events.ErrorEvent:
			// the only action of this flow that can complain is send_email (empty subject or body: skipped)
			if c.Filter && (strings.Contains(ev.Text, "attachment evaluated to invalid") || strings.Contains(ev.Text, "quick reply evaluated to empty")) {
				continue
			}
			if !strings.Contains(ev.Text, "email") {
				return nil, fmt.Errorf("error event: %s", ev.Text)
			}
			o.Errors++
		}
	}
	if (o.Email == nil) != (o.Errors == 1) || o.Errors > 1 {
		return nil, fmt.Errorf("email sent=%v with %d error events", o.Email != nil, o.Errors)
	}
	if err := runVoice(c, env, sa, eng, o); err != nil {
		return nil, err
	}
	if err := runTemplate(c, env, sa, eng, o); err != nil {
		if !strings.HasPrefix(err.Error(), "PANIC") {
			return nil, err
		}
		o.TplPanic = err.Error()
	}
	if o.Bcast == nil {
		return nil, fmt.Errorf("no broadcast_created event")
	}
	wantMsgs := 1
	if c.ChildLang >= 0 {
		wantMsgs = 2 // the message sent before the child flow, then the observed one (the last)
	}
	if nmsg != wantMsgs {
		return nil, fmt.Errorf("expected %d msg_created, got %d", wantMsgs, nmsg)
	}
	if o.Lang < 0 {
		return nil, fmt.Errorf("unknown locale language")
	}
	return o, nil
}

// the voice flow (say_msg, play_audio), for a contact whose language is the one in force in the messaging run
func runVoice(c *config, env envs.Environment, sa flows.SessionAssets, eng flows.Engine, o *observed) error {
	flow, err := sa.Flows().Get(voiceFlowUUID)
	if err != nil {
		return err
	}
	contact, err := flows.NewContact(sa, flows.ContactUUID(uuids.NewV4()), flows.ContactID(8), "5", code(c.effLang()),
		flows.ContactStatusActive, nil, time.Date(2020, 1, 1, 0, 0, 0, 0, time.UTC), nil, nil, nil, nil, nil, assets.PanicOnMissing)
	if err != nil {
		return err
	}
	ch := assets.NewChannelReference("99999999-9999-4999-8999-999999999991", "Voice")
	trigger := triggers.NewBuilder(env, flow.Reference(false), contact).Manual().WithCall(ch, "tel:+12065551212").Build()
	_, sprint, err := eng.NewSession(sa, trigger)
	if err != nil {
		return err
	}
	// say_msg runs first, play_audio second: an ivr_created with text (or an error mentioning "backdown") belongs to
	// say_msg, one without text (or an error mentioning "audio URL evaluated") to play_audio
	nerr := 0
	for _, e := range sprint.Events() {
		switch ev := e.(type) {
		case *events.IVRCreatedEvent:
			lang, _ := ev.Msg.Locale().Split()
			m := &ivr{Text: ev.Msg.Text(), Lang: langIndex(string(lang))}
			if len(ev.Msg.Attachments()) > 1 {
				return fmt.Errorf("ivr message with %d attachments", len(ev.Msg.Attachments()))
			}
			for _, a := range ev.Msg.Attachments() {
				if a.ContentType() != "audio" {
					return fmt.Errorf("ivr attachment %q", a)
				}
				m.Audio = a.URL()
			}
			if m.Lang < 0 {
				return fmt.Errorf("unknown ivr locale %q", ev.Msg.Locale())
			}
			// which action: play_audio's URLs are recognisable (base .../play.mp3, translations .../p…)
			if m.Text == "" && (m.Audio == c.playURL() || strings.HasPrefix(m.Audio, "http://x.io/pp")) {
				if o.Play != nil {
					return fmt.Errorf("two play_audio messages")
				}
				o.Play = m
			} else {
				if o.Say != nil {
					return fmt.Errorf("two say_msg messages")
				}
				o.Say = m
			}
		case *events.ErrorEvent:
			nerr++
		}
	}
	missing := 0
	if o.Say == nil {
		missing++
	}
	if o.Play == nil {
		missing++
	}
	// say_msg whose audio URL is too long reports that and goes on with its text
	if nerr != missing && !(c.LongAudio == 2 && nerr == missing+1) {
		return fmt.Errorf("voice flow: %d error events, %d skipped actions", nerr, missing)
	}
	return nil
}

// the template flow: a send_msg built from a channel template whose variables are localized
func runTemplate(c *config, env envs.Environment, sa flows.SessionAssets, eng flows.Engine, o *observed) (err error) {
	defer func() {
		if r := recover(); r != nil {
			err = fmt.Errorf("PANIC in templated send_msg: %v", r)
		}
	}()
	flow, err := sa.Flows().Get(tplFlowUUID)
	if err != nil {
		return err
	}
	contact, err := flows.NewContact(sa, flows.ContactUUID(uuids.NewV4()), flows.ContactID(10), "5", code(c.effLang()),
		flows.ContactStatusActive, nil, time.Date(2020, 1, 1, 0, 0, 0, 0, time.UTC), nil, []urns.URN{"tel:+12065551212"}, nil, nil, nil, assets.PanicOnMissing)
	if err != nil {
		return err
	}
	trigger := triggers.NewBuilder(env, flow.Reference(false), contact).Manual().Build()
	_, sprint, err := eng.NewSession(sa, trigger)
	if err != nil {
		return err
	}
	n := 0
	for _, e := range sprint.Events() {
		switch ev := e.(type) {
		case *events.MsgCreatedEvent:
			n++
			if ev.Msg.Templating() == nil {
				return fmt.Errorf("message of the template flow has no templating")
			}
			o.TplVars = []string{}
			for _, v := range ev.Msg.Templating().Variables {
				o.TplVars = append(o.TplVars, v.Value)
			}
		case *events.ErrorEvent:
			return fmt.Errorf("template flow: error event: %s", ev.Text)
		}
	}
	if n != 1 {
		return fmt.Errorf("template flow: %d msg_created events", n)
	}
	return nil
}

// ---- direct oracle: the sentence of C18, in Go, independent of the Coq model -----------------------

// the contact language in force when the observed items are localized
func (c *config) effLang() int {
	if c.ChildLang >= 0 {
		return c.ChildLang
	}
	return c.ContactLang
}

// what is left of a chosen list in the message as created: values that aren't attachments and quick replies that
// evaluate to "" are not sent (only the Filter configurations have such values)
func sendable(prop string, arr []string) []string {
	if prop != "attachments" && prop != "quick_replies" {
		return arr
	}
	out := make([]string, 0, len(arr))
	for _, a := range arr {
		if (prop == "attachments" && strings.HasPrefix(a, "nope")) || (prop == "quick_replies" && a == emptyExpr) {
			continue
		}
		out = append(out, a)
	}
	return out
}

func nonEmpty(arr []string) bool { return arr != nil && len(arr) > 0 && !(len(arr) == 1 && arr[0] == "") }

// pick returns what the statement prescribes for one property: value and language used
func pick(c *config, prop string, native []string) ([]string, int) {
	return pickL(c, c.effLang(), prop, native)
}

// the same for a contact of language cl
func pickL(c *config, cl int, prop string, native []string) ([]string, int) {
	a, l := pickRaw(c, cl, prop, native)
	return sendable(prop, a), l
}

func pickRaw(c *config, cl int, prop string, native []string) ([]string, int) {
	var cands []int
	if cl != 0 {
		for _, a := range c.Allowed {
			if a == cl {
				cands = append(cands, cl)
				break
			}
		}
	}
	if len(c.Allowed) > 0 {
		cands = append(cands, c.Allowed[0])
	}
	cands = append(cands, baseLang)
	for _, l := range cands {
		if l == baseLang {
			return native, baseLang
		}
		if l == 2 || l == 3 {
			if arr := c.Tr[prop][l-2]; nonEmpty(arr) {
				return arr, l
			}
		}
	}
	return native, baseLang
}

// languages the flow's localization has entries for, in the order Localization.Languages() gives them (sorted codes)
func locLangs(c *config) []int {
	var out []int
	for _, l := range []int{1, 2, 3} { // eng < fra < spa
		for li, tl := range trLangs {
			if tl != l {
				continue
			}
			for _, p := range props {
				if !p.voice && c.Tr[p.name][li] != nil {
					out = append(out, l)
					goto next
				}
			}
		}
	next:
	}
	return out
}

// what the statement prescribes for one property of a broadcast in language l: the translation of l when it is
// not the base language and has a non-empty one, the base value otherwise
func pickFor(c *config, prop string, native []string, l int) []string {
	if l != baseLang && (l == 2 || l == 3) {
		if arr := c.Tr[prop][l-2]; nonEmpty(arr) {
			return sendable(prop, arr)
		}
	}
	return sendable(prop, native)
}

func eqs(a, b []string) bool {
	if len(a) != len(b) {
		return false
	}
	for i := range a {
		if a[i] != b[i] {
			return false
		}
	}
	return true
}

func oracle(c *config, o *observed, res *hx.Result) {
	fail := func(class, detail string) { res.Fail(class, c, detail) }
	txt, tl := pick(c, "text", []string{c.BaseText})
	if c.EvalEmpty { // every text of the message evaluates to "": the message is created without text
		txt = []string{""}
	}
	if o.Text != txt[0] {
		fail("text-choice", fmt.Sprintf("text %q, statement prescribes %q", o.Text, txt[0]))
	}
	atts, al := pick(c, "attachments", c.BaseAtts)
	if !eqs(o.Atts, atts) {
		fail("attachments-choice", fmt.Sprintf("attachments %v, statement prescribes %v", o.Atts, atts))
	}
	qrs, ql := pick(c, "quick_replies", c.BaseQRs)
	if !eqs(o.QRs, qrs) {
		fail("quick-replies-choice", fmt.Sprintf("quick replies %v, statement prescribes %v", o.QRs, qrs))
	}
	want := 0
	if txt[0] != "" {
		want = tl
	} else if len(atts) > 0 {
		want = al
	} else if len(qrs) > 0 {
		want = ql
	}
	if o.Lang != want {
		fail("locale", fmt.Sprintf("locale language %q, statement prescribes %q", langCodes[o.Lang], langCodes[want]))
	}
	// router: arguments by the same chain (ignored when of a different length); category name localized
	// the statement knows no length rule: the arguments the chain picks are the ones compared (a has_number_between
	// given another number of arguments than two matches nothing)
	args, argLang := pick(c, "arguments", c.BaseArgs)
	wantCat := "Other"
	if len(args) == 2 && args[0] == "1" && args[1] == "10" {
		wantCat = "Bob"
	}
	if o.RouterCat != wantCat {
		class := "router-arguments"
		// the code ignores a translation whose length differs from the base arguments' and compares the BASE
		// arguments instead: if that explains what is observed, it is that (recorded) finding
		if len(args) != len(c.BaseArgs) {
			baseCat := "Other"
			if len(c.BaseArgs) == 2 && c.BaseArgs[0] == "1" && c.BaseArgs[1] == "10" {
				baseCat = "Bob"
			}
			if o.RouterCat == baseCat {
				class = "router-arguments:translation-of-other-length-replaced-by-base"
			}
		}
		fail(class, fmt.Sprintf("router category %q, statement prescribes %q (arguments %v of %q)", o.RouterCat, wantCat, args, langCodes[argLang]))
	}
	if wantCat == "Bob" && o.RouterCat == "Bob" {
		name, _ := pick(c, "name", []string{""})
		if o.RouterCatL != name[0] {
			fail("category-name", fmt.Sprintf("category_localized %q, statement prescribes %q", o.RouterCatL, name[0]))
		}
	}
	cat, _ := pick(c, "category", []string{"Cat"})
	wantL := cat[0]
	if wantL == "Cat" {
		wantL = ""
	}
	if o.SetResCatL != wantL {
		fail("set-run-result-category", fmt.Sprintf("category_localized %q, statement prescribes %q", o.SetResCatL, wantL))
	}
	// send_broadcast: one content per language (base + every language of the localization), each property resolved
	// independently for that language
	wantLangs := map[int]bool{baseLang: true}
	for _, l := range locLangs(c) {
		wantLangs[l] = true
	}
	if len(o.Bcast) != len(wantLangs) {
		fail("broadcast-languages", fmt.Sprintf("broadcast has %d translations, localization + base give %d languages", len(o.Bcast), len(wantLangs)))
	}
	for _, b := range o.Bcast {
		if !wantLangs[b.Lang] {
			fail("broadcast-languages", fmt.Sprintf("broadcast has a translation for %q", langCodes[b.Lang]))
			continue
		}
		if t := pickFor(c, "text", []string{c.BaseText}, b.Lang); b.Text != t[0] && !(c.EvalEmpty && b.Text == "") {
			fail("broadcast-text-choice", fmt.Sprintf("%s text %q, statement prescribes %q", langCodes[b.Lang], b.Text, t[0]))
		}
		if a := pickFor(c, "attachments", c.BaseAtts, b.Lang); !eqs(b.Atts, a) {
			fail("broadcast-attachments-choice", fmt.Sprintf("%s attachments %v, statement prescribes %v", langCodes[b.Lang], b.Atts, a))
		}
		if q := pickFor(c, "quick_replies", c.BaseQRs, b.Lang); !eqs(b.QRs, q) {
			fail("broadcast-quick-replies-choice", fmt.Sprintf("%s quick replies %v, statement prescribes %v", langCodes[b.Lang], b.QRs, q))
		}
	}
	// send_email: subject and body by the same chain, each on its own; skipped when one of them is empty
	first := func(prop, native string) (string, int) { a, l := pick(c, prop, []string{native}); return a[0], l }
	subj, _ := first("subject", "subj")
	body, _ := first("body", "body")
	switch {
	case subj == "" || body == "":
		if o.Email != nil {
			fail("email-choice", fmt.Sprintf("email sent with subject %q body %q, statement prescribes subject %q body %q (skipped)", o.Email[0], o.Email[1], subj, body))
		}
	case o.Email == nil:
		fail("email-choice", fmt.Sprintf("no email, statement prescribes subject %q body %q", subj, body))
	case o.Email[0] != subj || o.Email[1] != body:
		fail("email-choice", fmt.Sprintf("email subject %q body %q, statement prescribes %q / %q", o.Email[0], o.Email[1], subj, body))
	}
	// say_msg: text and audio URL by the chain, each on its own; the locale names the language of the text
	st, stl := first("say_text", "say")
	if c.EvalEmpty || c.SayBlank { // the text of the message evaluates to ""
		st = ""
	}
	sa, sal := first("say_audio", c.BaseAudio)
	sa = keepAudio(sa)
	if st == "" {
		// a message without text is in the language of its attachment (the audio URL)
		stl = sal
	}
	switch {
	case st == "" && sa == "":
		if o.Say != nil {
			fail("say-msg-choice", fmt.Sprintf("say_msg produced %+v, statement prescribes nothing to say", *o.Say))
		}
	case o.Say == nil:
		fail("say-msg-choice", fmt.Sprintf("no ivr message, statement prescribes text %q audio %q", st, sa))
	default:
		if o.Say.Text != st || o.Say.Audio != sa {
			fail("say-msg-choice", fmt.Sprintf("say_msg text %q audio %q, statement prescribes %q / %q", o.Say.Text, o.Say.Audio, st, sa))
		}
		if o.Say.Lang != stl {
			fail("say-msg-locale", fmt.Sprintf("say_msg locale %q, statement prescribes %q (the language of its text, or of its audio URL when it has no text)", langCodes[o.Say.Lang], langCodes[stl]))
		}
	}
	// play_audio: a text-less message; the locale names the language of its attachment
	pa, pal := first("play_audio", c.playURL())
	pa = keepAudio(pa)
	switch {
	case pa == "":
		if o.Play != nil {
			fail("play-audio-choice", fmt.Sprintf("play_audio produced %+v, statement prescribes an empty URL", *o.Play))
		}
	case o.Play == nil:
		fail("play-audio-choice", fmt.Sprintf("no ivr message, statement prescribes audio %q", pa))
	default:
		if o.Play.Text != "" || o.Play.Audio != pa {
			fail("play-audio-choice", fmt.Sprintf("play_audio text %q audio %q, statement prescribes audio %q", o.Play.Text, o.Play.Audio, pa))
		}
		if o.Play.Lang != pal {
			fail("play-audio-locale", fmt.Sprintf("play_audio locale %q, its attachment is in %q", langCodes[o.Play.Lang], langCodes[pal]))
		}
	}
	// templated message: its variables are a localized property of the action like any other
	tv, _ := pick(c, "template_variables", c.BaseVars)
	wantVars := []string{"", ""}
	for i := range wantVars {
		if i < len(tv) {
			wantVars[i] = tv[i]
		}
	}
	if o.TplPanic != "" {
		fail("panic:templated-send_msg", o.TplPanic)
	} else if !eqs(o.TplVars, wantVars) {
		fail("template-variables-choice", fmt.Sprintf("template variables %v, statement prescribes %v", o.TplVars, wantVars))
	}
	// what a recipient of the broadcast gets (BroadcastTranslations.ForContact over the event): the chain for THAT contact
	for i, fc := range o.ForContact {
		rl := fc.Lang
		part := func(prop string, native []string) ([]string, int) {
			v, l := pickL(c, rl, prop, native)
			if prop == "text" && c.EvalEmpty {
				v = []string{""}
			}
			return v, l
		}
		wt, wtl := part("text", []string{c.BaseText})
		wa, wal := part("attachments", c.BaseAtts)
		wq, wql := part("quick_replies", c.BaseQRs)
		wl := 0
		if wt[0] != "" {
			wl = wtl
		} else if len(wa) > 0 {
			wl = wal
		} else if len(wq) > 0 {
			wl = wql
		}
		// what the event's base-filled entries explain: every language's entry holds the base value for a part it has
		// no translation of, and ForContact takes the first non-empty part along [recipient if allowed, default, base]
		var chain []int
		if rl != 0 {
			for _, a := range c.Allowed {
				if a == rl {
					chain = append(chain, rl)
				}
			}
		}
		if len(c.Allowed) > 0 {
			chain = append(chain, c.Allowed[0])
		}
		chain = append(chain, baseLang)
		inEvent := map[int]bool{baseLang: true}
		for _, l := range locLangs(c) {
			inEvent[l] = true
		}
		et, etl, ea, eq := "", 0, []string{}, []string{}
		for _, l := range chain {
			if !inEvent[l] {
				continue
			}
			if t := pickFor(c, "text", []string{c.BaseText}, l); et == "" && t[0] != "" && !c.EvalEmpty {
				et, etl = t[0], l
			}
			if a := pickFor(c, "attachments", c.BaseAtts, l); len(ea) == 0 && len(a) > 0 {
				ea = a
			}
			if q := pickFor(c, "quick_replies", c.BaseQRs, l); len(eq) == 0 && len(q) > 0 {
				eq = q
			}
		}
		cls := func(part string, explained bool) string {
			if explained {
				return "broadcast-for-contact:" + part + ":untranslated-part-filled-with-base"
			}
			return "broadcast-for-contact:" + part
		}
		who := fmt.Sprintf("recipient language %q", langCodes[rl])
		if fc.Text != wt[0] {
			fail(cls("text", fc.Text == et), fmt.Sprintf("%s gets text %q, statement prescribes %q", who, fc.Text, wt[0]))
		}
		if !eqs(fc.Atts, wa) {
			fail(cls("attachments", eqs(fc.Atts, ea)), fmt.Sprintf("%s gets attachments %v, statement prescribes %v", who, fc.Atts, wa))
		}
		if !eqs(fc.QRs, wq) {
			fail(cls("quick-replies", eqs(fc.QRs, eq)), fmt.Sprintf("%s gets quick replies %v, statement prescribes %v", who, fc.QRs, wq))
		}
		if o.ForLocale[i] != wl {
			// ForContact only ever reports the language of the ENTRY that supplied the text (an entry filled with the
			// base text reports its own language), and no language at all for a content without text
			if wt[0] == "" && fc.Text == "" && o.ForLocale[i] == 0 {
				fail("broadcast-for-contact:locale:text-less-content-reports-no-language", fmt.Sprintf("%s: content without text, locale has no language, statement prescribes %q (its attachments', then its quick replies')", who, langCodes[wl]))
			} else {
				fail(cls("locale", o.ForLocale[i] == etl), fmt.Sprintf("%s: locale language %q, statement prescribes %q", who, langCodes[o.ForLocale[i]], langCodes[wl]))
			}
		}
	}
	res.OracleChecks += 16
}

// ---- Coq emission ----------------------------------------------------------------------------------

func trCoq(c *config, prop string) string {
	var parts []string
	for li, l := range trLangs {
		arr := c.Tr[prop][li]
		if arr == nil {
			continue
		}
		parts = append(parts, fmt.Sprintf("(%s, %s)", hx.N(l), hx.List(arr, hx.Str)))
	}
	return "[" + strings.Join(parts, "; ") + "]"
}

func caseCoq(c *config, o *observed) string {
	return fmt.Sprintf("{| k_clang := %s; k_allowed := %s; k_text := %s; k_atts := %s; k_qrs := %s; k_args := %s;\n"+
		"     k_tr_text := %s; k_tr_atts := %s; k_tr_qrs := %s; k_tr_args := %s; k_tr_name := %s; k_tr_cat := %s;\n"+
		"     k_o_text := %s; k_o_atts := %s; k_o_qrs := %s; k_o_lang := %s; k_o_setres := %s; k_o_matched := %s; k_o_catl := %s;\n"+
		"     k_loc_langs := %s; k_o_bcast := %s;\n"+
		"     k_audio := %s; k_play := %s; k_tr_subject := %s; k_tr_body := %s; k_tr_say_text := %s; k_tr_say_audio := %s; k_tr_play_audio := %s;\n"+
		"     k_eval_empty := %s; k_say_blank := %s; k_tvars := %s; k_tr_tvars := %s; k_o_tvars := %s;\n"+
		"     k_o_forc := %s; k_o_forc_lang := %s;\n"+
		"     k_o_email := %s; k_o_say := %s; k_o_play := %s |}",
		hx.N(c.effLang()), hx.List(c.Allowed, hx.N), hx.Str(c.BaseText), hx.List(c.BaseAtts, hx.Str), hx.List(c.BaseQRs, hx.Str), hx.List(c.BaseArgs, hx.Str),
		trCoq(c, "text"), trCoq(c, "attachments"), trCoq(c, "quick_replies"), trCoq(c, "arguments"), trCoq(c, "name"), trCoq(c, "category"),
		hx.Str(o.Text), hx.List(o.Atts, hx.Str), hx.List(o.QRs, hx.Str), hx.N(o.Lang), hx.Str(o.SetResCatL), hx.Bool(o.RouterCat == "Bob"), hx.Str(o.RouterCatL),
		hx.List(locLangs(c), hx.N), hx.List(o.Bcast, func(b bcastTr) string {
			return fmt.Sprintf("(%s, (%s, (%s, %s)))", hx.N(b.Lang), hx.Str(b.Text), hx.List(b.Atts, hx.Str), hx.List(b.QRs, hx.Str))
		}),
		hx.Str(c.BaseAudio), hx.Str(c.playURL()), trCoq(c, "subject"), trCoq(c, "body"), trCoq(c, "say_text"), trCoq(c, "say_audio"), trCoq(c, "play_audio"),
		hx.Bool(c.EvalEmpty), hx.Bool(c.SayBlank), hx.List(c.BaseVars, hx.Str), trCoq(c, "template_variables"), hx.List(o.TplVars, hx.Str),
		hx.List(o.ForContact, func(b bcastTr) string {
			return fmt.Sprintf("(%s, (%s, (%s, %s)))", hx.N(b.Lang), hx.Str(b.Text), hx.List(b.Atts, hx.Str), hx.List(b.QRs, hx.Str))
		}), hx.List(o.ForLocale, hx.N),
		emailCoq(o.Email), ivrCoq(o.Say), ivrCoq(o.Play))
}

func emailCoq(e *[2]string) string {
	if e == nil {
		return "None"
	}
	return fmt.Sprintf("(Some (%s, %s))", hx.Str(e[0]), hx.Str(e[1]))
}

func ivrCoq(m *ivr) string {
	if m == nil {
		return "None"
	}
	return fmt.Sprintf("(Some (%s, (%s, %s)))", hx.Str(m.Text), hx.Str(m.Audio), hx.N(m.Lang))
}

const header = `From Coq Require Import List NArith Bool.
From Verif Require Import model.Lang model.LangCorr.
Import ListNotations.
Definition cases : list lcase := [`

func main() {
	o := hx.ParseOpts()
	res := hx.NewResult(o, "exhaustive product of contact language (5) x allowed-language list (10) x translation state of the "+
		"message text in two languages (36) x presence of base attachments/quick replies (4); in every fourth configuration the "+
		"flow first sends a message, enters a child flow that sets the contact language (cycling over unset and the four "+
		"languages) and everything is observed afterwards in the parent run; the states of the other "+
		"five properties cycle through all 36 combinations, and the state of a (stale) localization entry for the base "+
		"language itself cycles through its 6 values per property; every configuration is distinct and counted once; "+
		"non-trivial = at least one property has a stored translation in some language")
	res.Exhaustive = true
	uuids.SetGenerator(uuids.NewSeededGenerator(int64(o.Seed), time.Now))

	const shard = 300
	var file *hx.CoqFile
	nfile := 0
	flush := func() {
		if file != nil {
			file.Add("].\nDefinition M := Eval vm_compute in mismatches cases.\nPrint M.")
			file.Save(o, res)
			file = nil
		}
	}
	k := 0
	for _, cl := range contactLangs {
		for _, al := range allowedLists {
			for ts := 0; ts < nStates*nStates; ts++ {
				for pres := 0; pres < 4; pres++ {
					c := &config{ContactLang: cl, Allowed: al, ChildLang: -1, Tr: map[string][][]string{}, States: map[string][3]int{}}
					if k%4 == 3 {
						c.ChildLang = (k / 4) % 5
					}
					c.BaseText = "hi"
					c.BaseAtts = []string{}
					if pres&1 != 0 {
						c.BaseAtts = []string{"image/jpeg:http://x.io/base.jpg"}
					}
					c.BaseQRs = []string{}
					if pres&2 != 0 {
						c.BaseQRs = []string{"yes", "no"}
					}
					if k%2 == 1 {
						c.BaseAudio = "http://x.io/base.mp3"
					}
					c.EvalEmpty = k%7 == 5
					switch k % 11 {
					case 4:
						c.LongAudio = 1
					case 8:
						c.LongAudio = 2
						c.BaseAudio = longURL("http://x.io/say/")
					}
					c.Filter = k%13 == 7
					c.SayBlank = k%9 == 4
					c.BaseVars = []string{"v1", "v2"}
					c.BaseArgs = []string{"1", "10"}
					if k%3 == 1 {
						c.BaseArgs = []string{"20", "30"}
					}
					for pi, p := range props {
						st := ts
						if pi > 0 {
							st = (k*(2*pi+5) + 3*pi) % (nStates * nStates)
						}
						s2, s3 := st/nStates, st%nStates
						sb := (k*(pi+7) + pi) % nStates // state of the entry for the base language itself (cycled)
						c.States[p.name] = [3]int{s2, s3, sb}
						baseLen := 1
						switch p.name {
						case "attachments":
							baseLen = len(c.BaseAtts)
						case "quick_replies":
							baseLen = len(c.BaseQRs)
						case "arguments":
							baseLen = len(c.BaseArgs)
						case "template_variables":
							baseLen = len(c.BaseVars)
						}
						a2, _ := stored(s2, p.name, 2, baseLen)
						a3, _ := stored(s3, p.name, 3, baseLen)
						ab, _ := stored(sb, p.name, 1, baseLen)
						// case-argument translations are number ranges: matching, non-matching, or of another length
						if p.name == "arguments" {
							fix := func(a []string, match bool) {
								if len(a) == 2 && a[0] != "" {
									if match {
										a[0], a[1] = "1", "10"
									} else {
										a[0], a[1] = "20", "30"
									}
								} else if len(a) == 3 && a[0] != "" {
									a[0], a[1], a[2] = "20", "30", "7"
								}
							}
							fix(a2, k%2 == 0)
							fix(a3, k%5 != 0)
							fix(ab, k%3 == 1) // stale base-language arguments: the opposite of the base arguments' outcome
						}
						if c.Filter {
							switch p.name {
							case "attachments":
								if len(a2) > 0 && a2[0] != "" {
									a2[0] = "nope0"
								}
								if k%2 == 0 && len(a3) > 1 {
									a3[1] = "nope1"
								}
							case "quick_replies":
								if len(a3) > 0 && a3[0] != "" {
									a3[0] = emptyExpr
								}
								if k%2 == 0 && len(a2) > 0 && a2[0] != "" {
									a2[0] = emptyExpr
								}
							}
						}
						c.Tr[p.name] = [][]string{a2, a3, ab}
					}
					k++
					obs, err := run(c)
					if err != nil {
						res.Fail("engine-error", c, err.Error())
						continue
					}
					nontrivial := false
					for _, p := range props {
						if c.Tr[p.name][0] != nil || c.Tr[p.name][1] != nil || c.Tr[p.name][2] != nil {
							nontrivial = true
						}
					}
					key, _ := json.Marshal(c)
					res.Eval(string(key), nontrivial)
					res.Dist(fmt.Sprintf("msg_lang=%s", langCodes[obs.Lang]))
					res.Dist(fmt.Sprintf("router_cat=%s", obs.RouterCat))
					res.Dist(fmt.Sprintf("email_sent=%v", obs.Email != nil))
					if obs.Say != nil {
						res.Dist(fmt.Sprintf("say_lang=%s audio=%v text=%v", langCodes[obs.Say.Lang], obs.Say.Audio != "", obs.Say.Text != ""))
					} else {
						res.Dist("say_skipped")
					}
					if obs.Play != nil {
						res.Dist(fmt.Sprintf("play_lang=%s", langCodes[obs.Play.Lang]))
					} else {
						res.Dist("play_skipped")
					}
					if k%1777 == 0 {
						res.Sample(map[string]any{"config": c, "observed": obs})
					}
					oracle(c, obs, res)
					if file == nil {
						file = hx.NewCoqFile(fmt.Sprintf("cases_C18_%03d.v", nfile), header)
						nfile++
					}
					sep := ";"
					if file.N == 0 {
						sep = " "
					}
					file.Add(sep + " " + caseCoq(c, obs))
					res.Cases = append(res.Cases, hx.Case{File: file.Name, Index: file.N, Input: c, Impl: obs})
					file.N++
					if file.N >= shard {
						flush()
					}
				}
			}
		}
	}
	flush()
	res.Write(o)
}
