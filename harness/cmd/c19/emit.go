package main

import (
	"verifharness/pkg/hx"
)

type emitter struct {
	o   *hx.Opts
	res *hx.Result
}

func newEmitter(o *hx.Opts, res *hx.Result) *emitter { return &emitter{o: o, res: res} }

func (e *emitter) addContext(sc *scenario, ob *observation, side int, redact bool, point int) {}
func (e *emitter) flush()                                                                   {}
