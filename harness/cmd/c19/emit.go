package main

// Correspondence output for C19: cases_C19_*.v evaluated by coqc against model/Redact.v (see model/RedactCorr.v).
//
// A context case is taken from ONE run of a real session at an observation point.  The model's inputs are read
// from the session state (not from the context): channels, contact id / name / URN list with channel affinity,
// the input's URN, the contacts and flow names of the parent and child summaries, the base environment.  What
// gocommon derives from a URN path (printed URN, Format(), tel country) is computed here with gocommon and passed
// in.  Subtrees the model carries as given are replaced by digests of what was observed there (twice: in the
// model's input and in the expected tree), so what is compared is: keys and shape at every transcribed builder,
// every URN-derived leaf, the contact's and runs' default renderings, channel and preferred URN resolution, and
// the equality of the contact subtrees shown under @contact and @run.contact.

import (
	"crypto/sha1"
	"encoding/hex"
	"encoding/json"
	"fmt"
	"regexp"
	"sort"
	"strings"

	"github.com/nyaruka/gocommon/i18n"
	"github.com/nyaruka/gocommon/urns"
	"github.com/nyaruka/goflow/flows"

	"verifharness/pkg/hx"
)

// ---- snapshot of the model's inputs, taken at observation time ------------------------------------

type mURN struct {
	Scheme, Path, Display, Affinity, Country, Plain, Fmt string
}

type mContact struct {
	ID   int64
	Name string
	URNs []mURN
}

type relSnap struct {
	Contact  *mContact
	FlowName *string
}

type runSnap struct {
	Contact     *mContact
	FlowName    *string
	InputURN    *mURN
	Parent      *relSnap
	Child       *relSnap
	Country     string // merged environment
	BaseCountry string
	Redact      bool
	Tree        *node // RootContext under the merged environment
}

func snapURN(u urns.URN, ch *flows.Channel) mURN {
	scheme, path, _, display := u.ToParts()
	plain, _ := urns.NewFromParts(scheme, path, nil, display)
	m := mURN{Scheme: scheme, Path: path, Display: display, Plain: string(plain), Fmt: u.Format()}
	if ch != nil {
		m.Affinity = string(ch.UUID())
	}
	if scheme == urns.Phone.Prefix {
		m.Country = string(i18n.DeriveCountryFromTel(path))
	}
	return m
}

func snapContact(c *flows.Contact) *mContact {
	if c == nil {
		return nil
	}
	m := &mContact{ID: int64(c.ID()), Name: c.Name()}
	for _, u := range c.URNs() {
		m.URNs = append(m.URNs, snapURN(u.URN(), u.Channel()))
	}
	return m
}

func snapRelated(r flows.RunSummary) *relSnap {
	if r == nil {
		return nil
	}
	s := &relSnap{Contact: snapContact(r.Contact())}
	if r.Flow() != nil {
		n := r.Flow().Name()
		s.FlowName = &n
	}
	return s
}

func snapRun(session flows.Session, r flows.Run, redact bool, tree *node) *runSnap {
	s := &runSnap{Contact: snapContact(r.Contact()), Redact: redact, Tree: tree,
		Country: string(session.MergedEnvironment().DefaultCountry()), BaseCountry: string(session.Environment().DefaultCountry())}
	if r.Flow() != nil {
		n := r.Flow().Name()
		s.FlowName = &n
	}
	if in := session.Input(); in != nil {
		// the input's URN is not exported: read it from the input's own JSON form
		if b, err := json.Marshal(in); err == nil {
			var e struct {
				URN string `json:"urn"`
			}
			if json.Unmarshal(b, &e) == nil {
				u := snapURN(urns.URN(e.URN), nil)
				s.InputURN = &u
			}
		}
	}
	if p := r.Parent(); p != nil {
		s.Parent = snapRelated(p)
	}
	if ch := session.GetCurrentChild(r); ch != nil {
		s.Child = snapRelated(ch)
	}
	return s
}

// ---- Coq printing ---------------------------------------------------------------------------------

// string table of the cases file being written: a string is elaborated by coqc once per file and referred to
// by name afterwards (keys, kinds, schemes and digests repeat in every case)
type interner struct {
	names   map[string]string
	pending []string
	shard   int
}

var staleRef = regexp.MustCompile(`\bs(\d+)_\d+\b`)

var strtab *interner

func coqStr(s string) string {
	if strtab == nil || len(s) < 2 {
		return coqLit(s)
	}
	if n, ok := strtab.names[s]; ok {
		return n
	}
	n := fmt.Sprintf("s%d_%d", strtab.shard, len(strtab.names))
	strtab.names[s] = n
	strtab.pending = append(strtab.pending, fmt.Sprintf("Definition %s : string := %s.", n, coqLit(s)))
	return n
}

func coqLit(s string) string {
	plainASCII := true
	for i := 0; i < len(s); i++ {
		if s[i] < 32 || s[i] > 126 {
			plainASCII = false
			break
		}
	}
	if plainASCII {
		return "\"" + strings.ReplaceAll(s, "\"", "\"\"") + "\""
	}
	parts := make([]string, len(s))
	for i := 0; i < len(s); i++ {
		parts[i] = fmt.Sprint(int(s[i]))
	}
	return "(bs [" + strings.Join(parts, ";") + "])"
}

func coqStrs(xs []string) string { return hx.List(xs, coqStr) }

func coqOptStr(s *string) string {
	if s == nil {
		return "None"
	}
	return "(Some " + coqStr(*s) + ")"
}

func (u mURN) coq() string {
	return fmt.Sprintf("{| u_scheme := %s; u_path := %s; u_display := %s; u_affinity := %s; u_country := %s; u_plain := %s; u_fmt := %s |}",
		coqStr(u.Scheme), coqStr(u.Path), coqStr(u.Display), coqStr(u.Affinity), coqStr(u.Country), coqStr(u.Plain), coqStr(u.Fmt))
}

func digest(n *node) string {
	h := sha1.New()
	var rec func(n *node)
	rec = func(n *node) {
		if n == nil {
			h.Write([]byte("<absent>"))
			return
		}
		fmt.Fprintf(h, "(%s|%q|", n.Kind, n.Render)
		if n.Def != nil {
			h.Write([]byte("def:"))
			rec(n.Def)
		}
		for i, k := range n.Kids {
			if i < len(n.Keys) {
				fmt.Fprintf(h, "%q=", n.Keys[i])
			}
			rec(k)
		}
		h.Write([]byte(")"))
	}
	rec(n)
	return hex.EncodeToString(h.Sum(nil))[:16]
}

func opq(n *node) string { return "(opq " + coqStr(digest(n)) + ")" }

// structural conversion of an observed tree
func xvGeneric(n *node) string {
	if n == nil {
		return "XNil"
	}
	switch n.Kind {
	case "nil":
		return "XNil"
	case "array":
		return "(XArr " + hx.List(n.Kids, xvGeneric) + ")"
	case "object":
		return xvObject(n, nil, nil)
	default:
		return "(XLeaf " + coqStr(n.Kind) + " " + coqStr(n.Render) + ")"
	}
}

// object with some keys replaced by digests and some handled by special printers
func xvObject(n *node, opaque map[string]bool, special map[string]func(*node) string) string {
	def := "None"
	if n.Def != nil {
		if opaque["__default__"] {
			def = "(Some " + opq(n.Def) + ")"
		} else {
			def = "(Some " + xvGeneric(n.Def) + ")"
		}
	}
	props := make([]string, len(n.Keys))
	for i, k := range n.Keys {
		var v string
		switch {
		case opaque[k]:
			v = opq(n.Kids[i])
		case special[k] != nil:
			v = special[k](n.Kids[i])
		default:
			v = xvGeneric(n.Kids[i])
		}
		props[i] = "(" + coqStr(k) + ", " + v + ")"
	}
	return "(XObj " + def + " [" + strings.Join(props, "; ") + "])"
}

func set(keys ...string) map[string]bool {
	m := map[string]bool{}
	for _, k := range keys {
		m[k] = true
	}
	return m
}

var (
	opaqueContact = set("created_on", "fields", "first_name", "groups", "language", "last_seen_on", "status", "tickets", "timezone", "uuid")
	opaqueInput   = set("__default__", "attachments", "channel", "created_on", "external_id", "text", "type", "uuid")
	opaqueRelated = set("fields", "flow", "results", "run", "status", "uuid")
	opaqueRun     = set("created_on", "exited_on", "flow", "path", "results", "status", "uuid")
	opaqueRoot    = set("fields", "globals", "legacy_extra", "node", "results", "resume", "ticket", "trigger", "webhook")
)

func xvIfObject(n *node, f func(*node) string) string {
	if n == nil || n.Kind != "object" {
		return xvGeneric(n)
	}
	return f(n)
}

func xvContact(n *node) string {
	return xvIfObject(n, func(n *node) string { return xvObject(n, opaqueContact, nil) })
}
func xvInput(n *node) string {
	return xvIfObject(n, func(n *node) string { return xvObject(n, opaqueInput, nil) })
}
func xvRelated(n *node) string {
	return xvIfObject(n, func(n *node) string {
		return xvObject(n, opaqueRelated, map[string]func(*node) string{"contact": xvContact})
	})
}
func xvRunObj(n *node) string {
	return xvIfObject(n, func(n *node) string {
		return xvObject(n, opaqueRun, map[string]func(*node) string{"contact": xvContact})
	})
}
func xvRoot(n *node) string {
	return xvObject(n, opaqueRoot, map[string]func(*node) string{
		"contact": xvContact, "input": xvInput, "parent": xvRelated, "child": xvRelated, "run": xvRunObj})
}

func (c *mContact) coq(ctx *node) string {
	us := hx.List(c.URNs, func(u mURN) string { return u.coq() })
	f := func(k string) string { return opq(ctx.get(k)) }
	return fmt.Sprintf("{| c_id := %s; c_name := %s; c_urns := %s; c_created_on := %s; c_fields := %s; c_first_name := %s; c_groups := %s; "+
		"c_language := %s; c_last_seen_on := %s; c_status := %s; c_tickets := %s; c_timezone := %s; c_uuid := %s |}",
		hx.Z(c.ID), coqStr(c.Name), us, f("created_on"), f("fields"), f("first_name"), f("groups"), f("language"), f("last_seen_on"),
		f("status"), f("tickets"), f("timezone"), f("uuid"))
}

func optContact(c *mContact, ctx *node) string {
	if c == nil {
		return "None"
	}
	if ctx == nil || ctx.Kind != "object" {
		ctx = &node{Kind: "object"}
	}
	return "(Some " + c.coq(ctx) + ")"
}

func (r *relSnap) coq(ctx *node) string {
	if r == nil {
		return "None"
	}
	if ctx == nil || ctx.Kind != "object" {
		ctx = &node{Kind: "object"}
	}
	f := func(k string) string { return opq(ctx.get(k)) }
	return fmt.Sprintf("(Some {| r_contact := %s; r_flow_name := %s; r_fields := %s; r_flow := %s; r_results := %s; r_run := %s; r_status := %s; r_uuid := %s |})",
		optContact(r.Contact, ctx.get("contact")), coqOptStr(r.FlowName), f("fields"), f("flow"), f("results"), f("run"), f("status"), f("uuid"))
}

func (c *chanDef) coq() string {
	return fmt.Sprintf("{| ch_uuid := %s; ch_name := %s; ch_address := %s; ch_schemes := %s; ch_roles := %s; ch_country := %s; ch_prefixes := %s; ch_intl := %s |}",
		coqStr(c.UUID), coqStr(c.Name), coqStr(c.Address), coqStrs(c.Schemes), coqStrs(c.Roles), coqStr(c.Country), coqStrs(c.Prefixes), hx.Bool(c.Intl))
}

func allSchemes() []string {
	var out []string
	for _, s := range urns.Schemes {
		out = append(out, s.Prefix)
	}
	sort.Strings(out)
	return out
}

func coqEnv(redact bool, country string) string {
	return fmt.Sprintf("{| redact := %s; env_country := %s; all_schemes := schemes |}", hx.Bool(redact), coqStr(country))
}

func (s *runSnap) coq(variant int) string {
	t := s.Tree
	f := func(path ...string) string { return opq(t.get(path...)) }
	input := "None"
	if in := t.get("input"); s.InputURN != nil && in != nil && in.Kind == "object" {
		g := func(k string) string { return opq(in.get(k)) }
		def := opq(in.Def)
		input = fmt.Sprintf("(Some {| i_urn := Some %s; i_default := %s; i_attachments := %s; i_channel := %s; i_created_on := %s; i_external_id := %s; i_text := %s; i_type := %s; i_uuid := %s |})",
			s.InputURN.coq(), def, g("attachments"), g("channel"), g("created_on"), g("external_id"), g("text"), g("type"), g("uuid"))
	}
	ct := optContact(s.Contact, t.get("contact"))
	share := func(x string) string {
		if ct != "None" && len(ct) > 40 {
			return strings.ReplaceAll(x, ct, "ct")
		}
		return x
	}
	sess := fmt.Sprintf("{| s_channels := chans%d; s_contact := %s; s_flow_name := %s; s_input := %s; s_parent := %s; s_child := %s;\n"+
		"   s_run_created_on := %s; s_run_exited_on := %s; s_run_flow := %s; s_run_path := %s; s_run_results := %s; s_run_status := %s; s_run_uuid := %s;\n"+
		"   s_fields := %s; s_globals := %s; s_legacy_extra := %s; s_node := %s; s_results := %s; s_resume := %s; s_ticket := %s; s_trigger := %s; s_webhook := %s |}",
		variant, "ct", coqOptStr(s.FlowName), input, share(s.Parent.coq(t.get("parent"))), share(s.Child.coq(t.get("child"))),
		f("run", "created_on"), f("run", "exited_on"), f("run", "flow"), f("run", "path"), f("run", "results"), f("run", "status"), f("run", "uuid"),
		f("fields"), f("globals"), f("legacy_extra"), f("node"), f("results"), f("resume"), f("ticket"), f("trigger"), f("webhook"))
	return fmt.Sprintf("let ct := %s in\n  CCtx {| k_env := %s;\n  k_session := %s;\n  k_obs := %s;\n  k_country := %s |}",
		ct, coqEnv(s.Redact, s.BaseCountry), sess, xvRoot(t), coqStr(s.Country))
}

// ---- emitter --------------------------------------------------------------------------------------

const (
	casesPerFile = 400    // at most
	bytesPerFile = 330000 // a context case is ~7 KB of Coq text and costs ~0.15 s of coqc
)

type emitter struct {
	o     *hx.Opts
	res   *hx.Result
	file  *hx.CoqFile
	names []string
	shard int
	bytes int
}

func newEmitter(o *hx.Opts, res *hx.Result) *emitter {
	strtab = &interner{names: map[string]string{}}
	return &emitter{o: o, res: res}
}

func (e *emitter) open() {
	if e.file != nil {
		return
	}
	name := fmt.Sprintf("cases_C19_%d_%d.v", e.o.Seed, e.shard)
	saved := strtab
	strtab = nil // the header is written with literals
	defer func() { strtab = saved }()
	var sb strings.Builder
	sb.WriteString("From Coq Require Import List String Ascii ZArith NArith Bool.\nFrom Verif Require Import model.Redact model.RedactCorr.\nImport ListNotations.\nOpen Scope string_scope.\n")
	fmt.Fprintf(&sb, "Definition schemes : list string := %s.\n", coqStrs(allSchemes()))
	for i, v := range chanVariants {
		fmt.Fprintf(&sb, "Definition chans%d : list channel := %s.\n", i, hx.List(v.chans, func(c chanDef) string { return c.coq() }))
	}
	e.file = hx.NewCoqFile(name, sb.String())
	e.names = nil
}

func (e *emitter) add(term string, input any, impl any) {
	e.open()
	nm := fmt.Sprintf("c%d", len(e.names))
	// a term rendered before the previous add (i.e. against the string table of another file) is a harness bug
	for _, m := range staleRef.FindAllStringSubmatch(term, -1) {
		if m[1] != fmt.Sprint(e.shard) {
			panic("c19 emitter: term refers to the string table of shard " + m[1] + " while writing shard " + fmt.Sprint(e.shard))
		}
	}
	for _, d := range strtab.pending {
		e.file.Add(d)
		e.bytes += len(d)
	}
	strtab.pending = nil
	e.file.Add(fmt.Sprintf("Definition %s : case := %s.", nm, term))
	e.res.Cases = append(e.res.Cases, hx.Case{File: e.file.Name, Index: len(e.names), Input: input, Impl: impl})
	e.names = append(e.names, nm)
	e.bytes += len(term)
	if len(e.names) >= casesPerFile || e.bytes >= bytesPerFile {
		e.flush()
	}
}

func (e *emitter) flush() {
	if e.file == nil || len(e.names) == 0 {
		return
	}
	e.file.Add("Definition cases : list case := [" + strings.Join(e.names, "; ") + "].")
	e.file.Add("Definition M := Eval vm_compute in mismatches cases.\nPrint M.")
	e.file.Save(e.o, e.res)
	e.file = nil
	e.bytes = 0
	e.shard++
	strtab = &interner{names: map[string]string{}, shard: e.shard} // names are per file
}

// addContext emits one case per run of the session at this observation point
func (e *emitter) addContext(sc *scenario, ob *observation, side int, redact bool, point int) {
	for i, s := range ob.Snaps {
		if s == nil || s.Tree == nil || s.Tree.Kind != "object" {
			continue
		}
		e.add(s.coq(sc.ChanVariant), map[string]any{"kind": "context", "scenario": sc, "side": side, "redact": redact, "point": ob.Point, "run": i},
			map[string]any{"country": s.Country})
		e.res.Dist("corr=context")
	}
}
