package main

// Running a scenario on the real engine, walking the expression context, and the direct oracle
// (the sentence of C19 evaluated on the implementation's outputs).

import (
	"bytes"
	"fmt"
	"io"
	"net/http"
	"sort"
	"strings"
	"time"

	"github.com/nyaruka/gocommon/dates"
	"github.com/nyaruka/gocommon/httpx"
	"github.com/nyaruka/gocommon/random"
	"github.com/nyaruka/gocommon/uuids"
	"github.com/nyaruka/goflow/assets"
	"github.com/nyaruka/goflow/assets/static"
	"github.com/nyaruka/goflow/envs"
	"github.com/nyaruka/goflow/excellent/types"
	"github.com/nyaruka/goflow/flows"
	"github.com/nyaruka/goflow/flows/engine"
	"github.com/nyaruka/goflow/flows/events"
	"github.com/nyaruka/goflow/flows/resumes"
	"github.com/nyaruka/goflow/flows/triggers"
	"github.com/nyaruka/goflow/services/webhooks"
)

// ---- canonical tree of an XValue ---------------------------------------------------------------

type node struct {
	Kind   string  // nil text number boolean datetime date time array object error function
	Render string  // leaf: Render(); composite: Render() too (compared between twins)
	Format string  // Format(env)
	JSON   string  // json
	Def    *node   // object default (nil when the object is its own default)
	Keys   []string
	Kids   []*node // object: parallel to Keys; array: items
}

// fullJSON: take the JSON form of every composite node too (thorough tier)
var fullJSON bool

func walk(env envs.Environment, v types.XValue, depth int) *node {
	if types.IsNil(v) {
		return &node{Kind: "nil"}
	}
	if depth > 40 {
		return &node{Kind: "error", Render: "too deep"}
	}
	n := &node{}
	func() {
		defer func() {
			if r := recover(); r != nil {
				n.Render = fmt.Sprintf("PANIC %v", r)
			}
		}()
		n.Render = v.Render()
		n.Format = v.Format(env)
		// JSON of a composite is assembled from the JSON of its members, which are walked themselves: it is taken
		// for every leaf and for the composites down to depth 2 (json(contact), json(parent.contact), json(run), ...)
		_, isObj := v.(*types.XObject)
		_, isArr := v.(*types.XArray)
		if (!isObj && !isArr) || depth <= 2 || fullJSON {
			if j, err := types.ToXJSON(v); err == nil {
				n.JSON = j.Native()
			} else {
				n.JSON = "ERR"
			}
		}
	}()
	switch t := v.(type) {
	case *types.XText:
		n.Kind = "text"
	case *types.XNumber:
		n.Kind = "number"
	case *types.XBoolean:
		n.Kind = "boolean"
	case *types.XDateTime:
		n.Kind = "datetime"
	case *types.XDate:
		n.Kind = "date"
	case *types.XTime:
		n.Kind = "time"
	case *types.XError:
		n.Kind = "error"
	case *types.XArray:
		n.Kind = "array"
		for i := 0; i < t.Count(); i++ {
			n.Kids = append(n.Kids, walk(env, t.Get(i), depth+1))
		}
	case *types.XObject:
		n.Kind = "object"
		if d := t.Default(); d != types.XValue(t) {
			n.Def = walk(env, d, depth+1)
		}
		for _, k := range t.Properties() {
			kv, _ := t.Get(k)
			n.Keys = append(n.Keys, k)
			n.Kids = append(n.Kids, walk(env, kv, depth+1))
		}
	default:
		n.Kind = "function"
	}
	return n
}

func (n *node) count() int {
	c := 1
	if n.Def != nil {
		c += n.Def.count()
	}
	for _, k := range n.Kids {
		c += k.count()
	}
	return c
}

func (n *node) get(path ...string) *node {
	cur := n
	for _, p := range path {
		if cur == nil || cur.Kind != "object" {
			return nil
		}
		var nx *node
		for i, k := range cur.Keys {
			if k == p {
				nx = cur.Kids[i]
			}
		}
		cur = nx
	}
	return cur
}

// paths lists every path into the tree in expression syntax
func (n *node) paths(prefix string, out *[]string) {
	if prefix != "" {
		*out = append(*out, prefix)
	}
	switch n.Kind {
	case "object":
		for i, k := range n.Keys {
			if !isIdent(k) {
				continue
			}
			p := k
			if prefix != "" {
				p = prefix + "." + k
			}
			n.Kids[i].paths(p, out)
		}
	case "array":
		for i, k := range n.Kids {
			if prefix != "" {
				k.paths(fmt.Sprintf("%s[%d]", prefix, i), out)
			}
		}
	}
}

func isIdent(s string) bool {
	if s == "" {
		return false
	}
	for i, c := range s {
		if !(c == '_' || (c >= 'a' && c <= 'z') || (c >= 'A' && c <= 'Z') || (i > 0 && c >= '0' && c <= '9')) {
			return false
		}
	}
	return true
}

type diff struct {
	Path string
	What string // kind | keys | render | format | json | length
	A, B string
	Leaf bool
}

// compare two trees; mask (may be nil) is applied to every rendered string before comparison (used only in
// scenarios where the listed channel-by-prefix finding applies: it blanks the tel channels' name/address/uuid)
func compare(a, b *node, path string, mask func(string) string, out *[]diff) {
	if mask == nil {
		mask = func(s string) string { return s }
	}
	if a.Kind != b.Kind {
		*out = append(*out, diff{path, "kind", a.Kind + ":" + a.Render, b.Kind + ":" + b.Render, true})
		return
	}
	leaf := a.Kind != "object" && a.Kind != "array"
	if mask(a.Render) != mask(b.Render) {
		*out = append(*out, diff{path, "render", a.Render, b.Render, leaf})
	}
	if mask(a.Format) != mask(b.Format) {
		*out = append(*out, diff{path, "format", a.Format, b.Format, leaf})
	}
	if mask(a.JSON) != mask(b.JSON) {
		*out = append(*out, diff{path, "json", a.JSON, b.JSON, leaf})
	}
	switch a.Kind {
	case "object":
		if (a.Def == nil) != (b.Def == nil) {
			*out = append(*out, diff{path, "default", fmt.Sprint(a.Def != nil), fmt.Sprint(b.Def != nil), true})
		} else if a.Def != nil {
			compare(a.Def, b.Def, path+".__default__", mask, out)
		}
		if strings.Join(a.Keys, ",") != strings.Join(b.Keys, ",") {
			*out = append(*out, diff{path, "keys", strings.Join(a.Keys, ","), strings.Join(b.Keys, ","), true})
			return
		}
		for i, k := range a.Keys {
			p := k
			if path != "" {
				p = path + "." + k
			}
			compare(a.Kids[i], b.Kids[i], p, mask, out)
		}
	case "array":
		if len(a.Kids) != len(b.Kids) {
			*out = append(*out, diff{path, "length", fmt.Sprint(len(a.Kids)), fmt.Sprint(len(b.Kids)), true})
			return
		}
		for i := range a.Kids {
			compare(a.Kids[i], b.Kids[i], fmt.Sprintf("%s[%d]", path, i), mask, out)
		}
	}
}

// normPath strips array indices and dynamic keys so that it can serve in a failure class
func normPath(p string) string {
	var sb strings.Builder
	skip := false
	for _, c := range p {
		if c == '[' {
			skip = true
			sb.WriteString("[]")
			continue
		}
		if c == ']' {
			skip = false
			continue
		}
		if !skip {
			sb.WriteRune(c)
		}
	}
	return sb.String()
}

// ---- echo webhook transport --------------------------------------------------------------------

type echoRequestor struct{}

func (echoRequestor) Do(c *http.Client, r *http.Request) (*http.Response, error) {
	var body []byte
	if r.Body != nil {
		body, _ = io.ReadAll(r.Body)
	}
	resp := fmt.Sprintf(`{"echo": %s, "url": %q}`, orNull(body), r.URL.String())
	return &http.Response{Status: "200 OK", StatusCode: 200, Proto: "HTTP/1.0", ProtoMajor: 1, ProtoMinor: 0,
		Header: http.Header{"Content-Type": []string{"application/json"}}, Body: io.NopCloser(bytes.NewReader([]byte(resp))),
		ContentLength: int64(len(resp)), Request: r}, nil
}

func orNull(b []byte) string {
	if len(bytes.TrimSpace(b)) == 0 {
		return "null"
	}
	if !jsonValid(b) {
		return fmt.Sprintf("%q", string(b))
	}
	return string(b)
}

// ---- one session run ---------------------------------------------------------------------------

type tplOut struct {
	Tpl string
	Out string
	OK  bool
}

type observation struct {
	Point    string            // after-trigger, after-resume-0, ...
	Status   string
	Ctx      *node             // Session.CurrentContext()
	RunCtx   map[string]*node  // RootContext of every run of the session, by run index
	Events   []string          // projected events of the sprint (texts the engine evaluated)
	Tpls     []tplOut
	Snaps    []*runSnap        // the model's inputs per run, taken at observation time
	Redact   bool              // policy of the environment the harness supplied last (trigger or resume)
	Flipped  bool              // this resume supplied an environment differing only in redaction_policy
	EnvPolicy    envs.RedactionPolicy // what the session's environment says
	EnvRefreshed bool                 // the sprint logged environment_refreshed
	Session  flows.Session
	Env      envs.Environment
}

type sessionRun struct {
	Obs    []*observation
	Err    string
	Assets flows.SessionAssets
}

var theEngine flows.Engine

func getEngine() flows.Engine {
	if theEngine == nil {
		httpx.SetRequestor(echoRequestor{})
		retries := httpx.NewFixedRetries(1*time.Millisecond, 2*time.Millisecond)
		theEngine = engine.NewBuilder().
			WithMaxFieldChars(2000).
			WithWebhookServiceFactory(webhooks.NewServiceFactory(http.DefaultClient, retries, nil, map[string]string{"User-Agent": "goflow-verif"}, 100000)).
			Build()
	}
	return theEngine
}

func resetWorld(seed uint64) {
	uuids.SetGenerator(uuids.NewSeededGenerator(int64(seed), dates.Now)) // no wall clock anywhere
	dates.SetNowFunc(dates.NewSequentialNow(time.Date(2018, 7, 6, 12, 30, 0, 123456789, time.UTC), time.Second))
	random.SetGenerator(random.NewSeededGenerator(int64(seed)))
}

func projectEvents(evs []flows.Event) []string {
	var out []string
	for _, e := range evs {
		switch ev := e.(type) {
		case *events.MsgCreatedEvent:
			out = append(out, "msg_created:"+ev.Msg.Text())
		case *events.RunResultChangedEvent:
			out = append(out, "run_result_changed:"+ev.Name+"="+ev.Value+"|"+string(ev.Extra))
		case *events.WebhookCalledEvent:
			req := ev.Request
			out = append(out, "webhook_called:"+ev.URL+"|"+req)
		case *events.ContactFieldChangedEvent:
			v := ""
			if ev.Value != nil {
				v = string(ev.Value.Text.Native())
			}
			out = append(out, "contact_field_changed:"+ev.Field.Key+"="+v)
		case *events.ErrorEvent:
			out = append(out, "error:"+ev.Text)
		case *events.FailureEvent:
			out = append(out, "failure:"+ev.Text)
		case *events.WarningEvent:
			out = append(out, "warning:"+ev.Text)
		default:
			out = append(out, "type:"+e.Type())
		}
	}
	return out
}

func observe(point string, session flows.Session, sprint flows.Sprint, redact bool, tpls func(*node) []string) *observation {
	o := &observation{Point: point, Status: string(session.Status()), Session: session, Env: session.Environment(), RunCtx: map[string]*node{},
		Redact: redact, EnvPolicy: session.Environment().RedactionPolicy()}
	if cc := session.CurrentContext(); cc != nil {
		o.Ctx = walk(session.Environment(), cc, 0)
	}
	for i, r := range session.Runs() {
		tree := walk(session.MergedEnvironment(), types.NewXObject(r.RootContext(session.MergedEnvironment())), 0)
		o.RunCtx[fmt.Sprintf("run%d", i)] = tree
		o.Snaps = append(o.Snaps, snapRun(session, r, redact, tree))
	}
	if sprint != nil {
		o.Events = projectEvents(sprint.Events())
		for _, e := range sprint.Events() {
			if e.Type() == "environment_refreshed" {
				o.EnvRefreshed = true
			}
		}
	}
	if tpls != nil {
		// generated templates are evaluated now, on the session state of this observation point
		evalTemplates(o, tpls(o.Ctx))
	}
	return o
}

func evalTemplates(o *observation, tpls []string) {
	runs := o.Session.Runs()
	if len(runs) == 0 {
		return
	}
	// the run whose context CurrentContext() shows is the most recently modified one
	cur := runs[0]
	for _, r := range runs {
		if r.ModifiedOn().After(cur.ModifiedOn()) {
			cur = r
		}
	}
	for _, t := range tpls {
		var sb strings.Builder
		out, ok := func() (s string, ok bool) {
			defer func() {
				if r := recover(); r != nil {
					s, ok = fmt.Sprintf("PANIC %v", r), false
				}
			}()
			return cur.EvaluateTemplateText(t, nil, false, func(e flows.Event) {
				switch ev := e.(type) {
				case *events.ErrorEvent:
					sb.WriteString(" !error:" + ev.Text)
				case *events.WarningEvent:
					sb.WriteString(" !warning:" + ev.Text)
				}
			})
		}()
		o.Tpls = append(o.Tpls, tplOut{t, out + sb.String(), ok})
	}
}

func runSession(sc *scenario, side int, redact bool, seed uint64, tplsFor func(point int, hidden bool, ctx *node) []string) *sessionRun {
	sr := &sessionRun{}
	fail := func(stage string, err error) *sessionRun {
		sr.Err = stage + ": " + err.Error()
		return sr
	}
	resetWorld(seed)
	src, err := static.NewSource(sc.assetsJSON())
	if err != nil {
		return fail("assets", err)
	}
	// the environment the assets are loaded with is NOT the session's (that comes with the trigger): in some scenarios
	// it carries the opposite policy, the trigger's environment must win
	eb := envs.NewBuilder()
	if redact != sc.AssetsPolicyOpposite {
		eb = eb.WithRedactionPolicy(envs.RedactionPolicyURNs)
	}
	inForce := redact
	sa, err := engine.NewSessionAssets(eb.Build(), src, nil)
	if err != nil {
		return fail("session-assets", err)
	}
	sr.Assets = sa
	missing := func(assets.Reference, error) {}
	trig, err := triggers.ReadTrigger(sa, sc.triggerJSON(side, redact), missing)
	if err != nil {
		return fail("trigger", err)
	}
	eng := getEngine()
	session, sprint, err := eng.NewSession(sa, trig)
	if err != nil {
		return fail("new-session", err)
	}
	tp := func(ctx *node) []string { return tplsFor(len(sr.Obs), inForce, ctx) }
	if tplsFor == nil {
		tp = nil
	}
	sr.Obs = append(sr.Obs, observe("after-trigger", session, sprint, redact, tp))
	for i := range sc.Resumes {
		if session.Status() != flows.SessionStatusWaiting {
			break
		}
		if sc.Resumes[i].FlipPolicy {
			inForce = !inForce // this resume supplies the same environment with the other redaction policy
		}
		res, err := resumes.ReadResume(sa, sc.resumeJSON(i, side, inForce), missing)
		if err != nil {
			return fail(fmt.Sprintf("resume-%d", i), err)
		}
		sprint, err = session.Resume(res)
		if err != nil {
			return fail(fmt.Sprintf("resume-%d-apply", i), err)
		}
		ob := observe(fmt.Sprintf("after-resume-%d", i), session, sprint, inForce, tp)
		ob.Flipped = sc.Resumes[i].FlipPolicy
		sr.Obs = append(sr.Obs, ob)
	}
	return sr
}

// ---- generated templates -----------------------------------------------------------------------

var fixedTemplates = []string{
	"@contact", "@(contact)", "@(contact & \"\")", "@(json(contact))", "@(format(contact))", "@(text(contact))",
	"@contact.urn", "@contact.urns", "@(contact.urns[0])", "@(contact.urns[1])", "@(json(contact.urns))", "@(count(contact.urns))",
	"@urns", "@urns.tel", "@urns.facebook", "@urns.telegram", "@urns.twitterid", "@urns.mailto", "@urns.ext", "@(json(urns))", "@(urns[\"tel\"])",
	"@(format_urn(urns.tel))", "@(format_urn(contact.urn))", "@(format_urn(urns.twitterid))", "@(format_urn(urns.telegram))", "@(format_urn(input.urn))",
	"@(urn_parts(contact.urn))", "@(urn_parts(urns.tel).path)", "@(urn_parts(urns.telegram).display)", "@(urn_parts(input.urn).path)", "@(json(urn_parts(contact.urn)))",
	"@input", "@input.urn", "@(json(input))", "@(format(input))",
	"@parent", "@parent.contact", "@parent.contact.urn", "@parent.contact.urns", "@parent.urns", "@parent.urns.tel", "@(json(parent))", "@(json(parent.contact))", "@(format_urn(parent.urns.tel))",
	"@child", "@child.contact", "@child.contact.urn", "@child.contact.urns", "@child.urns", "@child.urns.tel", "@(json(child))",
	"@run", "@run.contact", "@run.contact.urn", "@run.contact.urns", "@(json(run))",
	"@trigger", "@(json(trigger))", "@trigger.params", "@resume", "@(json(resume))",
	"@results", "@(json(results))", "@webhook", "@(json(webhook))", "@webhook.json.echo.contact.urn", "@legacy_extra", "@(json(legacy_extra))",
	"@fields", "@fields.note", "@contact.fields.note", "@contact.groups", "@contact.channel", "@contact.channel.address", "@contact.tickets", "@ticket", "@node", "@globals",
	"@(foreach(contact.urns, format_urn))", "@(foreach(contact.urns, urn_parts))", "@(join(contact.urns, \"|\"))", "@(extract(contact, \"urn\"))", "@(extract_object(contact, \"urn\", \"urns\", \"name\"))",
	"@(if(contact.urn = urns.tel, \"same\", \"diff\"))", "@(text_compare(contact.urn, \"tel:+12065551212\"))", "@(contact.urn = \"tel:+12065551212\")",
	"@(upper(contact.urn))", "@(text_length(contact.urn))", "@(text_slice(contact.urn, 4))", "@(char(65) & contact.urn)", "@(split(contact.urn, \":\"))",
	"@(contact.id)", "@contact.name", "@contact.first_name", "@contact.uuid", "@(default(contact.name, contact))",
	"@(object(\"u\", contact.urn, \"c\", contact))", "@(array(contact.urn, input.urn, parent.contact.urn))", "@(json(array(contact, parent, child)))",
	"@(url_encode(contact.urn))", "@(html_decode(contact.urn))", "@(clean(contact.urn))", "@(regex_match(contact.urn, \"\\d+\"))", "@(replace(contact.urn, \"*\", \"x\"))",
	"@(is_error(format_urn(contact.urn)))", "@(format_urn(\"tel:+250781234567\"))", "@CONTACT.URN", "@Contact.Urns", "@(CONTACT.urns[0])",
}

// templates whose value depends on the default country of the evaluation environment
var countryTemplates = []string{
	"@(has_phone(\"0788 123 123\"))", "@(has_phone(\"0788 123 123\").match)", "@(has_phone(\"call (206) 555-1212 now\").match)", "@(has_phone(\"0712 345 678\").match)",
}

func templatesFor(ctx *node, all bool) []string {
	out := append([]string{}, fixedTemplates...)
	out = append(out, countryTemplates...)
	if ctx == nil {
		return out
	}
	var ps []string
	ctx.paths("", &ps)
	sort.Strings(ps)
	for _, p := range ps {
		urnish := strings.Contains(p, "urn") || strings.HasSuffix(p, "contact") || strings.HasSuffix(p, "input") || strings.Contains(p, "webhook") || strings.Contains(p, "legacy_extra") || strings.Contains(p, "extra")
		if !all && !urnish {
			continue
		}
		out = append(out, "@("+p+")")
		if urnish {
			out = append(out, "@(json("+p+"))", "@("+p+" & \"\")", "@(format_urn("+p+"))", "@(urn_parts("+p+").path)")
		}
	}
	return out
}

func jsonValid(b []byte) bool {
	var js any
	return jsonUnmarshal(b, &js) == nil
}
