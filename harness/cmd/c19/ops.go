package main

// The contact operations whose EFFECT depends on the URNs held (flows/contact.go: HasURN/AddURN/RemoveURN,
// UpdatePreferredChannel), applied to real twin contacts.
//
// Direct oracle (statement: nothing depends on the identifying part): set_contact_channel's effect on twins is the
// same (same schemes, affinities and order); add with a candidate held by both twins or by neither has the same
// effect.  A candidate held by exactly one twin is the listed finding (probed by the corpus scenarios in the engine).
// Correspondence: every operation is also given to the model (cases COp).

import (
	"encoding/json"
	"fmt"

	"github.com/nyaruka/gocommon/urns"
	"github.com/nyaruka/goflow/assets"
	"github.com/nyaruka/goflow/assets/static"
	"github.com/nyaruka/goflow/envs"
	"github.com/nyaruka/goflow/flows"
	"github.com/nyaruka/goflow/flows/engine"

	"verifharness/pkg/hx"
)

// the URN list of a real contact: as model tuples (scheme, path, affinity, URN text without the query), as the part a
// twin must share (schemes and affinities in order), and the countries derivable from the tel paths
func triplesOf(c *flows.Contact) ([]string, string, string) {
	var ts, shape, countries []string
	for _, u := range c.URNs() {
		m := snapURN(u.URN(), u.Channel())
		scheme, path, _, display := u.URN().ToParts()
		text := scheme + ":" + path
		if display != "" {
			text += "#" + display
		}
		ts = append(ts, fmt.Sprintf("(%s, %s, %s, %s)", coqStr(m.Scheme), coqStr(m.Path), coqStr(m.Affinity), coqStr(text)))
		shape = append(shape, m.Scheme+"?"+m.Affinity)
		countries = append(countries, m.Country)
	}
	return ts, fmt.Sprint(shape), fmt.Sprint(countries)
}

// channels of the operations stream: a tel channel without a country, one with, two gateways for ext and mailto
var opChans = []chanDef{
	{UUID: chTelA, Name: "Line", Address: "2020", Schemes: []string{"tel"}, Roles: sr},
	{UUID: chTelB, Name: "RW Line", Address: "+250788000000", Schemes: []string{"tel"}, Roles: sr, Country: "RW"},
	{UUID: chFB, Name: "Gateway A", Address: "gwa", Schemes: []string{"ext", "mailto", "facebook"}, Roles: sr},
	{UUID: chTG, Name: "Gateway B", Address: "gwb", Schemes: []string{"ext", "mailto", "telegram"}, Roles: sr},
	{UUID: chRecv, Name: "Receive Only", Address: "rx", Schemes: []string{"tel", "ext"}, Roles: []string{"receive"}},
}

func runURNOps(o *hx.Opts, r *hx.Rand, res *hx.Result, em *emitter) {
	src, err := static.NewSource([]byte(fmt.Sprintf(`{"channels": %s}`, mustJSON(opChans))))
	if err != nil {
		panic(err)
	}
	env := envs.NewBuilder().WithRedactionPolicy(envs.RedactionPolicyURNs).Build()
	sa, err := engine.NewSessionAssets(env, src, nil)
	if err != nil {
		panic(err)
	}
	n := o.Count(150, 5000)
	for i := 0; i < n; i++ {
		rr := r.Fork(fmt.Sprintf("op%d", i))
		tc := &twinContacts{}
		for j, ns := 0, rr.Range(0, 4); j < ns; j++ {
			scheme := "tel"
			if rr.Bool() {
				scheme = hx.Pick(rr, []string{"facebook", "telegram", "twitterid", "mailto", "mailto", "ext", "ext", "whatsapp"})
			}
			aff := ""
			if rr.Chance(1, 4) {
				aff = hx.Pick(rr, opChans).UUID
				if rr.Chance(1, 4) {
					aff = chDangling // ?channel= of a channel that is not in the assets: kept in the query, pointer nil
				}
			}
			tc.Slots = append(tc.Slots, genSlot(rr, scheme, aff, 0, rr.Chance(1, 6)))
		}
		kind := hx.Pick(rr, []string{"add-fresh", "add-held-a", "remove-held-a", "remove-fresh", "prefer", "prefer", "prefer-none"})
		if len(tc.Slots) == 0 && (kind == "add-held-a" || kind == "remove-held-a") {
			kind = "add-fresh"
		}
		var cand urns.URN
		var ch *flows.Channel
		// rendered right before each em.add: the cases file (and its string table) may change between two adds
		var opCoq func() string
		switch kind {
		case "add-fresh", "remove-fresh":
			cand = urns.URN("telegram:" + digits(rr, 9))
		case "add-held-a", "remove-held-a":
			u := urns.URN(tc.Slots[rr.Intn(len(tc.Slots))].A)
			scheme, path, _, _ := u.ToParts()
			cand, _ = urns.NewFromParts(scheme, path, nil, "")
			if cand == "" { // a held URN that does not survive re-normalization cannot be written as a candidate
				cand = urns.URN("telegram:" + digits(rr, 9))
				kind = kind[:len(kind)-len("held-a")] + "fresh"
			}
		case "prefer":
			c := hx.Pick(rr, opChans)
			ch = sa.Channels().Get(assets.ChannelUUID(c.UUID))
			opCoq = func() string { return "UPrefer (Some " + c.coq() + ")" }
		case "prefer-none":
			opCoq = func() string { return "UPrefer None" }
		}
		if cand != "" {
			cand = cand.Normalize()
			m := snapURN(cand, nil)
			if kind[:3] == "add" {
				opCoq = func() string { return "UAdd " + m.coq() }
			} else {
				opCoq = func() string { return "URemove " + m.coq() }
			}
		}
		var shapes, countriesBefore, countriesAfter [2]string
		var lens [2]int
		heldBefore := [2]bool{}
		for side := 0; side < 2; side++ {
			c := readQueryContact(sa, tc, side)
			beforeURNs := readQueryContact(sa, tc, side)
			_, _, countriesBefore[side] = triplesOf(beforeURNs)
			if cand != "" {
				heldBefore[side] = c.HasURN(cand)
			}
			switch kind {
			case "add-fresh", "add-held-a":
				c.AddURN(cand, nil)
			case "remove-fresh", "remove-held-a":
				c.RemoveURN(cand)
			default:
				c.UpdatePreferredChannel(ch)
			}
			after, shape, cs := triplesOf(c)
			shapes[side], lens[side], countriesAfter[side] = shape, len(c.URNs()), cs
			em.add(fmt.Sprintf("COp {| o_op := %s; o_before := %s; o_after := [%s] |}", opCoq(), urnsOfContact(beforeURNs), joinStrs(after)),
				map[string]any{"kind": "urn-op", "op": kind, "candidate": string(cand), "contacts": tc, "side": side}, map[string]any{"after": shape})
			res.Dist("corr=urn-op")
		}
		res.Eval(fmt.Sprintf("urnop:%s:%s:%v", kind, cand, tc), heldBefore[0] != heldBefore[1] || kind == "prefer")
		res.Dist("urn_op=" + kind)
		res.OracleChecks++
		input := map[string]any{"kind": "urn-op", "op": kind, "candidate": string(cand), "contacts": tc}
		switch {
		case kind == "prefer" || kind == "prefer-none":
			if shapes[0] != shapes[1] {
				res.Fail("leak:set_contact_channel:effect-depends-on-path", input, fmt.Sprintf("UpdatePreferredChannel leaves the twins with %s vs %s (scheme?affinity in order)", shapes[0], shapes[1]))
			}
			// twins have the same derivable tel countries; they must still have after the operation (Contact.Country and
			// GetForURN's candidate filter read them)
			if countriesBefore[0] == countriesBefore[1] && countriesAfter[0] != countriesAfter[1] {
				res.Fail("leak:set_contact_channel:derived-country-differs-afterwards", input, fmt.Sprintf("before UpdatePreferredChannel the twins' tel URNs derive countries %s, afterwards %s vs %s", countriesBefore[0], countriesAfter[0], countriesAfter[1]))
			}
		case kind[:3] == "add" && heldBefore[0] == heldBefore[1]:
			if shapes[0] != shapes[1] {
				res.Fail("leak:add_contact_urn:effect-differs-though-held-by-both-or-neither", input, fmt.Sprintf("AddURN leaves the twins with %s vs %s", shapes[0], shapes[1]))
			}
		case kind[:3] == "add":
			res.Dist("urn_op_candidate_held_by_one_twin=add") // the listed finding, probed in the engine scenarios
		}
	}
}

func joinStrs(xs []string) string {
	out := ""
	for i, x := range xs {
		if i > 0 {
			out += "; "
		}
		out += x
	}
	return out
}

func mustJSON(v any) string {
	b, err := json.Marshal(v)
	if err != nil {
		panic(err)
	}
	return string(b)
}
