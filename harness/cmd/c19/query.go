package main

// Contact queries under the redaction policy (last clause of C19).
//
// Direct oracle (from the sentence, independent of the Coq model), on the real contactql.ParseQuery / EvaluateQuery:
//   - under the policy a query with a condition on a URN property (a scheme, the urn attribute, urns.<scheme>) that
//     carries a value is rejected, whatever else the query contains and however it is combined;
//   - a query that is accepted under the policy contains no URN condition with a value (so bare numbers / URNs /
//     phone numbers did not become URN conditions) and evaluates equally on twin contacts;
//   - without the policy the same query texts do see the URNs: "<scheme> = <path of A>" holds for A, not for B.
// Correspondence: every generated query inside the modelled fragment is also given to the model as the parse tree
// it was printed from (cases CQuery), and URN-only queries are evaluated by both (cases CEval).

import (
	"encoding/json"
	"fmt"
	"regexp"
	"strconv"
	"strings"

	"github.com/nyaruka/gocommon/urns"
	"github.com/nyaruka/goflow/assets"
	"github.com/nyaruka/goflow/assets/static"
	"github.com/nyaruka/goflow/contactql"
	"github.com/nyaruka/goflow/envs"
	"github.com/nyaruka/goflow/flows"
	"github.com/nyaruka/goflow/flows/engine"
	"github.com/nyaruka/goflow/utils"

	"verifharness/pkg/hx"
)

// generated parse tree (what the text is printed from)
type qtree struct {
	Kind  string   `json:"kind"` // implicit cond and or group
	Prop  string   `json:"prop,omitempty"`
	Op    string   `json:"op,omitempty"`
	Value string   `json:"value"`
	Kids  []*qtree `json:"kids,omitempty"`
	Form  string   `json:"form,omitempty"` // scheme | urn-attribute | dotted-urns | name | field | dotted-field | unknown-prefix
}

var qOps = []string{"=", "!=", "~", ">", ">=", "<", "<=", "has", "is", "HAS"}

func canonOp(op string) string {
	switch strings.ToLower(op) {
	case "has":
		return "~"
	case "is":
		return "="
	}
	return op
}

var simpleText = regexp.MustCompile(`^[A-Za-z0-9_.\-+/'@:]+$`)

func quoteLit(v string, forceQuote bool) string {
	low := strings.ToLower(v)
	if !forceQuote && simpleText.MatchString(v) && low != "and" && low != "or" && low != "has" && low != "is" {
		return v
	}
	return contactql.QuoteValue(v)
}

func (t *qtree) text(top bool) string {
	switch t.Kind {
	case "implicit":
		return quoteLit(t.Value, false)
	case "cond":
		return t.Prop + " " + t.Op + " " + quoteLit(t.Value, t.Value == "" || t.Form == "")
	case "group":
		return "(" + t.Kids[0].text(true) + ")"
	case "and", "or", "juxt":
		sep := " AND "
		if t.Kind == "or" {
			sep = " OR "
		} else if t.Kind == "juxt" {
			sep = " "
		}
		s := t.Kids[0].text(false) + sep + t.Kids[1].text(false)
		if !top {
			s = "(" + s + ")"
		}
		return s
	}
	return ""
}

// does the tree contain a URN condition with a value, and in which syntactic form (first one)
func (t *qtree) urnValueForm() string {
	switch t.Kind {
	case "cond":
		if t.Value != "" && (t.Form == "scheme" || t.Form == "urn-attribute" || t.Form == "dotted-urns") {
			return t.Form
		}
	default:
		for _, k := range t.Kids {
			if f := k.urnValueForm(); f != "" {
				return f
			}
		}
	}
	return ""
}

func (t *qtree) onlyURNConds() bool {
	switch t.Kind {
	case "cond":
		return t.Form == "scheme" || t.Form == "urn-attribute" || t.Form == "dotted-urns"
	case "implicit":
		return false
	}
	for _, k := range t.Kids {
		if !k.onlyURNConds() {
			return false
		}
	}
	return true
}

var qSchemes = []string{"tel", "facebook", "telegram", "twitterid", "mailto", "whatsapp", "ext", "twitter"}

func mixCase(r *hx.Rand, s string) string {
	if !r.Chance(1, 4) {
		return s
	}
	b := []byte(s)
	for i := range b {
		if b[i] >= 'a' && b[i] <= 'z' && r.Bool() {
			b[i] -= 32
		}
	}
	return string(b)
}

func genQuery(r *hx.Rand, depth int, vals []string) *qtree {
	if depth > 0 && r.Chance(2, 5) {
		k := hx.Pick(r, []string{"and", "or", "juxt", "group"})
		if k == "group" {
			return &qtree{Kind: "group", Kids: []*qtree{genQuery(r, depth-1, vals)}}
		}
		return &qtree{Kind: k, Kids: []*qtree{genQuery(r, depth-1, vals), genQuery(r, depth-1, vals)}}
	}
	val := func() string { return hx.Pick(r, vals) }
	switch r.Intn(10) {
	case 0, 1: // scheme = value
		return &qtree{Kind: "cond", Prop: mixCase(r, hx.Pick(r, qSchemes)), Op: hx.Pick(r, qOps), Value: val(), Form: "scheme"}
	case 2: // urn attribute
		return &qtree{Kind: "cond", Prop: mixCase(r, "urn"), Op: hx.Pick(r, qOps), Value: val(), Form: "urn-attribute"}
	case 3, 4: // urns.<scheme>
		return &qtree{Kind: "cond", Prop: mixCase(r, "urns."+hx.Pick(r, qSchemes)), Op: hx.Pick(r, qOps), Value: val(), Form: "dotted-urns"}
	case 5:
		if r.Bool() {
			return &qtree{Kind: "cond", Prop: "name", Op: "~", Value: hx.Pick(r, []string{"bob", "ann lee", "x"}), Form: "name"}
		}
		return &qtree{Kind: "cond", Prop: "name", Op: hx.Pick(r, []string{"=", "!="}), Value: hx.Pick(r, []string{"Bob", "", "ann"}), Form: "name"}
	case 6:
		if r.Bool() {
			return &qtree{Kind: "cond", Prop: "fields.age", Op: hx.Pick(r, []string{"=", ">", "<="}), Value: hx.Pick(r, []string{"18", "3"}), Form: "dotted-field"}
		}
		return &qtree{Kind: "cond", Prop: "age", Op: hx.Pick(r, []string{"=", ">", "!="}), Value: hx.Pick(r, []string{"18", "3", ""}), Form: "field"}
	case 7:
		return &qtree{Kind: "cond", Prop: hx.Pick(r, []string{"foo.tel", "urn.tel", "contact.urn"}), Op: "=", Value: val(), Form: "unknown-prefix"}
	default: // bare value
		return &qtree{Kind: "implicit", Value: hx.Pick(r, append([]string{"bob", "12345", "0788123123", "+250788123123", "tel:+250788123123", "ann@example.com",
			"mailto:ann@example.com", "x", "1234567", "-12-34-56", "twitter:bobby", "007", "Ann Lee"}, vals...))}
	}
}

var implicitIsPhone = regexp.MustCompile(`^\+?[\-\d]{4,}$`)
var cleanPhone = regexp.MustCompile(`[^+\d]+`)

func coqOp(op string) string {
	return map[string]string{"=": "OpEq", "!=": "OpNe", "~": "OpContains", ">": "OpGt", ">=": "OpGe", "<": "OpLt", "<=": "OpLe"}[canonOp(op)]
}

// the parse tree as the model's `raw`; ok=false when the text leaves the modelled fragment
func (t *qtree) coqRaw() string {
	switch t.Kind {
	case "implicit":
		v := t.Value
		asInt := "None"
		if n, err := strconv.Atoi(v); err == nil {
			asInt = "(Some " + coqStr(strconv.Itoa(n)) + ")"
		}
		up := "None"
		if u, _ := urns.Parse(v); u != urns.NilURN {
			scheme, path, _, _ := u.ToParts()
			up = "(Some (" + coqStr(scheme) + ", " + coqStr(path) + "))"
		}
		pl := "None"
		if implicitIsPhone.MatchString(v) {
			pl = "(Some " + coqStr(cleanPhone.ReplaceAllLiteralString(v, "")) + ")"
		}
		nt := false
		for _, tok := range utils.TokenizeStringByUnicodeSeg(v) {
			if len(tok) >= 2 {
				nt = true
			}
		}
		return fmt.Sprintf("(RImplicit %s %s %s %s %s)", coqStr(v), asInt, up, pl, hx.Bool(nt))
	case "cond":
		return fmt.Sprintf("(RCond %s %s %s)", coqStr(strings.ToLower(t.Prop)), coqOp(t.Op), coqStr(t.Value))
	case "group":
		return "(RGroup " + t.Kids[0].coqRaw() + ")"
	case "or":
		return "(ROr " + t.Kids[0].coqRaw() + " " + t.Kids[1].coqRaw() + ")"
	default:
		return "(RAnd " + t.Kids[0].coqRaw() + " " + t.Kids[1].coqRaw() + ")"
	}
}

var modelledErr = map[string]string{
	contactql.ErrRedactedURNs: "ErrRedactedURNs", contactql.ErrUnknownPropertyType: "ErrUnknownPropertyType",
	contactql.ErrInvalidPartialURN: "ErrInvalidPartialURN", contactql.ErrUnsupportedComparison: "ErrUnsupportedComparison",
}

func errCode(err error) string {
	if err == nil {
		return ""
	}
	if qe, ok := err.(*contactql.QueryError); ok {
		return qe.Code()
	}
	return "not-a-query-error"
}

func leavesOf(n contactql.QueryNode, out *[]*contactql.Condition) {
	switch t := n.(type) {
	case *contactql.Condition:
		*out = append(*out, t)
	case *contactql.BoolCombination:
		for _, c := range t.Children() {
			leavesOf(c, out)
		}
	}
}

func coqLeaf(c *contactql.Condition) string {
	pt := map[contactql.PropertyType]string{contactql.PropertyTypeAttribute: "PAttribute", contactql.PropertyTypeURN: "PURN", contactql.PropertyTypeField: "PField"}[c.PropertyType()]
	if pt == "" {
		pt = "PAttribute"
	}
	return fmt.Sprintf("(%s, %s, %s, %s)", pt, coqStr(c.PropertyKey()), coqOp(string(c.Operator())), coqStr(c.Value()))
}

func isURNCondWithValue(c *contactql.Condition) bool {
	isURN := c.PropertyType() == contactql.PropertyTypeURN || (c.PropertyType() == contactql.PropertyTypeAttribute && c.PropertyKey() == contactql.AttributeURN)
	return isURN && c.Value() != ""
}

const queryAssets = `{
  "channels": [{"uuid": "c0000000-0000-4000-8000-00000000000a", "name": "Android", "address": "+17036975131", "schemes": ["tel"], "roles": ["send", "receive"], "country": "US"}],
  "fields": [{"uuid": "d66a7823-eada-40e5-9a3a-57239d4690bf", "key": "note", "name": "Note", "type": "text"}, {"uuid": "f1b5aea6-6586-41c7-9020-1a6326cc6565", "key": "age", "name": "Age", "type": "number"}],
  "groups": [{"uuid": "90000000-0000-4000-8000-000000000001", "name": "Testers"}]
}`

type twinContacts struct {
	Slots []urnSlot `json:"urn_slots"`
	Name  string    `json:"name"`
}

func readQueryContact(sa flows.SessionAssets, tc *twinContacts, side int) *flows.Contact {
	us := []string{}
	for i := range tc.Slots {
		us = append(us, tc.Slots[i].side(side))
	}
	m := map[string]any{"uuid": contactUUID, "id": 77, "name": tc.Name, "status": "active", "created_on": "2000-01-01T00:00:00Z", "urns": us,
		"fields": map[string]any{"age": map[string]any{"text": "23", "number": 23}}}
	b, _ := json.Marshal(m)
	c, err := flows.ReadContact(sa, b, func(assets.Reference, error) {})
	if err != nil {
		panic("query contact: " + err.Error())
	}
	return c
}

func urnsOfContact(c *flows.Contact) string {
	var ms []mURN
	for _, u := range c.URNs() {
		ms = append(ms, snapURN(u.URN(), u.Channel()))
	}
	return hx.List(ms, func(u mURN) string { return u.coq() })
}

// model qnode of an accepted real query (for CEval)
func coqNode(n contactql.QueryNode) string {
	switch t := n.(type) {
	case *contactql.Condition:
		l := coqLeaf(t)
		l = strings.TrimSuffix(strings.TrimPrefix(l, "("), ")")
		parts := strings.SplitN(l, ", ", 4)
		return "(QCond " + strings.Join(parts, " ") + ")"
	case *contactql.BoolCombination:
		var kids []string
		for _, c := range t.Children() {
			kids = append(kids, coqNode(c))
		}
		return fmt.Sprintf("(QBool %s [%s])", hx.Bool(t.Operator() == contactql.BoolOperatorAnd), strings.Join(kids, "; "))
	}
	return "(QBool true [])"
}

func asciiLowerSafe(s string) bool {
	for i := 0; i < len(s); i++ {
		if s[i] >= 128 {
			return false
		}
	}
	return s == strings.TrimSpace(s)
}

func runQueries(o *hx.Opts, r *hx.Rand, res *hx.Result, em *emitter) {
	src, err := static.NewSource([]byte(queryAssets))
	if err != nil {
		panic(err)
	}
	envOn := envs.NewBuilder().WithRedactionPolicy(envs.RedactionPolicyURNs).WithDefaultCountry("US").Build()
	envOff := envs.NewBuilder().WithDefaultCountry("US").Build()
	sa, err := engine.NewSessionAssets(envOn, src, nil)
	if err != nil {
		panic(err)
	}

	// EXHAUSTIVE part (every run, no randomness in what is covered): every registered URN scheme x every way of
	// writing the property (scheme, urns.scheme, URNS.SCHEME) x every comparator, with a value -> must be rejected
	// under the policy; the twins hold a URN of that scheme and the value is side A's path where it can be written
	type sweepItem struct{ scheme, prop, op, form string }
	var sweep []sweepItem
	for _, s := range allSchemes() {
		for _, op := range qOps {
			sweep = append(sweep, sweepItem{s, s, op, "scheme"}, sweepItem{s, "urns." + s, op, "dotted-urns"},
				sweepItem{s, "URNS." + strings.ToUpper(s), op, "dotted-urns"}, sweepItem{s, strings.ToUpper(s[:1]) + s[1:], op, "scheme"})
		}
	}
	for _, op := range qOps {
		sweep = append(sweep, sweepItem{"tel", "urn", op, "urn-attribute"}, sweepItem{"tel", "URN", op, "urn-attribute"})
	}
	res.Notes = append(res.Notes, fmt.Sprintf("exhaustive query sweep: %d conditions = %d schemes x 4 spellings x %d comparators + the urn attribute", len(sweep), len(allSchemes()), len(qOps)))

	n := o.Count(600, 20000) + len(sweep)
	nRejected, nAccepted, nEval := 0, 0, 0
	for i := 0; i < n; i++ {
		rr := r.Fork(fmt.Sprintf("q%d", i))
		// twin contacts for this query
		tc := &twinContacts{Name: hx.Pick(rr, []string{"", "Bob", "Ann Lee"})}
		nslots := rr.Range(0, 3)
		var sw *sweepItem
		if i < len(sweep) {
			sw = &sweep[i]
			nslots = 0
			tc.Slots = append(tc.Slots, genSlot(r.Fork("sweep-"+sw.scheme), sw.scheme, "", 0, false))
		}
		for j := 0; j < nslots; j++ {
			scheme := "tel"
			if rr.Bool() {
				scheme = hx.Pick(rr, qSchemes)
			}
			if scheme == "ext" || scheme == "twitter" {
				scheme = "telegram"
			}
			tc.Slots = append(tc.Slots, genSlot(rr, scheme, "", rr.Intn(len(telStems)), false))
		}
		ca, cb := readQueryContact(sa, tc, 0), readQueryContact(sa, tc, 1)
		// values: empty, junk, and the real paths of side A (so that conditions can actually hit)
		vals := []string{"", "", "123", "12", "+12065551212", "abc", "1234567"}
		for _, u := range ca.URNs() {
			vals = append(vals, u.URN().Path(), u.URN().Path())
			if len(u.URN().Path()) > 5 {
				vals = append(vals, u.URN().Path()[2:6])
			}
		}
		var qt *qtree
		k := i - len(sweep)
		switch {
		case sw != nil:
			v := "x12345"
			if p := ca.URNs()[0].URN().Path(); simpleText.MatchString(p) && len(p) >= 3 {
				v = p
			}
			qt = &qtree{Kind: "cond", Prop: sw.prop, Op: sw.op, Value: v, Form: sw.form}
			res.Dist("query_sweep=scheme-x-spelling-x-comparator")
		case k == 0:
			qt = &qtree{Kind: "cond", Prop: "urns.tel", Op: "=", Value: "123", Form: "dotted-urns"} // F15
		case k == 1:
			qt = &qtree{Kind: "or", Kids: []*qtree{{Kind: "cond", Prop: "name", Op: "=", Value: "Bob", Form: "name"},
				{Kind: "group", Kids: []*qtree{{Kind: "cond", Prop: "URNS.Tel", Op: "~", Value: "2065", Form: "dotted-urns"}}}}}
		case k == 2:
			qt = &qtree{Kind: "cond", Prop: "tel", Op: "=", Value: "123", Form: "scheme"}
		case k == 3:
			qt = &qtree{Kind: "cond", Prop: "urn", Op: "~", Value: "2065", Form: "urn-attribute"}
		case k == 4:
			qt = &qtree{Kind: "implicit", Value: "+12065551212"}
		default:
			qt = genQuery(rr, rr.Range(0, 3), vals)
		}
		text := qt.text(true)
		form := qt.urnValueForm()
		input := map[string]any{"kind": "query", "text": text, "tree": qt, "contacts": tc}
		res.Eval("query:"+text, form != "" || qt.Kind == "implicit")
		res.Dist("query_urn_value_form=" + map[bool]string{true: form, false: "none"}[form != ""])

		// ---- under the policy
		qOn, errOn := contactql.ParseQuery(envOn, text, sa)
		res.OracleChecks++
		if errCode(errOn) == contactql.ErrSyntax {
			res.Fail("harness:query-syntax", input, "generated query does not parse: "+errOn.Error())
			continue
		}
		if form != "" {
			nRejected++
			if errOn == nil {
				cls := map[string]string{"scheme": "query-scheme-not-rejected", "urn-attribute": "query-urn-attribute-not-rejected", "dotted-urns": "query-dotted-urns-not-rejected"}[form]
				res.Fail(cls, input, fmt.Sprintf("under RedactionPolicyURNs the query %q (a condition on URNs with a value) is accepted: %s", text, qOn.String()))
			}
		}
		if errOn == nil {
			nAccepted++
			var ls []*contactql.Condition
			leavesOf(qOn.Root(), &ls)
			res.OracleChecks++
			for _, c := range ls {
				if isURNCondWithValue(c) {
					res.Fail("query-accepted-has-urn-value:"+string(c.PropertyType())+":"+map[bool]string{true: "implicit", false: "explicit"}[form == ""], input,
						fmt.Sprintf("under the policy %q is accepted as %s, which compares URN values", text, qOn.String()))
					break
				}
			}
			res.OracleChecks++
			ra, rb := contactql.EvaluateQuery(envOn, qOn, ca), contactql.EvaluateQuery(envOn, qOn, cb)
			if ra != rb {
				res.Fail("query-accepted-distinguishes-twins", input, fmt.Sprintf("under the policy the accepted query %q is %v on %v and %v on %v", text, ra, ca.URNs().RawURNs(), rb, cb.URNs().RawURNs()))
			}
		}

		// ---- correspondence: parse under both policies (no resolver: field conditions are not validated)
		for _, pol := range []bool{true, false} {
			env := envOff
			if pol {
				env = envOn
			}
			raw := qt.coqRaw()
			if !pol {
				if num := utils.ParsePhoneNumber(text, env.DefaultCountry()); num != "" {
					raw = fmt.Sprintf("(RCond \"tel\" OpEq %s)", coqStr(num)) // ParseQuery's rewrite of a bare phone number
				}
			}
			q, err := contactql.ParseQuery(env, text, nil)
			code := errCode(err)
			var exp string
			if err == nil {
				var ls []*contactql.Condition
				leavesOf(q.Root(), &ls)
				exp = fmt.Sprintf("q_err := None; q_leaves := %s", hx.List(ls, coqLeaf))
			} else if m, ok := modelledErr[code]; ok {
				exp = fmt.Sprintf("q_err := Some %s; q_leaves := []", m)
			} else {
				res.Dist("corr=query-outside-fragment:" + code)
				continue
			}
			em.add(fmt.Sprintf("CQuery {| q_env := %s; q_raw := %s; %s |}", coqEnv(pol, "US"), raw, exp),
				map[string]any{"kind": "query-parse", "text": text, "redact": pol}, map[string]any{"error": code})
			res.Dist("corr=query-parse")
		}

		// ---- without the policy the same texts see the URNs; URN-only queries are also evaluated by the model
		if qOff, err := contactql.ParseQuery(envOff, text, sa); err == nil {
			ra, rb := contactql.EvaluateQuery(envOff, qOff, ca), contactql.EvaluateQuery(envOff, qOff, cb)
			if ra != rb {
				res.Dist("query_distinguishes_twins_without_policy=yes")
			}
			if qt.onlyURNConds() && asciiLowerSafe(text) {
				nEval++
				em.add(fmt.Sprintf("CEval {| e_q := %s; e_urns := %s; e_result := %s |}", coqNode(qOff.Root()), urnsOfContact(ca), hx.Bool(ra)),
					map[string]any{"kind": "query-eval", "text": text, "urns": ca.URNs().RawURNs()}, ra)
				em.add(fmt.Sprintf("CEval {| e_q := %s; e_urns := %s; e_result := %s |}", coqNode(qOff.Root()), urnsOfContact(cb), hx.Bool(rb)),
					map[string]any{"kind": "query-eval", "text": text, "urns": cb.URNs().RawURNs()}, rb)
				res.Dist("corr=query-eval")
			}
		}
		// the statement's last sentence for queries: "<scheme> = <path of A>" is accepted without the policy and
		// tells A from B
		if len(tc.Slots) > 0 && tc.Slots[0].A != tc.Slots[0].B {
			ua := ca.URNs()[0].URN()
			// "differ" as the evaluator can see it: text comparison lower-cases and trims both sides
			norm := func(p string) string { return strings.TrimSpace(strings.ToLower(p)) }
			if norm(ua.Path()) != norm(cb.URNs()[0].URN().Path()) && simpleText.MatchString(ua.Path()) {
				t := fmt.Sprintf("%s = %s", ua.Scheme(), contactql.QuoteValue(ua.Path()))
				res.OracleChecks++
				q, err := contactql.ParseQuery(envOff, t, sa)
				if err != nil {
					res.Fail("query-visible-without-policy:rejected", map[string]any{"kind": "query", "text": t}, "without the policy "+t+" is rejected: "+err.Error())
				} else if !contactql.EvaluateQuery(envOff, q, ca) || contactql.EvaluateQuery(envOff, q, cb) {
					res.Fail("query-visible-without-policy:blind", map[string]any{"kind": "query", "text": t, "contacts": tc}, "without the policy "+t+" does not tell the twins apart")
				}
				if _, err := contactql.ParseQuery(envOn, t, sa); err == nil {
					res.Fail("query-scheme-not-rejected", map[string]any{"kind": "query", "text": t}, "under the policy "+t+" is accepted")
				}
			}
		}
	}
	res.Notes = append(res.Notes, fmt.Sprintf("%d queries: %d with a URN value (must be rejected), %d accepted under the policy (evaluated on twins), %d URN-only queries evaluated by the model", n, nRejected, nAccepted, nEval))
}
