package main

import (
	"verifharness/pkg/hx"
)

func runQueries(o *hx.Opts, r *hx.Rand, res *hx.Result, em *emitter) {}
