package main

// Scenario generation for C19: a scenario is a session recipe (assets, contact, trigger, resumes, flow
// templates) in which every URN occurrence is a *slot*; a slot has two concrete URNs (side A and side B) that
// differ only in path/display (same scheme, same derived country, same ?channel= affinity).  Everything else
// in the recipe is shared by the two sides, so the two sessions are "URN twins" by construction.

import (
	"encoding/json"
	"fmt"
	"strings"

	"github.com/nyaruka/gocommon/i18n"
	"github.com/nyaruka/gocommon/urns"

	"verifharness/pkg/hx"
)

const (
	chTelA = "c0000000-0000-4000-8000-00000000000a"
	chTelB = "c0000000-0000-4000-8000-00000000000b"
	chTelC = "c0000000-0000-4000-8000-00000000000c"
	chFB   = "c0000000-0000-4000-8000-0000000000fb"
	chTG   = "c0000000-0000-4000-8000-0000000000f9"
	chTW   = "c0000000-0000-4000-8000-0000000000f7"
	chRecv = "c0000000-0000-4000-8000-0000000000f5"
	chDangling = "c0000000-0000-4000-8000-0000000000dd" // in no channel set

	flowParent = "f0000000-0000-4000-8000-000000000001"
	flowChild  = "f0000000-0000-4000-8000-000000000002"
	flowOther  = "f0000000-0000-4000-8000-000000000003"

	groupStatic = "90000000-0000-4000-8000-000000000001"
	groupQuery  = "90000000-0000-4000-8000-000000000002"
	topicUUID   = "472a7a73-96cb-4736-b567-056d987cc5b4"
	optinUUID   = "248be71d-78e9-4d71-a6c4-9981d369e5cb"
	contactUUID = "ba96bf7f-bc2a-4873-a7c7-254d1927c4e3"
	parentCUUID = "c59b0033-e748-4240-9d4c-e85eb6800151"
)

// ---- channels -----------------------------------------------------------------------------------

type chanDef struct {
	UUID     string   `json:"uuid"`
	Name     string   `json:"name"`
	Address  string   `json:"address"`
	Schemes  []string `json:"schemes"`
	Roles    []string `json:"roles"`
	Country  string   `json:"country,omitempty"`
	Prefixes []string `json:"match_prefixes,omitempty"`
	Intl     bool     `json:"allow_international,omitempty"`
}

func (c *chanDef) supports(s string) bool {
	for _, x := range c.Schemes {
		if x == s {
			return true
		}
	}
	return false
}
func (c *chanDef) canSend() bool {
	for _, x := range c.Roles {
		if x == "send" {
			return true
		}
	}
	return false
}

var sr = []string{"send", "receive"}

// channel set variants; the name says what is special
var chanVariants = []struct {
	name  string
	chans []chanDef
}{
	{"one-tel+fb+tg", []chanDef{
		{UUID: chTelA, Name: "Android", Address: "+17036975131", Schemes: []string{"tel"}, Roles: sr, Country: "US"},
		{UUID: chFB, Name: "Facebook", Address: "235326346322111", Schemes: []string{"facebook"}, Roles: sr},
		{UUID: chTG, Name: "Telegram", Address: "botty", Schemes: []string{"telegram"}, Roles: sr},
	}},
	{"none", []chanDef{}},
	{"tel-by-country", []chanDef{ // candidates are filtered by the number's country
		{UUID: chTelA, Name: "US Line", Address: "+17036975131", Schemes: []string{"tel"}, Roles: sr, Country: "US"},
		{UUID: chTelB, Name: "RW Line", Address: "+250788000000", Schemes: []string{"tel"}, Roles: sr, Country: "RW"},
		{UUID: chTW, Name: "Twitter", Address: "nyaruka", Schemes: []string{"twitter", "twitterid"}, Roles: sr},
	}},
	{"tel-prefixes", []chanDef{ // >= 2 candidates for one number: choice by digit-prefix overlap
		{UUID: chTelA, Name: "Carrier A", Address: "+12065550000", Schemes: []string{"tel"}, Roles: sr, Country: "US", Prefixes: []string{"1206", "1360"}},
		{UUID: chTelB, Name: "Carrier B", Address: "+14155550000", Schemes: []string{"tel"}, Roles: sr, Country: "US", Prefixes: []string{"1415"}},
		{UUID: chFB, Name: "Facebook", Address: "235326346322111", Schemes: []string{"facebook"}, Roles: sr},
	}},
	{"tel-intl+recv-only", []chanDef{
		{UUID: chRecv, Name: "Receive Only", Address: "+250788111111", Schemes: []string{"tel"}, Roles: []string{"receive"}, Country: "RW"},
		{UUID: chTelC, Name: "Intl", Address: "+447700900000", Schemes: []string{"tel"}, Roles: sr, Country: "GB", Intl: true},
		{UUID: chTG, Name: "Telegram", Address: "botty", Schemes: []string{"telegram", "whatsapp"}, Roles: sr},
	}},
	{"tel-address-overlap", []chanDef{ // no match_prefixes: overlap is computed against the channel address
		{UUID: chTelA, Name: "Seattle", Address: "+12065550000", Schemes: []string{"tel"}, Roles: sr, Country: "US"},
		{UUID: chTelB, Name: "SF", Address: "+14155550000", Schemes: []string{"tel"}, Roles: sr},
	}},
	{"aggregator+gateways", []chanDef{ // a tel channel without a country; two channels that both serve ext and mailto
		{UUID: chTelA, Name: "Line", Address: "2020", Schemes: []string{"tel"}, Roles: sr},
		{UUID: chFB, Name: "Gateway A", Address: "gwa", Schemes: []string{"ext", "mailto"}, Roles: sr},
		{UUID: chTG, Name: "Gateway B", Address: "gwb", Schemes: []string{"ext", "mailto"}, Roles: sr},
	}},
	{"tel-two-countries", []chanDef{ // the candidates for one number belong to different countries (one is international)
		{UUID: chTelA, Name: "RW Line", Address: "+250788000000", Schemes: []string{"tel"}, Roles: sr, Country: "RW"},
		{UUID: chTelB, Name: "UG Intl", Address: "+256700000000", Schemes: []string{"tel"}, Roles: sr, Country: "UG", Intl: true, Prefixes: []string{"25073"}},
	}},
}

// ---- URN slots ----------------------------------------------------------------------------------

type urnSlot struct {
	Scheme   string `json:"scheme"`
	Affinity string `json:"affinity,omitempty"` // channel UUID in the ?channel= query (shared by both sides)
	A        string `json:"a"`                  // full raw URN, side A
	B        string `json:"b"`                  // full raw URN, side B
	Country  string `json:"country,omitempty"`
}

func (s *urnSlot) side(x int) string {
	if x == 0 {
		return s.A
	}
	return s.B
}

func digits(r *hx.Rand, n int) string {
	var sb strings.Builder
	for i := 0; i < n; i++ {
		sb.WriteByte(byte('0' + r.Intn(10)))
	}
	return sb.String()
}

func letters(r *hx.Rand, n int) string {
	const al = "abcdefghijklmnopqrstuvwxyz"
	var sb strings.Builder
	for i := 0; i < n; i++ {
		sb.WriteByte(al[r.Intn(len(al))])
	}
	return sb.String()
}

// telStems: leading digits that fix the country (and, in keep-prefix mode, the carrier prefix)
var telStems = []struct {
	stem    string
	total   int // digits after '+'
	country string
}{
	{"1206555", 11, "US"}, {"1415555", 11, "US"}, {"1360555", 11, "US"}, {"25078", 12, "RW"}, {"5939", 12, "EC"}, {"447700", 12, "GB"},
}

// every registered scheme besides tel (checked against urns.Schemes at start-up)
var otherSchemes = []string{"facebook", "telegram", "twitterid", "twitter", "mailto", "whatsapp", "ext", "discord", "instagram", "viber", "line", "webchat",
	"slack", "rocketchat", "fcm", "freshchat", "jiochat", "vk", "wechat"}

func init() {
	have := map[string]bool{"tel": true}
	for _, s := range otherSchemes {
		have[s] = true
	}
	for _, s := range urns.Schemes {
		if !have[s.Prefix] {
			panic("c19: URN scheme " + s.Prefix + " is registered in gocommon but not generated by the twin generator")
		}
	}
}

// genPath returns path and display for a scheme
func genPath(r *hx.Rand, scheme string) (string, string) {
	switch scheme {
	case "facebook":
		return digits(r, 16), ""
	case "telegram":
		if r.Bool() {
			return digits(r, 9), letters(r, 6)
		}
		return digits(r, 9), ""
	case "twitterid":
		return digits(r, 10), letters(r, 7)
	case "twitter":
		return letters(r, 8), ""
	case "mailto":
		return letters(r, 6) + "@" + letters(r, 5) + ".com", ""
	case "whatsapp":
		return digits(r, 12), ""
	case "discord":
		return digits(r, 18), ""
	case "instagram":
		return digits(r, 15), ""
	case "viber":
		return letters(r, 10) + digits(r, 6), ""
	case "line":
		return letters(r, 12), ""
	case "slack":
		return "U" + strings.ToUpper(letters(r, 4)) + digits(r, 4), ""
	case "rocketchat":
		return letters(r, 9) + digits(r, 8), letters(r, 5)
	case "fcm":
		return letters(r, 20) + digits(r, 6), ""
	case "vk", "jiochat":
		return digits(r, 10), ""
	case "wechat":
		return "o" + letters(r, 12) + digits(r, 4), ""
	case "freshchat":
		hex := func(n int) string {
			const al = "0123456789abcdef"
			var sb strings.Builder
			for i := 0; i < n; i++ {
				sb.WriteByte(al[r.Intn(16)])
			}
			return sb.String()
		}
		uu := func() string { return hex(8) + "-" + hex(4) + "-" + hex(4) + "-" + hex(4) + "-" + hex(12) }
		return uu() + "/" + uu(), ""
	case "webchat":
		const al = "abcdefghijklmnopqrstuvwxyzABCDEFGHIJKLMNOPQRSTUVWXYZ0123456789"
		var sb strings.Builder
		for i := 0; i < 24; i++ {
			sb.WriteByte(al[r.Intn(len(al))])
		}
		return sb.String(), ""
	default: // ext
		if r.Chance(1, 4) {
			return letters(r, 5) + " " + digits(r, 4) + "%#?x", letters(r, 4) // characters the URN printer escapes
		}
		return letters(r, 5) + digits(r, 5), ""
	}
}

func mkURN(scheme, path, affinity, display string) string {
	esc := func(s string) string {
		s = strings.ReplaceAll(s, "%", "%25")
		s = strings.ReplaceAll(s, "#", "%23")
		s = strings.ReplaceAll(s, "?", "%3F")
		return s
	}
	u := scheme + ":" + esc(path)
	if affinity != "" {
		u += "?channel=" + affinity
	}
	if display != "" {
		u += "#" + esc(display)
	}
	return u
}

// genSlot makes a twin pair for one URN occurrence.  keepDigits>0: tel twins share that many leading digits.
func genSlot(r *hx.Rand, scheme string, affinity string, telStem int, identical bool) urnSlot {
	// URNs that are valid as stored but CHANGE when goflow normalizes them (urns.NewFromParts / Normalize): whatever
	// re-normalizes a held URN makes the outcome depend on the hidden path
	unstable := unstableURNs && r.Fork("unstable").Chance(1, 5)
	for try := 0; try < 200; try++ {
		var a, b, country string
		if unstable && ((scheme == "tel" && unstableTel) || scheme == "mailto" || scheme == "ext") {
			ur := r.Fork(fmt.Sprintf("u%d", try))
			switch scheme {
			case "tel": // no '+': no derivable country as stored; with a '+' prepended one twin becomes a number of a region
				pair := hx.Pick(ur, [][2]string{{"1206555", "1200555"}, {"1415555", "1200555"}, {"250788", "0788"}, {"1206555", "1206555"}, {"0788", "0722"}})
				suffix := map[string]int{"1206555": 4, "1200555": 4, "1415555": 4, "250788": 6, "0788": 6, "0722": 6}
				a = mkURN("tel", pair[0]+digits(ur, suffix[pair[0]]), affinity, "")
				b = mkURN("tel", pair[1]+digits(ur, suffix[pair[1]]), affinity, "")
			case "mailto":
				if ur.Chance(1, 3) { // lower-casing makes the path longer than the 255 byte limit
					a = mkURN("mailto", strings.Repeat("Ⱥ", 126)+"@bb", affinity, "")
					b = mkURN("mailto", strings.Repeat("a", 252)+"@bb", affinity, "")
				} else {
					a = mkURN("mailto", strings.ToUpper(letters(ur, 5))+"@Example.COM", affinity, "")
					b = mkURN("mailto", letters(ur, 6)+"@example.com", affinity, "")
				}
			default: // ext: blank path / inner and outer spaces
				a = mkURN("ext", hx.Pick(ur, []string{" ", "  ", " ab cd ", "x "}), affinity, "")
				b = mkURN("ext", hx.Pick(ur, []string{"x", "ab cd", "y9"}), affinity, "")
			}
			if ur.Bool() {
				a, b = b, a
			}
			ca := string(i18n.DeriveCountryFromTel(urns.URN(a).Path()))
			cb := string(i18n.DeriveCountryFromTel(urns.URN(b).Path()))
			if scheme == "tel" && ca != cb {
				continue
			}
			if scheme == "tel" {
				country = ca
			}
		} else if scheme == "tel" {
			st := telStems[telStem%len(telStems)]
			a = mkURN("tel", "+"+st.stem+digits(r, st.total-len(st.stem)), affinity, "")
			b = mkURN("tel", "+"+st.stem+digits(r, st.total-len(st.stem)), affinity, "")
			ca := string(i18n.DeriveCountryFromTel(urns.URN(a).Path()))
			cb := string(i18n.DeriveCountryFromTel(urns.URN(b).Path()))
			if ca != cb {
				continue
			}
			country = ca
		} else {
			pa, da := genPath(r, scheme)
			pb, db := genPath(r, scheme)
			// a display is present on both sides or on neither?  No: the display is part of what may differ.
			a = mkURN(scheme, pa, affinity, da)
			b = mkURN(scheme, pb, affinity, db)
		}
		if identical {
			b = a
		}
		if urns.URN(a).Validate() != nil || urns.URN(b).Validate() != nil {
			continue
		}
		if a == b && !identical {
			continue
		}
		return urnSlot{Scheme: scheme, Affinity: affinity, A: a, B: b, Country: country}
	}
	panic("could not generate a valid twin pair for scheme " + scheme)
}

// unstableURNs switches the normalization-unstable twin URNs on (always, except where a caller needs stable ones)
var unstableURNs = true

// unstableTel: tel twins without '+' ignore the shared stem, so they are left out of the channel sets in which the
// leading digits pick the channel (there the divergent choice is exercised by the corpus scenarios)
var unstableTel = true

func btoi(b bool) int {
	if b {
		return 1
	}
	return 0
}

// ---- scenario -----------------------------------------------------------------------------------

type contactDef struct {
	UUID     string         `json:"uuid"`
	ID       int            `json:"id"`
	Name     string         `json:"name"`
	Language string         `json:"language"`
	Timezone string         `json:"timezone"`
	LastSeen bool           `json:"last_seen"`
	Slots    []urnSlot      `json:"urn_slots"`
	Groups   bool           `json:"groups"`
	Fields   map[string]any `json:"fields"`
	Ticket   bool           `json:"ticket"`
}

type resumeDef struct {
	Type        string   `json:"type"` // msg | run_expiration | wait_timeout
	Text        string   `json:"text,omitempty"`
	URN         *urnSlot `json:"urn,omitempty"`
	URNIndex    int      `json:"urn_index"` // >=0: use contact slot i instead of an own slot
	Channel     string   `json:"channel,omitempty"`
	WithContact bool     `json:"with_contact"`
	Attachment  bool     `json:"attachment"`
	FlipPolicy  bool     `json:"flip_policy,omitempty"` // carries the session's environment with the OTHER redaction_policy
}

type scenario struct {
	ID          int         `json:"id"`
	Label       string      `json:"label"`
	ChanVariant int         `json:"chan_variant"`
	Contact     contactDef  `json:"contact"`
	Trigger     string      `json:"trigger"` // manual msg flow_action channel campaign optin ticket
	TrigURN     *urnSlot    `json:"trigger_urn,omitempty"`
	TrigURNIdx  int         `json:"trigger_urn_index"`
	Parent      *contactDef `json:"parent_contact,omitempty"` // flow_action: contact of the parent run summary
	WithChild   bool        `json:"with_child"`
	Webhook     bool        `json:"webhook"`
	SetField    bool        `json:"set_field"`
	AddURN      bool        `json:"add_urn"`
	// add_contact_urn whose candidate is the URN side A holds in slot AddURNProbe-1 (0 = a fresh URN): the action's
	// effect then depends on a comparison with the hidden path
	AddURNProbe int `json:"add_urn_probe,omitempty"`
	SetChannel  bool        `json:"set_channel"`
	SetChannelIdx  int      `json:"set_channel_idx,omitempty"`  // 0 = the last channel of the set, k = channel k-1
	SetChannelNull bool     `json:"set_channel_null,omitempty"` // set_contact_channel with channel: null (clears every affinity)
	Tpl         [7]string   `json:"templates"`
	Resumes     []resumeDef `json:"resumes"`
	Country     string      `json:"default_country"`
	// the assets are loaded with an environment whose policy is the opposite of the trigger's environment
	AssetsPolicyOpposite bool `json:"assets_policy_opposite,omitempty"`
}

func (sc *scenario) hasFlip() bool {
	for _, r := range sc.Resumes {
		if r.FlipPolicy {
			return true
		}
	}
	return false
}

func (sc *scenario) chans() []chanDef { return chanVariants[sc.ChanVariant].chans }

// templates the flow itself evaluates (the engine's own template evaluation is compared between twins)
var flowTemplates = []string{
	"U=@contact.urn D=@contact T=@urns.tel",
	"@(format_urn(contact.urn)) / @(format_urn(urns.tel))",
	"@(json(contact.urns)) @(json(urns))",
	"in=@input.urn p=@parent.urns.tel pc=@parent.contact pu=@parent.contact.urn",
	"c=@child.contact.urns cu=@child.urns @child",
	"@(urn_parts(contact.urn).path)|@(urn_parts(contact.urn).display)|@(urn_parts(contact.urn).scheme)",
	"@run @run.contact @(json(run.contact))",
	"@(contact & \"\") @(contact.urns[0]) @(count(contact.urns))",
	"@contact.channel @contact.channel.address",
	"@(join(contact.urns, \",\")) @(foreach(contact.urns, format_urn))",
	"@legacy_extra @webhook @(json(webhook.json))",
	"@fields.note @results.r1 @(json(results))",
	"@(default(urns.facebook, urns.telegram)) @urns.twitterid @urns.mailto @urns.ext @urns.whatsapp",
	"@(json(contact))",
	"@(json(parent)) @(json(child))",
	"@trigger @(json(trigger)) @resume",
	"@(if(contact.urn = \"tel:********\", \"hidden\", contact.urn))",
	"@(url_encode(contact.urn)) @(upper(input.urn)) @(text_length(urns.tel))",
	"plain text",
}

func genContact(r *hx.Rand, uuid string, id int, nchan []chanDef, telMode int) contactDef {
	c := contactDef{UUID: uuid, ID: id}
	if r.Fork("id0").Chance(1, 5) {
		c.ID = 0 // contact without an id (new contact): shown as "0" under the policy when nameless
	}
	if r.Chance(1, 2) {
		c.Name = hx.Pick(r, []string{"Ben Haggerty", "Ann", "Ryan Lewis", "  Bob  ", "X Æ A-12"})
	}
	c.Language = hx.Pick(r, []string{"", "eng", "fra"})
	c.Timezone = hx.Pick(r, []string{"", "America/Guayaquil", "Africa/Kigali"})
	c.LastSeen = r.Bool()
	c.Groups = r.Bool()
	c.Ticket = r.Chance(1, 3)
	c.Fields = map[string]any{}
	if r.Bool() {
		c.Fields["note"] = map[string]any{"text": "hello"}
	}
	if r.Bool() {
		c.Fields["age"] = map[string]any{"text": "23", "number": 23}
	}
	n := hx.Pick(r, []int{0, 1, 1, 2, 2, 3, 4})
	for i := 0; i < n; i++ {
		scheme := "tel"
		if r.Chance(1, 2) {
			scheme = hx.Pick(r, otherSchemes)
		}
		aff := ""
		if r.Chance(1, 4) && len(nchan) > 0 {
			ch := hx.Pick(r, nchan)
			if ch.supports(scheme) || r.Chance(1, 5) {
				aff = ch.UUID
			}
			if r.Fork("dangling").Chance(1, 6) {
				aff = chDangling
			}
		}
		stem := telMode
		if telMode < 0 {
			stem = r.Intn(len(telStems))
		}
		c.Slots = append(c.Slots, genSlot(r, scheme, aff, stem, r.Chance(1, 8)))
	}
	return c
}

func genScenario(r *hx.Rand, id int) *scenario {
	sc := &scenario{ID: id, Label: "generated"}
	sc.ChanVariant = r.Intn(len(chanVariants))
	// with several tel candidates for one number the channel choice depends on leading digits: in generated
	// scenarios all tel URNs then share the stem (the divergent choice is exercised by the corpus scenarios)
	telMode := -1
	if n := chanVariants[sc.ChanVariant].name; n == "tel-prefixes" || n == "tel-address-overlap" {
		telMode = r.Intn(3)
	} else if n == "tel-two-countries" {
		telMode = 3 // RW numbers starting 25078: both channels are candidates, the same one wins for both twins
	}
	unstableTel = telMode < 0
	defer func() { unstableTel = true }()
	sc.Country = hx.Pick(r, []string{"US", "RW", ""})
	sc.Contact = genContact(r.Fork("contact"), contactUUID, 1000+r.Intn(9000000), sc.chans(), telMode)
	sc.Trigger = hx.Pick(r, []string{"manual", "manual", "msg", "msg", "msg", "flow_action", "flow_action", "channel", "campaign", "optin", "ticket"})
	pickMsgURN := func(rr *hx.Rand) (*urnSlot, int) {
		if len(sc.Contact.Slots) > 0 && rr.Chance(3, 4) {
			return nil, rr.Intn(len(sc.Contact.Slots))
		}
		scheme := "tel"
		if rr.Bool() {
			scheme = hx.Pick(rr, otherSchemes)
		}
		stem := telMode
		if stem < 0 {
			stem = rr.Intn(len(telStems))
		}
		s := genSlot(rr, scheme, "", stem, false)
		return &s, -1
	}
	if sc.Trigger == "msg" {
		sc.TrigURN, sc.TrigURNIdx = pickMsgURN(r.Fork("trigurn"))
	}
	if sc.Trigger == "flow_action" {
		p := genContact(r.Fork("parent"), parentCUUID, 2000+r.Intn(900000), sc.chans(), telMode)
		if len(p.Slots) == 0 {
			p.Slots = append(p.Slots, genSlot(r.Fork("pslot"), "tel", "", max(telMode, 0), false))
		}
		sc.Parent = &p
	}
	sc.WithChild = r.Chance(1, 2)
	sc.Webhook = r.Chance(1, 2)
	sc.SetField = r.Chance(1, 2)
	sc.AddURN = r.Chance(1, 3)
	if pr := r.Fork("probe"); sc.AddURN && len(sc.Contact.Slots) > 0 && pr.Chance(1, 4) {
		k := pr.Intn(len(sc.Contact.Slots))
		if _, p, _, _ := urns.URN(sc.Contact.Slots[k].A).ToParts(); simplePath(p) {
			sc.AddURNProbe = k + 1
		}
	}
	sc.SetChannel = r.Chance(1, 3) && len(sc.chans()) > 0
	sc.SetChannelNull = sc.SetChannel && r.Fork("setnull").Chance(1, 3)
	if sc.SetChannel {
		sc.SetChannelIdx = r.Fork("setidx").Intn(len(sc.chans()) + 1)
	}
	for i := range sc.Tpl {
		sc.Tpl[i] = hx.Pick(r, flowTemplates)
	}
	nres := 1
	if sc.WithChild {
		nres = 2
	}
	if r.Chance(1, 6) {
		nres--
	}
	for i := 0; i < nres; i++ {
		rd := resumeDef{Type: "msg", Text: hx.Pick(r, []string{"hi there", "yes", "42", ""}), URNIndex: -1, WithContact: r.Chance(1, 3), Attachment: r.Chance(1, 4)}
		if r.Chance(1, 8) {
			rd.Type = hx.Pick(r, []string{"run_expiration", "wait_timeout"})
		} else {
			rd.URN, rd.URNIndex = pickMsgURN(r.Fork(fmt.Sprintf("resurn%d", i)))
			if len(sc.chans()) > 0 && r.Chance(2, 3) {
				rd.Channel = hx.Pick(r, sc.chans()).UUID
			}
		}
		sc.Resumes = append(sc.Resumes, rd)
	}
	fr := r.Fork("flip")
	sc.AssetsPolicyOpposite = fr.Chance(1, 4)
	if len(sc.Resumes) > 0 && fr.Chance(1, 3) {
		// the org turns anonymous (or stops being so) while the contact is mid-flow: one resume brings the same
		// environment with the other policy.  Nothing URN-derived is stored before it (plain templates, no
		// webhook, no field), so that after none->urns the whole context must again be equal between twins.
		k := fr.Intn(len(sc.Resumes))
		sc.Resumes[k].FlipPolicy = true
		sc.makePreFlipPlain(fr)
	}
	return sc
}

// makePreFlipPlain: the nodes executed before the first wait evaluate no URN-derived template
func (sc *scenario) makePreFlipPlain(r *hx.Rand) {
	for _, i := range []int{0, 1, 2, 3, 5, 6} {
		sc.Tpl[i] = "plain text"
	}
	sc.Tpl[4] = hx.Pick(r, flowTemplates[:10])
	sc.Webhook = false
	sc.SetField = false
	for i := range sc.Resumes {
		if sc.Resumes[i].FlipPolicy {
			break
		}
		sc.Resumes[i].FlipPolicy = false
	}
}

func simplePath(p string) bool {
	for _, c := range p {
		if !(c == '+' || c == '@' || c == '.' || c == '-' || c == '_' || (c >= '0' && c <= '9') || (c >= 'a' && c <= 'z') || (c >= 'A' && c <= 'Z')) {
			return false
		}
	}
	return p != ""
}

// probeHeldByOneSide: the add_contact_urn candidate has the identity of a URN exactly one of the twins holds
func (sc *scenario) probeHeldByOneSide() bool {
	if !sc.AddURN || sc.AddURNProbe == 0 {
		return false
	}
	cand := urns.URN(sc.Contact.Slots[sc.AddURNProbe-1].A).Identity()
	held := [2]bool{}
	for side := 0; side < 2; side++ {
		for i := range sc.Contact.Slots {
			if urns.URN(sc.Contact.Slots[i].side(side)).Identity() == cand {
				held[side] = true
			}
		}
	}
	return held[0] != held[1]
}

// corpus: hand-made scenarios that run first.  The "divergent" ones make the twin tel URNs choose different
// channels (>=2 tel candidates, choice by leading digits) - the confirmed finding.
func corpusScenarios() []*scenario {
	fixed := func(scheme, a, b string) urnSlot {
		c := ""
		if scheme == "tel" {
			c = string(i18n.DeriveCountryFromTel(urns.URN(a).Path()))
		}
		return urnSlot{Scheme: scheme, A: a, B: b, Country: c}
	}
	var out []*scenario
	base := func(label string, variant int, name string, slots ...urnSlot) *scenario {
		sc := &scenario{Label: label, ChanVariant: variant, Country: "US", Trigger: "manual", TrigURNIdx: -1,
			Contact: contactDef{UUID: contactUUID, ID: 1234567, Name: name, Language: "eng", Slots: slots, Fields: map[string]any{"note": map[string]any{"text": "hello"}}, Groups: true},
			Webhook: true, SetField: true, WithChild: true}
		for i := range sc.Tpl {
			sc.Tpl[i] = flowTemplates[i%len(flowTemplates)]
		}
		sc.Resumes = []resumeDef{{Type: "msg", Text: "hi", URNIndex: 0}, {Type: "msg", Text: "again", URNIndex: 0, WithContact: true}}
		return sc
	}
	// the golden test's contact, nameless (shown by id)
	out = append(out, base("golden-contact-nameless", 0, "",
		fixed("tel", "tel:+12065551212", "tel:+12065559876"), fixed("facebook", "facebook:1122334455667788", "facebook:9988776655443322"),
		fixed("mailto", "mailto:ben@macklemore", "mailto:ann@example.com")))
	out = append(out, base("golden-contact-named", 0, "Ben Haggerty",
		fixed("tel", "tel:+12065551212", "tel:+12065559876"), fixed("twitterid", "twitterid:54784326227#nyaruka", "twitterid:11223344556#other")))
	// msg trigger whose URN is not one of the contact's
	m := base("msg-trigger-foreign-urn", 2, "", fixed("tel", "tel:+250788123123", "tel:+250788999888"))
	m.Trigger = "msg"
	s := fixed("telegram", "telegram:34642632786#bobby", "telegram:99887766554#alice")
	m.TrigURN = &s
	out = append(out, m)
	// parent run summary of another contact
	p := base("flow-action-parent-summary", 0, "", fixed("tel", "tel:+12065551212", "tel:+12065559876"))
	p.Trigger = "flow_action"
	p.Parent = &contactDef{UUID: parentCUUID, ID: 4242, Name: "", Slots: []urnSlot{fixed("tel", "tel:+12065553333", "tel:+12065554444"), fixed("ext", "ext:abc123", "ext:zzz999")}, Fields: map[string]any{}}
	out = append(out, p)
	// DIVERGENT: two same-country tel channels, twins with different carrier prefixes
	d := base("divergent-tel-prefixes", 3, "", fixed("tel", "tel:+12065551212", "tel:+14155559999"))
	out = append(out, d)
	d2 := base("divergent-tel-address-overlap", 5, "Ann", fixed("tel", "tel:+12065551212", "tel:+14155559999"))
	d2.WithChild = false
	d2.Resumes = d2.Resumes[:1]
	out = append(out, d2)
	// nameless contacts WITHOUT an id that do have URNs (still shown by id, i.e. "0", never by URN), also as parent
	z := base("nameless-id0-with-urns", 0, "", fixed("tel", "tel:+12065551212", "tel:+12065559876"), fixed("twitterid", "twitterid:54784326227#nyaruka", "twitterid:11223344556#other"))
	z.Contact.ID = 0
	out = append(out, z)
	zp := base("nameless-id0-parent-and-child", 2, "", fixed("telegram", "telegram:34642632786#bobby", "telegram:99887766554#alice"), fixed("tel", "tel:+250788123123", "tel:+250788999888"))
	zp.Contact.ID = 0
	zp.Trigger = "flow_action"
	zp.Parent = &contactDef{UUID: parentCUUID, ID: 0, Name: "", Slots: []urnSlot{fixed("tel", "tel:+12065553333", "tel:+12065554444")}, Fields: map[string]any{}}
	out = append(out, zp)
	// DIVERGENT, second sink: the two candidate channels have different countries -> environment country RW vs UG
	d3 := base("divergent-tel-channel-country", 7, "Ann", fixed("tel", "tel:+250788123123", "tel:+250738123123"))
	d3.Country = ""
	out = append(out, d3)
	// set_contact_channel on URNs that are valid as stored but change when re-normalized (hunt2 findings 1 and 2)
	sc1 := base("set-channel-tel-without-plus", 6, "", fixed("tel", "tel:12065551212", "tel:12005551212"))
	sc1.Country = "RW"
	sc1.SetChannel, sc1.SetChannelIdx = true, 1
	out = append(out, sc1)
	sc2 := base("clear-channel-tel-without-plus", 0, "", fixed("tel", "tel:12065551212?channel="+chTelA, "tel:12005551212?channel="+chTelA))
	sc2.Contact.Slots[0].Affinity = chTelA
	sc2.SetChannel, sc2.SetChannelNull = true, true
	out = append(out, sc2)
	sc3 := base("set-channel-mailto-at-length-limit", 6, "Ann", fixed("mailto", "mailto:"+strings.Repeat("Ⱥ", 126)+"@bb", "mailto:"+strings.Repeat("a", 252)+"@bb"))
	sc3.SetChannel = true
	out = append(out, sc3)
	sc4 := base("set-channel-ext-blank-path", 6, "", fixed("ext", "ext: ", "ext:x"), fixed("facebook", "facebook:1122334455667788", "facebook:9988776655443322"))
	sc4.SetChannel = true
	out = append(out, sc4)
	// a URN whose ?channel= names a channel that is not in the assets (affinity kept in the text, no channel resolved)
	dg := base("dangling-channel-affinity", 0, "", fixed("tel", "tel:+12065551212?channel="+chDangling, "tel:+12065559876?channel="+chDangling), fixed("facebook", "facebook:1122334455667788", "facebook:9988776655443322"))
	dg.Contact.Slots[0].Affinity = chDangling
	dg.SetChannel, dg.SetChannelIdx = true, 2
	out = append(out, dg)
	// schemes whose names start with letters of "urns." (a prefix stripped as a character set would eat them)
	sl := base("slack-and-rocketchat-urns", 0, "", fixed("slack", "slack:U024BE7LH", "slack:U99ZZZ111"), fixed("rocketchat", "rocketchat:abc123456789#bob", "rocketchat:zzz987654321#alice"))
	out = append(out, sl)
	// MEMBERSHIP PROBE: add_contact_urn with the number side A holds (one tel channel: no channel divergence)
	pb := base("add-urn-probe-held-by-one-twin", 0, "", fixed("tel", "tel:+12065551212", "tel:+12065553434"))
	pb.AddURN, pb.AddURNProbe = true, 1
	out = append(out, pb)
	// ... and held by both (identical slot): nothing may differ
	pb2 := base("add-urn-probe-held-by-both", 0, "Ann", fixed("tel", "tel:+12065551212", "tel:+12065551212"), fixed("facebook", "facebook:1122334455667788", "facebook:9988776655443322"))
	pb2.AddURN, pb2.AddURNProbe = true, 1
	out = append(out, pb2)
	// POLICY SWITCH mid-flow: the first resume carries the same environment with the other redaction policy
	fl := base("policy-switch-on-first-resume", 0, "", fixed("tel", "tel:+12065551212", "tel:+12065559876"), fixed("twitterid", "twitterid:54784326227#nyaruka", "twitterid:11223344556#other"))
	fl.Resumes[0].FlipPolicy = true
	fl.Resumes[1].WithContact = false
	fl.makePreFlipPlain(hx.NewRand(1))
	fl.Tpl[4] = flowTemplates[0]
	out = append(out, fl)
	fl2 := base("policy-switch-on-second-resume-assets-env-opposite", 2, "Ann", fixed("tel", "tel:+250788123123", "tel:+250788999888"))
	fl2.Resumes[1].FlipPolicy = true
	fl2.AssetsPolicyOpposite = true
	fl2.makePreFlipPlain(hx.NewRand(2))
	fl2.Tpl[4] = flowTemplates[1]
	out = append(out, fl2)
	for i, sc := range out {
		sc.ID = -1 - i
	}
	return out
}

// ---- JSON builders ------------------------------------------------------------------------------

func (c *contactDef) json(side int) map[string]any {
	m := map[string]any{"uuid": c.UUID, "status": "active", "created_on": "2000-01-01T00:00:00Z"}
	if c.ID != 0 {
		m["id"] = c.ID // id 0 = not set: the key is omitted
	}
	if c.Name != "" {
		m["name"] = c.Name
	}
	if c.Language != "" {
		m["language"] = c.Language
	}
	if c.Timezone != "" {
		m["timezone"] = c.Timezone
	}
	if c.LastSeen {
		m["last_seen_on"] = "2017-12-31T11:35:10.035757258-02:00"
	}
	us := []string{}
	for i := range c.Slots {
		us = append(us, c.Slots[i].side(side))
	}
	m["urns"] = us
	if c.Groups {
		m["groups"] = []any{map[string]any{"uuid": groupStatic, "name": "Testers"}}
	}
	if len(c.Fields) > 0 {
		m["fields"] = c.Fields
	}
	if c.Ticket {
		m["ticket"] = map[string]any{"uuid": "78d1fe0d-7e39-461e-81c3-a6a25f15ed69", "topic": map[string]any{"uuid": topicUUID, "name": "Weather"}}
	}
	return m
}

func envJSON(sc *scenario, redact bool) map[string]any {
	m := map[string]any{"date_format": "YYYY-MM-DD", "time_format": "hh:mm", "timezone": "America/Los_Angeles", "allowed_languages": []string{"eng", "fra"}}
	if sc.Country != "" {
		m["default_country"] = sc.Country
	}
	if redact {
		m["redaction_policy"] = "urns"
	} else {
		m["redaction_policy"] = "none"
	}
	return m
}

func (sc *scenario) msgURN(own *urnSlot, idx int, side int) string {
	if own != nil {
		return own.side(side)
	}
	if idx >= 0 && idx < len(sc.Contact.Slots) {
		// a message carries the URN without the channel affinity query
		u := urns.URN(sc.Contact.Slots[idx].side(side))
		scheme, path, _, display := u.ToParts()
		return mkURN(scheme, path, "", display)
	}
	return ""
}

func (sc *scenario) triggerJSON(side int, redact bool) []byte {
	m := map[string]any{
		"type":         sc.Trigger,
		"flow":         map[string]any{"uuid": flowParent, "name": "Parent"},
		"contact":      sc.Contact.json(side),
		"environment":  envJSON(sc, redact),
		"triggered_on": "2000-01-01T00:00:00.000000000-00:00",
	}
	switch sc.Trigger {
	case "manual":
		m["params"] = map[string]any{"source": "website", "address": map[string]any{"state": "WA"}, "list": []any{1, "two"}}
		m["user"] = map[string]any{"email": "bob@nyaruka.com", "name": "Bob"}
		m["origin"] = "ui"
	case "msg":
		msg := map[string]any{"uuid": "2d611e17-fb22-457f-b802-b8f7ec5cda5b", "text": "start now", "urn": sc.msgURN(sc.TrigURN, sc.TrigURNIdx, side)}
		if len(sc.chans()) > 0 {
			msg["channel"] = map[string]any{"uuid": sc.chans()[0].UUID, "name": sc.chans()[0].Name}
		}
		m["msg"] = msg
		m["keyword_match"] = map[string]any{"type": "first_word", "keyword": "start"}
	case "flow_action":
		m["history"] = map[string]any{"parent_uuid": "a5b25fb0-75fd-4898-a34f-5ff14fc19078", "ancestors": 1, "ancestors_since_input": 1}
		m["run_summary"] = map[string]any{
			"uuid":    "b7cf0d83-f1c9-411c-96fd-c511a4cfa86d",
			"flow":    map[string]any{"uuid": flowOther, "name": "Other"},
			"contact": sc.Parent.json(side),
			"status":  "active",
			"results": map[string]any{"age": map[string]any{"name": "Age", "value": "33", "category": "Adult", "node_uuid": "cd2be8c4-59bc-453c-8777-dec9a80043b8",
				"created_on": "2018-01-01T12:00:00.000000000-00:00", "extra": map[string]any{"k": "v"}}},
		}
	case "channel":
		if len(sc.chans()) > 0 {
			m["event"] = map[string]any{"type": "new_conversation", "channel": map[string]any{"uuid": sc.chans()[0].UUID, "name": sc.chans()[0].Name}}
		} else {
			m["event"] = map[string]any{"type": "new_conversation", "channel": map[string]any{"uuid": chFB, "name": "Facebook"}}
		}
	case "campaign":
		m["event"] = map[string]any{"uuid": "34d16dbd-476d-4b77-bac3-9f3d597848cc", "campaign": map[string]any{"uuid": "58e9b092-fe42-4173-876c-ff45a14a24fe", "name": "New Mothers"}}
	case "optin":
		m["event"] = map[string]any{"type": "started", "optin": map[string]any{"uuid": optinUUID, "name": "Joke Of The Day"}}
	case "ticket":
		m["event"] = map[string]any{"type": "closed", "ticket": map[string]any{"uuid": "58e9b092-fe42-4173-876c-ff45a14a24fe", "topic": map[string]any{"uuid": topicUUID, "name": "Weather"}}}
	}
	b, err := json.Marshal(m)
	if err != nil {
		panic(err)
	}
	return b
}

func (sc *scenario) resumeJSON(i int, side int, redact bool) []byte {
	rd := sc.Resumes[i]
	m := map[string]any{"type": rd.Type, "resumed_on": fmt.Sprintf("2000-01-01T00:0%d:00.000000000-00:00", i+1)}
	if rd.WithContact || rd.FlipPolicy {
		m["contact"] = sc.Contact.json(side)
		m["environment"] = envJSON(sc, redact) // redact = the policy in force from this resume on
	}
	if rd.Type == "msg" {
		msg := map[string]any{"uuid": fmt.Sprintf("2d611e17-fb22-457f-b802-b8f7ec5cda%02d", i), "text": rd.Text}
		if u := sc.msgURN(rd.URN, rd.URNIndex, side); u != "" {
			msg["urn"] = u
		}
		if rd.Channel != "" {
			msg["channel"] = map[string]any{"uuid": rd.Channel, "name": "x"}
		}
		if rd.Attachment {
			msg["attachments"] = []string{"image/jpeg:https://example.com/a.jpg"}
		}
		m["msg"] = msg
	}
	b, err := json.Marshal(m)
	if err != nil {
		panic(err)
	}
	return b
}

func (sc *scenario) assetsJSON() []byte {
	send := func(uuid, text string) map[string]any {
		return map[string]any{"uuid": uuid, "type": "send_msg", "text": text}
	}
	n1acts := []any{
		map[string]any{"uuid": "a0000000-0000-4000-8000-000000000001", "type": "set_run_result", "name": "r1", "value": sc.Tpl[0], "category": "Cat"},
		send("a0000000-0000-4000-8000-000000000002", sc.Tpl[1]),
	}
	if sc.Webhook {
		n1acts = append(n1acts, map[string]any{"uuid": "a0000000-0000-4000-8000-000000000003", "type": "call_webhook", "method": "POST", "url": "http://echo.invalid/?u=@(url_encode(contact.urn))",
			"body":        `@(json(object("contact", object("uuid", contact.uuid, "name", contact.name, "urn", contact.urn, "urns", contact.urns, "str", contact & ""), "input", input.urn, "urns", urns, "fmt", format_urn(default(contact.urn, "tel:+250788123123")))))`,
			"result_name": "wh"})
	}
	if sc.SetField {
		n1acts = append(n1acts, map[string]any{"uuid": "a0000000-0000-4000-8000-000000000004", "type": "set_contact_field", "field": map[string]any{"key": "note", "name": "Note"}, "value": sc.Tpl[2]})
	}
	if sc.AddURN {
		scheme, path := "ext", "fresh-0001"
		if sc.AddURNProbe > 0 {
			scheme, path, _, _ = urns.URN(sc.Contact.Slots[sc.AddURNProbe-1].A).ToParts()
		}
		n1acts = append(n1acts, map[string]any{"uuid": "a0000000-0000-4000-8000-000000000005", "type": "add_contact_urn", "scheme": scheme, "path": path})
	}
	if sc.SetChannel {
		ch := sc.chans()[len(sc.chans())-1]
		if sc.SetChannelIdx > 0 && sc.SetChannelIdx <= len(sc.chans()) {
			ch = sc.chans()[sc.SetChannelIdx-1]
		}
		act := map[string]any{"uuid": "a0000000-0000-4000-8000-000000000006", "type": "set_contact_channel", "channel": map[string]any{"uuid": ch.UUID, "name": ch.Name}}
		if sc.SetChannelNull {
			act["channel"] = nil
		}
		n1acts = append(n1acts, act)
	}
	n1acts = append(n1acts, send("a0000000-0000-4000-8000-000000000007", sc.Tpl[3]))
	waitNode := func(uuid, resName, catUUID, exitUUID, dest string) map[string]any {
		ex := map[string]any{"uuid": exitUUID}
		if dest != "" {
			ex["destination_uuid"] = dest
		}
		return map[string]any{"uuid": uuid,
			"router": map[string]any{"type": "switch", "wait": map[string]any{"type": "msg", "timeout": map[string]any{"seconds": 600, "category_uuid": catUUID}}, "operand": "@input.text", "result_name": resName,
				"categories": []any{map[string]any{"uuid": catUUID, "name": "All", "exit_uuid": exitUUID}}, "default_category_uuid": catUUID, "cases": []any{}},
			"exits": []any{ex}}
	}
	const (
		n1 = "b0000000-0000-4000-8000-000000000001"
		n2 = "b0000000-0000-4000-8000-000000000002"
		n3 = "b0000000-0000-4000-8000-000000000003"
		n4 = "b0000000-0000-4000-8000-000000000004"
		c1 = "b0000000-0000-4000-8000-0000000000c1"
		c2 = "b0000000-0000-4000-8000-0000000000c2"
		c3 = "b0000000-0000-4000-8000-0000000000c3"
	)
	next := n3
	nodes := []any{}
	if sc.WithChild {
		next = n2
	}
	nodes = append(nodes, map[string]any{"uuid": n1, "actions": n1acts, "exits": []any{map[string]any{"uuid": "e0000000-0000-4000-8000-000000000001", "destination_uuid": next}}})
	if sc.WithChild {
		nodes = append(nodes, map[string]any{"uuid": n2,
			"actions": []any{map[string]any{"uuid": "a0000000-0000-4000-8000-000000000008", "type": "enter_flow", "flow": map[string]any{"uuid": flowChild, "name": "Child"}}},
			"router": map[string]any{"type": "switch", "operand": "@child.status", "default_category_uuid": "d0000000-0000-4000-8000-000000000002",
				"cases": []any{map[string]any{"uuid": "ca000000-0000-4000-8000-000000000001", "type": "has_only_text", "arguments": []string{"completed"}, "category_uuid": "d0000000-0000-4000-8000-000000000001"}},
				"categories": []any{
					map[string]any{"uuid": "d0000000-0000-4000-8000-000000000001", "name": "Complete", "exit_uuid": "e0000000-0000-4000-8000-000000000002"},
					map[string]any{"uuid": "d0000000-0000-4000-8000-000000000002", "name": "Expired", "exit_uuid": "e0000000-0000-4000-8000-000000000003"}}},
			"exits": []any{map[string]any{"uuid": "e0000000-0000-4000-8000-000000000002", "destination_uuid": n3}, map[string]any{"uuid": "e0000000-0000-4000-8000-000000000003", "destination_uuid": n3}}})
	}
	nodes = append(nodes, waitNode(n3, "answer", "d0000000-0000-4000-8000-000000000003", "e0000000-0000-4000-8000-000000000004", n4))
	nodes = append(nodes, map[string]any{"uuid": n4, "actions": []any{send("a0000000-0000-4000-8000-000000000009", sc.Tpl[4])}, "exits": []any{map[string]any{"uuid": "e0000000-0000-4000-8000-000000000005"}}})
	parent := map[string]any{"uuid": flowParent, "name": "Parent", "spec_version": "13.6.0", "language": "eng", "type": "messaging", "nodes": nodes}
	child := map[string]any{"uuid": flowChild, "name": "Child", "spec_version": "13.6.0", "language": "eng", "type": "messaging", "nodes": []any{
		map[string]any{"uuid": c1, "actions": []any{
			map[string]any{"uuid": "a0000000-0000-4000-8000-0000000000c1", "type": "set_run_result", "name": "cr", "value": sc.Tpl[5]},
			send("a0000000-0000-4000-8000-0000000000c2", sc.Tpl[6])},
			"exits": []any{map[string]any{"uuid": "e0000000-0000-4000-8000-0000000000c1", "destination_uuid": c2}}},
		waitNode(c2, "cans", "d0000000-0000-4000-8000-0000000000c2", "e0000000-0000-4000-8000-0000000000c2", c3),
		map[string]any{"uuid": c3, "actions": []any{send("a0000000-0000-4000-8000-0000000000c3", "child done @parent.contact.urn @parent.urns.tel @input.urn")}, "exits": []any{map[string]any{"uuid": "e0000000-0000-4000-8000-0000000000c3"}}},
	}}
	other := map[string]any{"uuid": flowOther, "name": "Other", "spec_version": "13.6.0", "language": "eng", "type": "messaging", "nodes": []any{}}
	a := map[string]any{
		"channels": sc.chans(),
		"flows":    []any{parent, child, other},
		"fields":   []any{map[string]any{"uuid": "d66a7823-eada-40e5-9a3a-57239d4690bf", "key": "note", "name": "Note", "type": "text"}, map[string]any{"uuid": "f1b5aea6-6586-41c7-9020-1a6326cc6565", "key": "age", "name": "Age", "type": "number"}},
		"groups":   []any{map[string]any{"uuid": groupStatic, "name": "Testers"}, map[string]any{"uuid": groupQuery, "name": "Adults", "query": "age > 18 OR name ~ ann"}},
		"topics":   []any{map[string]any{"uuid": topicUUID, "name": "Weather"}},
		"optins":   []any{map[string]any{"uuid": optinUUID, "name": "Joke Of The Day"}},
		"globals":  []any{map[string]any{"key": "org_name", "name": "Org Name", "value": "Nyaruka"}},
		"users":    []any{map[string]any{"email": "bob@nyaruka.com", "name": "Bob"}},
	}
	b, err := json.Marshal(a)
	if err != nil {
		panic(err)
	}
	return b
}
