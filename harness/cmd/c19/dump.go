package main

import (
	"fmt"
	"io"
	"strings"
)

// dumpTree prints a walked context (debugging aid: C19_DUMP=1)
func dumpTree(w io.Writer, n *node, indent int, label string) {
	pad := strings.Repeat("  ", indent)
	switch n.Kind {
	case "object":
		fmt.Fprintf(w, "%s%s: object", pad, label)
		if n.Def != nil {
			fmt.Fprintf(w, " default=%s:%q", n.Def.Kind, clip(n.Def.Render))
		}
		fmt.Fprintln(w)
		for i, k := range n.Keys {
			dumpTree(w, n.Kids[i], indent+1, k)
		}
	case "array":
		fmt.Fprintf(w, "%s%s: array[%d]\n", pad, label, len(n.Kids))
		for i, k := range n.Kids {
			dumpTree(w, k, indent+1, fmt.Sprint(i))
		}
	default:
		fmt.Fprintf(w, "%s%s: %s %q\n", pad, label, n.Kind, clip(n.Render))
	}
}
