// Driver for C19 (redacted URNs are invisible to expressions).
//
//   - builds twin sessions (same assets/flows/trigger/resumes; every URN occurrence differs only in path and
//     display, same scheme, same derived country, same channel affinity) and runs them through the REAL engine
//     under both redaction policies;
//   - direct oracle (the property sentence, in Go, independent of the Coq model): under the policy the full
//     recursive walk of Session.CurrentContext() and of every run's RootContext (all lazy objects forced; Render,
//     Format and JSON of every node), the outputs of generated templates over every path and URN-related function,
//     and the texts the engine itself evaluated (messages, results, webhook requests, field values) are identical
//     between the twins; nameless contacts are shown by id; contact queries on URNs are rejected and the queries
//     that are accepted evaluate equally on twin contacts; without the policy the twins are distinguishable;
//   - correspondence: the walked tree and the parse results are written to cases_C19_*.v and compared with the
//     Coq model (model/Redact.v, model/RedactCorr.v) by vm_compute.
package main

import (
	"encoding/json"
	"fmt"
	"os"
	"runtime/pprof"
	"strconv"
	"strings"

	"github.com/nyaruka/gocommon/urns"
	"github.com/nyaruka/goflow/assets"
	"github.com/nyaruka/goflow/envs"
	"github.com/nyaruka/goflow/flows"

	"verifharness/pkg/hx"
)

func jsonUnmarshal(b []byte, v any) error { return json.Unmarshal(b, v) }

// divergentChannelChoice: does the real channel resolution pick different channels for the two sides of some
// tel slot?  (>= 2 tel candidates, choice by digit-prefix overlap: the listed finding.)
func divergentChannelChoice(sa flows.SessionAssets, sc *scenario) (bool, string) {
	check := func(slots []urnSlot) (bool, string) {
		for _, s := range slots {
			if s.Scheme != "tel" || s.A == s.B {
				continue
			}
			mk := func(raw string) *flows.Channel {
				u, err := flows.ParseRawURN(sa.Channels(), urns.URN(raw), func(assets.Reference, error) {})
				if err != nil {
					return nil
				}
				return sa.Channels().GetForURN(u, assets.ChannelRoleSend)
			}
			ca, cb := mk(s.A), mk(s.B)
			if ca != cb {
				return true, fmt.Sprintf("%s -> %v, %s -> %v", s.A, ca, s.B, cb)
			}
			// ... and once the affinity is gone (set_contact_channel null, a refreshed contact, a message's URN)
			strip := func(raw string) string {
				scheme, path, _, display := urns.URN(raw).ToParts()
				return mkURN(scheme, path, "", display)
			}
			ca, cb = mk(strip(s.A)), mk(strip(s.B))
			if ca != cb {
				return true, fmt.Sprintf("%s -> %v, %s -> %v", strip(s.A), ca, strip(s.B), cb)
			}
		}
		return false, ""
	}
	if d, w := check(sc.Contact.Slots); d {
		return d, w
	}
	if sc.Parent != nil {
		return check(sc.Parent.Slots)
	}
	return false, ""
}

// telChannelMask blanks name, address and uuid of the scenario's tel channels (only used where the listed
// channel-by-prefix finding applies, so that everything else is still compared)
func telChannelMask(sc *scenario) func(string) string {
	var olds []string
	for _, c := range sc.chans() {
		if c.supports("tel") {
			olds = append(olds, c.Name, "<tel-channel>", c.Address, "<tel-channel>", c.UUID, "<tel-channel>", strings.ReplaceAll(c.Address, "+", "%2B"), "<tel-channel>")
		}
	}
	rep := strings.NewReplacer(olds...)
	return func(s string) string { return rep.Replace(s) }
}

var thoroughTier bool

type scenarioOutcome struct {
	nontrivial bool // without the policy the twins were distinguishable
	points     int
	nodes      int
	templates  int
	skipped    string
}

// contact display rule of the statement, checked on every contact object in the walked context
func checkContactDisplay(res *hx.Result, sc *scenario, n *node, path string, redact bool) {
	if n == nil || n.Kind != "object" {
		return
	}
	c := &sc.Contact
	if u := n.get("uuid"); u != nil && sc.Parent != nil && u.Render == sc.Parent.UUID {
		c = sc.Parent
	}
	res.OracleChecks++
	def := ""
	if n.Def != nil {
		def = n.Def.Render
	}
	name := ""
	if nn := n.get("name"); nn != nil {
		name = nn.Render
	}
	id := ""
	if in := n.get("id"); in != nil {
		id = in.Render
	}
	if name != "" {
		if def != name {
			res.Fail("contact-display:named:"+normPath(path), sc, fmt.Sprintf("contact with name %q renders as %q", name, def))
		}
		return
	}
	if redact {
		if def != id || id != strconv.Itoa(c.ID) {
			res.Fail("contact-display:nameless-not-by-id:"+normPath(path), sc, fmt.Sprintf("nameless contact id=%d renders as %q (context id %q) under the policy", c.ID, def, id))
		}
	}
}

func runScenario(sc *scenario, seed uint64, res *hx.Result, em *emitter, allPaths bool) scenarioOutcome {
	var oc scenarioOutcome
	var runs [2][2]*sessionRun // [policy: 0 = urns, 1 = none][side]
	for pol := 0; pol < 2; pol++ {
		tplLists := map[int][]string{} // per observation point, fixed by side A, reused for side B
		for side := 0; side < 2; side++ {
			// generated templates are evaluated at the points where the policy in force hides URNs
			var tplsFor func(int, bool, *node) []string
			if side == 0 {
				tplsFor = func(i int, hidden bool, ctx *node) []string {
					if !hidden {
						return nil
					}
					var l []string
					if i == 0 || allPaths || thoroughTier || (sc.ID+i)%3 == 0 || sc.hasFlip() {
						l = templatesFor(ctx, allPaths)
					} else {
						l = fixedTemplates // later points of most scenarios: the fixed list only (the walk covers every path)
					}
					tplLists[i] = l
					return l
				}
			} else {
				tplsFor = func(i int, hidden bool, ctx *node) []string {
					if !hidden {
						return nil
					}
					if l, ok := tplLists[i]; ok {
						return l
					}
					return templatesFor(ctx, allPaths)
				}
			}
			runs[pol][side] = runSession(sc, side, pol == 0, seed, tplsFor)
			if e := runs[pol][side].Err; e != "" {
				// a recipe the engine refuses is a generator defect, not a property failure: report loudly
				res.Fail("harness:session-error", sc, e)
				oc.skipped = e
				return oc
			}
		}
	}
	divergent, why := divergentChannelChoice(runs[0][0].Assets, sc)
	countryDiverges := false
	mask := func(s string) string { return s }
	if divergent {
		mask = telChannelMask(sc)
		res.Fail("leak:contact.channel:tel-channel-chosen-by-number-prefix", sc,
			"with >=2 tel send channels ChannelAssets.GetForURN picks by digit-prefix overlap with the contact's number: "+why)
		res.Dist("scenario=divergent-channel")
		// second sink of the same root cause: the merged environment takes its default country from the chosen channel
		for pol := 0; pol < 2 && !countryDiverges; pol++ {
			for i := 0; i < len(runs[pol][0].Obs) && i < len(runs[pol][1].Obs) && !countryDiverges; i++ {
				sa, sb := runs[pol][0].Obs[i].Snaps, runs[pol][1].Obs[i].Snaps
				for k := 0; k < len(sa) && k < len(sb); k++ {
					if runs[pol][0].Obs[i].Redact && sa[k].Country != sb[k].Country {
						countryDiverges = true
						res.Fail("leak:contact.channel:tel-channel-chosen-by-number-prefix", sc, fmt.Sprintf(
							"%s: the chosen channels have different countries, so the merged environment's default country is %q vs %q for the twins (seen by has_phone, number parsing, locale)",
							runs[pol][0].Obs[i].Point, sa[k].Country, sb[k].Country))
						res.Dist("scenario=divergent-channel-country")
						break
					}
				}
			}
		}
	}

	// --- listed finding: add_contact_urn with a candidate one twin holds is an equality test on the hidden path ---
	probeDivergent := false
	if sc.probeHeldByOneSide() {
		for pol := 0; pol < 2 && !probeDivergent; pol++ {
			a, b := runs[pol][0], runs[pol][1]
			for i := 0; i < len(a.Obs) && i < len(b.Obs) && !probeDivergent; i++ {
				if !a.Obs[i].Redact || len(a.Obs[i].Snaps) == 0 || len(b.Obs[i].Snaps) == 0 {
					continue
				}
				ca, cb := a.Obs[i].Snaps[0].Contact, b.Obs[i].Snaps[0].Contact
				if ca != nil && cb != nil && len(ca.URNs) != len(cb.URNs) {
					probeDivergent = true
					cnt := func(o *observation) string {
						if n := o.Ctx.get("contact", "urns"); n != nil {
							return fmt.Sprint(len(n.Kids))
						}
						return "?"
					}
					res.Fail("leak:add_contact_urn:equality-with-held-urn", sc, fmt.Sprintf(
						"%s: under the policy add_contact_urn(%s) leaves twin A with %d URNs and twin B with %d: @(count(contact.urns)) is %s vs %s",
						a.Obs[i].Point, urns.URN(sc.Contact.Slots[sc.AddURNProbe-1].A).Identity(), len(ca.URNs), len(cb.URNs), cnt(a.Obs[i]), cnt(b.Obs[i])))
					res.Dist("scenario=add-urn-probe-divergent")
				}
			}
		}
	}

	// --- the policy in force is the one of the environment the caller supplied last ---
	checkInForce := func(o *observation) {
		res.OracleChecks++
		want := envs.RedactionPolicyNone
		if o.Redact {
			want = envs.RedactionPolicyURNs
		}
		if o.EnvPolicy != want {
			res.Fail("policy-in-force:not-the-supplied-one:"+string(want), sc, fmt.Sprintf("%s: the last trigger/resume supplied an environment with redaction_policy %q but the session's environment has %q", o.Point, want, o.EnvPolicy))
		}
		if o.Flipped && !o.EnvRefreshed {
			res.Fail("policy-in-force:environment-refreshed-missing:"+string(want), sc, fmt.Sprintf("%s: resume supplied an environment differing in redaction_policy (now %q) but no environment_refreshed event was logged", o.Point, want))
		}
	}

	// --- under the policy: twins must be indistinguishable ---
	checkHidden := func(oa, ob *observation, i int) {
		oc.points++
		res.OracleChecks++
		if oa.Status != ob.Status {
			res.Fail("leak:session-status", sc, fmt.Sprintf("%s: status %s vs %s", oa.Point, oa.Status, ob.Status))
		}
		report := func(ds []diff, where string) {
			seen := map[string]bool{}
			for _, d := range ds {
				if !d.Leaf && len(ds) > 1 {
					// composite-level differences are consequences of leaf differences below them, unless alone
					hasLeaf := false
					for _, e := range ds {
						if e.Leaf && strings.HasPrefix(e.Path, d.Path) {
							hasLeaf = true
						}
					}
					if hasLeaf {
						continue
					}
				}
				cls := "leak:" + normPath(d.Path)
				if seen[cls] {
					continue
				}
				seen[cls] = true
				res.Fail(cls, sc, fmt.Sprintf("%s %s @%s %s differs between URN twins under the policy: %q vs %q", oa.Point, where, d.Path, d.What, clip(d.A), clip(d.B)))
			}
		}
		if (oa.Ctx == nil) != (ob.Ctx == nil) {
			res.Fail("leak:current-context-presence", sc, oa.Point)
		} else if oa.Ctx != nil {
			var ds []diff
			compare(oa.Ctx, ob.Ctx, "", mask, &ds)
			res.OracleChecks += oa.Ctx.count()
			oc.nodes += oa.Ctx.count()
			report(ds, "CurrentContext")
		}
		for k, ra := range oa.RunCtx {
			rb := ob.RunCtx[k]
			if rb == nil {
				res.Fail("leak:run-count", sc, oa.Point)
				continue
			}
			var ds []diff
			compare(ra, rb, "", mask, &ds)
			res.OracleChecks += ra.count()
			oc.nodes += ra.count()
			report(ds, "RootContext("+k+")")
		}
		// the environment templates are evaluated in (country of the merged environment: used by number parsing)
		for k := 0; k < len(oa.Snaps) && k < len(ob.Snaps); k++ {
			res.OracleChecks++
			if oa.Snaps[k].Country != ob.Snaps[k].Country && !divergent {
				res.Fail("leak:merged-environment:country", sc, fmt.Sprintf("%s: default country of the merged environment is %q vs %q for URN twins", oa.Point, oa.Snaps[k].Country, ob.Snaps[k].Country))
			}
		}
		// what the engine itself evaluated
		res.OracleChecks++
		if mask(strings.Join(oa.Events, "\x00")) != mask(strings.Join(ob.Events, "\x00")) {
			first := ""
			for j := 0; j < len(oa.Events) && j < len(ob.Events); j++ {
				if mask(oa.Events[j]) != mask(ob.Events[j]) {
					first = fmt.Sprintf("%q vs %q", clip(oa.Events[j]), clip(ob.Events[j]))
					break
				}
			}
			evKind := "count"
			if first != "" {
				evKind = strings.SplitN(first, ":", 2)[0]
				evKind = strings.Trim(evKind, "\"")
			}
			res.Fail("leak:engine-evaluated:"+evKind, sc, fmt.Sprintf("%s: engine-evaluated text differs between URN twins under the policy: %s", oa.Point, first))
		}
		// generated templates
		for j := 0; j < len(oa.Tpls) && j < len(ob.Tpls); j++ {
			res.OracleChecks++
			oc.templates++
			ta, tb := oa.Tpls[j], ob.Tpls[j]
			if countryDiverges && isCountryTemplate(ta.Tpl) {
				if ta.Out != tb.Out {
					res.Dist("listed-finding:country-dependent-template-differs")
				}
				continue // part of the listed finding (environment country follows the chosen channel)
			}
			if mask(ta.Out) != mask(tb.Out) || ta.OK != tb.OK {
				res.Fail("leak:template:"+tplClass(ta.Tpl), sc, fmt.Sprintf("%s: template %s gives %q vs %q for URN twins under the policy", oa.Point, ta.Tpl, clip(ta.Out), clip(tb.Out)))
			}
		}
		// contacts without a name are shown by id
		for _, o := range []*observation{oa, ob} {
			if o.Ctx == nil {
				continue
			}
			for _, p := range [][]string{{"contact"}, {"run", "contact"}, {"parent", "contact"}, {"child", "contact"}} {
				checkContactDisplay(res, sc, o.Ctx.get(p...), strings.Join(p, "."), true)
			}
			for _, rc := range o.RunCtx {
				for _, p := range [][]string{{"contact"}, {"run", "contact"}, {"parent", "contact"}, {"child", "contact"}} {
					checkContactDisplay(res, sc, rc.get(p...), strings.Join(p, "."), true)
				}
			}
		}
		if os.Getenv("C19_DUMP") != "" && sc.ID == -1 {
			dumpTree(os.Stderr, oa.Ctx, 0, oa.Point)
			for _, e := range oa.Events {
				fmt.Fprintf(os.Stderr, "EVENT %s\n", e)
			}
		}
		if em != nil {
			em.addContext(sc, oa, 0, oa.Redact, i)
			if (sc.ID%4 == 0 && i == 0) || thoroughTier {
				em.addContext(sc, ob, 1, ob.Redact, i)
			}
		}
	}

	// --- without the policy: the same expressions do see the URNs ---
	hasDifferingURN := false
	for _, s := range sc.Contact.Slots {
		// "differ" as an expression can see it: the printed forms scheme:path#display (normalized by gocommon) differ;
		// twins like `ext:x ` / `ext:x` print alike
		pr := func(raw string) string {
			scheme, path, _, display := urns.URN(raw).ToParts()
			u, _ := urns.NewFromParts(scheme, path, nil, display)
			return string(u)
		}
		if pr(s.A) != pr(s.B) {
			hasDifferingURN = true
		}
	}
	checkVisible := func(oa, ob *observation, i int) {
		if oa.Ctx == nil || ob.Ctx == nil {
			return
		}
		var ds []diff
		compare(oa.Ctx, ob.Ctx, "", nil, &ds)
		if len(ds) > 0 {
			oc.nontrivial = true
		}
		if hasDifferingURN {
			// the statement's last sentence: without the policy @contact.urns shows the URNs (scheme:path#display)
			res.OracleChecks++
			for side, o := range []*observation{oa, ob} {
				arr := o.Ctx.get("contact", "urns")
				if arr == nil || arr.Kind != "array" {
					res.Fail("visible-without-policy:contact.urns-missing", sc, oa.Point)
					continue
				}
				// the URN list may have been extended/reordered by the flow; every slot's identity must be present
				for _, s := range sc.Contact.Slots {
					scheme, path, _, display := urns.URN(s.side(side)).ToParts()
					want, _ := urns.NewFromParts(scheme, path, nil, display)
					found := false
					for _, k := range arr.Kids {
						if k.Render == string(want) {
							found = true
						}
					}
					if !found {
						res.Fail("visible-without-policy:contact.urns", sc, fmt.Sprintf("%s: without the policy @contact.urns does not show %s", oa.Point, want))
					}
				}
			}
			var only []diff
			for _, d := range ds {
				if strings.HasPrefix(d.Path, "contact.urns") {
					only = append(only, d)
				}
			}
			if len(only) == 0 {
				res.Fail("visible-without-policy:twins-indistinguishable", sc, oa.Point+": without the policy the twins' @contact.urns are equal although their URNs differ")
			}
		}
		if em != nil && (i == 0 || oa.Flipped) {
			em.addContext(sc, oa, 0, oa.Redact, i)
		}
	}

	for pol := 0; pol < 2; pol++ {
		a, b := runs[pol][0], runs[pol][1]
		if len(a.Obs) != len(b.Obs) {
			res.Fail("leak:history-length", sc, fmt.Sprintf("twin histories have %d vs %d observation points", len(a.Obs), len(b.Obs)))
		}
		for i := 0; i < len(a.Obs) && i < len(b.Obs); i++ {
			oa, ob := a.Obs[i], b.Obs[i]
			checkInForce(oa)
			checkInForce(ob)
			if oa.Redact {
				if probeDivergent {
					continue // the twins' URN lists have different lengths from the probe on (listed finding)
				}
				checkHidden(oa, ob, i)
			} else {
				checkVisible(oa, ob, i)
			}
		}
	}
	return oc
}

func isCountryTemplate(t string) bool {
	for _, c := range countryTemplates {
		if c == t {
			return true
		}
	}
	return false
}

func tplClass(t string) string {
	// class of a template = its text with array indices and dynamic keys normalised, cut to a sane length
	t = normPath(t)
	if len(t) > 60 {
		t = t[:60]
	}
	return strings.ReplaceAll(t, " ", "_")
}

func clip(s string) string {
	if len(s) > 160 {
		return s[:160] + "…"
	}
	return s
}

func main() {
	o := hx.ParseOpts()
	if p := os.Getenv("C19_PROFILE"); p != "" {
		f, _ := os.Create(p)
		pprof.StartCPUProfile(f)
		defer pprof.StopCPUProfile()
	}
	res := hx.NewResult(o, "twin sessions: recipe (channel set variant x contact x URN slots x trigger type x flow options x resumes) drawn from the PRNG, "+
		"each URN occurrence instantiated twice (same scheme, same derived country, same channel affinity, different path/display); each recipe is run "+
		"on the real engine for 2 policies x 2 sides and observed after the trigger and after every resume; distinct = distinct recipe; non-trivial = without "+
		"the policy the walked contexts of the twins differ (so redaction actually hid something). Query cases: URN conditions in every syntactic form, "+
		"implicit conditions, combinations; non-trivial = the query mentions a URN property or looks like a URN/phone number")
	r := hx.NewRand(o.Seed)

	em := newEmitter(o, res)
	thoroughTier = o.Tier == "thorough"
	fullJSON = thoroughTier
	nScen := o.Count(36, 1500)
	if v := os.Getenv("C19_SCENARIOS"); v != "" {
		nScen, _ = strconv.Atoi(v)
	}
	scs := corpusScenarios()
	gr := r.Fork("scenarios")
	for i := 0; i < nScen; i++ {
		scs = append(scs, genScenario(gr.Fork(fmt.Sprintf("s%d", i)), i))
	}
	totalNodes, totalTpl := 0, 0
	for i, sc := range scs {
		oc := runScenario(sc, o.Seed*1000003+uint64(i), res, em, i%10 == 0)
		key, _ := json.Marshal(sc)
		res.Eval(string(key), oc.nontrivial)
		res.Dist("trigger=" + sc.Trigger)
		res.Dist("channels=" + chanVariants[sc.ChanVariant].name)
		res.Dist(fmt.Sprintf("contact_urns=%d", len(sc.Contact.Slots)))
		if sc.Contact.Name == "" {
			res.Dist("contact=nameless")
		} else {
			res.Dist("contact=named")
		}
		if sc.hasFlip() {
			res.Dist("policy_switch_on_resume=yes")
		}
		if sc.AssetsPolicyOpposite {
			res.Dist("assets_environment_policy=opposite-of-trigger")
		}
		if oc.nontrivial {
			res.Dist("twins_distinguishable_without_policy=yes")
		} else {
			res.Dist("twins_distinguishable_without_policy=no")
		}
		totalNodes += oc.nodes
		totalTpl += oc.templates
		if i == 0 || i == len(scs)/2 {
			res.Sample(map[string]any{"scenario": sc, "observation_points": oc.points, "context_nodes_compared": oc.nodes, "templates_compared": oc.templates})
		}
	}
	res.Notes = append(res.Notes, fmt.Sprintf("%d scenarios, %d context nodes compared between twins, %d template evaluations compared", len(scs), totalNodes, totalTpl))

	runQueries(o, r.Fork("queries"), res, em)
	runURNOps(o, r.Fork("urnops"), res, em)

	em.flush()
	res.Write(o)
	if o.Verbose {
		fmt.Fprintf(os.Stderr, "scenarios=%d nodes=%d templates=%d failures=%d\n", len(scs), totalNodes, totalTpl, len(res.Failures))
		for _, f := range res.Failures {
			fmt.Fprintf(os.Stderr, "FAIL %s: %s\n", f.Class, f.Detail)
		}
	}
}
